#!/usr/bin/env python3
"""development aid: generate the C01 corpus, find disagreements, and print compact diffs for the first N"""
import sys, os, json, re, random
V = os.path.dirname(os.path.dirname(os.path.abspath(__file__)))
sys.path.insert(0, V + "/lib"); sys.path.insert(0, V + "/checks")
import vlib, c01
N = int(sys.argv[1]) if len(sys.argv) > 1 else 10
nprog = int(sys.argv[2]) if len(sys.argv) > 2 else 600
ctx = vlib.Ctx("C01", "quick", "model_checking")
rnd = random.Random(ctx.seed)
cases = []
for i in range(nprog):
    opts = c01.OPTVECS[i % 8]
    cases.append({"id": i + 1, "src": c01.Gen(rnd, opts).program(rnd.randrange(3, 9)), "opts": opts})
fin, fout, fast = ctx.path("p.in"), ctx.path("p.out"), ctx.path("p.ast")
vlib.write_ndjson(fin, [{"id": c["id"], "src": c["src"], "mode": "file", "opts": c["opts"], "steps": 200000} for c in cases])
ctx.vh(["eval", "-in", fin, "-out", fout]); ctx.vh(["ast", "-in", fin, "-out", fast])
res = {r["id"]: r for r in vlib.read_ndjson(fout)}; asts = {r["id"]: r for r in vlib.read_ndjson(fast)}
recs = []
for c in cases:
    r, a = res[c["id"]], asts[c["id"]]
    if not a["ok"] or r.get("panic"): continue
    o = c01.observation(r)
    if o is None or isinstance(o, str): continue
    recs.append({"id": c["id"], "ast": a["ast"], "opts": c["opts"], "obs": o})
f = ctx.path("r.ndjson"); vlib.write_ndjson(f, recs)
t = ctx.tlc("C01Trace", "C01Trace.cfg", env={"VERIF_RECS": f, "VERIF_DEBUG": "1"}, workers=8, heap="12g")
out = t["out"]
bad = [int(x) for x in re.findall(r'<<"BAD", (\d+)>>', out)]
print("records", len(recs), "bad", len(bad), "skip", len(re.findall(r'"SKIP"', out)))
if t["error"]: print(out[-3000:])
specs = {}
for m in re.finditer(r'<<\s*"SPEC",\s*(\d+),(.*?)(?=\n<<|\nFinished|\nProgress|\Z)', out, re.S):
    specs[int(m.group(1))] = re.sub(r"\s+", " ", m.group(2))
byid = {c["id"]: c for c in cases}; ro = {r["id"]: r["obs"] for r in recs}
import collections
cnt = collections.Counter(ro[b]["outcome"] for b in bad); print(cnt)
shown = collections.Counter()
for b in bad:
    k = ro[b]["outcome"]
    if shown[k] >= 2 or sum(shown.values()) >= N: continue
    shown[k] += 1
    print("=" * 100); print("PROGRAM", b, byid[b]["opts"]); print(byid[b]["src"])
    o = ro[b]
    print("REAL outcome=%s pos=%s stack=%s\n  effects=%s\n  globals=%s" % (o["outcome"], o["pos"], o["stack"], json.dumps(o["effects"])[:700], json.dumps(o["globals"])[:500]))
    print("SPEC", specs.get(b, "?")[:1500])
import shutil; shutil.rmtree(ctx.work, ignore_errors=True)
