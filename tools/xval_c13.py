#!/usr/bin/env python3
"""Development tool (not a registered check): cross-validate the C13 case set
against CPython on the shared subset.  Prints per-operation counts of cases
where CPython's value differs from the value recorded from starlark-go (which
the TLA+ oracle accepted), so that each class can be triaged (DESIGN B.5)."""
import sys, os, json, collections
V = os.path.dirname(os.path.dirname(os.path.abspath(__file__)))
sys.path.insert(0, V + "/lib"); sys.path.insert(0, V + "/checks")
import vlib, c13

def enc(v):
    if v is None: return {"t": "none"}
    if isinstance(v, bool): return {"t": "bool", "v": v}
    if isinstance(v, int): return {"t": "int", "v": v}
    if isinstance(v, str): return {"t": "str", "v": [ord(c) for c in v]}
    if isinstance(v, bytes): return {"t": "bytes", "v": list(v)}
    if isinstance(v, list): return {"t": "list", "v": [enc(x) for x in v]}
    if isinstance(v, tuple): return {"t": "tuple", "v": [enc(x) for x in v]}
    return {"t": "other"}

ctx = vlib.Ctx("C13", sys.argv[1] if len(sys.argv) > 1 else "quick", "model_checking")
cases = c13.generate(ctx)
res = c13.evaluate(ctx, cases)
diff = collections.Counter(); ex = {}
for c in cases:
    src = c["src"]
    if c["op"] == "zip": src = "list(%s)" % src
    if c["op"] == "reversed": src = "list(%s)" % src
    try:
        py = {"ok": True, "v": enc(eval(src))}
    except Exception as e:
        py = {"ok": False}
    go = c13.record(c, res[c["id"]])["res"]
    explained = ((c["op"] in ("find","rfind","index_","rindex","count") and c["sub"] == [])
                 or (c["op"] in ("startswith","endswith") and [] in c["cands"])
                 or (c["op"] in ("strip","lstrip","rstrip") and '("")' in c["src"])
                 or (c["op"] == "lindex" and "None" in c["src"])
                 or (c["op"] == "index" and c["ty"] == "bytes"))
    if py != go and not explained:
        diff["UNEXPLAINED:" + c["op"]] += 1
    if py != go:
        diff[c["op"]] += 1
        ex.setdefault(c["op"], []).append((c["src"], py, go))
print(len(cases), "cases;", sum(diff.values()), "differ:", dict(diff))
for op, l in ex.items():
    for s, p, g in l[:4]:
        print(op, "|", s, "| py:", json.dumps(p)[:100], "| go:", json.dumps(g)[:100])
import shutil; shutil.rmtree(ctx.work, ignore_errors=True)
