#!/bin/bash
# Sensitivity demonstration for C09 (maintenance tool, not a registered check).
# Each mutant is applied by tools/mutate.py to a scratch copy of /repo; the quick tier must exit 1
# with a signature that names the broken rule (the unmutated tree only shows reassign:load-over-global).
cd "$(dirname "$0")/.."
run() {
  echo "=== $1"
  python3 tools/mutate.py C09 "${TIER:-quick}" "$2" 2>&1 | grep -E "VIOLATION|KNOWN-FINDING|MACHINERY|mutate:|recursion rule|TLC validated" | cut -c1-330
}
# resolver
run loops-reset       'resolve/resolve.go::r.loops = 0::r.loops += 0'                                   # def no longer resets the loop context
run no-reassign-test  'resolve/resolve.go::if ok && !r.options.GlobalReassign {::if false && ok && !r.options.GlobalReassign {'
run pos-after-named   'resolve/resolve.go::} else if len(seenName) > 0 {::} else if false && len(seenName) > 0 {'
run dup-position      'resolve/resolve.go::r.errorf(param.NamePos, "duplicate parameter: %s", param.Name)::r.errorf(pos, "duplicate parameter: %s", param.Name)'
run limit-256         'resolve/resolve.go::if p >= 256 {::if p >= 257 {'
run set-ignored       'resolve/resolve.go::if !r.options.Set && id.Name == "set" {::if false && id.Name == "set" {'
# interpreter: recursion check
run rec-by-value      'starlark/interp.go::ok && frfn.funcode == f {::ok && frfn == fn {'               # compares function values, not declarations
run rec-direct-only   'starlark/interp.go::range thread.stack[:len(thread.stack)-1] {::range thread.stack[max(0, len(thread.stack)-2) : len(thread.stack)-1] {'
