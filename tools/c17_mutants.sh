#!/bin/sh
# Sensitivity demonstration for C17 (maintenance tool, not a registered check): every mutant
# below breaks the write/read round trip of compiled programs in internal/compile/serial.go and
# must make `bin/check C17 quick` exit 1 (tools/mutate.py prints "check exit code 1", exits 0).
# usage: tools/c17_mutants.sh [name ...]     (default: all)
cd "$(dirname "$0")/.." || exit 2
run() {
  name=$1; shift
  echo "=== mutant $name"
  VERIF_C17_N=${VERIF_C17_N:-600} python3 tools/mutate.py C17 quick "$1"; echo "=== $name: mutate.py exit $?"
}
want() { [ $# -eq 0 ] && return 0; for x in "$@"; do [ "$x" = "$name_" ] && return 0; done; return 1; }
for name_ in kwonly-lost haskwargs-lost bytes-as-string recursion-lost cells-lost pclinetab-truncated float-zigzag doc-not-written; do
  want "$@" || continue
  case $name_ in
  kwonly-lost)         # decoder reads NumKwonlyParams but does not keep it
    run $name_ 'internal/compile/serial.go::		NumKwonlyParams: numKwonlyParams,::		NumKwonlyParams: numKwonlyParams * 0,' ;;
  haskwargs-lost)      # decoder confuses HasKwargs with HasVarargs
    run $name_ 'internal/compile/serial.go::		HasKwargs:       hasKwargs,::		HasKwargs:       hasKwargs && hasVarargs,' ;;
  bytes-as-string)     # bytes constants come back as strings
    run $name_ 'internal/compile/serial.go::			c = Bytes(d.string())::			c = d.string()' ;;
  recursion-lost)      # the Recursion flag of the file options is not restored
    run $name_ 'internal/compile/serial.go::	recursion := d.int() != 0::	recursion := d.int() > 1' ;;
  cells-lost)          # the list of locals that need cells is dropped
    run $name_ 'internal/compile/serial.go::		Cells:           cells,::		Cells:           cells[:0],' ;;
  pclinetab-truncated) # line table rows lose their upper byte
    run $name_ 'internal/compile/serial.go::		pclinetab[i] = uint16(d.int())::		pclinetab[i] = uint16(uint8(d.int()))' ;;
  float-zigzag)        # encoder writes float bits as a signed varint, decoder reads an unsigned one
    run $name_ 'internal/compile/serial.go::			e.uint64(math.Float64bits(c))::			e.int64(int64(math.Float64bits(c)))' ;;
  doc-not-written)     # encoder and decoder both skip the docstring (symmetric, but metadata is lost)
    run $name_ 'internal/compile/serial.go::	doc := d.string()::	doc := ""' ;;
  esac
done
