#!/bin/bash
# usage: seedeval.sh <worktree-suffix> <PROPERTY> [race]
export GOFLAGS=-mod=mod GOPROXY=off
id=$1; P=$2; race=$3
wt=/tmp/seed-$id
out=/tmp/seedres-$id.txt
{
echo "=== $id $P"
cd $wt
git diff -- starlark lib internal syntax resolve starlarkstruct | diff -q - SEED/patch.diff && echo "patch matches worktree diff"
go build ./... && go test -vet=off -count=1 ./starlark ./lib/time ./starlarkstruct ./internal/... ./resolve ./syntax 2>&1 | grep -v "no test files" | grep -c "^ok" | sed 's/^/packages ok: /'
go test -vet=off -count=1 ./starlark ./lib/time ./starlarkstruct ./internal/... ./resolve ./syntax 2>&1 | grep -v "no test files" | grep -v "^ok" | head -3
demo=$(ls SEED/*_test.go SEED/testdata/*_test.go 2>/dev/null | head -1)
tag=$(grep -o "go:build [a-z_]*" $demo | head -1 | awk '{print $2}')
echo "demo with change:"; go test $race -vet=off -count=1 -tags "$tag" ./SEED/ 2>&1 | tail -1
git apply -R SEED/patch.diff && { echo "demo without change:"; go test $race -vet=off -count=1 -tags "$tag" ./SEED/ 2>&1 | tail -1; }; git apply SEED/patch.diff
cd /verif
echo "check:"; timeout 1500 tools/mutate.py $P quick $wt/SEED/patch.diff 2>&1 | grep "VIOL\|mutate\|MACH" | cut -c1-300 | tail -4
} > $out 2>&1
