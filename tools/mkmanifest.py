#!/usr/bin/env python3
"""Regenerates MANIFEST.json from the table below (kept in one place so the file stays valid)."""
import json, os, subprocess
V = os.path.dirname(os.path.dirname(os.path.abspath(__file__)))

CHECKS = {
 "C08": dict(level="model_checking", design="DESIGN.md 3/C08",
   technique="TLA+ binding relation (spec/Binding.tla) + TLC validation of every (signature, call) record executed by the real pipeline and of direct UnpackArgs calls (code->spec), exhaustive over the bounded domain",
   text="The property's bounded domain is enumerated completely in the quick tier for <=2 positional/<=1 keyword-only parameters (72 signatures x 1280 call shapes) and by a 45% seeded sample of the full domain (280 signatures, <=4 positional arguments, '*' of length 0-3) in the thorough tier; each call is compiled and run by the real interpreter and TLC checks the recorded binding, value by value, against Binding!Bind (the Python 3 rule); UnpackArgs/UnpackPositionalArgs are driven directly over all specs of <=3 parameters x markers x 10 target types x call shapes x 11 argument kinds and checked against Binding!UnpackOK including the target-preservation rule.",
   note="Trusted: TLC, the record encoding, Binding.tla as the statement of the rule (Bind was validated against CPython on 54k pairs during design). Argument values are distinct small integers so any mis-binding is visible."),
 "C13": dict(level="model_checking", design="DESIGN.md 3/C13",
   technique="TLA+ oracle (spec/Seqs.tla) + TLC validation of records produced by the real interpreter (code->spec)",
   text="Every case of a declared finite domain (exhaustive index/slice/search/split/strip/replace/list-method families over small receivers, plus seeded random receivers to length 40) is executed by the real pipeline and TLC checks each recorded result against the TLA+ definition of the operation in spec/Seqs.tla; the oracle is total on the domain, so any divergence of any case is reported.",
   note="Trusted: TLC, the JSON encoding of values (harness/cmd/vh/enc.go), Seqs.tla as the reading of doc/spec.md (cross-validated against CPython on the shared subset by tools/xval_c13.py; the 5 documented Starlark deviations are listed in DESIGN B.5). ASCII text only; format/% and Unicode case tables are not modelled."),
}

def main():
    hooks_commits = []
    m = {
      "version": 1,
      "setup_cmd": "bin/setup",
      "hooks": {"guard": "verif", "enable": "go build -tags verif (harness module with replace go.starlark.net => /repo)",
                "baseline_off_cmd": "cd /repo && GOFLAGS=-mod=mod go test -vet=off -count=1 ./...",
                "source_commits": hooks_commits, "add_only": True},
      "engines": [{"name": "tlc", "path": "spec/", "serves_properties": sorted(CHECKS), "kind_free_text": "explicit TLA+ specification family checked by TLC; bound to the code by record/trace validation (code->spec) and replay of TLC-generated behaviours (spec->code)"},
                  {"name": "vh", "path": "harness/", "serves_properties": sorted(CHECKS), "kind_free_text": "Go conformance harness built from /repo's working tree with -tags verif"}],
      "checks": [],
      "not_applicable": [],
      "notes": "bin/check <ID> <quick|thorough>; exit 0 held / 1 violation / 2 machinery failure. known_findings.jsonl lists open findings and fixed: entries.",
    }
    props = [json.loads(l)["id"] for l in open(os.path.join(V, "properties.jsonl"))]
    for pid in props:
        if pid in CHECKS:
            c = CHECKS[pid]
            m["checks"].append({
              "property_id": pid,
              "quick_cmd": "bin/check %s quick" % pid,
              "thorough_cmd": "bin/check %s thorough" % pid,
              "evidence_file": "evidence/%s.json" % pid,
              "replay_cmd_template": "bin/check %s --replay {path}" % pid,
              "engine": "tlc",
              "level_claimed": {"category": c["level"], "text": c["text"], "design_ref": c["design"]},
              "level_note": c["note"],
              "technique": c["technique"],
            })
        else:
            m["not_applicable"].append({"property_id": pid, "reason": "check not built yet (work in progress; planned in DESIGN.md section 3)"})
    json.dump(m, open(os.path.join(V, "MANIFEST.json"), "w"), indent=1)

if __name__ == "__main__":
    main()
