#!/usr/bin/env python3
"""Regenerates MANIFEST.json from the table below (kept in one place so the file stays valid)."""
import json, os, subprocess
V = os.path.dirname(os.path.dirname(os.path.abspath(__file__)))

CHECKS = {
 "C04": dict(level="model_checking", design="DESIGN.md 3/C04",
   technique="TLA+ heap-construction machine with the flag-first freeze traversal (spec/C04MC.tla) model-checked; every construction replayed as a module on the real pipeline and every node probed (spec->code)",
   text="TLC builds every object graph with <=3 nodes (quick; <=4 thorough) out of list, dict, set, tuple, struct, parameter default, closure, mutating closure and bound method, with later list-element / dict-value edges including self loops and cycles, every choice of <=2 globals and both outcomes of module initialisation; it checks that the flag-first traversal terminates and freezes exactly the flagged nodes reachable from the globals, and emits each construction (line for line the module source) with the expected frozen set. The harness executes each module with ExecFileOptions and then, for every node, runs every would-change operation of its type (Go API, Starlark methods, index and augmented assignment, functions of the module mutating captured values, bound methods): reachable nodes must reject all of them and stay byte-identical in an identity-aware serialisation, unreachable ones must still accept mutation; the predeclared dict and the universe must be unchanged.",
   note="Trusted: TLC, the rendering of construction actions to source, the mutator tables in harness/cmd/vh/c04.go (hand-written from dir() of each type). dict keys / set elements cannot reach mutable values (hashability) and carry no edges."),
 "C19": dict(level="exploration", design="DESIGN.md 3/C19",
   technique="TLA+ specification TimeSpec (operator table over ordered operand kinds, exact nanosecond arithmetic on BitInt, proleptic Gregorian calendar, duration text grammar); code->spec record validation by TLC + design-level model check C19MC",
   text="Every entry of the ordered kind-pair x operator table (192 entries, vacuity-guarded) is exercised with a full product of value pools (instants in several zones, durations incl. 0, +-1ns, int64 extremes, ints, floats, other) and, in the thorough tier, 180k seeded random operand tuples over the int64 nanosecond range; TLC judges each recorded result with TimeSpec (exact for integer entries, law-checked for divisions, acceptance/kind/sign for float entries), and checks the round-trip and ordering/hash laws and the calendar attributes.",
   note="The operator table is covered exhaustively but values over the int64 nanosecond range are pools plus seeded samples, hence exploration. Results that do not fit int64 nanoseconds are recorded as notes, not violations (documentation silent). Trusted: TLC, BitInt (model-checked against native arithmetic), the zone database of the sandbox for named zones (offsets asserted only for UTC, Etc/GMT and numeric offsets)."),
 "C06": dict(level="model_checking", design="DESIGN.md 3/C06",
   technique="TLA+ Mutability protocol (spec/Mutability.tla) model-checked on a scenario machine (C06MC); scenarios replayed on the real interpreter (spec->code); step-limit cancellation at every step index (fault enumeration); hook traces of all runs and of the repository's test programs validated by TLC (C06Trace, code->spec)",
   text="TLC checks the iterator-counter protocol (counts exact, never negative, quiescent when the stack is empty) on every behaviour of the scenario machine (construct class x nesting x target x exit path x frozen) and emits each scenario with the required outcome of every mutation attempt. The harness renders each scenario for list, dict and set with every concrete construct of its class (for, four comprehension forms, sorted/min/max with key=, built-ins calling back through Hash/Truth/compare of host elements, *args, sequence assignment, for-unpacking, list/tuple/enumerate/reversed/zip/extend/sorted/len, the set-algebra methods, Go Iterate/Elements/Entries) and every would-change mutator (Go API and Starlark methods/syntax), checks that attempts during iteration fail and leave the collection unchanged, that the collection is mutable again as soon as the loop ends and after every exit path (exhaustion, break, return, error, error in nested call, host panic, cancellation), that the call-stack depth is restored and the thread reusable; it re-runs normally terminating scenarios under every step limit. All hook events (iterator begin/done with the implementation's counter value, freeze, frame push/pop, attempts) of these runs and of starlark/testdata are validated by TLC against the protocol.",
   note="Trusted: TLC, the verif hooks (add-only, at the counter updates), probes as stand-ins for arbitrary elements. dict(X)/d.update(X) with a dict operand snapshot X first and are therefore not iterating constructs. Quick tier sweeps step limits for every 9th scenario, thorough for all."),
 "C12": dict(level="model_checking", design="DESIGN.md 3/C12",
   technique="TLA+ ordered-map model + concrete hash-table model (spec/Hashtable.tla, C12MC.tla): refinement model-checked; every transition of the product replayed on the real dict/set (spec->code); exhaustive operation sequences and long adversarial histories validated by TLC (code->spec)",
   text="(1) TLC proves on scaled-down constants (BucketSize 2, growth and chain overflow reachable) that the concrete table design refines the insertion-ordered association list. (2) TLC explores the product of the abstract map and the concrete table with the real constants over the property's universe (keys of which 3 share one hash, one with hash 0) and emits every transition with a shortest path; each is replayed on the real dict and set through the Go API and through Starlark methods/operators with host keys whose Hash() the model dictates, comparing results, length, membership, lookups and full iteration order. (3) every operation sequence of length 4 (quick) / 5 plus a sample of length 7 (thorough) over the 12-operation reduced alphabet is executed on the real dict and set and validated step by step by TLC. (4) random histories of 10^4-4x10^4 operations over keys with five adversarial hash distributions (all equal, equal modulo table size, 0/1, spread, seven classes) are logged and validated by TLC against the abstract module.",
   note="Trusted: TLC, the JSON edge encoding, host keys with dictated hashes. The concrete model is used to generate histories and for the design check, never as the oracle. Quick tier uses 4 keys for the transition cover, thorough 5."),
 "C08": dict(level="model_checking", design="DESIGN.md 3/C08",
   technique="TLA+ binding relation (spec/Binding.tla) + TLC validation of every (signature, call) record executed by the real pipeline and of direct UnpackArgs calls (code->spec), exhaustive over the bounded domain",
   text="The property's bounded domain is enumerated completely in the quick tier for <=2 positional/<=1 keyword-only parameters (72 signatures x 1280 call shapes) and by a 45% seeded sample of the full domain (280 signatures, <=4 positional arguments, '*' of length 0-3) in the thorough tier; each call is compiled and run by the real interpreter and TLC checks the recorded binding, value by value, against Binding!Bind (the Python 3 rule); UnpackArgs/UnpackPositionalArgs are driven directly over all specs of <=3 parameters x markers x 10 target types x call shapes x 11 argument kinds and checked against Binding!UnpackOK including the target-preservation rule.",
   note="Trusted: TLC, the record encoding, Binding.tla as the statement of the rule (Bind was validated against CPython on 54k pairs during design). Argument values are distinct small integers so any mis-binding is visible."),
 "C13": dict(level="model_checking", design="DESIGN.md 3/C13",
   technique="TLA+ oracle (spec/Seqs.tla) + TLC validation of records produced by the real interpreter (code->spec)",
   text="Every case of a declared finite domain (exhaustive index/slice/search/split/strip/replace/list-method families over small receivers, plus seeded random receivers to length 40) is executed by the real pipeline and TLC checks each recorded result against the TLA+ definition of the operation in spec/Seqs.tla; the oracle is total on the domain, so any divergence of any case is reported.",
   note="Trusted: TLC, the JSON encoding of values (harness/cmd/vh/enc.go), Seqs.tla as the reading of doc/spec.md (cross-validated against CPython on the shared subset by tools/xval_c13.py; the 5 documented Starlark deviations are listed in DESIGN B.5). ASCII text only; format/% and Unicode case tables are not modelled."),
}

def main():
    hooks_commits = ["021bf1b", "4fc5f2e"]
    m = {
      "version": 1,
      "setup_cmd": "bin/setup",
      "hooks": {"guard": "verif", "enable": "go build -tags verif (harness module with replace go.starlark.net => /repo)",
                "baseline_off_cmd": "cd /repo && GOFLAGS=-mod=mod go test -vet=off -count=1 ./...",
                "source_commits": hooks_commits, "add_only": True},
      "engines": [{"name": "tlc", "path": "spec/", "serves_properties": sorted(CHECKS), "kind_free_text": "explicit TLA+ specification family checked by TLC; bound to the code by record/trace validation (code->spec) and replay of TLC-generated behaviours (spec->code)"},
                  {"name": "vh", "path": "harness/", "serves_properties": sorted(CHECKS), "kind_free_text": "Go conformance harness built from /repo's working tree with -tags verif"}],
      "checks": [],
      "not_applicable": [],
      "notes": "bin/check <ID> <quick|thorough>; exit 0 held / 1 violation / 2 machinery failure. known_findings.jsonl lists open findings and fixed: entries.",
    }
    props = [json.loads(l)["id"] for l in open(os.path.join(V, "properties.jsonl"))]
    for pid in props:
        if pid in CHECKS:
            c = CHECKS[pid]
            m["checks"].append({
              "property_id": pid,
              "quick_cmd": "bin/check %s quick" % pid,
              "thorough_cmd": "bin/check %s thorough" % pid,
              "evidence_file": "evidence/%s.json" % pid,
              "replay_cmd_template": "bin/check %s --replay {path}" % pid,
              "engine": "tlc",
              "level_claimed": {"category": c["level"], "text": c["text"], "design_ref": c["design"]},
              "level_note": c["note"],
              "technique": c["technique"],
            })
        else:
            m["not_applicable"].append({"property_id": pid, "reason": "check not built yet (work in progress; planned in DESIGN.md section 3)"})
    json.dump(m, open(os.path.join(V, "MANIFEST.json"), "w"), indent=1)

if __name__ == "__main__":
    main()
