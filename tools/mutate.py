#!/usr/bin/env python3
"""tools/mutate.py <ID> <tier> <mutant>      maintenance tool, not a registered check.

<mutant> is either a patch file (git diff format, relative to the repo root) or an inline
substitution  'path::old text::new text'  (first occurrence).  The mutant is applied to a scratch
copy of /repo under /tmp (never to /repo), the owning check is run with VERIF_REPO pointing at
the copy, and the copy is removed.  Expected outcome for a property-breaking mutant: exit 1."""
import os, shutil, subprocess, sys, tempfile
V = os.path.dirname(os.path.dirname(os.path.abspath(__file__)))
pid, tier, mut = sys.argv[1], sys.argv[2], sys.argv[3]
d = tempfile.mkdtemp(prefix="mut-", dir="/tmp")
try:
    subprocess.run(["rsync", "-a", "--exclude", ".git", "/repo/", d + "/"], check=True)
    if "::" in mut:
        path, old, new = mut.split("::")
        p = os.path.join(d, path)
        s = open(p).read()
        if old not in s:
            print("mutate: pattern not found"); sys.exit(3)
        open(p, "w").write(s.replace(old, new, 1))
    else:
        subprocess.run(["patch", "-p1", "-d", d, "-i", os.path.abspath(mut)], check=True)
    b = subprocess.run(["go", "build", "./..."], cwd=d, env=dict(os.environ, GOFLAGS="-mod=mod", GOPROXY="off"))
    if b.returncode != 0:
        print("mutate: mutant does not compile"); sys.exit(3)
    env = dict(os.environ, VERIF_REPO=d)
    r = subprocess.run([os.path.join(V, "bin", "check"), pid, tier], env=env, cwd=V)
    print("mutate: check exit code", r.returncode)
    sys.exit(0 if r.returncode == 1 else 4)
finally:
    shutil.rmtree(d, ignore_errors=True)
