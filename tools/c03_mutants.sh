#!/bin/sh
# Sensitivity demonstration for C03 (maintenance tool, not a registered check):
# every mutant below breaks determinism or the ordered-map/dir/hash laws and must make
# `bin/check C03 quick` exit 1 (tools/mutate.py prints "check exit code 1" and exits 0).
# usage: tools/c03_mutants.sh [name ...]     (default: all)
cd "$(dirname "$0")/.." || exit 2
run() {
  name=$1; shift
  echo "=== mutant $name"
  VERIF_C03_N=${VERIF_C03_N:-160} python3 tools/mutate.py C03 quick "$1"; echo "=== $name: mutate.py exit $?"
}
want() { [ $# -eq 0 ] && return 0; for x in "$@"; do [ "$x" = "$name_" ] && return 0; done; return 1; }
for name_ in keys-bucket-order attrnames-unsorted hash-seeded spellcheck-unsorted stringdict-keys-unsorted struct-fields-unsorted; do
  want "$@" || continue
  case $name_ in
  keys-bucket-order)   # dict.keys() / Dict.Keys() follow bucket order instead of insertion order
    run $name_ 'starlark/hashtable.go::	for e := ht.head; e != nil; e = e.next {
		keys = append(keys, e.key)
	}::	for j := range ht.table {
		for p := &ht.table[j]; p != nil; p = p.next {
			for i := range p.entries {
				if p.entries[i].hash != 0 {
					keys = append(keys, p.entries[i].key)
				}
			}
		}
	}' ;;
  attrnames-unsorted)  # method names of built-in types listed in Go map order
    run $name_ 'starlark/library.go::	sort.Strings(names)
	return names
}::	sort.Strings(names[:0])
	return names
}' ;;
  hash-seeded)         # hash() of a string routed through the per-process seeded function
    run $name_ 'starlark/library.go::h = int64(javaStringHash(string(x)))::h = int64(int32(hashString(string(x))))' ;;
  spellcheck-unsorted) # "did you mean" candidates of the resolver in Go map order
    run $name_ 'resolve/resolve.go::	sort.Strings(names)
	return spell.Nearest(use.id.Name, names)::	sort.Strings(names[:0])
	return spell.Nearest(use.id.Name, names)' ;;
  stringdict-keys-unsorted)  # StringDict.Keys in Go map order (globals listing, module attributes, load hints)
    run $name_ 'starlark/eval.go::		names = append(names, name)
	}
	sort.Strings(names)
	return names::		names = append(names, name)
	}
	sort.Strings(names[:0])
	return names' ;;
  struct-fields-unsorted)    # struct built by FromStringDict keeps Go map order
    run $name_ 'starlarkstruct/struct.go::		s.entries = append(s.entries, entry{k, v})
	}
	sort.Sort(s.entries)
	return s
}

// Struct is::		s.entries = append(s.entries, entry{k, v})
	}
	sort.Sort(s.entries[:0])
	return s
}

// Struct is' ;;
  esac
done
