#!/usr/bin/env python3
"""development aid: run the C01 pipeline for one replay file or a source file and print both observations"""
import sys, os, json, re
V = os.path.dirname(os.path.dirname(os.path.abspath(__file__)))
sys.path.insert(0, V + "/lib"); sys.path.insert(0, V + "/checks")
import vlib, c01
ctx = vlib.Ctx("C01", "quick", "model_checking")
p = sys.argv[1]
if p.endswith(".json"):
    c = json.load(open(p))["replay"]["case"]
else:
    c = {"id": 1, "src": open(p).read(), "opts": c01.OPTVECS[int(sys.argv[2]) if len(sys.argv) > 2 else 7]}
fin, fout, fast = ctx.path("p.in"), ctx.path("p.out"), ctx.path("p.ast")
vlib.write_ndjson(fin, [{"id": c["id"], "src": c["src"], "mode": "file", "opts": c["opts"], "steps": 200000}])
ctx.vh(["eval", "-in", fin, "-out", fout]); ctx.vh(["ast", "-in", fin, "-out", fast])
r, a = vlib.read_ndjson(fout)[0], vlib.read_ndjson(fast)[0]
o = c01.observation(r)
print(c["src"]); print("opts", c["opts"])
print("REAL:", json.dumps(o)[:3000]); print("raw err:", r.get("err"), r.get("stack"))
f = ctx.path("r.ndjson")
vlib.write_ndjson(f, [{"id": c["id"], "ast": a["ast"], "opts": c["opts"], "obs": o}])
t = ctx.tlc("C01Trace", "C01Trace.cfg", env={"VERIF_RECS": f, "VERIF_DEBUG": "1"}, workers=1)
i = t["out"].find('<< "SPEC"'); j = t["out"].find('<<"SPEC"')
k = max(i, j)
print("SPEC:", t["out"][k:k+3000] if k >= 0 else t["out"][-1500:])
import shutil; shutil.rmtree(ctx.work, ignore_errors=True)
