#!/usr/bin/env python3
"""Cross-validation of the C10 oracle (spec/C10Trace.tla over BitInt/Float64/NumOps)
against CPython: the cases of checks/c10.py are evaluated by the real interpreter,
judged by TLC, and judged again here with Python's own integers, Fractions and
floats.  Every disagreement between the two judges is printed (none expected).

usage: tools/c10_xval.py [quick|thorough]     (VERIF_SEED selects the cases)
"""
import json, math, os, struct, sys
from fractions import Fraction

HERE = os.path.dirname(os.path.abspath(__file__))
sys.path.insert(0, os.path.join(HERE, "..", "lib"))
sys.path.insert(0, os.path.join(HERE, "..", "checks"))
import vlib, c10

I31 = 1 << 31


def unfl(f):
    m = sum(l << (15 * i) for i, l in enumerate(f["m"]))
    return struct.unpack(">d", struct.pack(">Q", (f["s"] << 63) | (f["e"] << 52) | m))[0]


def dec(v):
    """observed value -> python value (floats as ('f', bits))"""
    t = v["t"]
    if t == "int":
        return v["v"]
    if t == "big":
        return c10.unbig(v)
    if t == "float":
        return ("f", c10.fbits(unfl(v)))
    if t == "bool":
        return bool(v["v"])
    if t in ("str", "bytes"):
        return (t, bytes(v["v"]))
    if t in ("list", "tuple"):
        return (t, [dec(x) for x in v["v"]])
    return ("?", json.dumps(v, sort_keys=True))


F = lambda x: ("f", c10.fbits(x))
REQ, TOL, FAIL, ANY, NEVER = "req", "tol", "fail", "any", "never"


def typed(t, x):
    return c10.unbig(x) if t == "int" else unfl(x)


def cmp3(x, y):
    """total order: NaN greatest, NaN == NaN; exact int/float comparison"""
    xn, yn = x != x, y != y
    if xn or yn:
        return 0 if xn and yn else 1 if xn else -1
    for v in (x, y):
        if isinstance(v, float) and math.isinf(v):
            pass
    if isinstance(x, float) and math.isinf(x):
        return 0 if x == y else (1 if x > 0 else -1)
    if isinstance(y, float) and math.isinf(y):
        return -1 if y > 0 else 1
    a, b = Fraction(x), Fraction(y)
    return -1 if a < b else 1 if a > b else 0


def to_float(n):
    try:
        return float(n)      # CPython: round-half-even, OverflowError beyond the range
    except OverflowError:
        return None


def round_frac(q):
    """correctly rounded float of a Fraction (CPython: numerator / denominator is correctly rounded)"""
    if q == 0:
        return 0.0
    try:
        return q.numerator / q.denominator
    except OverflowError:
        return math.inf if q > 0 else -math.inf


def parse_int(txt, base):
    s = bytes(txt).decode("latin1")
    if not (base == 0 or 2 <= base <= 36):
        return FAIL, None
    if any(c in s for c in " _\t\n") or s != s.strip():
        return FAIL, None
    body = s[1:] if s[:1] in "+-" else s
    pre = body[:2].lower()
    pb = {"0b": 2, "0o": 8, "0x": 16}.get(pre, 0)
    if base == 0 and pb == 0 and len(body) > 1 and body[0] == "0" and body.isdigit():
        return ANY, None
    try:
        if base != 0 and pb and pb != base:
            # python applies a prefix only when it matches the base; otherwise the text is plain digits
            return REQ, int(s, base)
        return REQ, int(s, base)
    except ValueError:
        return FAIL, None


def fmt_int(x, f):
    if f == "x":
        return ("-" if x < 0 else "") + "%x" % abs(x)
    if f == "X":
        return ("-" if x < 0 else "") + "%X" % abs(x)
    if f == "o":
        return ("-" if x < 0 else "") + "%o" % abs(x)
    return str(x)


def rng(a, b, s):
    return range(a, b, s)


def expect(r):
    """(mode, value): req = must be this value; tol = this value or a failure; fail = must fail;
    never = may only fail; any = not judged"""
    op = r["op"]
    U = c10.unbig
    if op == "bin":
        x, y = U(r["x"]), U(r["y"])
        return REQ, {"+": x + y, "-": x - y, "*": x * y, "&": x & y, "|": x | y, "^": x ^ y}[r["o"]]
    if op == "unary":
        x = U(r["x"])
        return REQ, {"-": -x, "+": x, "~": ~x}[r["o"]]
    if op == "divmod":
        x, y = U(r["x"]), U(r["y"])
        return (FAIL, None) if y == 0 else (REQ, ("tuple", [x // y, x % y]))
    if op == "div1":
        x, y = U(r["x"]), U(r["y"])
        return (FAIL, None) if y == 0 else (REQ, x // y if r["o"] == "//" else x % y)
    if op == "shl":
        x, y = U(r["x"]), U(r["y"])
        if y < 0:
            return FAIL, None
        if y < 512:
            return REQ, x << y
        return (TOL, 0) if x == 0 else (TOL, x << y) if y < 5000 else (NEVER, None)
    if op == "shr":
        x, y = U(r["x"]), U(r["y"])
        if y < 0:
            return FAIL, None
        v = x >> y if y < 100000 else (-1 if x < 0 else 0)
        return (REQ if y < I31 else TOL), v
    if op == "cmp":
        c = cmp3(typed(r["xt"], r["x"]), typed(r["yt"], r["y"]))
        return REQ, ("tuple", [c < 0, c <= 0, c > 0, c >= 0, c == 0, c != 0])
    if op == "lit":
        x = 0
        for d in r["digs"]:
            x = x * r["base"] + d
        return (TOL if r["base"] in (2, 8) and x >= (1 << 63) else REQ), x
    if op == "parse":
        return parse_int(r["txt"], r["base"])
    if op == "fmt":
        return REQ, ("str", fmt_int(U(r["x"]), r["f"]).encode())
    if op == "fmtf":
        f = unfl(r["a"])
        return (FAIL, None) if f != f or math.isinf(f) else (REQ, ("str", str(int(f)).encode()))
    if op == "float_of_int":
        f = to_float(U(r["x"]))
        return (FAIL, None) if f is None else (REQ, F(f))
    if op == "int_of_float":
        f = unfl(r["a"])
        return (FAIL, None) if f != f or math.isinf(f) else (REQ, int(f))
    if op == "float_of_str":
        n = int("".join(map(str, r["digs"])) or "0")
        q = Fraction(n) * Fraction(10) ** r["e10"] if abs(r["e10"]) < 5000 else None
        f = round_frac(q)
        f = -f if r["neg"] else f
        return (TOL if math.isinf(f) else REQ), F(f)
    if op == "math":
        if r["at"] == "int":
            x = U(r["a"])
            if r["fn"] in ("floor", "ceil"):
                return REQ, x
            f = to_float(x)
            return (TOL, ("round", x, F(f) if f is not None and int(f) == x else None))
        f = unfl(r["a"])
        if r["fn"] in ("floor", "ceil"):
            if f != f or math.isinf(f):
                return FAIL, None
            return REQ, math.floor(f) if r["fn"] == "floor" else math.ceil(f)
        if f != f or math.isinf(f):
            return REQ, F(f) if f == f else ("nan",)
        q = Fraction(f)
        n = int(abs(q) + Fraction(1, 2))           # half away from zero
        return REQ, F(math.copysign(float(n), f))
    if op == "mixed":
        xs = []
        for t, v in ((r["xt"], r["x"]), (r["yt"], r["y"])):
            if t == "int":
                f = to_float(U(v))
                if f is None:
                    return FAIL, None
                xs.append(f)
            else:
                xs.append(unfl(v))
        if any(v != v or math.isinf(v) for v in xs):
            return ANY, None
        x, y = xs
        if r["o"] == "/":
            if y == 0:
                return FAIL, None
            v = round_frac(Fraction(x) / Fraction(y))
        else:
            q = {"+": Fraction(x) + Fraction(y), "-": Fraction(x) - Fraction(y), "*": Fraction(x) * Fraction(y)}[r["o"]]
            v = round_frac(q)
        return REQ, ("fz",) if v == 0 else F(v)
    if op == "dict_in":
        x, f = U(r["x"]), unfl(r["a"])
        eq = f == f and not math.isinf(f) and Fraction(f) == x
        return REQ, ("tuple", [eq, eq, 1 if eq else 2])
    if op.startswith("range_"):
        a, b, s = U(r["a"]), U(r["b"]), U(r["s"])
        if s == 0:
            return FAIL, None
        R = rng(a, b, s)
        n = c10.Gen.rlen(a, b, s)
        if op == "range_len":
            return TOL, n
        if op == "range_bool":
            return TOL, n > 0
        if op == "range_list":
            return (TOL, ("list", list(R))) if n < 65 else (NEVER, None)
        if op == "range_index":
            i = U(r["i"])
            j = i + n if i < 0 else i
            return (TOL, a + j * s) if 0 <= j < n else (FAIL, None)
        if op == "range_in":
            if r["xt"] == "int":
                return TOL, U(r["x"]) in R
            f = unfl(r["x"])
            return TOL, (f == f and not math.isinf(f) and f == int(f) and int(f) in R)
        if op == "range_slice":
            o = lambda v: U(v["v"]) if v["some"] else None
            lo, hi, st = o(r["lo"]), o(r["hi"]), o(r["st"])
            if st == 0:
                return FAIL, None
            S = R[lo:hi:st]          # CPython slices ranges exactly, with unbounded integers
            m = c10.Gen.rlen(S.start, S.stop, S.step)
            return TOL, ("list", [0] if m == 0 else [m, S.start, S.start + (m - 1) * S.step])
    if op == "enumerate":
        st = U(r["start"])
        return TOL, ("list", [("tuple", [st + k, e]) for k, e in enumerate(r["elems"])])
    if op == "repeat":
        n, s = U(r["n"]), r["s"]
        if n <= 0 or not s:
            rep = []
        elif n < 200:
            rep = s * n
        else:
            return NEVER, None
        if r["ty"] in ("str", "bytes"):
            return TOL, (r["ty"], bytes(rep))
        return TOL, (r["ty"], rep)
    raise ValueError(op)


def same(exp, got):
    if isinstance(exp, tuple) and exp and exp[0] == "round":      # the integer itself or the float equal to it
        return (not isinstance(got, (tuple, bool)) and got == exp[1]) or (exp[2] is not None and got == exp[2])
    if exp == ("nan",):
        return got[0] == "f" and struct.unpack(">d", struct.pack(">Q", got[1]))[0] != struct.unpack(">d", struct.pack(">Q", got[1]))[0]
    if exp == ("fz",):
        return got[0] == "f" and (got[1] & ~(1 << 63)) == 0
    if isinstance(exp, bool) or isinstance(got, bool):
        return isinstance(exp, bool) and isinstance(got, bool) and exp == got
    if isinstance(exp, tuple) and isinstance(got, tuple) and exp[0] in ("list", "tuple") and got[0] == exp[0]:
        return len(exp[1]) == len(got[1]) and all(same(a, b) for a, b in zip(exp[1], got[1]))
    return exp == got


def py_verdict(r):
    mode, val = expect(r)
    ok = r["res"]["ok"]
    if mode == ANY:
        return "ok"
    if mode == FAIL:
        return "bad" if ok else "ok"
    if mode == NEVER:
        return "bad" if ok else "tol"
    if not ok:
        return "bad" if mode == REQ else "tol"
    return "ok" if same(val, dec(r["res"]["v"])) else "bad"


def main():
    tier = sys.argv[1] if len(sys.argv) > 1 else "quick"
    ctx = vlib.Ctx("C10X", tier, "exploration")
    try:
        cases = c10.Gen(ctx).all()
        res = c10.evaluate(ctx, cases, "cases", "normal")
        recs = [c10.record(c, res[c["id"]]) for c in cases]
        f = ctx.path("recs.ndjson")
        vlib.write_ndjson(f, recs)
        bad, tol, checked = c10.tlc_validate(ctx, [f])
        bad, tol = set(bad), set(tol)
        dis = 0
        counts = {}
        for c, r in zip(cases, recs):
            tv = "bad" if r["id"] in bad else "tol" if r["id"] in tol else "ok"
            pv = py_verdict(r)
            counts[(tv, pv)] = counts.get((tv, pv), 0) + 1
            if tv != pv:
                dis += 1
                if dis <= 40:
                    print("DISAGREE id=%d tlc=%s python=%s  %s -> %s" % (r["id"], tv, pv, c["src"][:200], c10.show(res[c["id"]])))
        print("checked %d records; verdict pairs (tlc, python): %s; disagreements: %d" % (checked, counts, dis))
        return 1 if dis else 0
    finally:
        import shutil
        shutil.rmtree(ctx.work, ignore_errors=True)


if __name__ == "__main__":
    sys.exit(main())
