"""Common machinery for /verif checks: harness build, TLC runs, findings, evidence.

Exit codes (DESIGN 5.2): 0 property held (known findings printed), 1 violation,
2 machinery failure (never a violation).
"""
import json, os, re, shutil, subprocess, sys, time, hashlib, concurrent.futures

VERIF = os.path.dirname(os.path.dirname(os.path.abspath(__file__)))
REPO = os.environ.get("VERIF_REPO", "/repo")
SPEC = os.path.join(VERIF, "spec")
HARNESS = os.path.join(VERIF, "harness")
NCPU = os.cpu_count() or 4


def _norm_outside(t):
    """remove the blank after << and before >> outside string literals"""
    out, i, n, instr = [], 0, len(t), False
    while i < n:
        c = t[i]
        if instr:
            out.append(c)
            if c == "\\" and i + 1 < n:
                out.append(t[i + 1])
                i += 1
            elif c == '"':
                instr = False
        elif c == '"':
            instr = True
            out.append(c)
        elif t.startswith("<< ", i):
            out.append("<<")
            i += 2
        elif t.startswith(" >>", i):
            out.append(">>")
            i += 2
        else:
            out.append(c)
        i += 1
    return "".join(out)


def join_wrapped(out):
    """TLC pretty-prints a printed value that is longer than a line over several lines ('<< "BAD",' / '   13,' / ...).
    Values that start a line with '<<' and whose tuple brackets are not balanced on that line are joined into one line and
    normalised to the one-line spelling ('<<"BAD", 13, ...>>'), so that line-based parsers see every printed value."""
    def depth(text):
        """tuple brackets still open at the end of text (brackets inside string literals do not count)"""
        d, i, n, instr = 0, 0, len(text), False
        while i < n:
            c = text[i]
            if instr:
                if c == "\\":
                    i += 1
                elif c == '"':
                    instr = False
            elif c == '"':
                instr = True
            elif text.startswith("<<", i):
                d += 1
                i += 1
            elif text.startswith(">>", i):
                d -= 1
                i += 1
            i += 1
        return d

    def norm(text):
        """one-line spelling: no blanks after << or before >>, single blanks elsewhere (outside string literals)"""
        out, i, n, instr = [], 0, len(text), False
        while i < n:
            c = text[i]
            if instr:
                out.append(c)
                if c == "\\" and i + 1 < n:
                    out.append(text[i + 1])
                    i += 1
                elif c == '"':
                    instr = False
            elif c == '"':
                instr = True
                out.append(c)
            elif c.isspace():
                if out and out[-1] != " ":
                    out.append(" ")
            else:
                out.append(c)
            i += 1
        return _norm_outside("".join(out))

    lines, buf = [], None
    for line in out.split("\n"):
        if buf is None:
            if line.startswith("<<") and depth(line) > 0:
                buf = line
            else:
                lines.append(line)
            continue
        buf += " " + line.strip()
        if depth(buf) <= 0:
            lines.append(norm(buf))
            buf = None
    if buf is not None:
        lines.append(buf)
    return "\n".join(lines)


def count_bad(out):
    """number of printed <<"BAD", ...>> values in (joined) TLC output: parsers compare it with what they understood"""
    return sum(1 for l in out.split("\n") if l.startswith('<<"BAD"'))


def expect_bad(r, parsed, what):
    """a rejected record that a parser did not understand must never be dropped silently"""
    n = count_bad(r["out"])
    if n != parsed:
        raise MachineryError("%s: TLC printed %d rejected records but %d were understood\n%s" % (what, n, parsed, r["out"][-1500:]))


class MachineryError(Exception):
    pass


def goenv():
    e = dict(os.environ)
    e["GOFLAGS"] = "-mod=mod"
    e["GOPROXY"] = "off"
    e.pop("GOSUMDB", None)
    e.pop("GOTOOLCHAIN", None)
    e.pop("GOWORK", None)
    e["GOWORK"] = "off"
    return e


def sh(cmd, cwd=None, env=None, timeout=None, check=True, capture=True, stdin=None):
    p = subprocess.run(cmd, cwd=cwd, env=env, timeout=timeout, input=stdin,
                       stdout=subprocess.PIPE if capture else None,
                       stderr=subprocess.STDOUT if capture else None, text=True)
    if check and p.returncode != 0:
        raise MachineryError("command failed (%d): %s\n%s" % (p.returncode, cmd, (p.stdout or "")[-4000:]))
    return p


class Ctx:
    def __init__(self, pid, tier, level, seed=None):
        self.pid = pid
        self.tier = tier
        self.level = level
        self.seed = int(os.environ.get("VERIF_SEED", "1") or "1") if seed is None else seed
        self.t0 = time.time()
        self.work = os.path.join(VERIF, "work", "%s-%d" % (pid, os.getpid()))
        shutil.rmtree(self.work, ignore_errors=True)
        os.makedirs(self.work)
        self.replay_dir = os.path.join(VERIF, "replay", pid)
        os.makedirs(self.replay_dir, exist_ok=True)
        self.cov = {}          # evidence coverage counters
        self.samples = []
        self.assumptions = []
        self.violations = []   # list of (signature, what, replay_obj)
        self.notes = []
        self.states = 0
        self.transitions = 0
        self._bins = {}

    @property
    def quick(self):
        return self.tier == "quick"

    def log(self, *a):
        print("[%s %6.1fs]" % (self.pid, time.time() - self.t0), *a, flush=True)

    def path(self, *a):
        return os.path.join(self.work, *a)

    # ------------------------------------------------------------------ harness
    def build(self, race=False, overlay_generic=False, tags=("verif",)):
        key = (race, overlay_generic, tuple(tags))
        if key in self._bins:
            return self._bins[key]
        env = goenv()
        # private go.mod/go.sum (go.sum of the repository is the only checksum source offline);
        # VERIF_REPO selects the tree under test (default /repo)
        modfile = self.path("go.mod")
        open(modfile, "w").write(open(os.path.join(HARNESS, "go.mod")).read().replace("=> /repo", "=> " + REPO))
        shutil.copyfile(os.path.join(REPO, "go.sum"), self.path("go.sum"))
        name = "vh" + ("-race" if race else "") + ("-generic" if overlay_generic else "")
        out = self.path(name)
        cmd = ["go", "build", "-modfile", modfile, "-tags", ",".join(tags), "-o", out]
        if race:
            cmd.append("-race")
        if overlay_generic:
            ovdir = self.path("overlay")
            os.makedirs(ovdir, exist_ok=True)
            src = open(os.path.join(REPO, "starlark", "int_generic.go")).read()
            lines = src.split("\n")
            lines = [l for l in lines if not l.startswith("//go:build") and not l.startswith("// +build")]
            gen = os.path.join(ovdir, "int_generic_retag.go")
            open(gen, "w").write("\n".join(lines))
            empty = os.path.join(ovdir, "empty.go")
            open(empty, "w").write("//go:build ignore\n\npackage starlark\n")
            ov = {"Replace": {os.path.join(REPO, "starlark", "int_posix64.go"): gen,
                              os.path.join(REPO, "starlark", "int_generic.go"): empty}}
            ovf = os.path.join(ovdir, "overlay.json")
            json.dump(ov, open(ovf, "w"))
            cmd += ["-overlay", ovf]
        cmd.append("./cmd/vh")
        t = time.time()
        sh(cmd, cwd=HARNESS, env=env, timeout=900)
        self.log("built %s in %.1fs" % (name, time.time() - t))
        self._bins[key] = out
        return out

    def vh(self, args, binary=None, timeout=1800, env=None, check=True, stdin=None, limit_v=None):
        b = binary or self.build()
        e = dict(os.environ)
        e["VERIF_SEED"] = str(self.seed)
        e["VERIF_TIER"] = self.tier
        if env:
            e.update(env)
        cmd = [b] + list(args)
        if limit_v:
            cmd = ["bash", "-c", "ulimit -v %d; exec \"$@\"" % limit_v, "x"] + cmd
        try:
            p = subprocess.run(cmd, env=e, timeout=timeout, input=stdin, stdout=subprocess.PIPE,
                               stderr=subprocess.PIPE, text=True, cwd=self.work)
        except subprocess.TimeoutExpired:
            raise MachineryError("harness timed out: %s" % args)
        if check and p.returncode != 0:
            raise MachineryError("harness %s failed (%d): %s" % (args, p.returncode, p.stderr[-3000:]))
        return p

    # ---------------------------------------------------------------------- TLC
    def tlc(self, module, cfg, env=None, workers=1, timeout=1200, simulate=None, depth=None,
            extra=(), heap="3g", coverage=False, deadlock=False, tag=None, cfg_text=None):
        """Run TLC on spec/<module>.tla with spec/<cfg> in a private scratch copy.
        Returns dict(out, printed(list of raw PrintT lines), states, distinct, ok, violated, rc)."""
        tag = tag or ("%s-%s-%d" % (module, os.path.basename(cfg).replace(".cfg", ""), int(time.time() * 1000) % 100000000))
        d = self.path("tlc-" + tag)
        os.makedirs(d, exist_ok=True)
        # flat copy of all modules so EXTENDS resolves
        for root, _, files in os.walk(SPEC):
            for f in files:
                if f.endswith(".tla") or f.endswith(".cfg"):
                    shutil.copyfile(os.path.join(root, f), os.path.join(d, f))
        if cfg_text is not None:
            open(os.path.join(d, os.path.basename(cfg)), "w").write(cfg_text)
        e = dict(os.environ)
        e["JAVA_TOOL_OPTIONS"] = "-Xss512m -Xmx%s" % heap
        if env:
            e.update({k: str(v) for k, v in env.items()})
        cmd = ["java", "-XX:+UseParallelGC", "-cp",
               "/opt/veriftools/tla/tla2tools.jar:/opt/veriftools/tla/CommunityModules-deps.jar",
               "tlc2.TLC", "-metadir", os.path.join(d, "meta"), "-workers", str(workers),
               "-config", os.path.basename(cfg)]
        if not deadlock:
            cmd.append("-deadlock")
        if coverage:
            cmd += ["-coverage", "1"]
        if simulate:
            cmd += ["-simulate", simulate]
        if depth:
            cmd += ["-depth", str(depth)]
        cmd += list(extra)
        cmd.append(module + ".tla")
        try:
            p = subprocess.run(cmd, cwd=d, env=e, timeout=timeout, stdout=subprocess.PIPE,
                               stderr=subprocess.STDOUT, text=True)
        except subprocess.TimeoutExpired:
            raise MachineryError("TLC timed out on %s/%s" % (module, cfg))
        out = join_wrapped(p.stdout)
        res = {"out": out, "rc": p.returncode, "dir": d}
        m = re.findall(r"(\d+) states generated, (\d+) distinct states found", out)
        if m:
            res["states"] = int(m[-1][1])
            res["transitions"] = int(m[-1][0])
        else:
            res["states"] = res["transitions"] = 0
        res["violated"] = ("is violated" in out) or ("Invariant" in out and "violated" in out)
        res["error"] = bool(re.search(r"Error:|Exception|StackOverflow|OutOfMemory", out)) and not res["violated"]
        res["finished"] = "Model checking completed" in out or "Finished in" in out or bool(simulate)
        res["printed"] = [l for l in out.split("\n") if l.startswith("<<") or l.startswith("{") or l.startswith("[")]
        shutil.rmtree(os.path.join(d, "meta"), ignore_errors=True)
        return res

    def tlc_ok(self, module, cfg, **kw):
        """Design-level model check: must finish without violation or error."""
        r = self.tlc(module, cfg, **kw)
        if r["error"] or not r["finished"] or r["rc"] not in (0,):
            if r["violated"]:
                raise MachineryError("design check %s/%s: invariant violated\n%s" % (module, cfg, r["out"][-3000:]))
            raise MachineryError("TLC failed on %s/%s (rc=%s)\n%s" % (module, cfg, r["rc"], r["out"][-3000:]))
        self.states += r["states"]
        self.transitions += r["transitions"]
        return r

    def validate(self, module, cfg, files, var="VERIF_RECS", env=None, timeout=3000, heap=None, par=1):
        """P-A: validate record files with a trace spec.  The trace spec walks K strided chains
        over the records (so one JVM with many workers checks them in parallel), prints
        <<"BAD", id>> for each rejected record and <<"CHECKED", n>> at the end.
        Returns (bad_ids list, n_checked)."""
        bad, checked = [], 0
        workers = max(1, NCPU // par)
        heap = heap or ("%dg" % max(4, 24 // par))

        def one(f):
            ee = dict(env or {})
            ee[var] = f
            return f, self.tlc(module, cfg, env=ee, timeout=timeout, heap=heap, workers=workers,
                               tag="%s-%s" % (module, os.path.basename(f)))
        with concurrent.futures.ThreadPoolExecutor(par) as ex:
            for f, r in ex.map(one, files):
                got = None
                nb = 0
                for l in r["printed"]:
                    m = re.match(r'<<"BAD", (.*)>>\s*$', l)
                    if m:
                        bad.append(parse_tla(m.group(1).split(", ")[0]))
                        nb += 1
                    m = re.match(r'<<"CHECKED", (\d+)>>', l)
                    if m:
                        got = int(m.group(1))
                expect_bad(r, nb, "%s/%s" % (module, os.path.basename(f)))
                if got is None or r["error"] or r["rc"] != 0:
                    raise MachineryError("TLC validation of %s failed (rc=%s)\n%s" % (f, r["rc"], r["out"][-4000:]))
                checked += got
                self.states += r["states"]
                self.transitions += r["transitions"]
        return bad, checked

    # ----------------------------------------------------------------- findings
    def violation(self, signature, what, replay):
        self.violations.append((signature, what, replay))

    def finish(self, rule=None, exhaustive=None, extra=None):
        known = load_known()
        openk = {(k["property"], k["signature"]): k for k in known if k.get("status") == "open"}
        new = []
        seen_known = {}
        for sig, what, replay in self.violations:
            k = openk.get((self.pid, sig))
            if k is not None:
                seen_known.setdefault(sig, what)
            else:
                new.append((sig, what, replay))
        for sig, what in seen_known.items():
            print("KNOWN-FINDING: property=%s %s: %s" % (self.pid, sig, what), flush=True)
        printed = set()
        for sig, what, replay in new:
            if sig in printed:
                continue
            printed.add(sig)
            if len(printed) > 25:
                continue
            fn = os.path.join(self.replay_dir, re.sub(r"[^A-Za-z0-9_.=-]+", "_", sig)[:120] + ".json")
            json.dump({"property": self.pid, "signature": sig, "what": what, "replay": replay}, open(fn, "w"), indent=1)
            print("VIOLATION property=%s replay=%s  (%s: %s)" % (self.pid, fn, sig, what), flush=True)
        cov = dict(self.cov)
        cov.setdefault("samples", self.samples[:8] if self.samples else ["(none recorded)"])
        if rule:
            cov["rule"] = rule
        if exhaustive is not None:
            cov["exhaustive"] = bool(exhaustive)
        if self.level == "model_checking":
            cov.setdefault("states", self.states)
            cov.setdefault("transitions", self.transitions)
            cov.setdefault("traces_validated_against_impl", cov.get("evaluations", 0))
        else:
            cov.setdefault("tlc_states", self.states)
            cov.setdefault("tlc_transitions", self.transitions)
        if extra:
            cov.update(extra)
        ev = {"property_id": self.pid, "tier": self.tier, "seed": self.seed, "level": self.level,
              "coverage": cov, "assumptions": self.assumptions, "wall_s": round(time.time() - self.t0, 2),
              "violations": len(printed), "known_findings_observed": sorted(seen_known),
              "notes": self.notes}
        # runs against a scratch copy of the repository (tools/mutate.py sets VERIF_REPO) must not overwrite the evidence
        # of the real tree, nor its replay files
        evdir = os.path.join(VERIF, "evidence") if not os.environ.get("VERIF_REPO") else os.path.join(VERIF, "work", "mutant-evidence")
        os.makedirs(evdir, exist_ok=True)
        json.dump(ev, open(os.path.join(evdir, self.pid + ".json"), "w"), indent=1)
        shutil.rmtree(self.work, ignore_errors=True)
        return 1 if printed else 0


def load_known():
    fn = os.path.join(VERIF, "known_findings.jsonl")
    out = []
    if os.path.exists(fn):
        for l in open(fn):
            l = l.strip()
            if l:
                out.append(json.loads(l))
    return out


def parse_tla(s):
    s = s.strip()
    if s.startswith('"') and s.endswith('"'):
        return s[1:-1]
    try:
        return int(s)
    except ValueError:
        return s


def read_ndjson(fn):
    return [json.loads(l) for l in open(fn) if l.strip()]


def write_ndjson(fn, recs):
    with open(fn, "w") as f:
        for r in recs:
            f.write(json.dumps(r, separators=(",", ":")) + "\n")


def shard(recs, n):
    n = max(1, min(n, len(recs)))
    out = [[] for _ in range(n)]
    for i, r in enumerate(recs):
        out[i % n].append(r)
    return out
