"""C02  No program or built-in call can crash the host process.

spec -> code (P-B): three finite domains are DECLARED in spec/CrashDomain.tla and enumerated by
TLC -- C02MCCalls (callable x positional tuple x keyword list over a pool of edge-case value
codes; the callables are discovered from the build under test), C02MCGraph (all value graphs
with <= 3 container nodes incl. every cycle x operations, with the predicted result classes)
and C02MCSrc (token sequences derived from a compact grammar, their single-token mutations,
parametrised stress shapes up to the 64 KiB limit, deep run-time data) -- and every emitted case
is executed against the real code in CHILD processes of the harness (`vh c02-run`): a Go stack
overflow or runtime fatal error kills the child, the supervisor identifies the case in flight,
and the driver re-runs it alone before reporting it.  Oracle: a value or an error within the
step budget -- never a panic, a fatal error, a budget overrun or a computation that does not
come back.
"""
import collections, json, os, re
import vlib

LEVEL = "exploration"

GROUPS = {"universe": "CUniverse", "struct": "CStruct", "json": "CJson", "math": "CMath", "time": "CTime",
          "string": "CString", "bytes": "CBytes", "list": "CList", "dict": "CDict", "set": "CSet",
          "timeval": "CTimeval", "duration": "CDuration"}
MEM_MB = 8192


# --------------------------------------------------------------------------- helpers
def tla_unquote(line):
    """text of a TLA+ string value as printed by PrintT ("...") -> python str"""
    return re.sub(r"\\(.)", lambda m: m.group(1), line[1:-1])


def meta_of(out):
    for l in out.split("\n"):
        if l.startswith('"META{'):
            return json.loads(tla_unquote(l)[4:])
    raise vlib.MachineryError("TLC printed no META record\n" + out[-3000:])


def supervise(ctx, kind, cases_file, tag, cpu_ms, stack_mb, batch, par=0, sample=0, timeout=3000, lazy_gc=False):
    out = ctx.path(tag + ".res")
    args = ["c02-run", "-kind", kind, "-in", cases_file, "-out", out, "-cpu-ms", str(cpu_ms), "-stack-mb", str(stack_mb),
            "-mem-mb", str(MEM_MB), "-batch", str(batch), "-par", str(par), "-sample", str(sample), "-lazy-gc=%s" % ("true" if lazy_gc else "false")]
    ctx.vh(args, timeout=timeout)
    recs = vlib.read_ndjson(out)
    if not recs or not recs[-1].get("summary"):
        raise vlib.MachineryError("c02-run %s did not finish" % tag)
    return recs[:-1], recs[-1]


def alone(ctx, kind, case, tag, cpu_ms, stack_mb):
    """re-execute one case alone in its own child; returns the abnormal record or None"""
    f = ctx.path(tag + ".one")
    vlib.write_ndjson(f, [case])
    recs, summ = supervise(ctx, kind, f, tag, cpu_ms, stack_mb, batch=1, par=1)
    if summ["ran"] != 1:
        raise vlib.MachineryError("confirmation run of %s did not run the case" % tag)
    ab = [r for r in recs if r.get("what")]
    return ab[0] if ab else None


def norm_msg(s):
    s = re.sub(r"0x[0-9a-f]+", "0x?", s or "")
    s = re.sub(r"\d+", "N", s)
    return s[:100]


def crash_text(ab):
    if ab["what"] == "crash":
        return "%s [%s]" % (ab.get("fatal") or ab.get("detail", ""), " <- ".join(ab.get("frames", [])[:4]))
    return ab.get("detail", "")


def is_single_huge_alloc(ab):
    """memory exhaustion by ONE huge allocation is outside the claim"""
    return ab.get("oom") and ab.get("oom_block", 0) >= (1 << 28)


class Tally:
    def __init__(self):
        self.declared = 0
        self.ran = 0
        self.evals = 0
        self.nontrivial = 0
        self.by_class = collections.Counter()
        self.children = 0

    def add(self, declared, summ):
        self.declared += declared
        self.ran += summ["ran"]
        self.evals += summ["evaluations"]
        self.nontrivial += summ["nontrivial"]
        self.children += summ["children"]
        for k, v in summ["by_class"].items():
            self.by_class[k] += v


def confirm(ctx, kind, groups, what_of, sig_of, cpu_ms, stack_mb, notes, tries=1, par=1):
    """groups: {key: [abnormal records, smallest first]}.  The first record of a group (the first
    `tries` until one reproduces) is re-run ALONE in a fresh child -- twice, with a doubled CPU limit,
    if it did not come back -- and only then reported; a case that does not reproduce is a machinery
    problem, never a violation."""
    import concurrent.futures
    items = sorted(groups.items(), key=lambda kv: str(kv[0]))

    def one(n):
        key, abs_ = items[n]
        for t, ab in enumerate(abs_[:tries]):
            tag = "confirm-%s-%d-%d" % (kind, n, t)
            r1 = alone(ctx, kind, ab["case"], tag, cpu_ms, stack_mb)
            if r1 is not None and r1["what"] == "hang":
                r1 = alone(ctx, kind, ab["case"], tag + "b", 2 * cpu_ms, stack_mb)
            if r1 is not None:
                return ab, r1
        return None
    with concurrent.futures.ThreadPoolExecutor(par) as ex:
        results = list(ex.map(one, range(len(items))))
    for (key, abs_), reproduced in zip(items, results):
        if reproduced is None:
            ab = abs_[0]
            if ab["what"] == "hang":
                notes.append("slow, not hanging (finished alone): %s" % what_of(ab))
                continue
            raise vlib.MachineryError("abnormal case does not reproduce alone (%s): %s" % (ab["what"], what_of(ab)))
        ab, r1 = reproduced
        if is_single_huge_alloc(r1):
            notes.append("outside the claim (single allocation of %d bytes): %s" % (r1["oom_block"], what_of(ab)))
            continue
        if r1.get("oom"):
            raise vlib.MachineryError("case dies of memory exhaustion under the %d MB limit: %s: %s" % (MEM_MB, what_of(ab), crash_text(r1)))
        ctx.violation(sig_of(key, ab), "%s -> %s: %s (%d cases in this class)" % (what_of(ab), r1["what"], crash_text(r1), max(1, len(abs_) - (tries - 1))),
                      {"kind": kind, "case": ab["case"], "cpu_ms": cpu_ms, "stack_mb": stack_mb})


# --------------------------------------------------------------------------- domain 1: calls
def call_text(c):
    recv = "" if c["r"] == "-" else "<%s>." % c["r"]
    grp = "" if c["g"] in ("universe", "struct") or recv else c["g"] + "."
    args = list(c["a"]) + ["%s=%s" % (k, v) for k, v in c["k"]]
    return "%s%s%s(%s)" % (grp, recv, c["n"], ", ".join(args))


def prep_calls(ctx):
    cf = ctx.path("callables.ndjson")
    ctx.vh(["c02-callables", "-out", cf])
    groups = collections.defaultdict(list)
    for c in vlib.read_ndjson(cf):
        if c["g"] not in GROUPS:
            raise vlib.MachineryError("callable group %s is unknown to spec/CrashDomain.tla" % c["g"])
        groups[c["g"]].append(c["n"])
    ncall = sum(len(v) for v in groups.values())
    cfg = "CONSTANTS\n" + "".join("  %s = {%s}\n" % (v, ", ".join('"%s"' % n for n in sorted(groups.get(k, [])))) for k, v in GROUPS.items())
    cfg += "INIT Init\nNEXT Next\nINVARIANTS TypeOK Emit\nPOSTCONDITION Post\n"
    r = ctx.tlc_ok("C02MCCalls", "C02MCCalls.cfg", cfg_text=cfg, workers=8, heap="12g", timeout=3000,
                   env={"C02_TIER": ctx.tier, "C02_SEED": ctx.seed})
    meta = meta_of(r["out"])
    pool, kw = meta["pool"], meta["kw"]
    cases_file = ctx.path("calls.ndjson")
    n = 0
    by_arity = collections.Counter()
    with open(cases_file, "w") as f:
        for l in r["out"].split("\n"):
            if not l.startswith('"C['):
                continue
            t = json.loads(tla_unquote(l)[1:])
            n += 1
            c = {"id": n, "g": t[0], "n": t[1], "r": t[2], "a": [pool[i - 1] for i in t[3]], "k": [[kw[k - 1], pool[v - 1]] for k, v in t[4]]}
            by_arity["kw" if c["k"] else "arity%d" % len(c["a"])] += 1
            f.write(json.dumps(c, separators=(",", ":")) + "\n")
    r["out"] = ""
    if n != meta["declared"]:
        raise vlib.MachineryError("TLC declared %d call cases but printed %d" % (meta["declared"], n))
    ctx.log("calls: %d callables, %d targets x %d argument forms = %d cases declared and emitted by TLC" % (ncall, meta["targets"], meta["cases"], n))
    return {"file": cases_file, "n": n, "meta": meta, "ncall": ncall, "by_arity": by_arity}


def exec_calls(ctx, pc, tally, notes):
    cases_file, n, meta, ncall, by_arity = pc["file"], pc["n"], pc["meta"], pc["ncall"], pc["by_arity"]
    pool = meta["pool"]
    recs, summ = supervise(ctx, "call", cases_file, "calls", cpu_ms=250, stack_mb=16, batch=2000, par=8, sample=max(1, n // 6), lazy_gc=True)
    if summ["ran"] != n or summ["idsum"] != n * (n + 1) // 2:
        raise vlib.MachineryError("coverage guard: %d call cases declared, harness ran %d (id checksum %d)" % (n, summ["ran"], summ["idsum"]))
    tally.add(n, summ)
    ctx.log("calls: ran %d, classes %s, %d children" % (summ["ran"], dict(summ["by_class"]), summ["children"]))
    unbounded = set(meta["unbounded"])
    groups = collections.defaultdict(list)
    for ab in recs:
        if not ab.get("what"):
            continue
        c = ab["case"]
        name = "%s.%s" % (c["g"], c["n"]) if c["g"] not in ("universe", "struct") else c["n"]
        if ab["what"] == "hang" and (unbounded & (set(c["a"]) | {v for _, v in c["k"]})):
            key = ("hang", "unbounded")
        else:
            key = (ab["what"], name, norm_msg(ab.get("fatal") or ab.get("detail")) if ab["what"] != "hang" else "")
        groups[key].append(ab)
    for key in groups:   # smallest case first: fewest arguments, then no keywords, then the pool order
        groups[key].sort(key=lambda ab: (len(ab["case"]["a"]) + len(ab["case"]["k"]), len(ab["case"]["k"]),
                                         [pool.index(a) for a in ab["case"]["a"]], ab["case"]["g"] != "universe", ab["case"]["n"], ab["case"]["r"]))

    def sig_of(key, ab):
        c = ab["case"]
        if key == ("hang", "unbounded"):
            return "hang:builtin-iterates-unbounded-range"
        args = ",".join(c["a"] + ["%s=%s" % (k, v) for k, v in c["k"]]) or "0"
        return "%s:%s/args=%s" % ("call" if key[0] != "hang" else "hang:call", key[1], args)

    def what_of(ab):
        extra = ""
        if ab["what"] == "hang" and (unbounded & set(ab["case"]["a"])):
            names = sorted({(a["case"]["n"] if a["case"]["g"] in ("universe", "struct") else a["case"]["g"] + "." + a["case"]["n"])
                            for a in groups[("hang", "unbounded")]})
            extra = " [callables that walk range(2^62) to its end without consulting the step budget: %s]" % ", ".join(names)
        return call_text(ab["case"]) + extra
    confirm(ctx, "call", groups, what_of, sig_of, cpu_ms=10000, stack_mb=64, notes=notes, par=3)
    samples = [{"call": call_text(s["case"]), "result": s["result"]["class"], "detail": s["result"].get("detail", "")} for s in recs if s.get("sample")]
    return {"callables": ncall, "targets": meta["targets"], "forms_per_target": meta["cases"], "cases": n, "by_form": dict(by_arity)}, samples


# --------------------------------------------------------------------------- domain 1b: operator forms
IXVAL = {"none": None, "i0": 0, "i1": 1, "im1": -1, "i2": 2, "im2": -2, "i5": 5, "im5": -5, "i100": 100, "im100": -100,
         "i2p31": 1 << 31, "im2p31": -(1 << 31), "i2p62": 1 << 62, "im2p62": -(1 << 62), "i2p64": 1 << 64}


def ix_value(code, n):
    if code in IXVAL:
        return IXVAL[code]
    return {"ix_len": n, "ix_lenm1": n - 1, "ix_mlen": -n, "ix_mlen1": -n - 1, "ix_mlen2": -n - 2}.get(code, "junk")


def ix_class(code, n, name):
    """position of an index relative to the length n of the receiver, as a signature fragment"""
    v = ix_value(code, n)
    if v is None:
        return ""
    if v == "junk":
        return "%s=%s" % (name, code)
    if name == "step":
        return "step=0" if v == 0 else ("step<0" if v < 0 else "step>0") + ("(huge)" if abs(v) >= 1 << 31 else "")
    if v == 0:
        return name + "=0"
    if v >= 1 << 31:
        return name + "=huge"
    if v <= -(1 << 31):
        return name + "=-huge"
    if v > 0:
        return name + ("=len" if v == n else "<len" if v < n else ">len")
    return name + (">=-len" if v >= -n else "=-len-1" if v == -n - 1 else "<-len-1")


def op_text(c):
    t = c["src"]
    for var, a in zip("xyzw", c["a"]):
        t = re.sub(r"\b%s\b" % var, "<%s>" % a, t)
    return t


def prep_ops(ctx):
    cfg = "INIT Init\nNEXT Next\nINVARIANTS TypeOK NoSymbolicReceiver Emit\nPOSTCONDITION Post\n"
    r = ctx.tlc_ok("C02MCOps", "C02MCOps.cfg", cfg_text=cfg, workers=8, heap="8g", timeout=3000, env={"C02_TIER": ctx.tier})
    meta = meta_of(r["out"])
    forms, codes = meta["forms"], meta["codes"]
    f = ctx.path("ops.ndjson")
    n = 0
    by_form = collections.Counter()
    with open(f, "w") as out:
        for l in r["out"].split("\n"):
            if l.startswith('"O['):
                fi, a = json.loads(tla_unquote(l)[1:])
                n += 1
                fm = forms[fi - 1]
                by_form[fm["dom"]] += 1
                out.write(json.dumps({"id": n, "form": fm["name"], "src": fm["src"], "stmt": fm["stmt"], "a": [codes[i - 1] for i in a]},
                                     separators=(",", ":")) + "\n")
    r["out"] = ""
    if n != meta["declared"]:
        raise vlib.MachineryError("TLC declared %d operator cases but printed %d" % (meta["declared"], n))
    ctx.log("operators: %d forms, %d cases declared and emitted by TLC" % (len(forms), n))
    return {"file": f, "n": n, "meta": meta, "by_form": dict(by_form)}


def exec_ops(ctx, po, tally, notes):
    n, meta = po["n"], po["meta"]
    codes = meta["codes"]
    kind = dict(zip(codes, meta["kinds"]))
    recs, summ = supervise(ctx, "op", po["file"], "ops", cpu_ms=500, stack_mb=16, batch=3000, par=8, sample=max(1, n // 5), lazy_gc=True)
    if summ["ran"] != n or summ["idsum"] != n * (n + 1) // 2:
        raise vlib.MachineryError("coverage guard: %d operator cases declared, harness ran %d" % (n, summ["ran"]))
    tally.add(n, summ)
    ctx.log("operators: ran %d, classes %s, %d children" % (summ["ran"], dict(summ["by_class"]), summ["children"]))
    lens = {}
    p = ctx.vh(["c02-codes", "-codes", ",".join(codes)])
    for l in p.stdout.split("\n"):
        if l.strip():
            d = json.loads(l)
            lens[d["code"]] = d["len"] if d["len"] >= 0 else 3
    unbounded = set(meta["unbounded"])
    groups = collections.defaultdict(list)
    for ab in recs:
        if not ab.get("what"):
            continue
        c = ab["case"]
        if ab["what"] == "hang" and unbounded & set(c["a"]):
            key = ("hang", "unbounded")
        else:
            key = (ab["what"], c["form"], kind.get(c["a"][0], "?"), norm_msg(ab.get("fatal") or ab.get("detail")) if ab["what"] != "hang" else "")
        groups[key].append(ab)
    ixorder = meta["ix"]

    def rank(a):     # index codes in the order the specification lists them (None, 0, 1, -1, 2, -2, len, ...), then the rest
        return ixorder.index(a) if a in ixorder else len(ixorder) + codes.index(a)
    for key in groups:   # smallest first: last operand (step) first, receivers in the order of the code list
        groups[key].sort(key=lambda ab: ([rank(a) for a in reversed(ab["case"]["a"][1:])], codes.index(ab["case"]["a"][0])))

    def sig_of(key, ab):
        c = ab["case"]
        if key == ("hang", "unbounded"):
            return "hang:operator-iterates-unbounded-range"
        if c["form"] in ("index", "slice2", "slice3"):
            nlen = lens.get(c["a"][0], 3)
            names = {"index": ["index"], "slice2": ["start", "stop"], "slice3": ["start", "stop", "step"]}[c["form"]]
            parts = [ix_class(a, nlen, nm) for a, nm in zip(c["a"][1:], names)]
            parts = [p_ for p_ in reversed(parts) if p_]          # step first, then stop, then start
            return "op:%s/%s/%s" % (c["form"].rstrip("23") if c["form"] != "index" else "index", key[2], ",".join(parts) or "defaults")
        return "op:%s/%s/args=%s" % (c["form"], ",".join(kind.get(a, "?") for a in c["a"]), ",".join(c["a"]))

    def what_of(ab):
        extra = ""
        if ab["what"] == "hang" and unbounded & set(ab["case"]["a"]):
            extra = " [forms that walk range(2^62) to its end outside the step budget: %s]" % ", ".join(sorted({a["case"]["src"] for a in groups[("hang", "unbounded")]}))
        return op_text(ab["case"]) + extra
    confirm(ctx, "op", groups, what_of, sig_of, cpu_ms=10000, stack_mb=64, notes=notes, par=3)
    samples = [{"op": op_text(s["case"]), "result": s["result"]["class"], "detail": s["result"].get("detail", "")} for s in recs if s.get("sample")]
    return {"forms": len(meta["forms"]), "cases": n, "by_domain": po["by_form"]}, samples


# --------------------------------------------------------------------------- domain 2: graphs
CORE = {"list", "dict", "tuple"}


def graph_edges(case):
    """data edges (those printing / comparison / encoding follow) of a construction history"""
    kinds = case["kinds"]
    succ = {i + 1: [] for i in range(len(kinds))}
    n = 0
    for h in case["hist"]:
        if h[0] == "new":
            n += 1
            if h[2] and kinds[n - 1] in ("tuple", "struct"):
                succ[n].append(h[2])
        elif kinds[h[1] - 1] in ("list", "dict"):
            succ[h[1]].append(h[2])
    return succ


def cycle_from(case, root):
    """kinds along a data cycle reachable from root (canonical rotation, closed), or None.  Among
    all simple cycles the one through kinds other than list/dict/tuple is preferred (those three
    print and compare with a cycle guard of their own), then the shortest."""
    succ, kinds = graph_edges(case), case["kinds"]
    seen, todo = {root}, [root]
    while todo:
        a = todo.pop()
        for b in succ[a]:
            if b not in seen:
                seen.add(b); todo.append(b)
    cycles = []

    def walk(path):
        for b in succ[path[-1]]:
            if b == path[0]:
                cycles.append(list(path))
            elif b not in path and b > path[0]:      # each simple cycle once, from its smallest node
                walk(path + [b])
    for n in sorted(seen):
        walk([n])
    ORD = ["list", "dict", "tuple", "struct", "closure", "default", "bound"]

    def canon(c):
        ks = [kinds[n - 1] for n in c]
        rots = [ks[i:] + ks[:i] for i in range(len(ks))]
        pref = [r for r in rots if r[0] in ("list", "dict")] or rots
        return min(pref, key=lambda r: [ORD.index(k) for k in r])
    if not cycles:
        return None
    best = min((canon(c) for c in cycles), key=lambda ks: (0 if set(ks) - CORE else 1, len(ks), [ORD.index(k) for k in ks]))
    return best + [best[0]]


def graph_text(case):
    src, n = [], 0
    for h in case["hist"]:
        if h[0] == "new":
            n += 1
            c = "n%d" % h[2] if h[2] else "0"
            src.append({"list": "n%d=[0]", "dict": "n%d={'a':0}", "closure": "def n%d(): return c%d"}.get(h[1], "").replace("%d", str(n)) or
                       {"tuple": "n%d=(%s,1)", "struct": "n%d=struct(f=%s)", "default": "def n%d(p=%s): return p", "bound": "n%d=%s.method"}[h[1]] % (n, c))
        else:
            k = case["kinds"][h[1] - 1]
            src.append({"list": "n%d.append(n%d)", "dict": "n%d['e']=n%d", "closure": "c%d=n%d"}[k] % (h[1], h[2]))
    return "; ".join(src)


ALLKINDS = ["list", "dict", "closure", "tuple", "struct", "default", "bound"]


def prep_graphs(ctx):
    nodes, edges = (3, 1) if ctx.quick else (3, 3)
    # two runs of the same module: every kind with few later edges, and the ORDERED kinds (lists and tuples: the operands of
    # <, sorted) with three later edges, where two cyclic nodes of different lengths exist
    runs = [("all", ALLKINDS, nodes, edges)] + ([("ordered", ["list", "tuple"], 3, 3)] if ctx.quick else [])
    f = ctx.path("graphs.ndjson")
    n = evals = cyc = 0
    seen = set()
    with open(f, "w") as out:
        for tag, kinds, nn, ee in runs:
            cfg = ("CONSTANTS\n  MaxNodes = %d\n  MaxEdges = %d\n  KindFilter = {%s}\nINIT Init\nNEXT Next\nINVARIANTS TypeOK CyclesNeedLate Emit\nPOSTCONDITION Post\n"
                   % (nn, ee, ", ".join('"%s"' % k for k in kinds)))
            r = ctx.tlc_ok("C02MCGraph", "C02MCGraph-%s.cfg" % tag, cfg_text=cfg, workers=8, heap="8g", timeout=3000)
            meta = meta_of(r["out"])
            k0 = n
            for l in r["out"].split("\n"):
                if l.startswith('"G{'):
                    g = json.loads(tla_unquote(l)[1:])
                    key = json.dumps(g["hist"])
                    if key in seen:
                        continue
                    seen.add(key)
                    n += 1
                    g["id"] = n
                    evals += len(g["kinds"]) * len(g["ops"])
                    cyc += g["cyc"]
                    out.write(json.dumps(g, separators=(",", ":")) + "\n")
            r["out"] = ""
            if n - k0 < 100:
                raise vlib.MachineryError("graph emission incomplete (%s: %d)" % (tag, n - k0))
            ctx.log("graphs (%s kinds): <=%d nodes, <=%d later edges: %d TLC states, %d new constructions" % (tag, nn, ee, meta["distinct"], n - k0))
    ctx.log("graphs: %d constructions (%d cyclic) x nodes x %d ops = %d evaluations declared" % (n, cyc, len(meta["ops"]), evals))
    return {"file": f, "n": n, "evals": evals, "cyclic": cyc, "nodes": nodes, "edges": edges, "ops": meta["ops"]}


def exec_graphs(ctx, g, tally, notes):
    n = g["n"]
    recs, summ = supervise(ctx, "graph", g["file"], "graphs", cpu_ms=5000, stack_mb=1, batch=250, par=6, sample=max(1, n // 4))
    if summ["ran"] != n or summ["idsum"] != n * (n + 1) // 2:
        raise vlib.MachineryError("coverage guard: %d graphs declared, harness ran %d" % (n, summ["ran"]))
    tally.add(n, summ)
    ctx.log("graphs: ran %d, %d evaluations, classes %s, %d children" % (summ["ran"], summ["evaluations"], dict(summ["by_class"]), summ["children"]))
    mism = [r for r in recs if r.get("what") == "mismatch"]
    if mism:
        raise vlib.MachineryError("%d graphs: the result class predicted by C02MCGraph!Pred differs from the observed one, e.g. %s | %s"
                                  % (len(mism), mism[0]["detail"][:300], graph_text(mism[0]["case"])))
    groups = collections.defaultdict(list)
    for ab in recs:
        if ab.get("what") not in ("crash", "hang", "panic"):
            continue
        case = ab["case"]
        if ab["what"] == "panic":      # recovered inside the child: "root R op OP: text"
            m = re.match(r"root (\d+) op (\w+): (.*)", ab["detail"])
            root, op = int(m.group(1)), m.group(2)
        else:
            root, op = ab.get("at", "0 ?").split(" ")
            root = int(root)
        cyc = cycle_from(case, root) if root else None
        culprit = tuple(sorted(set(cyc) - CORE)) if cyc else ()
        ab["_root"], ab["_op"], ab["_cyc"] = root, op, cyc
        groups[(ab["what"], op, culprit or tuple(sorted(set(cyc or case["kinds"]))))].append(ab)
    KORD = ["list", "dict", "closure", "tuple", "struct", "default", "bound"]

    def size(ab):   # independent of case ids: the same smallest graph in every tier and seed
        c = ab["case"]
        return (len(c["kinds"]), len(c["hist"]), len(ab["_cyc"] or []), [KORD.index(k) for k in c["kinds"]], json.dumps(c["hist"]), ab["_root"])
    smallest = {}
    for key, abs_ in groups.items():
        abs_.sort(key=size)
        if key[2] not in smallest or size(abs_[0]) < size(smallest[key[2]]):
            smallest[key[2]] = abs_[0]
    # A fatal crash ends its case, so which operation is seen crashing first depends on the order of
    # the operations.  To report the same signatures in every run, the SMALLEST graph of every defect
    # class is probed with every operation on every node, each pair alone in its own child.
    import concurrent.futures
    probes = [(cls, r, op) for cls in sorted(smallest) for r in range(1, len(smallest[cls]["case"]["kinds"]) + 1) for op in g["ops"]]

    def probe(a):
        cls, r, op = a
        base = smallest[cls]["case"]
        case = dict({k: v for k, v in base.items() if k != "only"}, only=[r, op])
        return alone(ctx, "graph", case, "probe-%s-%d-%s" % ("+".join(cls), r, op), 60000, 64)
    with concurrent.futures.ThreadPoolExecutor(6) as ex:
        probed = list(ex.map(probe, probes))
    found = set()
    for (cls, r, op), r1 in zip(probes, probed):
        if r1 is None or r1["what"] not in ("crash", "hang", "panic"):
            continue
        base = smallest[cls]["case"]
        cyc = cycle_from(base, r)
        case = dict({k: v for k, v in base.items() if k != "only"}, only=[r, op])
        if (cls, op) not in found:
            found.add((cls, op))
            nclass = sum(len(v) for k, v in groups.items() if k[2] == cls)
            ctx.violation("graph:%s/op=%s" % (">".join(cyc) if cyc else "acyclic:" + "+".join(base["kinds"]), op),
                          "%s; %s(n%d) -> %s: %s (%d graphs of this class died in the batch run)" % (graph_text(base), op, r, r1["what"], crash_text(r1), nclass),
                          {"kind": "graph", "case": case, "cpu_ms": 60000, "stack_mb": 64})
    # operations that only fail on larger graphs of a class: confirm the smallest such graph
    rest = {}
    for key, abs_ in groups.items():
        if (key[2], key[1]) in found:
            continue
        ab = abs_[0]
        ab["case"] = dict(ab["case"], only=[ab["_root"], ab["_op"]])
        rest[key] = abs_

    def sig_of(key, ab):
        shape = ">".join(ab["_cyc"]) if ab["_cyc"] else "acyclic:" + "+".join(ab["case"]["kinds"])
        return "graph:%s/op=%s" % (shape, ab["_op"])

    def what_of(ab):
        return "%s; %s(n%d)" % (graph_text(ab["case"]), ab["_op"], ab["_root"])
    confirm(ctx, "graph", rest, what_of, sig_of, cpu_ms=60000, stack_mb=64, notes=notes, par=3)
    samples = [{"graph": graph_text(s["case"]), "predicted": s["case"]["pred"], "observed": s["result"]["extra"]["got"]} for s in recs if s.get("sample")]
    return {"max_nodes": g["nodes"], "max_late_edges": g["edges"], "graphs": n, "cyclic_graphs": g["cyclic"], "ops": g["ops"],
            "evaluations_declared": g["evals"], "evaluations_run": summ["evaluations"]}, samples


# --------------------------------------------------------------------------- domain 3: sources
def prep_src(ctx):
    budget, mutmod = (2, 4) if ctx.quick else (3, 32)
    cfg = "CONSTANTS\n  Budget = %d\n  MutMod = %d\nINIT Init\nNEXT Next\nINVARIANTS TypeOK Emit\nPOSTCONDITION Post\n" % (budget, mutmod)
    r = ctx.tlc_ok("C02MCSrc", "C02MCSrc.cfg", cfg_text=cfg, workers=8, heap="12g", timeout=3000,
                   env={"C02_TIER": ctx.tier, "C02_SEED": ctx.seed})
    meta = meta_of(r["out"])
    ft, fs, fd = ctx.path("toks.ndjson"), ctx.path("shapes.ndjson"), ctx.path("deep.ndjson")
    n = nt = nm = ns = nd = runs = 0
    seen = set()
    with open(ft, "w") as ot, open(fs, "w") as os_, open(fd, "w") as od:
        for l in r["out"].split("\n"):
            if l.startswith('"T{'):
                d = json.loads(tla_unquote(l)[1:])
                key = " ".join(d["toks"])
                if key in seen:      # the grammar is ambiguous in a few places: one text, one case
                    continue
                seen.add(key)
                n += 1
                d.update(id=n, kind="toks", steps=10000)
                nt += 1
                nm += d["mut"]
                runs += len(d["opts"])
                ot.write(json.dumps(d, separators=(",", ":")) + "\n")
            elif l.startswith('"S{'):
                d = json.loads(tla_unquote(l)[1:])
                n += 1
                d["id"] = n
                runs += len(d["opts"])
                if d["kind"] == "text":
                    nd += 1
                    od.write(json.dumps(d, separators=(",", ":")) + "\n")
                else:
                    ns += 1
                    os_.write(json.dumps(d, separators=(",", ":")) + "\n")
    r["out"] = ""
    if ns + nd != meta["shapes"]:
        raise vlib.MachineryError("TLC declared %d shape cases but printed %d" % (meta["shapes"], ns + nd))
    ctx.log("sources: budget %d: %d token sequences (%d valid programs, %d mutants), %d shape cases, %d deep-data cases; %d runs declared"
            % (budget, nt, nt - nm, nm, ns, nd, runs))
    return {"toks": ft, "shapes": fs, "deep": fd, "n": n, "nt": nt, "nm": nm, "ns": ns, "nd": nd, "runs": runs, "budget": budget, "mutmod": mutmod}


def exec_src(ctx, s, tally, notes):
    parts = [("deep", s["deep"], s["nd"], dict(cpu_ms=900000, stack_mb=0, batch=1, par=6, sample=0)),
             ("shapes", s["shapes"], s["ns"], dict(cpu_ms=120000, stack_mb=0, batch=6, par=6, sample=0)),
             ("toks", s["toks"], s["nt"], dict(cpu_ms=10000, stack_mb=64, batch=1000, par=6, sample=max(1, s["n"] // 3)))]
    groups = collections.defaultdict(list)
    samples, evals = [], 0
    classes = collections.Counter()
    import concurrent.futures

    def part(a):
        tag, f, cnt, kw = a
        return supervise(ctx, "src", f, "src-" + tag, timeout=6000, **kw) if cnt else ([], None)
    with concurrent.futures.ThreadPoolExecutor(3) as ex:     # the long deep-data cases run beside the many small ones
        results = list(ex.map(part, parts))
    for (tag, f, cnt, kw), (recs, summ) in zip(parts, results):
        if cnt == 0:
            continue
        if summ["ran"] != cnt:
            raise vlib.MachineryError("coverage guard: %d %s cases declared, harness ran %d" % (cnt, tag, summ["ran"]))
        tally.add(cnt, summ)
        evals += summ["evaluations"]
        classes.update(summ["by_class"])
        ctx.log("sources/%s: ran %d cases, %d runs, classes %s, %d children" % (tag, summ["ran"], summ["evaluations"], dict(summ["by_class"]), summ["children"]))
        for ab in recs:
            if ab.get("sample"):
                c = ab["case"]
                samples.append({"source": " ".join(c["toks"]) if c["kind"] == "toks" else "%s d=%d" % (c["name"], c["d"]),
                                "runs": ab["result"]["extra"]["runs"][:2]})
            if ab.get("what") not in ("crash", "hang", "panic", "bad", "overrun"):
                continue
            c = ab["case"]
            if c["kind"] == "toks":
                key = (ab["what"], "tokens", norm_msg(ab.get("fatal") or ab.get("detail")))
            else:
                key = (ab["what"], c["name"], "")
            groups[key].append(ab)
    if evals != s["runs"] and not groups:
        raise vlib.MachineryError("coverage guard: %d runs declared, %d performed" % (s["runs"], evals))
    for key in groups:
        groups[key].sort(key=lambda ab: (ab["case"].get("d", 0), len(ab["case"].get("toks", [])), ab["id"]))

    def sig_of(key, ab):
        c = ab["case"]
        if c["kind"] == "toks":
            return "src:tokens/%s:%s" % (key[0], key[2][:60])
        return "src:%s/d=%d" % (c["name"], c["d"])

    def what_of(ab):
        c = ab["case"]
        if c["kind"] == "toks":
            return "tokens [%s] under options %s" % (" ".join(c["toks"]), c["opts"])
        if c["kind"] == "text":
            return "program %r (budget %d steps)" % (c["head"].split("return v\n")[-1], c["steps"])
        return "shape %s at depth %d (%d bytes)" % (c["name"], c["d"], c["len"])
    # confirmation with the default 1 GB goroutine stack
    small = {k: v for k, v in groups.items() if v[0]["case"]["kind"] == "toks"}
    large = {k: v for k, v in groups.items() if v[0]["case"]["kind"] != "toks"}
    confirm(ctx, "src", small, what_of, sig_of, cpu_ms=20000, stack_mb=0, notes=notes, par=3)
    confirm(ctx, "src", large, what_of, sig_of, cpu_ms=900000, stack_mb=0, notes=notes, par=4)
    return {"derivation_budget": s["budget"], "mutate_every": s["mutmod"], "token_sequences": s["nt"], "valid_programs": s["nt"] - s["nm"],
            "mutants": s["nm"], "shape_cases": s["ns"], "deep_data_cases": s["nd"], "runs_declared": s["runs"], "runs": evals,
            "by_class": dict(classes)}, samples


# --------------------------------------------------------------------------- driver
def run(ctx):
    import concurrent.futures
    tally, notes = Tally(), []
    per, samples = {}, []
    ctx.build()
    with concurrent.futures.ThreadPoolExecutor(4) as ex:
        # TLC runs one at a time (parallel JVMs are slow here); the harness runs overlap with them
        srcs = prep_src(ctx)
        f3 = ex.submit(exec_src, ctx, srcs, tally, notes)
        calls = prep_calls(ctx)
        f1 = ex.submit(exec_calls, ctx, calls, tally, notes)
        ops = prep_ops(ctx)
        f4 = ex.submit(exec_ops, ctx, ops, tally, notes)
        graphs = prep_graphs(ctx)
        f2 = ex.submit(exec_graphs, ctx, graphs, tally, notes)
        for name, f in (("calls", f1), ("operators", f4), ("graphs", f2), ("sources", f3)):
            per[name], s = f.result()
            samples += s[:3]
    ctx.notes += notes
    ctx.cov.update({"evaluations": tally.evals, "distinct_nontrivial": tally.nontrivial, "cases_declared_by_tlc": tally.declared,
                    "cases_run": tally.ran, "traces_validated_against_impl": tally.ran, "by_class": dict(tally.by_class),
                    "child_processes": tally.children, "domains": per})
    ctx.samples = samples
    ctx.assumptions = [
        "every case runs in a child process under an address-space limit of %d MB; a case that dies of ONE allocation >= 256 MB is outside the claim and only noted" % MEM_MB,
        "calls, graphs and token sequences run with a reduced goroutine stack (16 MB / 1 MB / 64 MB) so that unbounded recursion fails fast; every crash is re-run alone with a 64 MB stack (sources: Go's default 1 GB) before it is reported",
        "a case that exceeds its CPU limit is re-run alone twice with 10 s / 20 s of CPU (sources: 15 / 30 min) before it counts as not returning; range(2^62) stands for values whose complete iteration is infeasible",
        "host values of the pool honour the Value/Iterable contracts (a host value that lies about Len is a host bug, not covered)",
        "arbitrary byte strings that are not derived from the grammar model or a declared shape are not explored (fuzzing is a different technique)"]
    return ctx.finish(rule="TLC enumerates (1b) every operator form (index, slices, binary/unary/augmented operators, attribute and assignment forms) x operand tuples: x[i:j:k] over receivers x 20^3 index codes incl. len-relative ones, all ordered pairs for binary operators; (1) target x argument forms: arity 0-2 exhaustive over the pool (quick: arity 2 over the 11-value sub-pool), thorough also arity 3 by a "
                           "pairwise-covering array over 23 values; keyword forms; (2) all constructions of value graphs with <= 3 nodes and <= 1 (quick) / 3 later edges x every "
                           "node x 17 operations; (3) all leftmost derivations of the compact grammar within the budget, single-token mutations of a seeded "
                           "subset, every stress shape at depths 2^k and at the 64 KiB limit, deep run-time data. distinct_nontrivial = cases that reach the code "
                           "under test (a call that gets past argument binding, a cyclic graph whose cycle is traversed, a source that executes >= 1 step)",
                      exhaustive=False)


def replay(ctx, path):
    d = json.load(open(path))["replay"]
    ab = alone(ctx, d["kind"], d["case"], "replay", d.get("cpu_ms", 20000), d.get("stack_mb", 64))
    print("replay %s: %s" % (path, "still fails: %s %s" % (ab["what"], crash_text(ab)) if ab else "passes"))
    return 1 if ab else 0
