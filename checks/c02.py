"""C02  No program or built-in call can crash the host process.

spec -> code (P-B): three finite domains are DECLARED in spec/CrashDomain.tla and enumerated by
TLC -- C02MCCalls (callable x positional tuple x keyword list over a pool of edge-case value
codes; the callables are discovered from the build under test), C02MCGraph (all value graphs
with <= 3 container nodes incl. every cycle x operations, with the predicted result classes)
and C02MCSrc (token sequences derived from a compact grammar, their single-token mutations,
parametrised stress shapes up to the 64 KiB limit, deep run-time data) -- and every emitted case
is executed against the real code in CHILD processes of the harness (`vh c02-run`): a Go stack
overflow or runtime fatal error kills the child, the supervisor identifies the case in flight,
and the driver re-runs it alone before reporting it.  Oracle: a value or an error within the
step budget -- never a panic, a fatal error, a budget overrun or a computation that does not
come back.
"""
import collections, json, os, re
import vlib

LEVEL = "exploration"

GROUPS = {"universe": "CUniverse", "struct": "CStruct", "json": "CJson", "math": "CMath", "time": "CTime",
          "string": "CString", "bytes": "CBytes", "list": "CList", "dict": "CDict", "set": "CSet",
          "timeval": "CTimeval", "duration": "CDuration"}
MEM_MB = 8192


# --------------------------------------------------------------------------- helpers
def tla_unquote(line):
    """text of a TLA+ string value as printed by PrintT ("...") -> python str"""
    return re.sub(r"\\(.)", lambda m: m.group(1), line[1:-1])


def meta_of(out):
    for l in out.split("\n"):
        if l.startswith('"META{'):
            return json.loads(tla_unquote(l)[4:])
    raise vlib.MachineryError("TLC printed no META record\n" + out[-3000:])


def supervise(ctx, kind, cases_file, tag, cpu_ms, stack_mb, batch, par=0, sample=0, timeout=3000):
    out = ctx.path(tag + ".res")
    args = ["c02-run", "-kind", kind, "-in", cases_file, "-out", out, "-cpu-ms", str(cpu_ms), "-stack-mb", str(stack_mb),
            "-mem-mb", str(MEM_MB), "-batch", str(batch), "-par", str(par), "-sample", str(sample)]
    ctx.vh(args, timeout=timeout)
    recs = vlib.read_ndjson(out)
    if not recs or not recs[-1].get("summary"):
        raise vlib.MachineryError("c02-run %s did not finish" % tag)
    return recs[:-1], recs[-1]


def alone(ctx, kind, case, tag, cpu_ms, stack_mb):
    """re-execute one case alone in its own child; returns the abnormal record or None"""
    f = ctx.path(tag + ".one")
    vlib.write_ndjson(f, [case])
    recs, summ = supervise(ctx, kind, f, tag, cpu_ms, stack_mb, batch=1, par=1)
    if summ["ran"] != 1:
        raise vlib.MachineryError("confirmation run of %s did not run the case" % tag)
    ab = [r for r in recs if r.get("what")]
    return ab[0] if ab else None


def norm_msg(s):
    s = re.sub(r"0x[0-9a-f]+", "0x?", s or "")
    s = re.sub(r"\d+", "N", s)
    return s[:100]


def crash_text(ab):
    if ab["what"] == "crash":
        return "%s [%s]" % (ab.get("fatal") or ab.get("detail", ""), " <- ".join(ab.get("frames", [])[:4]))
    return ab.get("detail", "")


def is_single_huge_alloc(ab):
    """memory exhaustion by ONE huge allocation is outside the claim"""
    return ab.get("oom") and ab.get("oom_block", 0) >= (1 << 28)


class Tally:
    def __init__(self):
        self.declared = 0
        self.ran = 0
        self.evals = 0
        self.nontrivial = 0
        self.by_class = collections.Counter()
        self.children = 0

    def add(self, declared, summ):
        self.declared += declared
        self.ran += summ["ran"]
        self.evals += summ["evaluations"]
        self.nontrivial += summ["nontrivial"]
        self.children += summ["children"]
        for k, v in summ["by_class"].items():
            self.by_class[k] += v


def confirm(ctx, kind, groups, what_of, sig_of, cpu_ms, stack_mb, notes):
    """groups: {key: [abnormal records]} -> re-run the smallest case of each group alone (twice for
    hangs, with a large limit); report reproduced ones, raise on irreproducible ones."""
    for n, (key, abs_) in enumerate(sorted(groups.items(), key=lambda kv: str(kv[0]))):
        ab = abs_[0]
        case = ab["case"]
        tag = "confirm-%s-%d" % (kind, n)
        r1 = alone(ctx, kind, case, tag, cpu_ms, stack_mb)
        if ab["what"] == "hang" and r1 is not None and r1["what"] == "hang":
            r1 = alone(ctx, kind, case, tag + "b", 2 * cpu_ms, stack_mb)
        if r1 is None:
            if ab["what"] == "hang":
                notes.append("slow, not hanging (finished alone): %s" % what_of(ab))
                continue
            raise vlib.MachineryError("abnormal case does not reproduce alone (%s): %s" % (ab["what"], what_of(ab)))
        if is_single_huge_alloc(r1):
            notes.append("outside the claim (single allocation of %d bytes): %s" % (r1["oom_block"], what_of(ab)))
            continue
        if r1.get("oom"):
            raise vlib.MachineryError("case dies of memory exhaustion under the %d MB limit: %s: %s" % (MEM_MB, what_of(ab), crash_text(r1)))
        ctx.violation(sig_of(key, ab), "%s -> %s: %s (%d cases in this class)" % (what_of(ab), r1["what"], crash_text(r1), len(abs_)),
                      {"kind": kind, "case": case, "cpu_ms": cpu_ms, "stack_mb": stack_mb})


# --------------------------------------------------------------------------- domain 1: calls
def call_text(c):
    recv = "" if c["r"] == "-" else "<%s>." % c["r"]
    grp = "" if c["g"] in ("universe", "struct") or recv else c["g"] + "."
    args = list(c["a"]) + ["%s=%s" % (k, v) for k, v in c["k"]]
    return "%s%s%s(%s)" % (grp, recv, c["n"], ", ".join(args))


def run_calls(ctx, tally, notes):
    cf = ctx.path("callables.ndjson")
    ctx.vh(["c02-callables", "-out", cf])
    groups = collections.defaultdict(list)
    for c in vlib.read_ndjson(cf):
        if c["g"] not in GROUPS:
            raise vlib.MachineryError("callable group %s is unknown to spec/CrashDomain.tla" % c["g"])
        groups[c["g"]].append(c["n"])
    ncall = sum(len(v) for v in groups.values())
    cfg = "CONSTANTS\n" + "".join("  %s = {%s}\n" % (v, ", ".join('"%s"' % n for n in sorted(groups.get(k, [])))) for k, v in GROUPS.items())
    cfg += "INIT Init\nNEXT Next\nINVARIANTS TypeOK Emit\nPOSTCONDITION Post\n"
    r = ctx.tlc_ok("C02MCCalls", "C02MCCalls.cfg", cfg_text=cfg, workers=8, heap="12g", timeout=3000,
                   env={"C02_TIER": ctx.tier, "C02_SEED": ctx.seed})
    meta = meta_of(r["out"])
    pool, kw = meta["pool"], meta["kw"]
    cases_file = ctx.path("calls.ndjson")
    n = 0
    by_arity = collections.Counter()
    with open(cases_file, "w") as f:
        for l in r["out"].split("\n"):
            if not l.startswith('<<"C", '):
                continue
            t = json.loads(l.replace("<<", "[").replace(">>", "]"))
            n += 1
            c = {"id": n, "g": t[1], "n": t[2], "r": t[3], "a": [pool[i - 1] for i in t[4]], "k": [[kw[k - 1], pool[v - 1]] for k, v in t[5]]}
            by_arity["kw" if c["k"] else "arity%d" % len(c["a"])] += 1
            f.write(json.dumps(c, separators=(",", ":")) + "\n")
    r["out"] = ""
    if n != meta["declared"]:
        raise vlib.MachineryError("TLC declared %d call cases but printed %d" % (meta["declared"], n))
    ctx.log("calls: %d callables, %d targets x %d argument forms = %d cases declared and emitted by TLC" % (ncall, meta["targets"], meta["cases"], n))
    recs, summ = supervise(ctx, "call", cases_file, "calls", cpu_ms=400, stack_mb=16, batch=2000, sample=max(1, n // 6))
    if summ["ran"] != n or summ["idsum"] != n * (n + 1) // 2:
        raise vlib.MachineryError("coverage guard: %d call cases declared, harness ran %d (id checksum %d)" % (n, summ["ran"], summ["idsum"]))
    tally.add(n, summ)
    ctx.log("calls: ran %d, classes %s, %d children" % (summ["ran"], dict(summ["by_class"]), summ["children"]))
    unbounded = set(meta["unbounded"])
    groups = collections.defaultdict(list)
    for ab in recs:
        if not ab.get("what"):
            continue
        c = ab["case"]
        name = "%s.%s" % (c["g"], c["n"]) if c["g"] not in ("universe", "struct") else c["n"]
        if ab["what"] == "hang" and (unbounded & (set(c["a"]) | {v for _, v in c["k"]})):
            key = ("hang", "unbounded")
        else:
            key = (ab["what"], name, norm_msg(ab.get("fatal") or ab.get("detail")) if ab["what"] != "hang" else "")
        groups[key].append(ab)
    for key in groups:   # smallest case first: fewest arguments, then no keywords, then the pool order
        groups[key].sort(key=lambda ab: (len(ab["case"]["a"]) + len(ab["case"]["k"]), len(ab["case"]["k"]),
                                         [pool.index(a) for a in ab["case"]["a"]], ab["id"]))

    def sig_of(key, ab):
        c = ab["case"]
        if key == ("hang", "unbounded"):
            return "hang:builtin-iterates-unbounded-range"
        args = ",".join(c["a"] + ["%s=%s" % (k, v) for k, v in c["k"]]) or "0"
        return "%s:%s/args=%s" % ("call" if key[0] != "hang" else "hang:call", key[1], args)

    def what_of(ab):
        extra = ""
        if ab["what"] == "hang" and (unbounded & set(ab["case"]["a"])):
            names = sorted({(a["case"]["n"] if a["case"]["g"] in ("universe", "struct") else a["case"]["g"] + "." + a["case"]["n"])
                            for a in groups[("hang", "unbounded")]})
            extra = " [callables that walk range(2^62) to its end without consulting the step budget: %s]" % ", ".join(names)
        return call_text(ab["case"]) + extra
    confirm(ctx, "call", groups, what_of, sig_of, cpu_ms=20000, stack_mb=64, notes=notes)
    samples = [{"call": call_text(s["case"]), "result": s["result"]["class"], "detail": s["result"].get("detail", "")} for s in recs if s.get("sample")]
    return {"callables": ncall, "targets": meta["targets"], "forms_per_target": meta["cases"], "cases": n, "by_form": dict(by_arity)}, samples


# --------------------------------------------------------------------------- driver
def run(ctx):
    tally, notes = Tally(), []
    per, samples = {}, []
    per["calls"], s = run_calls(ctx, tally, notes)
    samples += s[:3]
    ctx.notes += notes
    ctx.cov.update({"evaluations": tally.evals, "distinct_nontrivial": tally.nontrivial, "cases_declared_by_tlc": tally.declared,
                    "cases_run": tally.ran, "traces_validated_against_impl": tally.ran, "by_class": dict(tally.by_class),
                    "child_processes": tally.children, "domains": per})
    ctx.samples = samples
    return ctx.finish(rule="see domains", exhaustive=False)


def replay(ctx, path):
    d = json.load(open(path))["replay"]
    ab = alone(ctx, d["kind"], d["case"], "replay", d.get("cpu_ms", 20000), d.get("stack_mb", 64))
    print("replay %s: %s" % (path, "still fails: %s %s" % (ab["what"], crash_text(ab)) if ab else "passes"))
    return 1 if ab else 0
