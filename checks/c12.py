"""C12  dict and set behave as insertion-ordered maps under every operation history.

(1) design check: the concrete hash table refines the abstract ordered map (scaled-down
    constants so that chain overflow and growth are reachable), spec/C12MC.tla;
(2) transition cover, spec -> code: TLC explores the product (abstract x concrete with the real
    constants) over the property's universe and emits every transition with a shortest path;
    `vh c12-replay` replays each on the real dict/set through the Go API and through Starlark
    methods/operators with host keys whose hashes the model dictates;
(3) literal quantifier, code -> spec: every operation sequence of length <= L over the reduced
    alphabet is executed on the real dict and set and validated by TLC (C12Trace);
(4) long random histories with adversarial hash distributions (growth, chain overflow), logged by
    the harness and validated by TLC against the abstract module (C12Trace).
"""
import json, os, re, subprocess, random
import vlib

LEVEL = "model_checking"

OPNAMES = {1: "ins", 2: "pop", 3: "pop-default", 4: "popitem", 5: "setdefault", 6: "update", 7: "clear", 8: "get", 9: "union",
           11: "add", 12: "discard", 13: "remove", 14: "set.pop", 15: "set.update", 16: "has", 17: "union", 18: "intersection",
           19: "difference", 20: "symmetric_difference", 21: "issubset", 22: "issuperset"}


def write_cfg(ctx, name, mode, nk, hsel, bucket, ln, ld, emit):
    cfg = ["CONSTANTS", '  Mode = "%s"' % mode, "  NK = %d" % nk, "  HSel = %d" % hsel, "  BucketSize = %d" % bucket,
           "  LoadNum = %d" % ln, "  LoadDen = %d" % ld, "INIT Init", "NEXT Next", "VIEW View",
           "INVARIANTS Refines TableOK NoDupKeys"]
    if emit:
        cfg.append("ACTION_CONSTRAINT Emit")
    return "\n".join(cfg) + "\n"


def edge_cover(ctx, mode, nk, hsel):
    cfg = "C12MC_%s_gen.cfg" % mode
    r = ctx.tlc("C12MC", cfg, workers=8, timeout=3000, heap="8g", tag="cover-" + mode,
                cfg_text=write_cfg(ctx, cfg, mode, nk, hsel, 8, 13, 2, True))
    if r["error"] or r["violated"] or r["rc"] != 0:
        raise vlib.MachineryError("C12MC %s failed:\n%s" % (mode, r["out"][-3000:]))
    ctx.states += r["states"]
    ctx.transitions += r["transitions"]
    operands = None
    efile = ctx.path("edges-%s.ndjson" % mode)
    n = 0
    with open(efile, "w") as f:
        for l in r["out"].split("\n"):
            if l.startswith('"E['):
                f.write(l[2:-1] + "\n")
                n += 1
            elif l.startswith('"OPERANDS'):
                operands = l[len('"OPERANDS'):-1]
    if operands is None or n != r["transitions"] - 1:
        raise vlib.MachineryError("edge emission incomplete: %d edges, %d transitions" % (n, r["transitions"]))
    out = ctx.path("mismatch-%s.ndjson" % mode)
    p = ctx.vh(["c12-replay", "-mode", mode, "-in", efile, "-out", out, "-operands", operands], timeout=3000)
    m = re.search(r"replayed (\d+) edges, (\d+) steps", p.stderr)
    if not m or int(m.group(1)) != n:
        raise vlib.MachineryError("replay incomplete: %s" % p.stderr[-500:])
    mism = vlib.read_ndjson(out)
    ctx.log("%s: %d states, %d edges replayed (%s steps) on 2 routes, %d mismatches" % (mode, r["states"], n, m.group(2), len(mism)))
    sample = open(efile).readline().strip()
    return n, int(m.group(2)), mism, operands, sample


def run(ctx):
    # (1) design check with scaled-down constants (overflow and growth reachable)
    nk_small = 4 if ctx.quick else 5
    r = ctx.tlc_ok("C12MC", "C12MC_small_gen.cfg", workers=8, timeout=3000, heap="8g",
                   cfg_text=write_cfg(ctx, "", "dict", nk_small, 2, 2, 3, 2, False))
    ctx.log("design check (BucketSize=2, %d keys): %d states, %d transitions: refinement and table invariants hold" % (nk_small, r["states"], r["transitions"]))
    design_states = r["states"]

    # (2) transition cover replayed on the real code
    total_edges = total_steps = 0
    # (5 keys with path emission is 3.6M transitions with their paths: it did not finish in 50 min;
    # thorough therefore covers both hash assignments at 4 keys instead)
    nk = 4
    for mode, hsel in [("dict", 1), ("set", 1)] + ([] if ctx.quick else [("dict", 2), ("set", 2)]):
        n, steps, mism, operands, sample = edge_cover(ctx, mode, nk, hsel)
        total_edges += n
        total_steps += steps
        ctx.samples.append({"mode": mode, "edge [path, state after, result]": json.loads(sample)})
        seen = set()
        for mm in mism:
            edge = json.loads(mm["edge"]) if isinstance(mm["edge"], str) else mm["edge"]
            last = edge[0][-1]
            what = mm["what"].split(":")[0]
            sig = "%s:%s/%s/%s" % (mode, OPNAMES.get(last[0], last[0]), mm["route"], what)
            if sig in seen or any(v[0] == sig for v in ctx.violations):
                continue
            seen.add(sig)
            # re-execute this edge alone
            one = ctx.path("one.ndjson")
            open(one, "w").write(json.dumps(edge) + "\n")
            out1 = ctx.path("one.out")
            ctx.vh(["c12-replay", "-mode", mode, "-in", one, "-out", out1, "-operands", operands])
            again = [x for x in vlib.read_ndjson(out1) if x["route"] == mm["route"]]
            if not again:
                raise vlib.MachineryError("mismatch not reproducible: %s" % json.dumps(mm)[:300])
            ctx.violation(sig, "after path %s the model expects state %s result %s; real %s gives %s (%s)" % (
                edge[0], edge[1], edge[2], mode, json.dumps(mm.get("observed")), mm["what"]),
                {"mode": mode, "edge": edge, "operands": operands, "route": mm["route"]})

    # (3) literal quantifier: all operation sequences of length L over the reduced alphabet (code -> spec)
    nseq = nbadseq = 0
    plans = [(4, 1.0)] if ctx.quick else [(5, 1.0), (7, 0.004)]
    for L, frac in plans:
        f = ctx.path("seqs%d.ndjson" % L)
        p = ctx.vh(["c12-seqs", "-L", str(L), "-out", f, "-sample", str(frac)], timeout=3000)
        recs = vlib.read_ndjson(f)
        for r in [r for r in recs if r.get("panic")][:5]:
            ctx.violation("seq:%s/panic" % ("set" if r["set"] else "dict"),
                          "the %s panics during the operation sequence %s: %s" % ("set" if r["set"] else "dict", r["ops"], r["panic"][:200]), {"seq": r})
        recs = [r for r in recs if not r.get("panic")]
        files = []
        for k, sh in enumerate(vlib.shard(recs, len(recs) // 120000 + 1)):
            ff = ctx.path("seqs%d-%02d.ndjson" % (L, k))
            vlib.write_ndjson(ff, sh)
            files.append(ff)
        bad, checked = ctx.validate("C12Trace", "C12Trace.cfg", files, heap="12g")
        if checked != len(recs):
            raise vlib.MachineryError("TLC checked %d of %d sequences" % (checked, len(recs)))
        ctx.log("sequences L=%d (%s): %d executed on dict and set, %d rejected by the model" % (L, p.stderr.strip(), checked, len(bad)))
        nseq += checked
        byid = {r["id"]: r for r in recs}
        for b in sorted(set(bad))[:50]:
            r = byid[b]
            ctx.violation("seq:%s/op=%d" % ("set" if r["set"] else "dict", r["ops"][-1]),
                          "sequence %s observed %s results %s" % (r["ops"], r["obs"], r["res"]), {"seq": r})
        nbadseq += len(set(bad))
        if recs:
            ctx.samples.append({"sequence record": recs[len(recs) // 2]})

    # (4) long random histories with adversarial hash distributions (code -> spec trace validation)
    hn, hk = (2000, 300) if ctx.quick else (8000, 2000)
    import concurrent.futures
    parts = {}
    for part in ("random", "threshold"):
        hf = ctx.path("hist-%s.ndjson" % part)
        ctx.vh(["c12-hist", "-n", str(hn), "-keys", str(hk), "-out", hf, "-part", part], timeout=3000)
        lines = open(hf).read().rstrip("\n").split("\n")
        if lines and '"panic"' in lines[-1]:
            last = json.loads(lines[-1])
            ctx.violation("hist:%s/panic" % part, "the table panics after %d logged events of the %s history: %s" % (len(lines) - 1, part, last["panic"][:200]),
                          {"seed": ctx.seed, "n": hn, "keys": hk, "part": part})
            open(hf, "w").write("\n".join(lines[:-1]) + "\n")
        parts[part] = hf

    def vhist(part):
        return part, ctx.tlc("C12Hist", "C12Hist.cfg", env={"VERIF_RECS": parts[part]}, workers=1, timeout=3400, heap="8g", tag="hist-" + part)
    nev = 0
    with concurrent.futures.ThreadPoolExecutor(2) as ex:
        for part, r in ex.map(vhist, list(parts)):
            hf = parts[part]
            got = [int(m) for m in re.findall(r'<<"CHECKED", (\d+)>>', r["out"])]
            n1 = sum(1 for _ in open(hf))
            if r["error"] or r["rc"] != 0 or not got or got[0] != n1:
                raise vlib.MachineryError("history validation (%s) failed:\n%s" % (part, r["out"][-2000:]))
            nev += n1
            ctx.states += r["states"]
            ctx.transitions += r["transitions"]
            hbad = [int(m) for m in re.findall(r'<<"BAD", (\d+)>>', r["out"])]
            ctx.log("histories (%s): %d events validated, %d rejected" % (part, n1, len(hbad)))
            if hbad:
                evs = vlib.read_ndjson(hf)
                byn = {e["n"]: e for e in evs}
                first = byn[min(hbad)]
                # the scenario the first rejected event belongs to (events since the last reset)
                start = max(e["n"] for e in evs if e["op"] == 0 and e["n"] <= first["n"])
                scen = [e for e in evs if start <= e["n"] <= first["n"]]
                ctx.violation("hist:%s/op=%d" % (part, first["op"]),
                              "event %d diverges from the ordered-map model: %s (history since the last reset: %d operations)" % (
                                  first["n"], json.dumps(first)[:300], len(scen)),
                              {"hist_events": scen[-400:], "seed": ctx.seed, "n": hn, "keys": hk, "part": part})

    ctx.cov.update({"sequences_validated": nseq, "history_events_validated": nev,
                    "evaluations": total_edges * 2, "traces_validated_against_impl": total_edges * 2,
                    "distinct_nontrivial": total_edges, "replayed_steps": total_steps * 2,
                    "design_check_states": design_states, "keys": nk})
    ctx.assumptions = ["the model's operand tables and hash assignment are printed by TLC and used by the harness unchanged",
                       "host keys with model-dictated Hash(); equality by identity"]
    ctx.cov["evaluations"] += nseq + nev
    ctx.cov["traces_validated_against_impl"] += nseq + nev
    return ctx.finish(rule="every transition of the product (abstract ordered map x concrete table with the real constants) over %d keys "
                           "(3 sharing one hash, one with hash 0) is replayed from the initial state along a shortest path, twice "
                           "(Go API route and Starlark route); distinct = distinct (state, operation) pairs of the model" % nk,
                      exhaustive=True)


def replay(ctx, path):
    d = json.load(open(path))["replay"]
    if "part" in d:      # a history finding: regenerate the same seeded history and validate it again
        ctx.seed = d["seed"]
        hf = ctx.path("hist.ndjson")
        ctx.vh(["c12-hist", "-n", str(d["n"]), "-keys", str(d["keys"]), "-out", hf, "-part", d["part"]])
        r = ctx.tlc("C12Hist", "C12Hist.cfg", env={"VERIF_RECS": hf}, workers=1, timeout=3400, heap="8g")
        bad = re.findall(r'<<"BAD", (\d+)>>', r["out"])
        print("replay: %d events of the %s history rejected by the ordered-map model" % (len(bad), d["part"]))
        return 1 if bad else 0
    if "seq" in d:
        f = ctx.path("seq.ndjson")
        vlib.write_ndjson(f, [d["seq"]])
        bad, _ = ctx.validate("C12Trace", "C12Trace.cfg", [f])
        print("replay: recorded sequence %s" % ("rejected" if bad else "accepted"))
        return 1 if bad else 0
    one = ctx.path("one.ndjson")
    open(one, "w").write(json.dumps(d["edge"]) + "\n")
    out1 = ctx.path("one.out")
    ctx.vh(["c12-replay", "-mode", d["mode"], "-in", one, "-out", out1, "-operands", d["operands"]])
    again = vlib.read_ndjson(out1)
    print("replay: %d mismatch(es): %s" % (len(again), json.dumps(again)[:500]))
    return 1 if again else 0
