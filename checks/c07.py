"""C07  Step limits and cancellation always stop execution.

(a) design check + spec -> code: spec/Steps.tla / C07MC.tla: all interleavings of a thread running
    a 3-instruction program up to twice with host cancellations (two reasons), Uncancel and step
    limits {none, 4, 6}; TLC checks "fewer than N instructions", "first reason wins", "nothing runs
    after the test sees a cancellation", and (under fairness) "a cancelled thread stops"; every
    finished history is replayed on the real interpreter with the cancellations injected at exact
    interpreter steps (VerifStep hook: from the interpreter goroutine, from inside a built-in call
    in flight, and from another goroutine while the hook blocks the interpreter).
(b) fault enumeration, code -> spec: every program of a corpus (terminating and non-terminating) is
    run under EVERY step limit N; TLC validates each record against the closed forms of the model
    (completion iff total < N, the counter stops at N, exactly the host calls made before step N).
"""
import json
import vlib

LEVEL = "fault_enumeration"


def run(ctx):
    nrep = nprob = 0
    for limit in (0, 2, 4, 6):
        # with limit 2 the first execution already hits the limit, so "limit hit, Uncancel, re-execute" (3 executions) is explored
        # between executions the host may set another limit once: below, at and above the steps already counted
        relimits = "{}" if limit == 2 else "{2, 4, 6, 9}"
        cfg = ("CONSTANTS\n  K = 3\n  MaxExec = %d\n  Limit = %d\n  MaxCancels = %d\n  Relimits = %s\nSPECIFICATION Spec\n"
               "INVARIANTS UnderLimit Emit\nPROPERTIES FirstWins NoRunAfterCancel Stops\n" % (3 if limit == 2 else 2, limit, 1 if limit == 2 else 2, relimits))
        r = ctx.tlc_ok("C07MC", "C07MC_gen.cfg", workers=4, timeout=1200, cfg_text=cfg)
        hs = sorted({l[2:-1].replace('\\"', '"') for l in r["out"].split("\n") if l.startswith('"H{')})
        if len(hs) < 50:
            raise vlib.MachineryError("history emission incomplete")
        hf, out = ctx.path("h%d.ndjson" % limit), ctx.path("r%d.ndjson" % limit)
        open(hf, "w").write("\n".join(hs) + "\n")
        ctx.vh(["c07-sched", "-in", hf, "-out", out, "-limit", str(limit)], timeout=1200)
        res = vlib.read_ndjson(out)
        if not res[-1].get("summary") or res[-1]["replays"] != 3 * len(hs):
            raise vlib.MachineryError("schedule replay incomplete")
        nrep += res[-1]["replays"]
        ctx.log("limit %d: %d states, safety and liveness hold; %d histories x 3 injection variants replayed, %d disagree" % (
            limit, r["states"], len(hs), res[-1]["problems"]))
        for rr in res[:-1]:
            nprob += 1
            for p in rr["problems"]:
                if p.startswith("machinery"):
                    raise vlib.MachineryError(p)
            ctx.violation("sched:%s/limit=%d: %s" % (rr["variant"], limit, rr["problems"][0].split(":")[1].strip()[:60]),
                          "history %s: %s" % (json.dumps(rr["hist"])[:300], rr["problems"]), {"hist": rr["hist"], "limit": limit})
        if limit == 0:
            ctx.samples.append(json.loads(hs[len(hs) // 2]))

    # free-running asynchronous cancellation (no gate): at most one instruction passes the test after Cancel returned
    af = ctx.path("async.ndjson")
    ntr = 200 if ctx.quick else 3000
    ctx.vh(["c07-async", "-trials", str(ntr), "-out", af], timeout=3000)
    ares = vlib.read_ndjson(af)
    if not ares[-1].get("summary"):
        raise vlib.MachineryError("async run incomplete")
    ctx.log("asynchronous cancellation: %d trials, %d with problems" % (ntr, ares[-1]["problems"]))
    for rr in ares[:-1]:
        ctx.violation("async:%s" % rr["problems"][0].split(" ")[1][:30], "trial %d program %d: %s" % (rr["trial"], rr["prog"], rr["problems"]), {"async": rr})
    nrep += ntr

    scale, budget = (1, 1500) if ctx.quick else (6, 6000)
    pf, rf = ctx.path("progs.ndjson"), ctx.path("runs.ndjson")
    ctx.vh(["c07-sweep", "-progs", pf, "-runs", rf, "-scale", str(scale), "-budget", str(budget)], timeout=3000)
    progs, nruns = vlib.read_ndjson(pf), sum(1 for _ in open(rf))
    bad, checked = ctx.validate("C07Trace", "C07Trace.cfg", [rf], env={"VERIF_PROGS": pf}, heap="12g")
    if checked != nruns:
        raise vlib.MachineryError("TLC checked %d of %d runs" % (checked, nruns))
    ctx.log("cut-point sweep: %d programs, %d limited runs validated, %d rejected" % (len(progs), nruns, len(bad)))
    if bad:
        runs = {r["id"]: r for r in vlib.read_ndjson(rf)}
        seen = set()
        for b in sorted(set(bad)):
            r = runs[b]
            p = progs[r["p"] - 1]
            if p["name"] in seen:
                continue
            seen.add(p["name"])
            ctx.violation("sweep:%s" % p["name"].split("-")[0],
                          "program %s (total %s steps) with limit %d: observed %s" % (p["name"], p["total"], r["n"], json.dumps(r)),
                          {"prog": p, "run": r})
    ctx.cov.update({"evaluations": nrep + nruns, "distinct_nontrivial": nruns, "schedule_replays": nrep,
                    "limited_runs": nruns, "programs": len(progs),
                    "nonterminating_programs": sum(1 for p in progs if p["total"] == 0)})
    ctx.samples.append({"program": progs[3], "a limited run": vlib.read_ndjson(rf)[40]})
    ctx.assumptions = ["asynchronous cancellation is made deterministic by the VerifStep hook, which runs on the interpreter goroutine after the "
                       "cancellation test and before the instruction is decoded",
                       "non-terminating programs are swept up to the reference budget of %d steps" % budget]
    return ctx.finish(rule="fault points: every step limit N from 1 to total+1 (or the reference budget) for every corpus program, and every interleaving "
                           "of host Cancel/Uncancel with the loop-head/execute steps of a 3-instruction program over <=2 executions; "
                           "distinct = distinct (program, N) pairs", exhaustive=False)


def replay(ctx, path):
    d = json.load(open(path))["replay"]
    if "hist" in d:
        hf, out = ctx.path("h.ndjson"), ctx.path("r.ndjson")
        open(hf, "w").write(json.dumps(d["hist"]) + "\n")
        ctx.vh(["c07-sched", "-in", hf, "-out", out, "-limit", str(d["limit"])])
        res = [r for r in vlib.read_ndjson(out) if not r.get("summary")]
        print("replay: %s" % json.dumps(res)[:800])
        return 1 if res else 0
    print("replay of a sweep finding: re-run the check")
    return 1
