"""C08  Arguments bind to parameters exactly as specified.

code -> spec (P-A), exhaustive over the property's bounded domain:
  * every signature (<=3 positional required/optional, optional '*'/'*args', <=2 keyword-only,
    optional '**kwargs') x every call shape (<=4 positional, named subsets over declared and one
    undeclared name, '*' of length 0-3, '**' dicts incl. duplicates of named arguments and a
    non-string key) is compiled and executed by the real pipeline; TLC validates each recorded
    binding against Binding!Bind;
  * UnpackArgs / UnpackPositionalArgs are called directly (vh c08-unpack) over all specs of <=3
    parameters x markers x target types x call shapes x argument types, validated against
    Binding!UnpackOK.
"""
import itertools, json, random
import vlib

LEVEL = "model_checking"
NONE = {"some": False}


def some(x):
    return {"some": True, "v": x}


def signatures(maxpos, maxkw):
    """all signatures of the bounded domain"""
    pnames, knames = ["a", "b", "c"], ["k", "m"]
    out = []
    for npos in range(maxpos + 1):
        for nreq in range(npos + 1):              # required ones first (static rule)
            pos = [{"name": pnames[i], "opt": i >= nreq, "dflt": -(i + 1)} for i in range(npos)]
            for star in ("none", "bare", "args"):
                for nkw in range(maxkw + 1):
                    if star == "none" and nkw > 0:
                        continue
                    if star == "bare" and nkw == 0:
                        continue
                    for optmask in itertools.product((False, True), repeat=nkw):
                        kwonly = [{"name": knames[i], "opt": optmask[i], "dflt": -(10 + i)} for i in range(nkw)]
                        for kwargs in (False, True):
                            out.append({"pos": pos, "star": star, "kwonly": kwonly, "kwargs": kwargs})
    return out


def sig_src(sig):
    ps = []
    for p in sig["pos"]:
        ps.append(p["name"] + ("=%d" % p["dflt"] if p["opt"] else ""))
    if sig["star"] == "bare":
        ps.append("*")
    elif sig["star"] == "args":
        ps.append("*args")
    for p in sig["kwonly"]:
        ps.append(p["name"] + ("=%d" % p["dflt"] if p["opt"] else ""))
    if sig["kwargs"]:
        ps.append("**kw")
    names = [p["name"] for p in sig["pos"] + sig["kwonly"]]
    ret = "([%s], %s, %s)" % (", ".join(names), "args" if sig["star"] == "args" else "None",
                              "kw.items()" if sig["kwargs"] else "None")
    return "def f(%s):\n    return %s\n" % (", ".join(ps), ret)


def calls(sig, maxposargs, maxstar, rnd, sample):
    declared = [p["name"] for p in sig["pos"] + sig["kwonly"]]
    names = declared + ["z"]
    out = []
    for npos in range(maxposargs + 1):
        pos = list(range(1, npos + 1))
        for r in range(len(names) + 1):
            for sub in itertools.combinations(range(len(names)), r):
                named = [[names[i], 11 + i] for i in sub]
                stars = [NONE] + [some(list(range(21, 21 + n))) for n in range(maxstar + 1)]
                sss = [NONE, some([])]
                for i, n in enumerate(names):
                    sss.append(some([[{"str": True, "name": n}, 31 + i]]))
                sss.append(some([[{"str": False}, 40]]))
                if declared:
                    sss.append(some([[{"str": True, "name": declared[-1]}, 41], [{"str": True, "name": "z"}, 42]]))
                sss.append(some([[{"str": True, "name": "y"}, 43], [{"str": True, "name": "z"}, 44]]))
                # surplus names that the named arguments never use: with a named z the callee's ** dict receives entries from
                # BOTH sources, in call order (named first)
                sss.append(some([[{"str": True, "name": "y"}, 45]]))
                sss.append(some([[{"str": True, "name": "y"}, 46], [{"str": True, "name": "w"}, 47]]))
                for star in stars:
                    for ss in sss:
                        if sample < 1.0 and rnd.random() > sample:
                            continue
                        out.append({"pos": pos, "named": named, "star": star, "ss": ss})
    return out


def call_src(call):
    parts = [str(v) for v in call["pos"]]
    parts += ["%s=%d" % (n, v) for n, v in call["named"]]
    if call["star"]["some"]:
        parts.append("*[%s]" % ", ".join(map(str, call["star"]["v"])))
    if call["ss"]["some"]:
        items = []
        for k, v in call["ss"]["v"]:
            items.append("%s: %d" % (json.dumps(k["name"]) if k["str"] else "1", v))
        parts.append("**{%s}" % ", ".join(items))
    return "r = f(%s)\n" % ", ".join(parts)


def dec_int(v):
    if v["t"] != "int":
        raise vlib.MachineryError("unexpected value %s" % v)
    return v["v"]


def normalise(res):
    """encoded result of f -> the record shape of Binding!Bind"""
    if not res["ok"]:
        return {"ok": False}
    g = dict((n, v) for n, v in res["globals"])
    r = g["r"]
    vals, args, kw = r["v"]
    out = {"ok": True, "vals": [dec_int(x) for x in vals["v"]]}
    out["args"] = NONE if args["t"] == "none" else some([dec_int(x) for x in args["v"]])
    if kw["t"] == "none":
        out["kw"] = NONE
    else:
        out["kw"] = some([["".join(map(chr, it["v"][0]["v"])), dec_int(it["v"][1])] for it in kw["v"]])
    return out


# ------------------------------------------------------------------ UnpackArgs domain
TYPES = ["Value", "string", "bool", "int", "Int", "List", "Dict", "Callable", "Iterable", "Unpacker",
         "String", "Bytes", "Float", "Bool", "Tuple"]      # (the last five: variables of a concrete Starlark type)
ARGS = ["none", "true", "int7", "int9", "big", "str", "list", "tuple", "dict", "fn", "float", "bytes"]


def unpack_cases(ctx, rnd):
    out = []
    names = ["p", "q", "r"]
    maxn = 2 if ctx.quick else 3
    for n in range(maxn + 1):
        for marks in itertools.product(("", "?", "??"), repeat=n):
            # target types: all types in the first position, a rotating subset in the others
            tysets = [TYPES] + [["Value", "int", "string"]] * (n - 1) if n else [[]]
            for tys in (itertools.product(*tysets) if n else [()]):
                pairs = [{"name": names[i], "mark": marks[i], "ty": tys[i]} for i in range(n)]
                for npos in range(0, n + 2):
                    if n == 0 and npos > 1:
                        continue
                    for posargs in arg_tuples(npos, tys, rnd, ctx):
                        for kw in kw_choices(names[:n], npos, tys, rnd, ctx):
                            out.append({"kind": "unpack", "pairs": pairs, "call": {"pos": list(posargs), "kw": kw}})
                # UnpackPositionalArgs with every min
                for mn in range(0, n + 1):
                    for npos in range(0, n + 2):
                        for posargs in arg_tuples(npos, tys, rnd, ctx):
                            out.append({"kind": "unpackpos", "min": mn,
                                        "pairs": [{"name": names[i], "mark": "", "ty": tys[i]} for i in range(n)],
                                        "call": {"pos": list(posargs), "kw": []}})
                    out.append({"kind": "unpackpos", "min": mn,
                                "pairs": [{"name": names[i], "mark": "", "ty": tys[i]} for i in range(n)],
                                "call": {"pos": [], "kw": [["p", "int7"]]}})
    return out


def arg_tuples(npos, tys, rnd, ctx):
    """argument codes for npos positional arguments: all codes in position 1, a few elsewhere"""
    if npos == 0:
        return [()]
    first = ARGS
    rest = ["none", "int7", "str", "list"]
    pools = [first] + [rest] * (npos - 1)
    res = list(itertools.product(*pools))
    if len(res) > (14 if ctx.quick else 60):
        res = rnd.sample(res, 14 if ctx.quick else 60)
    return res


def kw_choices(names, npos, tys, rnd, ctx):
    res = [[]]
    for i, n in enumerate(names):
        for a in (ARGS if i == 0 else ["none", "int9", "str"]):
            res.append([[n, a]])
    res.append([["zz", "int7"]])
    if names:
        res.append([[names[0], "int7"], [names[0], "int9"]])         # duplicate keyword (Go API only)
        if len(names) > 1:
            res.append([[names[-1], "int9"], [names[0], "none"]])
            res.append([[names[1], "str"], ["zz", "int7"]])
    if len(res) > 12 and npos > 0:
        res = res[:1] + rnd.sample(res[1:], 6 if ctx.quick else 12)
    return res


def run(ctx):
    rnd = random.Random(ctx.seed)
    if ctx.quick:
        sigs, maxposargs, maxstar, sample = signatures(2, 1), 3, 2, 1.0
    else:
        sigs, maxposargs, maxstar, sample = signatures(3, 2), 4, 3, 0.22
    cases = []
    for sig in sigs:
        ssrc = sig_src(sig)
        for call in calls(sig, maxposargs, maxstar, rnd, sample):
            cases.append({"kind": "bind", "sig": sig, "call": call, "src": ssrc + call_src(call)})
    # the same binding through the host entry starlark.Call (no CALL instruction): positional and named arguments in
    # caller-owned buffers that are overwritten right after the call
    for sig in sigs:
        ssrc = sig_src(sig)
        for call in calls(sig, maxposargs, maxstar, rnd, 1.0 if ctx.quick else 0.5):
            if call["star"]["some"] or call["ss"]["some"]:
                continue
            cases.append({"kind": "bind", "sig": sig, "call": call, "src": ssrc, "gocall": {"pos": call["pos"], "named": call["named"]}})
    nbind = len(cases)
    ucases = unpack_cases(ctx, rnd)
    if not ctx.quick and len(ucases) > 450000:      # TLC needs ~4 GB of heap per 100k records
        ucases = rnd.sample(ucases, 450000)
    for i, c in enumerate(cases + ucases):
        c["id"] = i + 1
    ctx.log("%d signatures, %d bind cases, %d unpack cases" % (len(sigs), nbind, len(ucases)))

    # execute
    fin, fout = ctx.path("bind.in"), ctx.path("bind.out")
    vlib.write_ndjson(fin, [dict({"id": c["id"], "src": c["src"], "mode": "file", "want": ["r"]}, **({"gocall": c["gocall"]} if "gocall" in c else {})) for c in cases])
    ctx.vh(["eval", "-in", fin, "-out", fout])
    res = {r["id"]: r for r in vlib.read_ndjson(fout)}
    uin, uout = ctx.path("unp.in"), ctx.path("unp.out")
    vlib.write_ndjson(uin, ucases)
    ctx.vh(["c08-unpack", "-in", uin, "-out", uout])
    ures = {r["id"]: r for r in vlib.read_ndjson(uout)}
    if len(res) != nbind or len(ures) != len(ucases):
        raise vlib.MachineryError("harness dropped cases")

    recs, panics = [], []
    for c in cases:
        r = res[c["id"]]
        if r.get("panic"):
            panics.append((c, r["panic"]))
        recs.append({"id": c["id"], "kind": "bind", "sig": c["sig"], "call": c["call"], "res": normalise(r)})
    for c in ucases:
        r = ures[c["id"]]
        if r.get("panic"):
            panics.append((c, r["panic"]))
            r = {"ok": False, "tgt": ["prior"] * len(c["pairs"])}
        rec = dict(c)
        rec["res"] = {"ok": r["ok"], "tgt": r["tgt"]}
        recs.append(rec)

    files = []
    for k, sh in enumerate(vlib.shard(recs, len(recs) // 300000 + 1)):
        f = ctx.path("recs%02d.ndjson" % k)
        vlib.write_ndjson(f, sh)
        files.append(f)
    bad, checked = ctx.validate("C08Trace", "C08Trace.cfg", files)
    ctx.log("TLC validated %d records, %d rejected" % (checked, len(bad)))
    if checked != len(recs):
        raise vlib.MachineryError("TLC checked %d of %d records" % (checked, len(recs)))
    byid = {c["id"]: c for c in cases + ucases}
    for cid in sorted(set(bad)):
        c = byid[cid]
        if c["kind"] == "bind":
            sig = c["sig"]
            s = "bind:pos=%d/star=%s/kwonly=%d/kwargs=%s" % (len(sig["pos"]), sig["star"], len(sig["kwonly"]), sig["kwargs"])
            if "gocall" in c:
                s = "go" + s
            ctx.violation(s, "%s%s -> %s" % (c["src"].replace("\n", "; "), " starlark.Call(f, %s)" % json.dumps(c["gocall"]) if "gocall" in c else "",
                                            json.dumps(normalise(res[cid]))), {"case": c})
        else:
            s = "%s:%s" % (c["kind"], ",".join(p["ty"] + p["mark"] for p in c["pairs"]))
            ctx.violation(s, "%s call=%s -> %s" % (c["kind"], json.dumps(c["call"]), json.dumps(ures[cid])), {"case": c})
    for c, p in panics:
        ctx.violation("panic:" + c["kind"], "panic %s on %s" % (p, json.dumps(c)[:300]), {"case": c})

    ok_binds = sum(1 for c in cases if res[c["id"]]["ok"])
    ctx.cov.update({"evaluations": len(recs), "traces_validated_against_impl": checked - len(set(bad)),
                    "distinct_nontrivial": ok_binds + sum(1 for c in ucases if ures[c["id"]]["ok"]),
                    "signatures": len(sigs), "bind_cases": nbind, "bind_accepted": ok_binds,
                    "unpack_cases": len(ucases)})
    ctx.samples = [{"src": c["src"], "observed": normalise(res[c["id"]])} for c in cases[:: max(1, nbind // 4)]][:4] + \
                  [{"case": {k: c[k] for k in ("kind", "pairs", "call")}, "observed": ures[c["id"]]} for c in ucases[:: max(1, len(ucases) // 3)]][:3]
    ctx.assumptions = ["Binding!Bind is the Python 3 binding rule (validated against CPython on 54k pairs in the design phase)",
                       "argument values are distinct small integers, so a wrong binding is visible as a wrong value"]
    return ctx.finish(rule="all signatures of the bounded domain x all call shapes (thorough tier: 22% seeded sample of the call shapes of the larger domain, 450k sampled unpack cases); "
                           "non-trivial = the call was accepted (a binding exists and was compared value by value); rejected calls are checked to be rejected by the spec too",
                      exhaustive=ctx.quick)


def replay(ctx, path):
    d = json.load(open(path))
    c = d["replay"]["case"]
    if c["kind"] == "bind":
        fin, fout = ctx.path("r.in"), ctx.path("r.out")
        vlib.write_ndjson(fin, [dict({"id": c["id"], "src": c["src"], "mode": "file", "want": ["r"]}, **({"gocall": c["gocall"]} if "gocall" in c else {}))])
        ctx.vh(["eval", "-in", fin, "-out", fout])
        r = vlib.read_ndjson(fout)[0]
        rec = {"id": c["id"], "kind": "bind", "sig": c["sig"], "call": c["call"], "res": normalise(r)}
    else:
        fin, fout = ctx.path("r.in"), ctx.path("r.out")
        vlib.write_ndjson(fin, [c])
        ctx.vh(["c08-unpack", "-in", fin, "-out", fout])
        r = vlib.read_ndjson(fout)[0]
        rec = dict(c)
        rec["res"] = {"ok": r["ok"], "tgt": r.get("tgt", [])}
    f = ctx.path("replay.ndjson")
    vlib.write_ndjson(f, [rec])
    bad, _ = ctx.validate("C08Trace", "C08Trace.cfg", [f])
    print("replay: observed %s : %s" % (json.dumps(rec["res"]), "REJECTED by spec" if bad else "accepted"))
    return 1 if bad else 0
