"""C15  Printed values read back as the same values.

code -> spec record validation (P-A).  Values are built through the Go API by
`vh c15-run` (never through the parser), printed with repr/str, and the repr text
is evaluated by the real scanner/parser/interpreter.  TLC (spec/C15Trace.tla)
checks Eval(repr(v)) = v with equal types (Values.Same), str(s) = s, and -
independently of the implementation's own scanner - that the repr of a string or
bytes is one literal that spec/Unquote.tla decodes to the value and is clean
text, that repr(int) is BitInt.ToDigits, and that the decimal text of a float
denotes a rational whose nearest binary64 is the value (Float64.IsNearestDec).
Shared and cyclic object graphs: printing must terminate (cyclic cases that may
kill the process run one per process); the text predicted by
ReprSpec.GraphRepr is compared and a difference is only noted.
"""
import json, os, random, re, struct
import vlib

LEVEL = "exploration"
LIMB = 15


def limbs(n):
    n = abs(n)
    out = []
    while n:
        out.append(n & ((1 << LIMB) - 1))
        n >>= LIMB
    return out


def enc_int(n):
    if -(1 << 30) < n < (1 << 30):
        return {"t": "int", "v": n}
    return {"t": "big", "neg": n < 0, "m": limbs(n)}


def enc_bits(b):
    m = limbs(b & ((1 << 52) - 1))
    while len(m) < 4:
        m.append(0)
    return {"t": "float", "s": b >> 63, "e": (b >> 52) & 0x7ff, "m": m}


def enc_float(f):
    return enc_bits(struct.unpack(">Q", struct.pack(">d", f))[0])


def enc_str(s):
    return {"t": "str", "v": list(s.encode("utf-8"))}


def enc_bytes(b):
    return {"t": "bytes", "v": list(b)}


def canon(o):
    return json.dumps(o, sort_keys=True, separators=(",", ":"))


SPECIALS = ['"', "'", "\\", "\n", "\r", "\t", "\0", "\x07", "\x0b", "\x1b", "\x7f", "a", "0", "7", "x", "u", "U", "n", "b", " ",
            "\x80", "\x9f", "\xa0", "\xad", "\xe9", "\u0378", "\u2028", "\u2029", "\u200b", "\ufeff", "\ufffd", "\ud7ff", "\ue000",
            "\uffff", "\U00010000", "\U0001F600", "\U000E0001", "\U0010FFFF", "{", "%", "#"]


def cp_class(cp):
    if cp < 32 or cp == 127:
        return "ascii-control"
    if cp < 128:
        return "ascii"
    if cp < 160:
        return "C1-control"
    if cp in (0x2028, 0x2029):
        return "line-separator"
    if cp < 0x10000:
        return "bmp"
    return "astral"


# ----------------------------------------------------------------------------
# case generation
# ----------------------------------------------------------------------------
def gen_strings(ctx, rnd, cases):
    q = ctx.quick
    blocks = []
    for blk in range(0, 0x1100):
        if 0xD8 <= blk <= 0xDF:
            continue
        if not q or blk < 0x30 or blk % 32 == 0 or blk in (0xD7, 0xE0, 0xFF, 0x100, 0x1F6, 0xE00, 0x10FF, 0xFE, 0x20):
            blocks.append(blk)
    for blk in blocks:
        cases.append({"op": "cps", "lo": blk * 256, "n": 256})
    # bytes: all single bytes, two-byte strings
    cases.append({"op": "bb", "hi": -1})
    his = range(256) if not q else sorted(set([0, 9, 10, 13, 34, 39, 92, 97, 127, 128, 159, 160, 191, 192, 193, 194, 195, 223, 224, 237,
                                                 239, 240, 244, 245, 255] + [rnd.randrange(256) for _ in range(8)]))
    for hi in his:
        cases.append({"op": "bb", "hi": hi})
    # surrogate code points as raw bytes (ED A0 80 .. ED BF BF): not valid strings, but valid bytes values
    for cp in range(0xD800, 0xE000, 16 if q else 1):
        b = bytes([0xE0 | (cp >> 12), 0x80 | ((cp >> 6) & 0x3f), 0x80 | (cp & 0x3f)])
        cases.append({"op": "val", "kind": "bytes", "v": enc_bytes(b)})
    # pairs and triples around quotes, backslashes, controls, U+2028, U+FFFD, astral
    for a in SPECIALS:
        for b in SPECIALS:
            cases.append({"op": "val", "kind": "str", "v": enc_str(a + b)})
            cases.append({"op": "val", "kind": "bytes", "v": enc_bytes((a + b).encode())})
    for _ in range(800 if q else 20000):
        s = "".join(rnd.choice(SPECIALS) for _ in range(3))
        cases.append({"op": "val", "kind": "str", "v": enc_str(s)})
    for _ in range(1000 if q else 10000):
        n = rnd.randint(0, 30)
        s = "".join(rnd.choice(SPECIALS) if rnd.random() < 0.4 else chr(rnd.choice([rnd.randrange(0x80), rnd.randrange(0x800), rnd.randrange(0xE000, 0x10000),
                                                                                   rnd.randrange(0x10000, 0x110000), rnd.randrange(0x20, 0x7f)]))
                    for _ in range(n))
        s = "".join(c for c in s if not 0xD800 <= ord(c) < 0xE000)
        cases.append({"op": "val", "kind": "str", "v": enc_str(s)})
    for _ in range(1000 if q else 10000):
        n = rnd.randint(0, 30)
        b = bytes(rnd.choice([rnd.randrange(256), rnd.randrange(128), rnd.choice([34, 39, 92, 10, 13, 0, 255, 0xC3, 0xA9, 0xE2, 0x80, 0xA8])]) for _ in range(n))
        cases.append({"op": "val", "kind": "bytes", "v": enc_bytes(b)})


def gen_ints(ctx, rnd, cases):
    vals = set()
    for k in range(0, 201):
        for d in (-1, 0, 1):
            vals.add((1 << k) + d)
            vals.add(-((1 << k) + d))
    for k in range(0, 61):
        for d in (-1, 0, 1):
            vals.add(10 ** k + d)
            vals.add(-(10 ** k + d))
    for _ in range(500 if ctx.quick else 5000):
        vals.add(rnd.choice([-1, 1]) * rnd.getrandbits(rnd.randint(1, 200)))
    for n in sorted(vals):
        cases.append({"op": "val", "kind": "int", "v": enc_int(n)})


def gen_floats(ctx, rnd, cases):
    """bit patterns over the whole binary64 range.  The exact decimal oracle (Float64.IsNearestDec, big
    rationals in TLC) costs 0.2-0.7 s per value at extreme exponents and a few ms in the middle, so it is
    applied ("dec") to the named values, to one or two patterns of every exponent (quick: every 32nd) and to all
    patterns of moderate exponents; the remaining patterns are judged by the round trip only."""
    q = ctx.quick
    dec, nodec = set(), set()
    named = [0.0, 1.0, 0.1, 1 / 3, 2 / 3, 1e21, 1e22, 1e23, 5e-324, 2.2250738585072014e-308, 2.225073858507201e-308, 1.7976931348623157e308,
             float(1 << 53), 1e15, 1e16, 1e17, 123456789012345680.0, 9007199254740993.0, 0.3, 100.0, 1e-5, 1e-4, 1e-7, 123456.789e3,
             4.35, 0.000001, 1e100, 1.5e-10, 299792458.0, 6.02214076e23, 8.41e21, 2.0 ** -1074, 2.0 ** 1023, 4.9406564584124654e-324,
             9.5367431640625e-07, 5e-1, 7.0385307e-26, 1.2345678901234567e-300, 1e-323, 2e-323, 3.5e-323]
    for f in named:
        b = struct.unpack(">Q", struct.pack(">d", f))[0]
        dec.add(b)
        dec.add(b | (1 << 63))
    for e in range(0, 2047):
        sign = rnd.getrandbits(1) << 63
        if not q or e % 32 == 0 or e in (1, 2046, 1023, 1075, 1076):
            dec.add((e << 52) | rnd.getrandbits(52) | sign)
            if q or e % 4 == 0:
                dec.add((e << 52) | rnd.choice([0, 1, (1 << 52) - 1]) | (sign ^ (1 << 63)))
        for m in [0, 1, (1 << 52) - 1, 1 << 51][: 2 if q else 4] + [rnd.getrandbits(52) for _ in range(2 if q else 20)]:
            nodec.add((e << 52) | m | (rnd.getrandbits(1) << 63))
    for _ in range(3000 if q else 40000):           # moderate exponents: 2^-70 .. 2^70
        dec.add(((1023 + rnd.randint(-70, 70)) << 52) | rnd.getrandbits(52) | (rnd.getrandbits(1) << 63))
    for _ in range(1000 if q else 8000):
        # short decimals: values whose shortest text has few digits
        f = float("%de%d" % (rnd.randrange(1, 10 ** rnd.randint(1, 6)), rnd.randint(-25, 25)))
        dec.add(struct.unpack(">Q", struct.pack(">d", f))[0])
    for _ in range(50 if q else 500):
        f = float("%de%d" % (rnd.randrange(1, 10 ** rnd.randint(1, 6)), rnd.randint(-320, 305)))
        if f == f and f not in (float("inf"), float("-inf")):
            dec.add(struct.unpack(">Q", struct.pack(">d", f))[0])
    for b in sorted(dec | nodec):
        cases.append({"op": "val", "kind": "float", "v": enc_bits(b), "dec": b in dec})


class TreeGen:
    """random nested values (depth <= 6) as python terms -> encodings; dict keys are pairwise unequal"""

    def __init__(self, rnd):
        self.rnd = rnd

    def scalar(self, hashable_only=False):
        r = self.rnd
        k = r.randrange(8)
        if k == 0:
            return {"t": "none"}
        if k == 1:
            return {"t": "bool", "v": r.random() < 0.5}
        if k == 2:
            return enc_int(r.choice([0, 1, -1, 7, 42, -100, (1 << 31), -(1 << 63), (1 << 64) + 1, r.getrandbits(120), 10 ** 30]))
        if k == 3:
            return enc_float(r.choice([0.0, -0.0, 1.0, -1.5, 0.1, 1e100, 1e-7, 5e-324, 1.7976931348623157e308, float(1 << 53), 3.0,
                                       r.random(), r.uniform(-1e6, 1e6), 2.5e-5]))
        if k in (4, 5):
            n = r.randint(0, 6)
            return enc_str("".join(r.choice(SPECIALS + list("abcxyz019 _-")) for _ in range(n)))
        if k == 6:
            return enc_bytes(bytes(r.randrange(256) if r.random() < 0.3 else r.choice(b"abc\"'\\\n\x00\xff") for _ in range(r.randint(0, 5))))
        return enc_int(r.randrange(-5, 100))

    def keykey(self, d):
        """normal form identifying the == class of a key (numbers by value)"""
        t = d["t"]
        if t in ("int", "big", "float"):
            return ("num", self.numval(d))
        if t == "tuple":
            return ("tuple", tuple(self.keykey(x) for x in d["v"]))
        return (t, canon(d))

    def numval(self, d):
        from fractions import Fraction
        if d["t"] == "int":
            return Fraction(d["v"])
        if d["t"] == "big":
            n = 0
            for l in reversed(d["m"]):
                n = (n << LIMB) | l
            return Fraction(-n if d["neg"] else n)
        frac = 0
        for l in reversed(d["m"]):
            frac = (frac << LIMB) | l
        if d["e"] == 0:
            v = Fraction(frac, 1 << 1074)
        else:
            v = Fraction((1 << 52) + frac) * (Fraction(2) ** (d["e"] - 1075))
        return -v if d["s"] else v

    def key(self, depth):
        if depth > 0 and self.rnd.random() < 0.2:
            return {"t": "tuple", "v": [self.key(depth - 1) for _ in range(self.rnd.randint(0, 3))]}
        return self.scalar()

    def value(self, depth):
        r = self.rnd
        if depth == 0 or r.random() < 0.25:
            return self.scalar()
        k = r.randrange(3)
        n = r.choice([0, 1, 1, 2, 2, 3, 4])
        if k == 0:
            return {"t": "list", "v": [self.value(depth - 1) for _ in range(n)]}
        if k == 1:
            return {"t": "tuple", "v": [self.value(depth - 1) for _ in range(n)]}
        items, seen = [], set()
        for _ in range(n):
            kk = self.key(min(depth - 1, 2))
            nk = self.keykey(kk)
            if nk in seen:
                continue
            seen.add(nk)
            items.append([kk, self.value(depth - 1)])
        return {"t": "dict", "v": items}


def gen_trees(ctx, rnd, cases):
    g = TreeGen(rnd)
    for _ in range(1500 if ctx.quick else 15000):
        cases.append({"op": "val", "kind": "tree", "v": g.value(rnd.randint(1, 6))})
    # chains nested to depth 6 exactly
    for mk in ("list", "tuple"):
        v = enc_int(1)
        for _ in range(6):
            v = {"t": mk, "v": [v]}
        cases.append({"op": "val", "kind": "tree", "v": v})
    v = enc_str("k")
    for d in range(6):
        v = {"t": "dict", "v": [[enc_int(d), v]]}
    cases.append({"op": "val", "kind": "tree", "v": v})


class GraphGen:
    """object graphs with sharing and cycles.  Nodes are numbered in construction order; a list/dict may be
    referenced again from below itself (cycle) or after it is complete (sharing)."""

    def __init__(self, rnd):
        self.rnd = rnd

    def make(self, maxnodes, allow_cycles):
        self.nodes = []          # TLC node table (1-based)
        self.open, self.closed = [], []
        self.cyclic = False
        self.budget = maxnodes
        self.allow_cycles = allow_cycles
        enc, idx = self.container(3)
        return enc, idx

    def leaf(self):
        r = self.rnd
        v = r.choice([{"t": "none"}, {"t": "bool", "v": True}, {"t": "bool", "v": False}, enc_int(r.randrange(-3, 20)),
                      enc_int((1 << 70) + r.randrange(5)), enc_str(r.choice(["a", "bc", "x1", ""]))])
        self.nodes.append({"k": "leaf", "v": v})
        return v, len(self.nodes)

    def child(self, depth):
        r = self.rnd
        x = r.random()
        if x < 0.25 and (self.open or self.closed):
            pool = (self.open if self.allow_cycles else []) + self.closed
            if pool:
                tgt = r.choice(pool)
                if tgt in self.open:
                    self.cyclic = True
                return {"t": "ref", "id": tgt}, tgt
        if x < 0.6 and depth > 0 and self.budget > 0:
            return self.container(depth - 1)
        return self.leaf()

    def container(self, depth):
        r = self.rnd
        self.budget -= 1
        kind = r.choice(["list", "list", "dict", "tuple"])
        self.nodes.append(None)
        me = len(self.nodes)
        n = r.choice([0, 1, 2, 2, 3])
        if kind == "tuple":
            encs, idxs = [], []
            for _ in range(n):
                e, i = self.child(depth)
                encs.append(e)
                idxs.append(i)
            self.nodes[me - 1] = {"k": "tuple", "c": idxs}
            return {"t": "tuple", "v": encs}, me
        self.open.append(me)
        if kind == "list":
            encs, idxs = [], []
            for _ in range(n):
                e, i = self.child(depth)
                encs.append(e)
                idxs.append(i)
            self.nodes[me - 1] = {"k": "list", "c": idxs}
            enc = {"t": "list", "id": me, "v": encs}
        else:
            items, idxs = [], []
            for j in range(n):
                kv = enc_int(j) if r.random() < 0.5 else enc_str("k%d" % j)
                self.nodes.append({"k": "leaf", "v": kv})
                ki = len(self.nodes)
                e, i = self.child(depth)
                items.append([kv, e])
                idxs.append([ki, i])
            self.nodes[me - 1] = {"k": "dict", "c": idxs}
            enc = {"t": "dict", "id": me, "v": items}
        self.open.remove(me)
        self.closed.append(me)
        return enc, me


def expand(enc, byid):
    """the tree a DAG denotes (no cycles): references replaced by the referenced value"""
    t = enc["t"]
    if t == "ref":
        return byid[enc["id"]]
    if t in ("list", "tuple"):
        out = {"t": t, "v": [expand(x, byid) for x in enc["v"]]}
    elif t == "dict":
        out = {"t": "dict", "v": [[expand(k, byid), expand(v, byid)] for k, v in enc["v"]]}
    else:
        return enc
    if "id" in enc:
        byid[enc["id"]] = out
    return out


STRUCT_CYCLES = [
    ("list-struct", {"t": "list", "id": 1, "v": [{"t": "struct", "v": [["x", {"t": "ref", "id": 1}]]}]}),
    ("dict-struct", {"t": "dict", "id": 1, "v": [[{"t": "int", "v": 1}, {"t": "struct", "v": [["x", {"t": "ref", "id": 1}]]}]]}),
    ("list-tuple-struct", {"t": "list", "id": 1, "v": [{"t": "tuple", "v": [{"t": "struct", "v": [["y", {"t": "int", "v": 1}], ["x", {"t": "ref", "id": 1}]]}]}]}),
]


def gen_graphs(ctx, rnd, cases):
    g = GraphGen(rnd)
    n = 300 if ctx.quick else 3000
    seen = set()
    while len(seen) < n:
        enc, root = g.make(rnd.randint(1, 5), allow_cycles=rnd.random() < 0.7)
        key = canon(enc)
        if key in seen:
            continue
        seen.add(key)
        c = {"op": "val", "kind": "graph", "v": enc, "nodes": g.nodes, "root": root, "cyclic": g.cyclic, "predict": True}
        if not g.cyclic:
            c["tree"] = expand(enc, {})
        cases.append(c)
    # hand-written classics
    classics = [
        {"t": "list", "id": 1, "v": [{"t": "ref", "id": 1}]},
        {"t": "dict", "id": 1, "v": [[enc_int(1), {"t": "ref", "id": 1}]]},
        {"t": "list", "id": 1, "v": [{"t": "tuple", "v": [{"t": "ref", "id": 1}]}]},
        {"t": "list", "id": 1, "v": [{"t": "dict", "id": 2, "v": [[enc_str("a"), {"t": "ref", "id": 1}], [enc_str("b"), {"t": "ref", "id": 2}]]}]},
    ]
    tables = [
        ([{"k": "list", "c": [1]}], 1),
        ([{"k": "dict", "c": [[2, 1]]}, {"k": "leaf", "v": enc_int(1)}], 1),
        ([{"k": "list", "c": [2]}, {"k": "tuple", "c": [1]}], 1),
        ([{"k": "list", "c": [2]}, {"k": "dict", "c": [[3, 1], [4, 2]]}, {"k": "leaf", "v": enc_str("a")}, {"k": "leaf", "v": enc_str("b")}], 1),
    ]
    for enc, (nodes, root) in zip(classics, tables):
        cases.append({"op": "val", "kind": "graph", "v": enc, "nodes": nodes, "root": root, "cyclic": True, "predict": True})
    for name, enc in STRUCT_CYCLES:
        cases.append({"op": "val", "kind": "graph", "v": enc, "nodes": [], "root": 0, "cyclic": True, "predict": False, "risky": name})


def gen_contained(ctx, rnd, cases):
    """every scalar of the scalar domains again as an ELEMENT (containers print their elements by another route than
    str/repr of the value itself): list element, tuple element, dict key, dict value, nested - rotating"""
    scal = [c for c in cases if c["op"] == "val" and c["kind"] in ("int", "str", "bytes", "float")]
    k = 0
    for c in scal:
        if True:
            v = c["v"]
            if c["kind"] == "float" and v["e"] == 2047:     # inf and nan have no literal: no round trip through source text
                k += 1
                continue
            route = k % 5
            hashable = True
            if route == 0:
                w = {"t": "list", "v": [v]}
            elif route == 1:
                w = {"t": "tuple", "v": [v, enc_int(0)]}
            elif route == 2 and hashable:
                w = {"t": "dict", "v": [[v, enc_int(0)]]}
            elif route == 3:
                w = {"t": "dict", "v": [[enc_str("k"), v]]}
            else:
                w = {"t": "list", "v": [{"t": "tuple", "v": [{"t": "list", "v": [enc_int(1), v]}]}]}
            cases.append({"op": "val", "kind": "tree", "v": w})
        k += 1


def generate(ctx):
    rnd = random.Random(ctx.seed)
    cases = []
    for g in (gen_strings, gen_ints, gen_floats, gen_trees, gen_graphs, gen_contained):
        g(ctx, rnd, cases)
    for k, c in enumerate(cases):
        c["id"] = k + 1
    return cases


# ----------------------------------------------------------------------------
def harness_case(c):
    if c["op"] in ("cps", "bb"):
        return {k: c[k] for k in ("id", "op", "lo", "n", "hi") if k in c}
    return {"id": c["id"], "op": "val", "v": c["v"]}


def run_batch(ctx, cases, tag):
    fin, fout = ctx.path(tag + ".in"), ctx.path(tag + ".out")
    vlib.write_ndjson(fin, [harness_case(c) for c in cases])
    p = ctx.vh(["c15-run", "-in", fin, "-out", fout, "-maxstack", str(256 << 20)], check=False, timeout=3000)
    res = {r["id"]: r for r in vlib.read_ndjson(fout)} if os.path.exists(fout) else {}
    return p, res


def run_alone(ctx, c, tag):
    """one case in its own process; returns (result or None, how it died)"""
    fin, fout = ctx.path(tag + ".in"), ctx.path(tag + ".out")
    vlib.write_ndjson(fin, [harness_case(c)])
    if os.path.exists(fout):
        os.remove(fout)
    p = ctx.vh(["c15-run", "-in", fin, "-out", fout, "-maxstack", str(64 << 20)], check=False, timeout=300)
    res = vlib.read_ndjson(fout) if os.path.exists(fout) else []
    if p.returncode == 0 and res:
        return res[0], ""
    err = p.stderr or ""
    how = "stack overflow" if "stack overflow" in err or "goroutine stack exceeds" in err else ("exit code %d: %s" % (p.returncode, err[-200:]))
    return None, how


def record(c, r):
    """TLC record of a case from its harness result (r is None: the process died)"""
    if c["op"] in ("cps", "bb"):
        rec = {k: c[k] for k in ("id", "op", "lo", "n", "hi") if k in c}
        rec.update({"reprs": r["reprs"], "backs": [b if b["ok"] else {"ok": False, "v": {"t": "none"}} for b in r["backs"]], "strs": r["strs"]})
        return rec
    kind = c["kind"]
    if r is None and kind != "graph":
        r = {"repr": [], "str": [], "back": {"ok": False}}
    back = {"ok": False, "v": {"t": "none"}}
    if r is not None and r["back"]["ok"]:
        back = {"ok": True, "v": r["back"]["v"]}
    if kind in ("str", "bytes"):
        return {"id": c["id"], "op": kind, "v": c["v"]["v"], "repr": r["repr"], "back": back, "str": r["str"]}
    if kind in ("int", "float", "tree"):
        return {"id": c["id"], "op": kind, "v": c["v"], "repr": r["repr"], "back": back, "str": r["str"], "dec": c.get("dec", False)}
    if kind == "graph":
        rec = {"id": c["id"], "op": "graph", "nodes": c["nodes"], "root": c["root"], "cyclic": c["cyclic"], "predict": c["predict"],
               "v": c.get("tree", {"t": "none"}), "back": back}
        rec["res"] = {"done": False, "repr": [], "str": []} if r is None else {"done": True, "repr": r["repr"], "str": r["str"]}
        return rec
    raise ValueError(kind)


SHARD_BYTES = 24 << 20      # JSON per TLC run: ~25 MB of records need ~5 GB of heap once deserialised


def tlc_validate(ctx, recs, tag):
    """validate records with spec/C15Trace.tla; large sets go through several TLC runs ONE AFTER THE OTHER
    (a 200 MB record file does not fit a 16 GB heap; parallel JVMs are pathologically slow here)"""
    shards, cur, size = [], [], 0
    for r in recs:
        n = len(json.dumps(r, separators=(",", ":")))
        if cur and size + n > SHARD_BYTES:
            shards.append(cur)
            cur, size = [], 0
        cur.append(r)
        size += n
    if cur:
        shards.append(cur)
    bad, notes, checked = [], [], 0
    for k, sh in enumerate(shards):
        stag = tag if len(shards) == 1 else "%s-%02d" % (tag, k)
        fr = ctx.path(stag + ".recs.ndjson")
        vlib.write_ndjson(fr, sh)
        r = ctx.tlc("C15Trace", "C15Trace.cfg", env={"VERIF_RECS": fr}, workers=vlib.NCPU, heap="12g", timeout=3000, tag=stag)
        got = None
        nb0 = len(bad)
        for l in r["printed"]:
            m = re.match(r'<<"BAD", (\d+), "([^"]*)", (-?\d+)>>', l)
            if m:
                bad.append((int(m.group(1)), m.group(2), int(m.group(3))))
            m = re.match(r'<<"NOTE", (\d+), "([^"]*)">>', l)
            if m:
                notes.append((int(m.group(1)), m.group(2)))
            m = re.match(r'<<"CHECKED", (\d+)>>', l)
            if m:
                got = int(m.group(1))
        vlib.expect_bad(r, len(bad) - nb0, "C15Trace")
        if got is None or r["error"] or r["rc"] != 0:
            raise vlib.MachineryError("TLC validation failed (rc=%s)\n%s" % (r["rc"], r["out"][-4000:]))
        checked += got
        ctx.states += r["states"]
        ctx.transitions += r["transitions"]
        os.remove(fr)
        if len(shards) > 1:
            ctx.log("TLC shard %d/%d: %d records" % (k + 1, len(shards), got))
    return bad, notes, checked


def text(b):
    return bytes(b).decode("utf-8", "backslashreplace")


def describe(c, rec, k):
    """human description of the failing element"""
    if c["op"] == "cps":
        j = k - c["lo"]
        return "repr(U+%04X) = %s -> %s" % (k, text(rec["reprs"][j]), canon(rec["backs"][j])[:120])
    if c["op"] == "bb":
        v = [k] if c["hi"] < 0 else [c["hi"], k]
        return "repr(bytes %s) = %s -> %s" % (v, text(rec["reprs"][k]), canon(rec["backs"][k])[:120])
    if c["kind"] == "graph":
        return "graph %s: %s" % (canon(c["v"])[:200], "printing did not terminate" if not rec["res"]["done"] else text(rec["res"]["repr"])[:200])
    return "repr(%s) = %s -> %s" % (canon(c["v"])[:200], text(rec["repr"])[:200], canon(rec["back"])[:200])


def signature(c, law, k):
    if c["op"] == "cps":
        return "%s/%s" % (law, cp_class(k))
    if c["op"] == "bb":
        return "%s/%s" % (law, "single-byte" if c["hi"] < 0 else "two-bytes")
    if c.get("kind") == "graph":
        return "%s/%s" % (law, "cycle-through-struct" if c.get("risky") else ("cyclic" if c["cyclic"] else "shared"))
    return law


def execute(ctx, cases, tag):
    """run all cases; risky ones (and everything after a dead batch) one per process"""
    safe = [c for c in cases if not c.get("risky")]
    risky = [c for c in cases if c.get("risky")]
    results, died = {}, {}
    todo = safe
    rounds = 0
    while todo:
        p, res = run_batch(ctx, todo, "%s-b%d" % (tag, rounds))
        results.update(res)
        rounds += 1
        if p.returncode == 0 and len(res) == len(todo):
            break
        # the process died at the first case without a result: run that one alone, continue after it
        done = set(res)
        rest = [c for c in todo if c["id"] not in done]
        if not rest or rounds > 50:
            raise vlib.MachineryError("c15-run failed (%d): %s" % (p.returncode, p.stderr[-2000:]))
        risky.append(rest[0])
        todo = rest[1:]
    for c in risky:
        r, how = run_alone(ctx, c, "%s-alone%d" % (tag, c["id"]))
        if r is None:
            died[c["id"]] = how
            results[c["id"]] = None
        else:
            results[c["id"]] = r
    return results, died


def run(ctx):
    cases = generate(ctx)
    ctx.log("generated %d cases" % len(cases))
    # design level (P-E): vectors and small exhaustive domains for ReprSpec / Unquote / Float64.IsNearestDec
    ctx.tlc_ok("C15MC", "C15MC.cfg", workers=2, timeout=1200, heap="4g")
    results, died = execute(ctx, cases, "run")
    ctx.log("harness done (%d cases killed their process)" % len(died))
    recs = [record(c, results[c["id"]]) for c in cases]
    bad, notes, checked = tlc_validate(ctx, recs, "all")
    ctx.log("TLC validated %d records: %d rejected" % (checked, len(bad)))
    if checked != len(recs):
        raise vlib.MachineryError("TLC checked %d of %d records" % (checked, len(recs)))
    byid = {c["id"]: c for c in cases}
    recbyid = {r["id"]: r for r in recs}
    seen = set()
    for rid, law, k in sorted(bad):
        c = byid[rid]
        sig = signature(c, law, k)
        if sig in seen or len(seen) >= 15:
            continue
        seen.add(sig)
        # re-execute alone (own process)
        r2, how = run_alone(ctx, c, "re%d" % rid)
        rec2 = record(c, r2)
        bad2, _, _ = tlc_validate(ctx, [rec2], "re%d" % rid)
        if not any(b[1] == law for b in bad2):
            raise vlib.MachineryError("case %d (%s) not reproducible" % (rid, law))
        what = describe(c, recbyid[rid], k)
        if rid in died:
            what += " [process died: %s]" % died[rid]
        ctx.violation(sig, "%s: %s" % (law, what), {"case": c, "law": law, "k": k})

    kinds = {}
    elements = 0
    for c in cases:
        kd = c["op"] if c["op"] in ("cps", "bb") else c["kind"]
        n = c.get("n", 256) if c["op"] in ("cps", "bb") else 1
        kinds[kd] = kinds.get(kd, 0) + n
        elements += n
    ctx.cov["evaluations"] = elements
    ctx.cov["records_validated"] = checked
    ctx.cov["distinct_nontrivial"] = elements            # every value is distinct by construction (sets / dedup by encoding)
    ctx.cov["values_per_kind"] = kinds
    ctx.cov["code_points_individually"] = kinds.get("cps", 0)
    ctx.cov["floats_with_decimal_oracle"] = sum(1 for c in cases if c.get("dec"))
    ctx.cov["cyclic_graphs"] = sum(1 for c in cases if c.get("kind") == "graph" and c["cyclic"])
    ctx.cov["shared_graphs"] = sum(1 for c in cases if c.get("kind") == "graph" and not c["cyclic"])
    ctx.cov["graph_text_differs_from_prediction"] = len(notes)
    ctx.cov["processes_killed"] = len(died)
    smp = [c for c in cases if c["op"] == "val"]
    ctx.samples = [{"value": canon(c["v"])[:160], "repr": text(recbyid[c["id"]].get("repr", recbyid[c["id"]].get("res", {}).get("repr", [])))[:160]}
                   for c in smp[:: max(1, len(smp) // 7)]][:8]
    for rid, what in notes[:5]:
        ctx.notes.append("%s: %s printed as %s" % (what, canon(byid[rid]["v"])[:200], text(recbyid[rid]["res"]["repr"])[:200]))
    ctx.assumptions = [
        "values are built through the Go API from the encoding of harness/cmd/vh/enc.go; the evaluation result is encoded by enc.go",
        "spec/Unquote.tla (from doc/spec.md and the Starlark language spec for \\u, \\U and bytes literals) is the reading of a literal",
        "clean text = well-formed UTF-8 without raw C0/C1 controls, DEL, U+2028, U+2029 (other non-printing characters are not judged)",
        "strings that are not valid UTF-8, non-finite floats, sets, structs and functions are outside the property's quantifier",
        "the exact text for cyclic values ([...] / {...}) is not specified by doc/spec.md: differences from ReprSpec.GraphRepr are noted, only non-termination is a violation",
    ]
    return ctx.finish(rule="every code point individually (quick: all below U+3000 and every 32nd block of 256; thorough: all 1,112,064 scalar values), "
                           "surrogates as raw bytes, all single bytes and two-byte strings (quick: 33 leading bytes), pairs/triples of %d special characters, "
                           "seeded random strings/bytes, ints +-(2^k+d), +-(10^k+d) and random to 2^200, float bit patterns over every exponent, "
                           "random containers nested to depth 6, random object graphs with sharing and cycles; distinct = distinct values" % len(SPECIALS),
                      exhaustive=False)


def replay(ctx, path):
    d = json.load(open(path))["replay"]
    c = d["case"]
    r, how = run_alone(ctx, c, "rp")
    rec = record(c, r)
    bad, _, _ = tlc_validate(ctx, [rec], "rp")
    hit = [b for b in bad if b[1] == d["law"]]
    print("replay %s: %s : %s" % (path, describe(c, rec, d["k"])[:400], ("REJECTED again (%s)" % d["law"]) if hit else "accepted"))
    return 1 if hit else 0
