"""C13  Sequence and string operations follow the specification for all arguments.

code -> spec record validation (P-A): the domain below is enumerated here, each
case is evaluated by the real pipeline (`vh eval`), and TLC validates every
record against spec/Seqs.tla through spec/C13Trace.tla.
"""
import itertools, json, os, random, sys
import vlib

LEVEL = "model_checking"
NONE = {"some": False}


def some(x):
    return {"some": True, "v": x}


def opt_src(o):
    return "None" if not o["some"] else str(o.get("far", o["v"]))


def far(sign, rnd):
    """an index far outside every sequence: the oracle sees +-10^6, the source text a value beyond int32 / int64"""
    return {"some": True, "v": sign * 1000000, "far": sign * rnd.choice([1 << 31, (1 << 31) + 1, 1 << 62, 1 << 64, 10 ** 30])}


def codes(s):
    return [ord(c) for c in s]


def q(s):
    """Starlark string literal for ASCII text."""
    out = '"'
    for c in s:
        if c == "\n":
            out += "\\n"
        elif c == "\t":
            out += "\\t"
        elif c == '"' or c == "\\":
            out += "\\" + c
        else:
            out += c
    return out + '"'


LETTERS8 = "abcdefgh"


def recv_src(ty, s):
    """source text of a receiver of type ty whose elements are the codes of s"""
    if ty == "str":
        return q(s)
    if ty == "bytes":
        return "b" + q(s)
    if ty == "list":
        return "[" + ", ".join(str(ord(c)) for c in s) + "]"
    if ty == "tuple":
        return "(" + "".join(str(ord(c)) + ", " for c in s) + ")"
    raise ValueError(ty)


def gen_slices(ctx, rnd, out):
    maxn = 4 if ctx.quick else 8
    for ty in ("str", "bytes", "list", "tuple", "range"):
        for n in range(0, maxn + 1):
            s = LETTERS8[:n]
            if ty == "range":
                # range(97, 97+n): same element codes as the other receivers
                rs = "range(97, %d)" % (97 + n)
                elems = list(range(97, 97 + n))
            else:
                rs = recv_src(ty, s)
                elems = codes(s)
            idxs = [NONE] + [some(i) for i in range(-n - 3, n + 4)]
            steps = [NONE] + [some(x) for x in sorted({1, -1, 2, -2, 3, -3, n + 1, -(n + 1), 0})]
            for i in range(-n - 3, n + 4):
                out.append({"op": "index", "ty": ty, "s": elems, "i": i, "src": "%s[%d]" % (rs, i)})
            for lo in idxs:
                for hi in idxs:
                    for st in steps:
                        if n >= 3 and rnd.random() < (0.5 if ctx.quick else (0.0 if n <= 5 else 0.6)):
                            continue
                        src = "%s[%s:%s:%s]" % (rs, "" if not lo["some"] else lo["v"], "" if not hi["some"] else hi["v"],
                                                "" if not st["some"] else st["v"])
                        if ty == "range":
                            src = "list(%s)" % src
                        out.append({"op": "slice", "ty": ty, "s": elems, "lo": lo, "hi": hi, "st": st, "src": src})
        # explicit None spellings and far out of range indices
        for n in (0, 3):
            s = LETTERS8[:n]
            FAR = ("None", "-1000000", "1000000", "2147483647", "-2147483648", "2147483648", "-2147483649", "4611686018427387904",
                   "-4611686018427387904", "18446744073709551616", "-18446744073709551616")
            for lo, hi, st in itertools.product(FAR, FAR, ("None", "-1000000", "1000000", "2147483647", "-2147483648", "2147483648", "-4611686018427387904", "18446744073709551616")):
                if ty == "range":
                    continue
                # an index beyond int32 is clamped like any other far index: the oracle gets +-10^6 in its place (TLC integers are 32-bit)
                o = lambda t: NONE if t == "None" else some(max(-1000000, min(1000000, int(t))) if abs(int(t)) > 2147483647 else int(t))
                if st in ("None",) or abs(int(st)) > 0:
                    out.append({"op": "slice", "ty": ty, "s": codes(s), "lo": o(lo), "hi": o(hi), "st": o(st),
                                "src": "%s[%s:%s:%s]" % (recv_src(ty, s), lo, hi, st)})


def gen_range_slices(ctx, rnd, out):
    """slices of ranges observed as ranges (not through list()): membership, length, indexing, truth, reversed"""
    maxn = 4 if ctx.quick else 7
    for n in range(0, maxn + 1):
        recvs = [("range(97, %d)" % (97 + n), list(range(97, 97 + n))),
                 ("range(%d, 96, -1)" % (96 + n), list(range(96 + n, 96, -1))),
                 ("range(97, %d, 2)" % (97 + 2 * n), list(range(97, 97 + 2 * n, 2))),
                 ("range(%d, 96, -3)" % (97 + 3 * (n - 1)), list(range(97 + 3 * (n - 1), 96, -3)))]
        idxs = [NONE] + [some(i) for i in sorted({-n - 1, -2, -1, 0, 1, 2, n - 1, n, n + 2})]
        steps = [NONE] + [some(x) for x in (1, -1, 2, -2, 3, -3, 0)]
        for rs, elems in recvs:
            assert len(elems) == n or n == 0, (rs, elems)
            w0, w1 = (min(elems) - 4, max(elems) + 5) if elems else (95, 100)
            for lo in idxs:
                for hi in idxs:
                    for st in steps:
                        if n >= 2 and rnd.random() < (0.6 if ctx.quick else 0.3):
                            continue
                        sl = "%s[%s:%s:%s]" % (rs, "" if not lo["some"] else lo["v"], "" if not hi["some"] else hi["v"], "" if not st["some"] else st["v"])
                        src = ("(lambda r: [list(r), len(r), [x in r for x in range(%d, %d)], [r[k] for k in range(len(r))], bool(r), list(reversed(r))])(%s)"
                               % (w0, w1, sl))
                        out.append({"op": "rslice", "ty": "range", "s": elems, "lo": lo, "hi": hi, "st": st, "w0": w0, "w1": w1, "src": src})


def gen_sorted_ties(ctx, rnd, out):
    """sorted (both directions), min and max through a key function over all key sequences with ties"""
    maxn = 4 if ctx.quick else 6
    for n in range(0, maxn + 1):
        for ks in itertools.product((0, 1, 2), repeat=n):
            if n >= 5 and rnd.random() < 0.6:
                continue
            xs = "[%s]" % ", ".join("(%d, %d)" % (k, j) for j, k in enumerate(ks))
            for rev in (False, True):
                key = "lambda p: p[0]"
                if n == 0:
                    src = "[sorted(%s, key=%s, reverse=%s)]" % (xs, key, rev)
                else:
                    src = "[sorted(%s, key=%s, reverse=%s), min(%s, key=%s), max(%s, key=%s)]" % (xs, key, rev, xs, key, xs, key)
                out.append({"op": "sorted_kr", "ks": list(ks), "rev": rev, "src": src})
    # the same through longer inputs (beyond the insertion-sort threshold of Go's sort package)
    for _ in range(20 if ctx.quick else 200):
        n = rnd.randint(13, 40)
        ks = [rnd.randrange(3) for _ in range(n)]
        xs = "[%s]" % ", ".join("(%d, %d)" % (k, j) for j, k in enumerate(ks))
        for rev in (False, True):
            src = "[sorted(%s, key=lambda p: p[0], reverse=%s), min(%s, key=lambda p: p[0]), max(%s, key=lambda p: p[0])]" % (xs, rev, xs, xs)
            out.append({"op": "sorted_kr", "ks": ks, "rev": rev, "src": src})


def all_strings(alpha, maxlen):
    for n in range(maxlen + 1):
        for t in itertools.product(alpha, repeat=n):
            yield "".join(t)


def call_src(recv, meth, args):
    return "%s.%s(%s)" % (recv, meth, ", ".join(args))


def gen_search(ctx, rnd, out):
    alpha = "ab" if ctx.quick else "abc"
    maxlen = 4 if ctx.quick else 5
    needles = list(all_strings(alpha, 2))
    for s in all_strings(alpha, maxlen):
        n = len(s)
        rng = [NONE] + [some(i) for i in range(-n - 1, n + 2)] + [far(-1, rnd), far(1, rnd)]
        for sub in needles:
            for lo in rng:
                for hi in rng:
                    if rnd.random() < (0.8 if ctx.quick else 0.94) and n >= 3:
                        continue
                    args = [q(sub)]
                    if lo["some"] or hi["some"] or rnd.random() < 0.1:
                        args.append(opt_src(lo))
                        if hi["some"] or rnd.random() < 0.3:
                            args.append(opt_src(hi))
                    for op, meth in (("find", "find"), ("rfind", "rfind"), ("index_", "index"), ("rindex", "rindex"),
                                     ("count", "count")):
                        out.append({"op": op, "s": codes(s), "sub": codes(sub), "lo": lo, "hi": hi,
                                    "src": call_src(q(s), meth, args)})
                    # startswith / endswith with one candidate or a tuple
                    other = rnd.choice(needles)
                    for op in ("startswith", "endswith"):
                        out.append({"op": op, "s": codes(s), "cands": [codes(sub)], "lo": lo, "hi": hi,
                                    "src": call_src(q(s), op, args)})
                        targs = ["(%s, %s)" % (q(other), q(sub))] + args[1:]
                        out.append({"op": op, "s": codes(s), "cands": [codes(other), codes(sub)], "lo": lo, "hi": hi,
                                    "src": call_src(q(s), op, targs)})
            for op in ("removeprefix", "removesuffix"):
                out.append({"op": op, "s": codes(s), "sub": codes(sub), "src": call_src(q(s), op, [q(sub)])})
            out.append({"op": "in", "s": codes(s), "sub": codes(sub), "src": "%s in %s" % (q(sub), q(s))})
            out.append({"op": "concat", "ty": "str", "s": codes(s), "sub": codes(sub), "src": "%s + %s" % (q(s), q(sub))})
            if sub:
                for op in ("partition", "rpartition"):
                    out.append({"op": op, "s": codes(s), "sub": codes(sub), "src": call_src(q(s), op, [q(sub)])})
            for new in ("", "x", "ab"):
                for cnt in (None, -1, 0, 1, 2, 3, 1 << 30):
                    args = [q(sub), q(new)] + ([] if cnt is None else [str(cnt)])
                    out.append({"op": "replace", "s": codes(s), "sub": codes(sub), "new": codes(new),
                                "max": -1 if cnt is None else cnt, "src": call_src(q(s), "replace", args)})
        out.append({"op": "partition", "s": codes(s), "sub": [], "src": call_src(q(s), "partition", ['""'])})


def gen_split(ctx, rnd, out):
    alpha = "a ," if ctx.quick else "ab ,"
    maxlen = 5 if ctx.quick else 6
    seps = [None, "", ",", " ", "a", ", ", ",,"]
    counts = [None, -1, 0, 1, 2, 3, 1 << 30]
    for s in all_strings(alpha, maxlen):
        for sep in seps:
            for cnt in counts:
                if len(s) >= 4 and rnd.random() < (0.6 if ctx.quick else 0.8):
                    continue
                args = []
                if sep is not None or cnt is not None:
                    args.append("None" if sep is None else q(sep))
                if cnt is not None:
                    args.append(str(cnt))
                for op in ("split", "rsplit"):
                    out.append({"op": op, "s": codes(s), "sep": NONE if sep is None else some(codes(sep)),
                                "max": -1 if cnt is None else cnt, "src": call_src(q(s), op, args)})
        for chars in (None, "", " ", ",", "a,", " ,"):
            for op in ("strip", "lstrip", "rstrip"):
                out.append({"op": op, "s": codes(s), "sub": [] if chars is None else codes(chars),
                            "src": call_src(q(s), op, [] if chars is None else [q(chars)])})
    # whitespace classes and line splitting
    for s in all_strings("a \t\n", 4 if ctx.quick else 5):
        for cnt in (None, 0, 1, 2):
            args = [] if cnt is None else ["None", str(cnt)]
            for op in ("split", "rsplit"):
                out.append({"op": op, "s": codes(s), "sep": NONE, "max": -1 if cnt is None else cnt,
                            "src": call_src(q(s), op, args)})
        for op in ("strip", "lstrip", "rstrip"):
            out.append({"op": op, "s": codes(s), "sub": [], "src": call_src(q(s), op, [])})
        for keep in (None, False, True):
            out.append({"op": "splitlines", "s": codes(s), "keep": bool(keep),
                        "src": call_src(q(s), "splitlines", [] if keep is None else [str(keep)])})
        out.append({"op": "isspace", "s": codes(s), "src": call_src(q(s), "isspace", [])})


def gen_case(ctx, rnd, out):
    alpha = "aB1 " if ctx.quick else "abAB1 _"
    for s in all_strings(alpha, 4 if ctx.quick else 5):
        for op in ("lower", "upper", "title", "capitalize", "isalnum", "isalpha", "isdigit", "isspace", "islower",
                   "isupper", "istitle"):
            out.append({"op": op, "s": codes(s), "src": call_src(q(s), op, [])})
    # join
    parts_pool = ["", "a", "bc"]
    for sep in ("", ",", "ab"):
        for k in range(0, 4):
            for parts in itertools.product(parts_pool, repeat=k):
                for form in ("list", "tuple"):
                    if form == "list":
                        ps = "[" + ", ".join(q(p) for p in parts) + "]"
                    else:
                        ps = "(" + "".join(q(p) + ", " for p in parts) + ")"
                    out.append({"op": "join", "s": codes(sep), "parts": [codes(p) for p in parts],
                                "src": call_src(q(sep), "join", [ps])})


def gen_lists(ctx, rnd, out):
    maxn = 3 if ctx.quick else 4
    vals = [0, 1, 2]
    for n in range(maxn + 1):
        for t in itertools.product(vals, repeat=n):
            s = list(t)
            ls = "[" + ", ".join(map(str, s)) + "]"
            for i in range(-n - 2, n + 3):
                out.append({"op": "insert", "s": s, "i": i, "x": 9,
                            "src": "(lambda l: [l.insert(%d, 9), l][1])(%s)" % (i, ls)})
                out.append({"op": "pop", "s": s, "io": some(i),
                            "src": "(lambda l: (l.pop(%d), l))(%s)" % (i, ls)})
            out.append({"op": "pop", "s": s, "io": NONE, "src": "(lambda l: (l.pop(), l))(%s)" % ls})
            rng = [NONE] + [some(i) for i in range(-n - 1, n + 2)]
            for x in vals + [7]:
                out.append({"op": "remove", "s": s, "x": x, "src": "(lambda l: [l.remove(%d), l][1])(%s)" % (x, ls)})
                for lo in rng:
                    for hi in rng:
                        args = [str(x)]
                        if lo["some"] or hi["some"]:
                            args.append(opt_src(lo))
                            if hi["some"]:
                                args.append(opt_src(hi))
                        out.append({"op": "lindex", "s": s, "x": x, "lo": lo, "hi": hi,
                                    "src": call_src(ls, "index", args)})
            for other in ([], [5], [5, 6]):
                os_ = "[" + ", ".join(map(str, other)) + "]"
                out.append({"op": "extend", "s": s, "sub": other,
                            "src": "(lambda l: [l.extend(%s), l][1])(%s)" % (os_, ls)})
                out.append({"op": "concat", "ty": "list", "s": s, "sub": other, "src": "%s + %s" % (ls, os_)})
                out.append({"op": "concat", "ty": "tuple", "s": s, "sub": other,
                            "src": "tuple(%s) + tuple(%s)" % (ls, os_)})
            out.append({"op": "reversed", "s": s, "src": "reversed(%s)" % ls})
            out.append({"op": "sorted", "s": s, "src": "sorted(%s)" % ls})
            out.append({"op": "min", "s": s, "src": "min(%s)" % ls})
            out.append({"op": "max", "s": s, "src": "max(%s)" % ls})
            out.append({"op": "any", "s": s, "src": "any(%s)" % ls})
            out.append({"op": "all", "s": s, "src": "all(%s)" % ls})
            out.append({"op": "len", "s": s, "src": "len(%s)" % ls})
            for st in (None, 0, 5, -2):
                out.append({"op": "enumerate", "s": s, "n": st or 0,
                            "src": "list(enumerate(%s%s))" % (ls, "" if st is None else ", %d" % st)})
            # the consumers of iterables, over every ROUTE by which the same elements can arrive: tuple, dict keys
            # (when distinct), and iterables that do not know their length (code point / byte iterators)
            esc = "".join("\\x%02x" % v for v in s)
            routes = [("tuple", "tuple(%s)" % ls), ("ords", '"%s".codepoint_ords()' % esc),
                      ("bytes", 'b"%s".elems()' % esc), ("eords", '"%s".elem_ords()' % esc)]
            if len(set(s)) == len(s):
                routes.append(("keys", "{%s}" % ", ".join("%d: None" % v for v in s)))
            for rname, rsrc in routes:
                for st in (None, 0, 5, -2):
                    out.append({"op": "enumerate", "s": s, "n": st or 0, "route": rname,
                                "src": "list(enumerate(%s%s))" % (rsrc, "" if st is None else ", %d" % st)})
                out.append({"op": "sorted", "s": s, "route": rname, "src": "sorted(%s)" % rsrc})
                out.append({"op": "min", "s": s, "route": rname, "src": "min(%s)" % rsrc})
                out.append({"op": "max", "s": s, "route": rname, "src": "max(%s)" % rsrc})
                out.append({"op": "any", "s": s, "route": rname, "src": "any(%s)" % rsrc})
                out.append({"op": "all", "s": s, "route": rname, "src": "all(%s)" % rsrc})
                out.append({"op": "concat", "ty": "list", "s": s, "sub": [], "route": rname, "src": "list(%s)" % rsrc})
                out.append({"op": "concat", "ty": "tuple", "s": s, "sub": [], "route": rname, "src": "tuple(%s)" % rsrc})
                out.append({"op": "extend", "s": [7], "sub": s, "route": rname,
                            "src": "(lambda l: [l.extend(%s), l][1])([7])" % rsrc})
            for k in (-1, 0, 1, 2, 3):
                for ty in ("list", "tuple", "str", "bytes"):
                    if ty in ("str", "bytes"):
                        txt = "".join("abc"[v] for v in s)
                        rs, ss = recv_src(ty, txt), codes(txt)
                    elif ty == "list":
                        rs, ss = ls, s
                    else:
                        rs, ss = "tuple(%s)" % ls, s
                    out.append({"op": "repeat", "ty": ty, "s": ss, "n": k, "src": "%s * %d" % (rs, k)})
                    out.append({"op": "repeat", "ty": ty, "s": ss, "n": k, "src": "%d * %s" % (k, rs)})
    # zip of up to 3 sequences
    seqs = [[], [1], [1, 2], [1, 2, 3]]
    for k in range(0, 4):
        for ss in itertools.product(seqs, repeat=k):
            src = "zip(%s)" % ", ".join("[" + ", ".join(map(str, x)) + "]" for x in ss)
            out.append({"op": "zip", "ss": [list(x) for x in ss], "src": src})


def gen_random(ctx, rnd, out):
    """random receivers up to length 40 (sampled part of the quantifier)"""
    n = 1500 if ctx.quick else 30000
    for _ in range(n):
        L = rnd.randint(0, 40)
        s = "".join(rnd.choice("ab c") for _ in range(L))
        sub = "".join(rnd.choice("ab c") for _ in range(rnd.randint(0, 3)))
        ridx = lambda: rnd.choice([NONE, some(rnd.randint(-L - 5, L + 5))])
        lo, hi = ridx(), ridx()
        k = rnd.randrange(8)
        if k == 0:
            st = rnd.choice([NONE, some(rnd.choice([-7, -3, -2, -1, 1, 2, 3, 7]))])
            out.append({"op": "slice", "ty": "str", "s": codes(s), "lo": lo, "hi": hi, "st": st,
                        "src": "%s[%s:%s:%s]" % (q(s), opt_src(lo), opt_src(hi), opt_src(st))})
        elif k == 1:
            op, meth = rnd.choice([("find", "find"), ("rfind", "rfind"), ("index_", "index"), ("rindex", "rindex"), ("count", "count")])
            out.append({"op": op, "s": codes(s), "sub": codes(sub), "lo": lo, "hi": hi,
                        "src": call_src(q(s), meth, [q(sub), opt_src(lo), opt_src(hi)])})
        elif k == 2:
            cnt = rnd.choice([-1, 0, 1, 2, 5, 100])
            sep = rnd.choice([None, " ", "a", "ab", " c"])
            op = rnd.choice(["split", "rsplit"])
            out.append({"op": op, "s": codes(s), "sep": NONE if sep is None else some(codes(sep)), "max": cnt,
                        "src": call_src(q(s), op, ["None" if sep is None else q(sep), str(cnt)])})
        elif k == 3:
            new = rnd.choice(["", "x", "abc"])
            cnt = rnd.choice([-1, 0, 1, 2, 5, 100])
            out.append({"op": "replace", "s": codes(s), "sub": codes(sub), "new": codes(new), "max": cnt,
                        "src": call_src(q(s), "replace", [q(sub), q(new), str(cnt)])})
        elif k == 4:
            op = rnd.choice(["startswith", "endswith"])
            out.append({"op": op, "s": codes(s), "cands": [codes(sub)], "lo": lo, "hi": hi,
                        "src": call_src(q(s), op, [q(sub), opt_src(lo), opt_src(hi)])})
        elif k == 5:
            op = rnd.choice(["strip", "lstrip", "rstrip"])
            chars = rnd.choice(["", " ", "a ", "cb"])
            out.append({"op": op, "s": codes(s), "sub": codes(chars), "src": call_src(q(s), op, [q(chars)])})
        elif k == 6:
            op = rnd.choice(["title", "capitalize", "upper", "lower", "istitle", "islower", "isupper"])
            t = "".join(rnd.choice("abAB 1") for _ in range(L))
            out.append({"op": op, "s": codes(t), "src": call_src(q(t), op, [])})
        else:
            if sub:
                op = rnd.choice(["partition", "rpartition"])
                out.append({"op": op, "s": codes(s), "sub": codes(sub), "src": call_src(q(s), op, [q(sub)])})


def tval(v):
    """typed encoding (Enc.tla) and source text of a small value"""
    if v is None:
        return {"t": "none"}, "None"
    if isinstance(v, bool):
        return {"t": "bool", "v": v}, str(v)
    if isinstance(v, int):
        return {"t": "int", "v": v}, str(v)
    if isinstance(v, str):
        return {"t": "str", "v": codes(v)}, q(v)
    if isinstance(v, list):
        return {"t": "list", "v": [tval(x)[0] for x in v]}, "[" + ", ".join(tval(x)[1] for x in v) + "]"
    if isinstance(v, tuple):
        return {"t": "tuple", "v": [tval(x)[0] for x in v]}, "(" + ", ".join(tval(x)[1] for x in v) + ("," if len(v) == 1 else "") + ")"
    raise ValueError(v)


def gen_format(ctx, rnd, out):
    """str.format and % interpolation: templates are concatenations of pieces; the oracle (Fmt.tla) parses the text itself"""
    pieces = ["a", "b ", "{}", "{0}", "{1}", "{x}", "{y}", "{!r}", "{0!r}", "{x!s}", "{1!r}", "{{", "}}", "{", "}", "{:d}", "{!z}", "{0:}", "{ }", "{01}", "{000}",
              "{18446744073709551616}", "{18446744073709551617!r}", "{4294967296}", "{9223372036854775808}", "{36893488147419103232}"]
    vals = [5, -12, "ab", None, 'q"t', [1, "s"], True, (3,)]
    maxp = 2 if ctx.quick else 3
    argsets = [[], [5], ["ab", -12], [None, [1, "s"]], ['q"t', (3,)]]
    for k in range(0, maxp + 1):
        for tp in itertools.product(pieces, repeat=k):
            if k == maxp and rnd.random() < (0.7 if ctx.quick else 0.85):
                continue
            f = "".join(tp)
            for args in argsets:
                if rnd.random() < 0.4:
                    continue
                for kw in ([], [("x", 7)], [("x", "k"), ("y", True)]):
                    if kw and rnd.random() < 0.5:
                        continue
                    src = "%s.format(%s)" % (q(f), ", ".join([tval(a)[1] for a in args] + ["%s=%s" % (n, tval(v)[1]) for n, v in kw]))
                    out.append({"op": "format", "s": codes(f), "args": [tval(a)[0] for a in args],
                                "kw": [[codes(n), tval(v)[0]] for n, v in kw], "src": src})
    ppieces = ["a", "%s", "%r", "%d", "%i", "%x", "%X", "%o", "%c", "%%", "%", "%z", " b"]
    operands = [5, -255, "ab", None, "c", 65, (5,), (5, "ab"), ("ab", -255), (65, "c", 7), (), [1, 2], True, 'q"t', (None, [1, "s"])]
    for k in range(0, maxp + 1):
        for tp in itertools.product(ppieces, repeat=k):
            if k == maxp and rnd.random() < (0.6 if ctx.quick else 0.8):
                continue
            f = "".join(tp)
            for x in operands:
                if rnd.random() < 0.5:
                    continue
                out.append({"op": "interp", "s": codes(f), "x": tval(x)[0], "src": "%s %% %s" % (q(f), tval(x)[1])})


def gen_alias(ctx, rnd, out):
    """multi-step expressions over ONE value: slices, concatenations and repetitions must not disturb the value
    they were derived from (tuples, strings and bytes are immutable; list results are fresh)"""
    def lit(ty, elems):
        if ty in ("str", "bytes"):
            return recv_src(ty, "".join(chr(c) for c in elems))
        body = ", ".join(map(str, elems))
        return "[%s]" % body if ty == "list" else "(%s%s)" % (body, "," if len(elems) == 1 else "")
    bases = {
        "literal": lambda ty, e: lit(ty, e),
        "sliced": lambda ty, e: "%s[0:%d]" % (lit(ty, e + [103, 104]), len(e)),        # shares storage with a longer value
        "strided": lambda ty, e: "%s[::2]" % lit(ty, [v for x in e for v in (x, 120)]),
        "concat": lambda ty, e: "(%s + %s)" % (lit(ty, e[:1]), lit(ty, e[1:])),
        "converted": lambda ty, e: {"tuple": "tuple([%s])", "list": "list((%s,))", "str": '"".join([%s])', "bytes": 'bytes([%s])'}[ty] % (
            ", ".join(('"%s"' % chr(v)) if ty == "str" else str(v) for v in e)),
    }
    for ty in ("tuple", "list", "str"):      # bytes + bytes is not defined by doc/spec.md nor implemented: not judged
        for n in range(1, 6):
            e = [97 + i for i in range(n)]
            for bname, bf in bases.items():
                if bname == "converted" and n == 0:
                    continue
                for k in range(0, n + 1):
                    for xs in ([], [120], [120, 121, 122]):
                        out.append({"op": "slice_concat", "ty": ty, "s": e, "k": k, "x": xs,
                                    "src": "(lambda t: [t[:%d] + %s, t, t[%d:]])(%s)" % (k, lit(ty, xs), k, bf(ty, e))})
                for xs, ys, zs in (([100], [101], [102, 103]), ([100, 100, 100], [101], []), ([], [101, 101], [102])):
                    out.append({"op": "extend_twice", "ty": ty, "s": e, "x": xs, "y": ys, "z": zs,
                                "src": "(lambda t: (lambda u: [u + %s, u + %s, u, t])(t + %s))(%s)" % (lit(ty, ys), lit(ty, zs), lit(ty, xs), bf(ty, e))})


def generate(ctx):
    rnd = random.Random(ctx.seed)
    out = []
    for g in (gen_slices, gen_range_slices, gen_sorted_ties, gen_search, gen_split, gen_case, gen_lists, gen_random, gen_alias, gen_format):
        g(ctx, rnd, out)
    for i, c in enumerate(out):
        c["id"] = i + 1
    return out


def signature(c):
    return "op=%s" % c["op"]


def evaluate(ctx, cases, tag="cases"):
    fin, fout = ctx.path(tag + ".in"), ctx.path(tag + ".out")
    vlib.write_ndjson(fin, [{"id": c["id"], "src": c["src"]} for c in cases])
    ctx.vh(["eval", "-in", fin, "-out", fout])
    res = {r["id"]: r for r in vlib.read_ndjson(fout)}
    if len(res) != len(cases):
        raise vlib.MachineryError("harness returned %d results for %d cases" % (len(res), len(cases)))
    return res


def record(c, r):
    rec = {k: v for k, v in c.items() if k != "src"}
    rec["res"] = {"ok": True, "v": r["v"]} if r["ok"] else {"ok": False}
    return rec


def run(ctx):
    cases = generate(ctx)
    ctx.log("generated %d cases" % len(cases))
    res = evaluate(ctx, cases)
    panics = [c for c in cases if res[c["id"]].get("panic")]
    recs = [record(c, res[c["id"]]) for c in cases]
    files = []
    for k, sh in enumerate(vlib.shard(recs, max(1, len(recs) // 400000 + 1))):
        f = ctx.path("recs%02d.ndjson" % k)
        vlib.write_ndjson(f, sh)
        files.append(f)
    bad, checked = ctx.validate("C13Trace", "C13Trace.cfg", files)
    ctx.log("TLC validated %d records, %d rejected" % (checked, len(bad)))
    if checked != len(cases):
        raise vlib.MachineryError("TLC checked %d of %d records" % (checked, len(cases)))
    byid = {c["id"]: c for c in cases}
    # re-execute every rejected case alone before reporting it
    reported = set()
    for cid in sorted(set(bad)):
        c = byid[cid]
        if signature(c) in reported:       # one re-executed representative per signature
            continue
        reported.add(signature(c))
        r2 = evaluate(ctx, [c], tag="re%d" % cid)[cid]
        if record(c, r2)["res"] != record(c, res[cid])["res"]:
            raise vlib.MachineryError("case %d not reproducible" % cid)
        ctx.violation(signature(c), "%s -> %s, specification disagrees" % (c["src"], json.dumps(res[cid].get("v", res[cid].get("err")))[:200]),
                      {"case": c, "observed": res[cid]})
    for c in panics:
        ctx.violation(signature(c) + "/panic", "%s panics: %s" % (c["src"], res[c["id"]]["panic"]), {"case": c})
    ops = {}
    for c in cases:
        ops[c["op"]] = ops.get(c["op"], 0) + 1
    ctx.cov["evaluations"] = len(cases)
    ctx.cov["traces_validated_against_impl"] = checked - len(set(bad))
    ctx.cov["distinct_nontrivial"] = len({c["src"] for c in cases})
    ctx.cov["per_operation"] = ops
    ctx.samples = [{"src": c["src"], "observed": res[c["id"]].get("v", "error")} for c in cases[:: max(1, len(cases) // 6)]][:8]
    ctx.assumptions = ["ASCII text only (byte and code-point semantics coincide)",
                       "Seqs.tla is the oracle; it was cross-validated against CPython on the shared subset (tools/xval_c13.py)"]
    return ctx.finish(rule="cases enumerated by checks/c13.py (exhaustive index/slice/search/split families on small receivers + seeded random receivers to length 40); "
                           "distinct = distinct source expressions; every case reaches the operation under test",
                      exhaustive=False)


def replay(ctx, path):
    d = json.load(open(path))
    c = d["replay"]["case"]
    r = evaluate(ctx, [c])[c["id"]]
    rec = record(c, r)
    f = ctx.path("replay.ndjson")
    vlib.write_ndjson(f, [rec])
    bad, _ = ctx.validate("C13Trace", "C13Trace.cfg", [f])
    print("replay %s: %s -> %s : %s" % (path, c["src"], json.dumps(r.get("v", r.get("err"))), "REJECTED by spec" if bad else "accepted"))
    return 1 if bad else 0
