"""C03  Execution is deterministic.

code -> spec record validation (P-A) of a 2-safety property.  For every generated program the
harness (`vh c03-run`) records >= 14 runs: 3 fresh child processes (each with its own maphash
seed), the same process twice on one OS thread (corpus walked forwards / backwards), once on a
starlark.Thread reused for the whole corpus, and 8 goroutines released together that share the
frozen predeclared values.  TLC (spec/C03Trace.tla) checks on every group
  * Det!Deterministic: pairwise equal observations (transcript, effects, canonical globals with the
    iteration order of every reachable list/dict/set, printed globals, attribute listings, error,
    backtrace, steps), and that the group is not vacuous (kinds present, seeds really differ);
  * for the order-exposing family, whose programs are rendered from an operation list: content,
    order, results, listings and str() after every operation as predicted by Hashtable.tla;
  * dir(x) strictly ascending; hash(s) = java.lang.String.hashCode(s) for ASCII strings.
spec/C03MC.tla is the design-level self-composition check (two lock-step copies of the concrete
table under different hash assignments iterate identically).
"""
import hashlib, json, os, random, re, struct
from fractions import Fraction
import vlib

LEVEL = "exploration"

NEED = {"proc": 3, "seq": 2, "reuse": 1, "conc": 8}
COMPONENTS = ["ok", "static", "printed", "effects", "globals", "gstr", "dirs", "err", "bt", "steps"]
ALL_ON = {"Set": True, "While": True, "TopLevelControl": True, "GlobalReassign": True, "LoadBindsGlobally": False, "Recursion": True}


def q(s):
    out = '"'
    for c in s:
        if c == '"' or c == "\\":
            out += "\\" + c
        elif c == "\n":
            out += "\\n"
        else:
            out += c
    return out + '"'


def codes(s):
    return [ord(c) for c in s]


# ------------------------------------------------------------------------------------------ key pool
def build_pool(rnd):
    """literals usable as dict keys / set elements: (source, equality class key, repr)"""
    pool = []

    def add(src, key, rep):
        pool.append({"src": src, "key": key, "repr": rep})

    letters = "abcdefghijklmnopqrstuvwxyzABCDEFGHIJKLMNOPQRSTUVWXYZ0123456789_-"
    for i in range(22):            # strings >= 12 bytes: hashed with the per-process seed
        n = rnd.choice([12, 12, 13, 14, 16, 20, 27, 40])
        s = "k%02d-" % i
        s += "".join(rnd.choice(letters) for _ in range(n - len(s)))
        add(q(s), ("s", s), q(s))
    # shorter than the switch (FNV-1a in software), incl. four pairs with equal 32-bit FNV-1a hashes
    for s in ["abcdefghijk", "costarring", "liquid", "declinate", "macallums", "altarage", "zinke", "altarages", "zinkes", "", "a", "b"]:
        add(q(s), ("s", s), q(s))
    for n in [0, 1, 2, 3, 7, 8, 16, 1024, 2048, 4096, 65536, 1 << 20, -1, -2, 1 << 31, (1 << 32) + 5, (1 << 64) + 1, -(1 << 40)]:
        add(str(n), ("n", Fraction(n)), str(n))
    for txt, val in [("0.0", 0), ("-0.0", 0), ("1.0", 1), ("2.0", 2), ("8.0", 8), ("1024.0", 1024), ("0.5", Fraction(1, 2)), ("-1.0", -1)]:
        add(txt, ("n", Fraction(val)), txt)
    add("True", ("b", True), "True")
    add("False", ("b", False), "False")
    add("None", ("none",), "None")
    long0 = pool[0]["key"][1]
    add('("t", 1)', ("t", (("s", "t"), ("n", Fraction(1)))), '("t", 1)')
    add("(1, 2)", ("t", (("n", Fraction(1)), ("n", Fraction(2)))), "(1, 2)")
    add("(1.0, 2)", ("t", (("n", Fraction(1)), ("n", Fraction(2)))), "(1.0, 2)")
    add("()", ("t", ()), "()")
    add("(%s, 3)" % q(long0), ("t", (("s", long0), ("n", Fraction(3)))), "(%s, 3)" % q(long0))
    add('b"bytes-key-long-01"', ("y", "bytes-key-long-01"), 'b"bytes-key-long-01"')
    add('b"bk"', ("y", "bk"), 'b"bk"')
    ids = {}
    for p in pool:
        p["cls"] = ids.setdefault(p["key"], len(ids) + 1)
    return pool


def distinct_cls(rnd, pool, cands, n):
    out, seen = [], set()
    cands = list(cands)
    rnd.shuffle(cands)
    for l in cands:
        c = pool[l - 1]["cls"]
        if c not in seen:
            seen.add(c)
            out.append(l)
        if len(out) == n:
            break
    return out


def build_header(rnd, pool):
    lits = list(range(1, len(pool) + 1))
    sd = distinct_cls(rnd, pool, lits[:22] + lits[34:52], 9)
    ss = distinct_cls(rnd, pool, lits, 9)
    return {"pool": [p["src"] for p in pool], "shared_d": [[l, 100 + i] for i, l in enumerate(sd)], "shared_s": ss}


# ------------------------------------------------------------------------- order-exposing family
DV = ["da", "db", "dc"]
SV = ["sa", "sb", "sc"]
SETOPS = {"or": ("|", "union"), "and": ("&", "intersection"), "sub": ("-", "difference"), "xor": ("^", "symmetric_difference")}


def gen_ord(rnd, pool):
    """a straight-line program over three dicts and three sets, rendered from an operation list"""
    nlit = len(pool)
    # a working set of literals so that re-insertion, equal-but-different keys and collisions are frequent
    work = rnd.sample(range(1, nlit + 1), rnd.randint(4, 16))
    if rnd.random() < 0.5:
        work += [l for l in range(1, nlit + 1) if pool[l - 1]["key"][0] == "n" and rnd.random() < 0.4]
    if rnd.random() < 0.3:
        work += list(range(23, 32))           # the colliding short strings
    if rnd.random() < 0.4:
        work += list(range(1, 23))            # many seeded-hash strings: growth of the table

    def K():
        return rnd.choice(work)

    def S(l):
        return pool[l - 1]["src"]

    def keys(n):
        return [K() for _ in range(n)]

    def dpairs(n, distinct):
        ks = distinct_cls(rnd, pool, work, n) if distinct else keys(n)
        return [[k, rnd.randint(0, 999)] for k in ks]

    def pairs_src(ps):
        return "[" + ", ".join("(%s, %d)" % (S(k), v) for k, v in ps) + "]"

    def keys_src(ks):
        return "[" + ", ".join(S(k) for k in ks) + "]"

    ops, body = [], []
    nops = rnd.randint(6, 30)
    for n in range(1, nops + 1):
        a, b, t = rnd.randrange(3), rnd.randrange(3), rnd.randrange(3)
        A, B, T = a + 1, b + 1, t + 1
        mode, res = "", "NORES"
        r = rnd.random()
        isdict = rnd.random() < 0.55
        if isdict:
            da, db, dt = DV[a], DV[b], DV[t]
            if r < 0.08:
                ps = dpairs(rnd.randint(0, 12), True)
                op, st, tgt = ["dlit", A, ps], "%s = {%s}" % (da, ", ".join("%s: %d" % (S(k), v) for k, v in ps)), da
            elif r < 0.14:
                ps = dpairs(rnd.randint(0, 12), False)
                op, st, tgt = ["dpairs", A, ps], "%s = dict(%s)" % (da, pairs_src(ps)), da
            elif r < 0.18:
                ps = dpairs(rnd.randint(0, 12), False)
                op, st, tgt = ["dcomp", A, ps], "%s = {k: v for k, v in %s}" % (da, pairs_src(ps)), da
            elif r < 0.42:
                k, v = K(), n
                op, st, tgt = ["dset", A, k, v], "%s[%s] = %d" % (da, S(k), v), da
            elif r < 0.48:
                k, v = K(), n
                op, st, tgt = ["dsetdef", A, k, v], "r = %s.setdefault(%s, %d)" % (da, S(k), v), da
                mode, res = "v", "r"
            elif r < 0.62:
                k = K()
                op, st, tgt = ["dpop", A, k], "r = %s.pop(%s, NORES)" % (da, S(k)), da
                mode, res = "v", "r"
            elif r < 0.68:
                op, st, tgt = ["dpopitem", A], "r = %s.popitem() if %s else NORES" % (da, da), da
                mode, res = "kv", "r"
            elif r < 0.70:
                op, st, tgt = ["dclear", A], "%s.clear()" % da, da
            elif r < 0.75 and a != b:
                op, st, tgt = ["dupdate", A, B], "%s.update(%s)" % (da, db), da
            elif r < 0.80:
                ps = dpairs(rnd.randint(0, 8), False)
                op, st, tgt = ["dupdpairs", A, ps], "%s.update(%s)" % (da, pairs_src(ps)), da
            elif r < 0.86:
                op, st, tgt = ["dunion", T, A, B], "%s = %s | %s" % (dt, da, db), dt
            elif r < 0.90 and a != b:
                op, st, tgt = ["dior", A, B], "%s |= %s" % (da, db), da
            elif r < 0.93:
                op, st, tgt = ["dcopy", T, A], "%s = dict(%s)" % (dt, da), dt
            elif r < 0.95:
                op, st, tgt = ["dshared", T], "%s = dict(SHARED_D)" % dt, dt
            elif r < 0.98:
                side = rnd.randrange(2)
                op, st, tgt = ["dsharedu", T, A, side], "%s = %s" % (dt, ("SHARED_D | %s" % da) if side == 0 else ("%s | SHARED_D" % da)), dt
            else:
                op, st, tgt = ["dfroms", T, B], "%s = {k: 7 for k in %s}" % (dt, SV[b]), dt
            lmode, listing = rnd.choice([("kv", "list(X.items())"), ("kv", "[(k, v) for k, v in X.items()]"), ("kv", "[(k, X[k]) for k in X]"),
                                         ("kv", "list(zip(X.keys(), X.values()))"), ("k", "X.keys()"), ("k", "list(X)"), ("k", "[k for k in X]"),
                                         ("k", "sorted(X, key=lambda k: 0)"), ("k", "[k for k, _ in X.items()]")])
        else:
            sa, sb, stt = SV[a], SV[b], SV[t]
            if r < 0.12:
                ks = keys(rnd.randint(0, 12))
                op, st, tgt = ["slit", A, ks], "%s = set(%s)" % (sa, keys_src(ks)), sa
            elif r < 0.32:
                k = K()
                op, st, tgt = ["sadd", A, k], "%s.add(%s)" % (sa, S(k)), sa
            elif r < 0.42:
                k = K()
                op, st, tgt = ["sdiscard", A, k], "%s.discard(%s)" % (sa, S(k)), sa
            elif r < 0.48:
                k = K()
                op, st, tgt = ["sremove", A, k], "r = %s.remove(%s) if %s in %s else None" % (sa, S(k), S(k), sa), sa
            elif r < 0.55:
                op, st, tgt = ["spop", A], "r = %s.pop() if %s else NORES" % (sa, sa), sa
                mode, res = "k", "r"
            elif r < 0.57:
                op, st, tgt = ["sclear", A], "%s.clear()" % sa, sa
            elif r < 0.64:
                ks = keys(rnd.randint(0, 8))
                op, st, tgt = ["supdate", A, ks], "%s.update(%s)" % (sa, keys_src(ks)), sa
            elif r < 0.80:
                o = rnd.choice(list(SETOPS))
                form = rnd.randrange(3)
                if form == 0:
                    src = "%s %s %s" % (sa, SETOPS[o][0], sb)
                elif form == 1:
                    src = "%s.%s(%s)" % (sa, SETOPS[o][1], sb)
                else:
                    src = "%s.%s(list(%s))" % (sa, SETOPS[o][1], sb)
                op, st, tgt = ["sbin", T, A, B, o], "%s = %s" % (stt, src), stt
            elif r < 0.90:
                o = rnd.choice(list(SETOPS))
                ks = keys(rnd.randint(0, 8))
                op, st, tgt = ["smeth", T, A, ks, o], "%s = %s.%s(%s)" % (stt, sa, SETOPS[o][1], keys_src(ks)), stt
            elif r < 0.94:
                op, st, tgt = ["sfromd", T, B], "%s = set(%s)" % (stt, DV[b]), stt
            else:
                o = rnd.choice(list(SETOPS))
                side = rnd.randrange(2)
                src = ("SHARED_S %s %s" % (SETOPS[o][0], sa)) if side == 0 else ("%s %s SHARED_S" % (sa, SETOPS[o][0]))
                op, st, tgt = ["sshared", T, A, o, side], "%s = %s" % (stt, src), stt
            lmode, listing = rnd.choice([("k", "list(X)"), ("k", "[k for k in X]"), ("k", "list(X.union([]))"), ("k", "list(X | set())"),
                                         ("k", "sorted(X, key=lambda k: 0)"), ("k", "[k for k in list(X)]")])
        ops.append(op)
        body.append(st)
        body.append('ob(%d, %s, "%s", %s, "%s", %s)' % (n, tgt, mode, res, lmode, listing.replace("X", tgt)))
    decl = ["da = {}", "db = {}", "dc = {}", "sa = set()", "sb = set()", "sc = set()", "r = None"]
    infunc = rnd.random() < 0.4
    opts = dict(ALL_ON)
    for f in ("While", "TopLevelControl", "Recursion", "LoadBindsGlobally"):
        opts[f] = rnd.random() < 0.5
    if infunc:
        opts["GlobalReassign"] = rnd.random() < 0.5
        lines = ["def main():"] + ["    " + l for l in decl + body] + ["    return da, db, dc, sa, sb, sc", "res = main()", "print(res)"]
    else:
        lines = decl + body + ["print(da, db, dc)", "print(sa, sb, sc)"]
    return {"fam": "ord", "src": "\n".join(lines) + "\n", "opts": opts, "ops": ops}


# ----------------------------------------------------------------------------- feature programs
def misspell(rnd, name):
    if len(name) < 3:
        return name + "x"
    i = rnd.randrange(1, len(name))
    k = rnd.randrange(4)
    if k == 0:
        return name[:i] + name[i + 1:]
    if k == 1:
        return name[:i] + rnd.choice("xqz") + name[i:]
    if k == 2 and i + 1 < len(name):
        return name[:i] + name[i + 1] + name[i] + name[i + 2:]
    return name[:i] + rnd.choice("xqz") + name[i + 1:]


IDENT = ["alpha", "beta", "gamma_value", "delta_long_identifier", "epsilon", "zeta", "eta_component_name", "theta", "iota", "kappa_x",
         "lambda_", "mu", "nu_field", "xi", "omicron_property", "pi", "rho_rho_rho_rho", "sigma", "tau", "upsilon_attr"]


def gen_feat(rnd, pool):
    longs = [p["key"][1] for p in pool[:22]]
    L = lambda: q(rnd.choice(longs))
    lines, mods = [], {}
    steps = 0

    def names(n):
        return rnd.sample(IDENT, n)

    def snip_struct():
        ns = names(rnd.randint(2, 7))
        lines.append("st1 = struct(%s)" % ", ".join("%s=%s" % (n, rnd.choice(["1", "[1, 2]", L(), "{%s: 1}" % L(), "None", "1.5"])) for n in ns))
        ns2 = names(rnd.randint(1, 4))
        lines.append("st2 = struct(**{%s})" % ", ".join("%s: %d" % (q(n), i) for i, n in enumerate(ns2)))
        lines.append("print(st1, dir(st1), st2)")
        lines.append("trace(json.encode(st1), str(st2), repr(st1), st1 == st1, dir(st2))")
        if rnd.random() < 0.5:
            lines.append("st3 = st1 + st2")
            lines.append("print(st3, dir(st3), json.encode(st3))")
        lines.append("trace([getattr(st1, n) for n in dir(st1)], hasattr(st1, %s))" % q(rnd.choice(IDENT)))
        lines.append("print(SHARED_ST, dir(SHARED_ST), json.encode(SHARED_ST.shared_dictionary) if False else 0)")

    def snip_dir():
        xs = rnd.sample(['""', "[]", "{}", "set()", 'b""', "1", "1.5", "None", "True", "()", "json", "math", "time", "time.now()",
                         'time.parse_duration("1h")', "lambda: 0", "range(3)", "len", '"".join', "struct(a=1)", "SHARED_ST", "SHARED_D", "[].append",
                         "time.now", "json.encode", "struct"], rnd.randint(2, 7))
        for x in xs:
            lines.append("print(type(%s), dir(%s))" % (x, x))

    def snip_json():
        ks = rnd.sample(longs, rnd.randint(2, 8)) + rnd.sample(["b", "a", "zz", "m", "A", "_"], rnd.randint(0, 4))
        rnd.shuffle(ks)
        lines.append("jd = {%s}" % ", ".join("%s: %s" % (q(k), rnd.choice(["1", "[1, 2.5]", "None", "True", '"x"', "{%s: {}}" % L(), "(1, 2)"])) for k in ks))
        lines.append("je = json.encode(jd)")
        lines.append("print(je)")
        lines.append("jr = json.decode(je)")
        lines.append("trace(jr, list(jr), json.encode(jr) == je, json.indent(je))")
        if rnd.random() < 0.5:
            lines.append("trace(json.decode('{%s}'))" % ", ".join('"%s": %d' % (k, i) for i, k in enumerate(rnd.sample(longs, 5))))
        if rnd.random() < 0.3:
            lines.append("print(json.encode(struct(%s)))" % ", ".join("%s={%s: 1, %s: 2}" % (n, L(), L()) for n in names(3)))

    def snip_str():
        ks = rnd.sample(longs, rnd.randint(3, 9))
        lines.append("sd = {%s}" % ", ".join("%s: %d" % (q(k), i) for i, k in enumerate(ks)))
        lines.append("ss = set([%s])" % ", ".join(q(k) for k in rnd.sample(longs, rnd.randint(2, 9))))
        lines.append("sd[1] = 1; sd[1.0] = 2; ss.add(2.0); ss.add(2)")
        lines.append('print(str(sd), repr(ss), "%s|%r" % (sd, ss), "{}{}".format(sd, [ss]), [sd, (ss,)])')
        lines.append("trace(sd, ss, sd.keys(), sd.values(), sd.items(), list(ss), sorted(ss, key=str), len(ss))")
        lines.append("trace(ss | set(sd.keys()), ss & set(sd), ss - set(sd), ss ^ set(sd), set(sd) | ss, list(enumerate(ss)))")
        lines.append("trace(min(ss, key=str), max(sd, key=str), any(ss), all(sd), dict(zip(ss, sd)), reversed(list(sd)), [k for k in SHARED_S], SHARED_D, SHARED_L)")

    def snip_hash():
        for _ in range(rnd.randint(2, 6)):
            s = rnd.choice(longs + ["", "a", "abc", "hello, world", "abcdefghijk", "abcdefghijkl", "The quick brown fox jumps over the lazy dog"])
            lines.append('trace("hash", %s, hash(%s))' % (q(s), q(s)))
            if rnd.random() < 0.5:
                lines.append('trace("hashb", hash(b%s))' % q(s))
        lines.append("hk = {%s}" % ", ".join("hash(%s): %d" % (q(s), i) for i, s in enumerate(rnd.sample(longs, 4))))
        lines.append("print(hk)")

    def snip_time():
        lines.append("t0 = time.now()")
        lines.append('print(t0, t0.unix, t0.unix_nano, t0.year, t0.month, t0.day, t0.hour, t0.minute, t0.second, t0.nanosecond, dir(t0))')
        lines.append('du = time.parse_duration("%dh%dm%ds")' % (rnd.randint(0, 99), rnd.randint(0, 59), rnd.randint(0, 59)))
        lines.append('trace(t0 + du, t0 - du, time.now() - t0, du * 3, du.seconds, str(du), t0.format("2006-01-02T15:04:05"), time.now() == t0)')
        lines.append("trace(time.time(year=%d, month=%d, day=%d), time.from_timestamp(%d), {t0: 1, du: 2}, dir(du), sorted([du, du * 2, time.second]))" % (
            rnd.randint(1970, 2100), rnd.randint(1, 12), rnd.randint(1, 28), rnd.randint(0, 1 << 31)))

    def snip_fnkeys():
        fns = ["function_with_a_long_name_%d" % i for i in range(rnd.randint(2, 5))]
        for f in fns:
            lines.append("def %s(x=%s): return x" % (f, rnd.choice(["1", "[]", L()])))
        ks = fns + rnd.sample(["len", "sorted", '"".join', '"".startswith', "json.encode", "math.sqrt", "print", "[].append", "struct"], 4)
        rnd.shuffle(ks)
        lines.append("fk = {%s}" % ", ".join("%s: %d" % (k, i) for i, k in enumerate(ks)))
        lines.append("fs = set([%s])" % ", ".join(reversed(ks)))
        lines.append("print(fk, fs, [f for f in fk], list(fs & set(fk)))")

    def snip_math():
        lines.append("trace(math.sqrt(%d), math.pow(2, 0.5), math.floor(%d.5), math.pi, 1e300 * 1e10, -0.0, 10 // 3, -7 %% 3, 1 << %d, %d / 7, float(1 << 60), int(1e18))" % (
            rnd.randint(0, 100), rnd.randint(-9, 9), rnd.randint(0, 200), rnd.randint(-50, 50)))
        lines.append('print("%%g %%e %%f %%d %%x" %% (%d.25, 1e-7, 2.5, %d, 255), 3.0, 1e21, 1e-5, float("nan") == float("nan"))' % (rnd.randint(0, 9), rnd.randint(-999, 999)))

    def snip_sorted():
        ks = rnd.sample(longs, rnd.randint(3, 8))
        lines.append("so = [%s]" % ", ".join(q(k) for k in ks))
        lines.append("trace(sorted(so), sorted(so, reverse=True), sorted(so, key=len), sorted(set(so)), sorted({k: 1 for k in so}), sorted(so, key=lambda s: s[-1]), sorted(so, key=hash))")

    def snip_module():
        ns = names(rnd.randint(2, 6))
        lines.append("mo = module(%s, %s)" % (q("mod_" + ns[0]), ", ".join("%s=%d" % (n, i) for i, n in enumerate(ns))))
        lines.append("print(mo, dir(mo), [getattr(mo, n) for n in dir(mo)])")

    snippets = [snip_struct, snip_dir, snip_json, snip_str, snip_hash, snip_time, snip_fnkeys, snip_math, snip_sorted, snip_module]
    for f in rnd.sample(snippets, rnd.randint(2, 5)):
        f()
    # a failing tail that exercises an error path whose text is built from a name listing
    tail = rnd.random()
    if tail < 0.10:      # attribute of a built-in value, misspelt
        recv, meths = rnd.choice([('""', ["capitalize", "startswith", "removeprefix", "splitlines", "format", "isalnum", "rpartition"]),
                                  ("[]", ["append", "extend", "insert", "remove"]), ("{}", ["setdefault", "popitem", "update", "values", "items"]),
                                  ("set()", ["symmetric_difference", "intersection", "issuperset", "discard", "union"]),
                                  ('b""', ["elems"]), ("json", ["encode", "decode", "indent", "encode_indent"]),
                                  ("math", ["ceil", "floor", "sqrt", "atan2", "degrees", "radians", "log", "gamma"]),
                                  ("time", ["now", "parse_time", "parse_duration", "from_timestamp", "is_valid_timezone", "time", "second", "minute"]),
                                  ("time.now()", ["year", "month", "unix", "unix_nano", "format", "in_location", "nanosecond"]),
                                  ('time.parse_duration("1s")', ["hours", "minutes", "seconds", "milliseconds", "microseconds", "nanoseconds"])])
        lines.append("print(%s.%s)" % (recv, misspell(rnd, rnd.choice(meths))))
    elif tail < 0.20:    # struct field, several candidates
        base = rnd.choice(IDENT)
        ns = sorted({base, base + "_b", base + "_a", misspell(rnd, base), misspell(rnd, base), rnd.choice(IDENT)})
        lines.append("sx = struct(%s)" % ", ".join("%s=%d" % (n, i) for i, n in enumerate(ns)))
        lines.append("print(sx.%s)" % misspell(rnd, base))
    elif tail < 0.27:    # keyword argument of a built-in, misspelt
        lines.append(rnd.choice(['sorted([2, 1], revers=True)', 'sorted([2, 1], kee=len)', 'print("x", sepp="")', '"a,b".split(sepx=",")', 'enumerate([], strt=1)',
                                 'int("1", bas=2)', 'json.encode_indent({}, prefx="")', 'json.indent("{}", indnt="")', 'time.time(yeer=2000)',
                                 'time.time(year=2000, mont=1)', 'json.decode("1", defaultt=1)', '"{a}".format(b=1)', 'getattr("", "x", defalt=1)',
                                 'range(1, stpe=2)', 'time.parse_time("x", formt="y")', 'time.from_timestamp(1, nsecc=2)', 'dict([], **{"a": 1}).pop("b", defaul=1)']))
    elif tail < 0.40:    # undefined name with near misses among locals, globals and predeclared names
        base = rnd.choice(IDENT)
        k = rnd.random()
        if k < 0.6:
            # several function-local names at the same edit distance and nothing nearer: the resolver
            # collects the candidates from Go maps, so only its sort makes the hint a function of the program
            loc = [base + x for x in rnd.sample(["_a", "_b", "_c", "_d", "x", "y", "z", "1", "2"], rnd.randint(2, 6))]
            if rnd.random() < 0.5:
                lines.append("def uses(%s):\n    %s = 0\n    return %s" % (", ".join(loc[:-1]), loc[-1], base))
            elif len(loc) >= 4:
                lines.append("def outer(%s):\n    def uses(%s):\n        return [%s for %s in []]\n    return uses" % (
                    ", ".join(loc[:2]), ", ".join(loc[2:-1]), base, loc[-1]))
            else:
                lines.append("def uses(%s):\n    return lambda %s: %s" % (loc[0], ", ".join(loc[1:]), base))
        else:
            cands = list({misspell(rnd, base) for _ in range(4)} - {base})
            rnd.shuffle(cands)
            for i, c in enumerate(cands[:3]):
                lines.insert(rnd.randrange(len(lines) + 1), "%s = %d" % (c, i))
            if k < 0.8:
                lines.append("def uses():\n    %s = 1\n    return %s" % (cands[-1], base))
            else:
                lines.append("print(%s)" % base)
        if rnd.random() < 0.3:
            lines.append("print(%s)" % misspell(rnd, rnd.choice(["SHARED_D", "struct", "trace", "json"])))
    elif tail < 0.45:    # load: name not found in the module
        base = rnd.choice(IDENT)
        ns = sorted({base + "_1", base + "_2", misspell(rnd, base), rnd.choice(IDENT) + "_z"})
        mods["m.star"] = "".join("%s = %d\n" % (n, i) for i, n in enumerate(ns)) + "print('module m loaded', %s)\n" % L()
        lines.insert(0, 'load("m.star", %s)' % ", ".join(q(n) for n in [ns[0], misspell(rnd, base)]))
    elif tail < 0.50:    # load that works, then use
        ns = names(3)
        mods["m.star"] = "".join("%s = {%s: %d}\n" % (n, L(), i) for i, n in enumerate(ns)) + "def mf(x): return [x, %s]\n" % ns[0]
        lines.insert(0, 'load("m.star", "mf", %s)' % ", ".join(q(n) for n in ns[:2]))
        lines.append("print(mf(%s), %s)" % (ns[0], ns[1]))
    elif tail < 0.55:    # frozen shared values
        lines.append(rnd.choice(["SHARED_D[%s] = 1" % L(), "SHARED_L.append(1)", "SHARED_S.add(1)", "SHARED_ST.shared_dictionary.clear()", "SHARED_D.pop(%s)" % L(),
                                 "SHARED_S.pop()", "SHARED_L.clear()", "x = SHARED_D\nx |= {1: 2}"]))
    elif tail < 0.61:    # dynamic failures carrying rendered values
        lines.append(rnd.choice(['fail("boom", {%s: 1, %s: 2}, set([%s, %s]))' % (L(), L(), L(), L()), "{%s: 1}[%s]" % (L(), L()), "{1: 1, 1.0: 2}",
                                 "{[]: 1}", "set([{}])", "[1, 2][5]", '"abc".index("z")', "1 // 0", "int('zz')", "set([%s]).remove(%s)" % (L(), L()),
                                 "{}.popitem()", "[x for x in range(1 << 40)]", "for k in SHARED_D: SHARED_D[k] = 1",
                                 "lst = [1, 2, 3]\nfor x in lst: lst.append(x)", "dd = {%s: 1}\nfor k in dd: dd[k + 'x'] = 1" % L(), "sorted([1, 'a'])",
                                 "struct(a=1) + struct(a=2) < 1", "struct(a=1).a = 2", "hash(1)", "json.encode({1: 2})", "json.decode('{\"a\": 1, \"a\": 2}')",
                                 "json.decode('[1, 2')", 'time.parse_duration("1x")', "time.time(year=1, monthh=2)"]))
        steps = rnd.choice([0, 0, 2000, 20000])
    elif tail < 0.63:    # unbounded recursion stopped by the step budget: a deep backtrace
        lines.append(rnd.choice(["def rec(n): return rec(n + 1)\nrec(0)", "def ra(n): return rb(n) + 1\ndef rb(n): return ra([n])\nra(0)"]))
        steps = rnd.choice([500, 3000])
    elif tail < 0.68:    # step budget exhausted at a deterministic point
        lines.append(rnd.choice(["n = 0\nwhile True: n += 1", "for i in range(1 << 30): pass", "def loop(n):\n    for i in range(n):\n        for j in range(n): pass\nloop(100000)",
                                 "big = [i for i in range(1000000)]"]))
        steps = rnd.choice([500, 5000, 50000])
    opts = dict(ALL_ON)
    if rnd.random() < 0.35:
        for f in opts:
            opts[f] = rnd.random() < 0.6
    p = {"fam": "feat", "src": "\n".join(lines) + "\n", "opts": opts}
    if mods:
        p["mods"] = mods
    if steps:
        p["steps"] = steps
    return p


# ------------------------------------------------------------------------------ general programs
class Gen:
    """random programs over ints, strings, lists, dicts and sets with loops, closures,
    comprehensions, trace() and print(); errors are welcome (their text, backtrace and
    step count are observations like any other)"""

    def __init__(self, rnd, longs):
        self.rnd, self.longs = rnd, longs
        self.n = 0

    def fresh(self, ty):
        self.n += 1
        return "%s%d" % (ty[0], self.n)

    def pick(self, env, ty):
        c = [v for v, t in env.items() if t == ty]
        return self.rnd.choice(c) if c else None

    def expr(self, env, ty, d=0):
        r = self.rnd
        v = self.pick(env, ty)
        if v and r.random() < (0.45 if d < 2 else 0.8):
            return v
        deep = d >= 3
        if ty == "int":
            k = r.randrange(10 if not deep else 2)
            if k <= 1:
                return str(r.choice([0, 1, 2, 3, 5, 7, 10, 100, -1, 1 << 40]))
            if k <= 4:
                o = r.choice(["+", "-", "*", "+", "%", "//", "&", "|", "+", "-"])
                rhs = self.expr(env, "int", d + 1)
                if o in ("%", "//") and r.random() < 0.9:
                    rhs = "(%s or 3)" % rhs
                return "(%s %s %s)" % (self.expr(env, "int", d + 1), o, rhs)
            if k == 5:
                return "len(%s)" % self.expr(env, r.choice(["list", "str", "dict", "set"]), d + 1)
            if k == 6:
                return "(%s or 1)" % self.expr(env, "int", d + 1)
            if k == 7:
                if r.random() < 0.8:
                    return "(%s + [4])[-(%s %% 2)]" % (self.expr(env, "list", d + 1), self.expr(env, "int", d + 1))
                return "%s[%s]" % (self.expr(env, "list", d + 1), self.expr(env, "int", d + 1))
            if k == 8:
                return "%s.get(%s, 0)" % (self.expr(env, "dict", d + 1), self.expr(env, "str", d + 1))
            return "min(%s, %s)" % (self.expr(env, "int", d + 1), self.expr(env, "int", d + 1))
        if ty == "str":
            k = r.randrange(8 if not deep else 2)
            if k <= 1:
                return q(r.choice(self.longs + ["a", "bb", "", "xyz", "key"]))
            if k == 2:
                return "(%s + %s)" % (self.expr(env, "str", d + 1), self.expr(env, "str", d + 1))
            if k == 3:
                return "%s.%s()" % (self.expr(env, "str", d + 1), r.choice(["upper", "lower", "title", "strip", "capitalize"]))
            if k == 4:
                return '("%%s-%%d" %% (%s, %s))' % (self.expr(env, "str", d + 1), self.expr(env, "int", d + 1))
            if k == 5:
                return "str(%s)" % self.expr(env, r.choice(["int", "list", "dict", "set"]), d + 1)
            if k == 6:
                return "%s[%s:%s]" % (self.expr(env, "str", d + 1), r.randint(-3, 3), r.randint(-3, 9))
            return '",".join([str(x) for x in %s])' % self.expr(env, r.choice(["list", "dict", "set"]), d + 1)
        if ty == "list":
            k = r.randrange(9 if not deep else 2)
            if k <= 1:
                return "[%s]" % ", ".join(self.expr(env, "int", d + 2) for _ in range(r.randint(0, 4)))
            if k == 2:
                return "(%s + %s)" % (self.expr(env, "list", d + 1), self.expr(env, "list", d + 1))
            if k == 3:
                return "[x + 1 for x in %s if x %% 2 == %d]" % (self.expr(env, "list", d + 1), r.randrange(2))
            if k == 4:
                return "sorted(%s)" % self.expr(env, r.choice(["list", "set"]), d + 1)
            if k == 5:
                return "list(range(%s %% 7))" % self.expr(env, "int", d + 1)
            if k == 6:
                return "%s.values()" % self.expr(env, "dict", d + 1)
            if k == 7:
                return "[len(k) for k in %s]" % self.expr(env, "dict", d + 1)
            return "%s[%d:%d]" % (self.expr(env, "list", d + 1), r.randint(-2, 2), r.randint(-2, 5))
        if ty == "dict":
            k = r.randrange(6 if not deep else 2)
            if k <= 1:
                return "{%s}" % ", ".join("%s: %s" % (q(s), self.expr(env, "int", d + 2)) for s in r.sample(self.longs, r.randint(0, 4)))
            if k == 2:
                return "{(%s + str(x)): x for x in %s}" % (self.expr(env, "str", d + 1), self.expr(env, "list", d + 1))
            if k == 3:
                return "(%s | %s)" % (self.expr(env, "dict", d + 1), self.expr(env, "dict", d + 1))
            if k == 4:
                return "dict(zip([str(x) for x in %s], %s))" % (self.expr(env, "list", d + 1), self.expr(env, "list", d + 1))
            return "dict(%s)" % self.expr(env, "dict", d + 1)
        if ty == "set":
            k = r.randrange(5 if not deep else 2)
            if k <= 1:
                if r.random() < 0.85:
                    return "set([%s])" % ", ".join(q(r.choice(self.longs)) for _ in range(r.randint(0, 5)))
                return "set([%s])" % ", ".join(r.choice([q(r.choice(self.longs)), self.expr(env, "int", d + 2)]) for _ in range(r.randint(0, 4)))
            if k == 2:
                return "(%s %s %s)" % (self.expr(env, "set", d + 1), r.choice("|&-^"), self.expr(env, "set", d + 1))
            if k == 3:
                return "set(%s)" % self.expr(env, r.choice(["list", "dict"]), d + 1)
            return "set([x for x in %s])" % self.expr(env, "set", d + 1)
        raise ValueError(ty)

    def cond(self, env):
        r = self.rnd
        k = r.randrange(5)
        if k == 0:
            return "%s %s %s" % (self.expr(env, "int", 1), r.choice(["<", "==", ">=", "!="]), self.expr(env, "int", 1))
        if k == 1:
            return "%s in %s" % (self.expr(env, "str", 1), self.expr(env, r.choice(["dict", "set", "str"]), 1))
        if k == 2:
            return self.expr(env, r.choice(["list", "dict", "set", "str"]), 1)
        if k == 3:
            return "not %s" % self.expr(env, "int", 1)
        return "%s == %s" % (self.expr(env, "dict", 1), self.expr(env, "dict", 1))

    def block(self, env, ind, depth, scope, inloop, n):
        out = []
        env = dict(env)
        for _ in range(n):
            out += self.stmt(env, ind, depth, scope, inloop)
        return out

    def stmt(self, env, ind, depth, scope, inloop):
        """scope: names assigned in the enclosing function (or module); only those may be re-bound"""
        r = self.rnd
        pad = "    " * ind
        k = r.randrange(20)
        tys = ["int", "str", "list", "dict", "set"]
        if k <= 3 or depth >= 3:
            ty = r.choice(tys)
            v = self.fresh(ty)
            line = "%s = %s" % (v, self.expr(env, ty))
            env[v] = ty
            scope.add(v)
            return [pad + line]
        if k == 4:
            ty = r.choice(["int", "str", "list"])
            c = [v for v, t in env.items() if t == ty and v in scope]
            if c:
                # the right-hand side never mentions a variable: no self-doubling inside loops
                return [pad + "%s += %s" % (r.choice(c), self.expr({}, ty, 2))]
            return [pad + "trace(%s)" % self.expr(env, ty)]
        if k == 5:
            v = self.pick(env, "list")
            if v:
                return [pad + "%s.append(%s)" % (v, self.expr(env, "int", 1))]
        if k == 6:
            v = self.pick(env, "dict")
            if v:
                return [pad + "%s[%s] = %s" % (v, self.expr(env, "str", 1), self.expr(env, "int", 1))]
        if k == 7:
            v = self.pick(env, "set")
            if v:
                return [pad + r.choice(["%s.add(%s)", "%s.discard(%s)"]) % (v, self.expr(env, r.choice(["str", "int"]), 1))]
        if k <= 9:
            return [pad + "%s(%s)" % (r.choice(["trace", "print"]), ", ".join(self.expr(env, r.choice(tys)) for _ in range(r.randint(1, 3))))]
        if k <= 11:
            out = [pad + "if %s:" % self.cond(env)] + self.block(env, ind + 1, depth + 1, scope, inloop, r.randint(1, 3))
            if r.random() < 0.5:
                out += [pad + "else:"] + self.block(env, ind + 1, depth + 1, scope, inloop, r.randint(1, 2))
            return out
        if k <= 14:
            src_ty = r.choice(["list", "dict", "set", "range", "str", "items"])
            e2 = dict(env)
            if src_ty == "range":
                head, it = "range(%d)" % r.randint(0, 6), (self.fresh("x"), "int")
            elif src_ty == "str":
                head, it = self.expr(env, "str", 1) + ".elems()", (self.fresh("ch"), "str")
            elif src_ty == "items":
                head = self.expr(env, "dict", 1) + ".items()"
                kk, vv = self.fresh("kk"), self.fresh("vv")
                e2[kk] = "str"
                e2[vv] = "int"
                it = None
            else:
                head = self.expr(env, src_ty, 1)
                it = (self.fresh("e"), {"list": "int", "dict": "str", "set": "str"}[src_ty])
            if it:
                e2[it[0]] = it[1]
                out = [pad + "for %s in %s:" % (it[0], head)]
            else:
                out = [pad + "for %s, %s in %s:" % (kk, vv, head)]
            body = self.block(e2, ind + 1, depth + 1, scope, True, r.randint(1, 3))
            if r.random() < 0.25:
                body.append("    " * (ind + 1) + "if %s: %s" % (self.cond(e2), r.choice(["break", "continue"])))
            return out + body
        if k == 15:
            c = self.fresh("w")
            e2 = dict(env)
            e2[c] = "int"
            return [pad + "%s = 0" % c, pad + "while %s < %d:" % (c, r.randint(0, 5))] + \
                self.block(e2, ind + 1, depth + 1, scope, True, r.randint(1, 2)) + ["    " * (ind + 1) + "%s += 1" % c]
        if k <= 17 and depth < 2:
            self.n += 1
            f = "fn%d" % self.n
            ptys = [r.choice(tys) for _ in range(r.randint(0, 3))]
            params, e2 = [], dict(env)
            for i, t in enumerate(ptys):
                p = "p%d_%d" % (self.n, i)
                e2[p] = t
                params.append(p if r.random() < 0.7 else "%s=%s" % (p, self.expr({}, t, 2)))
            params.sort(key=lambda s: "=" in s)
            extra = r.random()
            if extra < 0.15:
                params.append("*args")
            if extra < 0.08 or extra > 0.92:
                params.append("**kwargs")
            rt = r.choice(tys)
            body = self.block(e2, ind + 1, depth + 1, set(), False, r.randint(1, 4))
            out = [pad + "def %s(%s):" % (f, ", ".join(params))] + body + ["    " * (ind + 1) + "return %s" % self.expr(e2, rt, 1)]
            args = [self.expr(env, t, 1) for t in ptys]
            if ptys and r.random() < 0.3:
                args[-1] = "%s=%s" % (params[len(ptys) - 1].split("=")[0], args[-1])
            v = self.fresh(rt)
            out.append(pad + "%s = %s(%s)" % (v, f, ", ".join(args)))
            env[v] = rt
            scope.add(v)
            if r.random() < 0.3:
                out.append(pad + "trace([%s(%s) for _ in range(2)], %s)" % (f, ", ".join(args), f))
            return out
        if k == 18:
            v = self.fresh("list")
            line = "%s = [(lambda y: y + %s)(z) for z in %s]" % (v, self.expr(env, "int", 2), self.expr(env, "list", 1))
            env[v] = "list"
            scope.add(v)
            return [pad + line]
        return [pad + "trace(%s, sorted(%s), %s)" % (self.expr(env, "dict"), self.expr(env, "set", 1), self.expr(env, "str"))]


def gen_general(rnd, pool):
    longs = [p["key"][1] for p in pool[:22]]
    g = Gen(rnd, longs)
    env = {}
    lines = []
    # top-level statements and a main function sharing the module's globals
    top = set()
    for _ in range(rnd.randint(3, 9)):
        lines += g.stmt(env, 0, 0, top, False)
    body = g.block(env, 1, 0, set(), False, rnd.randint(2, 7))
    lines += ["def main():"] + body + ["    return %s" % g.expr(env, rnd.choice(["list", "dict", "set"]), 1), "result = main()", "print(result)"]
    opts = dict(ALL_ON)
    if rnd.random() < 0.25:
        for f in opts:
            opts[f] = rnd.random() < 0.6
    return {"fam": "gen", "src": "\n".join(lines) + "\n", "opts": opts}


def gen_big(rnd, k):
    """large tables over long (seeded-hash) string keys: many doublings with every chain occupancy; insertion,
    membership right after insertion, deletion and re-insertion, set algebra.  Any dependence of the table's
    behaviour on the bucket layout shows as a difference between processes (whose hash seeds differ)."""
    J, N = rnd.choice([(40, 230), (25, 420), (60, 120)])
    tag = "".join(rnd.choice("abcdefghij") for _ in range(6))
    src = """def build(j, n):
    d = {}
    miss = 0
    for i in range(n):
        k = "dictionary-%s-key-%%d-%%d" %% (j, i)
        d[k] = i
        if k not in d or d.get(k) != i:
            miss += 1
    return d, miss
total, misses, odd = 0, 0, []
for j in range(%d):
    d, m = build(j, %d)
    misses += m
    total += len(d)
    s = set(d.keys())
    for k in list(d.keys())[::7]:
        d.pop(k)
    for i in range(0, %d, 5):
        d["dictionary-%s-key-%%d-%%d" %% (j, i)] = -i
    total += len(d) + len(s | set(d.keys())) + len(s & set(d.keys()))
    if len(d) != len(set(d.keys())) or m:
        odd.append((j, len(d), m))
print(total, misses, odd)
result = (total, misses, odd)
""" % (tag, J, N, N, tag)
    return {"fam": "gen", "src": src, "opts": dict(ALL_ON), "steps": 4000000}   # (the default budget of 300k steps would stop it early)


def gen_calls(rnd, k):
    """functions relying on parameter defaults, called with omitted arguments, in modules whose top-level frame is small or
    large; most programs end in a call whose argument binding fails half-way.  Whatever an execution leaves behind (in the
    thread, in the process) must not reach the parameters of a later execution."""
    names = ["h%02d" % i for i in range(rnd.choice([2, 5, 20, 40]))]
    lines = ["hosts = [%s]" % ", ".join('"%s"' % n for n in names)]
    nf = rnd.randint(2, 4)
    sigs = []
    for i in range(nf):
        req = rnd.randint(0, 2)
        opt = rnd.randint(1, 3)
        params = ["r%d" % j for j in range(req)] + ["o%d=%s" % (j, rnd.choice(["3", '"dflt"', "None", "(1, 2)", "7"])) for j in range(opt)]
        star = rnd.random() < 0.2
        lines.append("def f%d(%s%s):" % (i, ", ".join(params), ", *rest" if star else ""))
        lines.append("    return (%s%s)" % (", ".join(["r%d" % j for j in range(req)] + ["o%d" % j for j in range(opt)] + (["rest"] if star else [])), ","))
        sigs.append((req, opt, star))
    for rep in range(rnd.randint(2, 5)):
        i = rnd.randrange(nf)
        req, opt, star = sigs[i]
        given = rnd.randint(0, opt - 1)
        args = ["hosts[%d]" % rnd.randrange(len(names)) for _ in range(req + given)]
        lines.append('print("call", %d, f%d(%s))' % (rep, i, ", ".join(args)))
    if rnd.random() < 0.8:
        i = rnd.randrange(nf)
        req, opt, star = sigs[i]
        kind = rnd.choice(["missing", "missing", "extra", "kw"])
        if kind == "missing" and req > 0:
            args = ["hosts[0]"] * (req - 1)
        elif kind == "extra" and not star:
            args = ["hosts[-1]"] * (req + opt + 1)
        else:
            args = ["hosts[0]"] * req + ["zz=hosts[-1]"]
        lines.append("failed = f%d(%s)" % (i, ", ".join(args)))
    lines.append('print("end")')
    return {"fam": "gen", "src": "\n".join(lines) + "\n", "opts": dict(ALL_ON)}


def gen_busy(rnd, k):
    """functions that run long enough for the goroutines sharing one compiled program to be inside the same function at
    the same time (nested, through a callback, and through a comprehension)"""
    n = rnd.choice([600, 1000, 1500])
    src = """def work(n):
    t = 0
    for i in range(n):
        t += i %% %d
    return t
def outer(n):
    return work(n) + work(n // 2) + max([n, 1], key = work)
r = [outer(%d) for _ in range(%d)]
print(r, sorted([3, 1, 2], key = work))
""" % (rnd.choice([3, 7, 11]), n, rnd.randint(3, 6))
    return {"fam": "gen", "src": src, "opts": dict(ALL_ON, Recursion=(k % 2 == 1))}


ZONES = ["Europe/Paris", "America/Lima", "Asia/Tokyo", "UTC", "US/Eastern"]


def spellings(z):
    return [z, z.lower(), z.upper(), z.swapcase(), z.replace("/", "//"), " " + z, z + "x"]


def gen_zones(rnd, k):
    """names looked up in process-wide tables (time zones): a name in one spelling before and after the same name in
    another spelling, in one program and across the programs that share a process.  What a name resolves to is a function
    of the name alone, never of the names resolved earlier."""
    z = ZONES[k % len(ZONES)]
    sp = spellings(z)
    a = sp[(k // len(ZONES)) % len(sp)]
    b = rnd.choice(sp)
    order = [a, z, a, b] if k % 2 == 0 else [z, a, b, z]
    lines = ["seen = []"]
    for n in order:
        lines.append('seen.append((%r, time.is_valid_timezone(%r)))' % (n, n))
    lines.append("print(seen)")
    lines.append("t = time.time(year=2020, month=7, day=1, hour=12, location=%r)" % z.replace("'", ""))
    lines.append("print(t, t.in_location(%r) if time.is_valid_timezone(%r) else None)" % (b, b))
    last = rnd.choice(order)
    lines.append("u = time.parse_time(\"2020-07-01T12:00:00Z\").in_location(%r)" % last)
    lines.append('print(u, "end")')
    return {"fam": "gen", "src": "\n".join(lines).replace("'", '"') + "\n", "opts": dict(ALL_ON)}


def generate(ctx):
    rnd = random.Random(ctx.seed)
    pool = build_pool(rnd)
    header = build_header(rnd, pool)
    n = int(os.environ.get("VERIF_C03_N", "0")) or (320 if ctx.quick else 5000)   # VERIF_C03_N: smaller corpora for mutation runs
    progs, seen = [], set()
    for k in range(6 if ctx.quick else 40):
        p = gen_big(rnd, k)
        p["id"] = len(progs) + 1
        progs.append(p)
    for k in range(12 if ctx.quick else 60):
        p = gen_busy(rnd, k)
        p["id"] = len(progs) + 1
        progs.append(p)
    for k in range(35 if ctx.quick else 140):
        p = gen_zones(rnd, k)
        p["id"] = len(progs) + 1
        progs.append(p)
    for k in range(40 if ctx.quick else 400):
        p = gen_calls(rnd, k)
        p["id"] = len(progs) + 1
        progs.append(p)
    while len(progs) < n:
        r = rnd.random()
        p = gen_ord(rnd, pool) if r < 0.40 else (gen_feat(rnd, pool) if r < 0.72 else gen_general(rnd, pool))
        if p["src"] in seen:
            continue
        seen.add(p["src"])
        p["id"] = len(progs) + 1
        progs.append(p)
    return pool, header, progs


# ---------------------------------------------------------------------------------- execution
def prog_case(p):
    c = {"id": p["id"], "src": p["src"], "opts": p["opts"]}
    for k in ("mods", "steps"):
        if k in p:
            c[k] = p[k]
    return c


def input_key(header_digest, p):
    h = hashlib.sha1()
    h.update(header_digest.encode())
    h.update(json.dumps([p["src"], p["opts"], p.get("mods"), p.get("steps")], sort_keys=True).encode())
    return h.hexdigest()[:20]


def execute(ctx, header, progs, tag, procs=3, gor=8, chunk=1):
    fin, fout = ctx.path(tag + ".in"), ctx.path(tag + ".out")
    with open(fin, "w") as f:
        f.write(json.dumps(header) + "\n")
        for p in progs:
            f.write(json.dumps(prog_case(p)) + "\n")
    ctx.vh(["c03-run", "-in", fin, "-out", fout, "-procs", str(procs), "-gor", str(gor), "-chunk", str(chunk)], timeout=3000)
    groups = {}
    with open(fout) as f:
        for line in f:
            if line.strip():
                r = json.loads(line)
                groups.setdefault(r["id"], []).append(r)
    os.remove(fout)
    return groups


KIND_ORDER = {"seq": 0, "reuse": 1, "conc": 2, "proc": 3}


def make_record(p, runs, hdig):
    """one TLC record per program.  Observations are interned per group: tab[c] lists the distinct
    values of component c, runs store 1-based indices; C03Trace expands them again."""
    runs = sorted(runs, key=lambda r: (KIND_ORDER[r["kind"]], r["k"]))
    key = input_key(hdig, p)
    first = runs[0]["obs"]
    tab = {c: [] for c in COMPONENTS}
    ordtab, ordkeys = [], []
    rec = {"id": p["id"], "fam": p["fam"], "need": NEED, "ordon": p["fam"] == "ord", "ops": p.get("ops", []),
           "dir1": first.get("dirl") or [], "hashes": first.get("hash") or [], "tab": tab, "ordtab": ordtab, "runs": []}
    for r in runs:
        o = r["obs"]
        obs = {}
        for c in COMPONENTS:
            if o[c] not in tab[c]:
                tab[c].append(o[c])
            obs[c] = tab[c].index(o[c]) + 1
        ok = json.dumps(o["ord"], sort_keys=True)
        if ok not in ordkeys:
            ordkeys.append(ok)
            ordtab.append(o["ord"])
        obs["ord"] = ordkeys.index(ok) + 1
        rec["runs"].append({"key": key, "kind": r["kind"], "k": r["k"], "fp": r["fp"], "obs": obs})
    return rec


def obs_of(rec, run, c):
    return rec["tab"][c][run["obs"][c] - 1]


def dedupe(recs):
    """dir listings and hash probes are pure functions of their content: check each distinct one once per file"""
    seen, out = set(), []
    for rec in recs:
        r2 = dict(rec)
        r2["dir1"] = [d for d in rec["dir1"] if json.dumps(d) not in seen]
        r2["hashes"] = [h for h in rec["hashes"] if json.dumps(h) not in seen]
        seen.update(json.dumps(d) for d in r2["dir1"])
        seen.update(json.dumps(h) for h in r2["hashes"])
        out.append(r2)
    return out


def validate(ctx, recs, poolfile, tag):
    """run C03Trace over the records; returns {id: reason text} for rejected records"""
    bad, files = {}, []
    per = 1000
    recs = dedupe(recs)
    for k in range(0, len(recs), per):
        f = ctx.path("%s-%03d.ndjson" % (tag, k // per))
        vlib.write_ndjson(f, recs[k:k + per])
        files.append((f, len(recs[k:k + per])))
    for f, n in files:
        r = ctx.tlc("C03Trace", "C03Trace.cfg", env={"VERIF_RECS": f, "VERIF_POOL": poolfile}, workers=min(16, vlib.NCPU), timeout=3000,
                    heap="16g", tag="%s-%s" % (tag, os.path.basename(f)))
        got = [int(m) for m in re.findall(r'<<"CHECKED", (\d+)>>', r["out"])]
        if r["error"] or r["rc"] != 0 or not got or got[0] != n:
            raise vlib.MachineryError("TLC validation of %s failed (rc=%s)\n%s" % (f, r["rc"], r["out"][-4000:]))
        ctx.states += r["states"]
        ctx.transitions += r["transitions"]
        # TLC wraps long values over several lines: join a printed tuple until its << >> are balanced
        buf, nb = None, 0
        for line in r["out"].split("\n"):
            if buf is None:
                if not re.match(r'<<\s*"BAD"', line):
                    continue
                buf = line
            else:
                buf += " " + line.strip()
            if buf.count("<<") <= buf.count(">>"):
                buf = re.sub(r"\s+>>", ">>", re.sub(r"<<\s+", "<<", re.sub(r"\s+", " ", buf)))
                m = re.match(r'<<"BAD", (\d+), (<<.*>>)>>\s*$', buf, re.S)
                if m:
                    bad[int(m.group(1))] = m.group(2)
                    nb += 1
                buf = None
        vlib.expect_bad(r, nb, "C03Trace")
        os.remove(f)
    return bad


def pool_file(ctx, pool, header):
    f = ctx.path("pool.ndjson")
    vlib.write_ndjson(f, [{"cls": [p["cls"] for p in pool], "reprs": [codes(p["repr"]) for p in pool],
                           "shd": header["shared_d"], "shs": header["shared_s"]}])
    return f


def signature(p, why):
    m = re.match(r'<<"(\w+)"', why)
    kind = m.group(1) if m else "?"
    if kind == "det":
        sets = re.findall(r"\{([^}]*)\}", why)
        comps = "+".join(sorted(x.strip().strip('"') for x in sets[0].split(","))) if sets else "?"
        return "det:%s/%s" % (p["fam"], comps)     # which kinds of run deviate is in the message (it varies between executions)
    if kind == "ord":
        ns = [int(x) for x in re.findall(r"\d+", why)]
        op = p["ops"][min(ns) - 1][0] if ns and min(ns) <= len(p.get("ops", [])) else "?"
        return "ord:predict/%s" % op
    if kind == "dir":
        return "dir:unsorted/%s" % "+".join(sorted(re.findall(r'"([^"]+)"', why)[1:]))
    if kind == "hash":
        return "hash:not-java-hashcode"
    return "vacuous"


def describe(p, rec, why):
    """human readable account of a rejected record"""
    runs = rec["runs"]
    for r in runs[1:]:
        for c in COMPONENTS:
            if r["obs"][c] != runs[0]["obs"][c]:
                return "program %d (%s): %s of run %s#%d differs from run %s#%d: %r vs %r [TLC: %s]" % (
                    p["id"], p["fam"], c, r["kind"], r["k"], runs[0]["kind"], runs[0]["k"], str(obs_of(rec, r, c))[:160],
                    str(obs_of(rec, runs[0], c))[:160], why[:120])
    return "program %d (%s): %s" % (p["id"], p["fam"], why[:300])


def run(ctx):
    # (0) design check: self-composition of the concrete table under two hash assignments
    r = ctx.tlc_ok("C03MC", "C03MC.cfg" if ctx.quick else "C03MCThorough.cfg", workers=8, timeout=3000, heap="8g")
    ctx.log("design check C03MC: %d states, %d transitions: iteration order independent of the hash assignment" % (r["states"], r["transitions"]))
    design_states = r["states"]

    pool, header, progs = generate(ctx)
    hdig = hashlib.sha1(json.dumps(header).encode()).hexdigest()
    ctx.log("generated %d programs (%s)" % (len(progs), ", ".join("%s=%d" % (f, sum(1 for p in progs if p["fam"] == f)) for f in ("ord", "feat", "gen"))))
    chunk = 16 if ctx.quick else 50     # programs per child process (process creation is the dominant cost)
    recs, summary, fps, nruns, timeouts = [], {}, set(), 0, []
    per_batch = 400
    for bi in range(0, len(progs), per_batch):
        batch = progs[bi:bi + per_batch]
        groups = execute(ctx, header, batch, "runs%d" % bi, chunk=chunk)
        if set(groups) != {p["id"] for p in batch}:
            raise vlib.MachineryError("harness returned runs for %d of %d programs" % (len(groups), len(batch)))
        for p in batch:
            g = groups[p["id"]]
            if any(r["obs"].get("timeout") for r in g):
                # the wall-clock watchdog stopped a run (cost of single steps, not of their number): not judged
                timeouts.append(p["id"])
                continue
            nruns += len(g)
            fps.update(r["fp"] for r in g)
            recs.append(make_record(p, g, hdig))
            seq0 = [r for r in g if r["kind"] == "seq" and r["k"] == 0][0]["obs"]
            summary[p["id"]] = {"steps": seq0["steps"], "err": seq0["err"], "ok": seq0["ok"], "static": seq0["static"],
                                "printed": seq0["printed"][:200], "hash": len(seq0.get("hash") or []), "dirl": len(seq0.get("dirl") or [])}
        del groups
        if not ctx.quick:
            ctx.log("batch %d: %d programs executed" % (bi // per_batch + 1, len(batch)))
    ctx.log("recorded %d runs in %d processes with distinct hash seeds" % (nruns, len(fps)))
    if timeouts:
        ctx.notes.append("programs dropped because a run hit the wall-clock watchdog: %s" % timeouts[:20])
        if len(timeouts) > max(3, len(progs) // 50):
            raise vlib.MachineryError("%d programs hit the wall-clock watchdog" % len(timeouts))
        progs = [p for p in progs if p["id"] not in set(timeouts)]
    byid = {p["id"]: p for p in progs}
    pf = pool_file(ctx, pool, header)
    bad = validate(ctx, recs, pf, "recs")
    ctx.log("TLC validated %d groups, %d rejected" % (len(recs), len(bad)))
    if any(w.startswith('<<"vacuous"') for w in bad.values()):
        raise vlib.MachineryError("a group does not cover the required schedules / seeds: %s" % sorted(bad.items())[:3])

    # re-execute every rejected program alone (more processes and goroutines) before reporting it
    recmap = {rec["id"]: rec for rec in recs}
    reported = set()
    for pid in sorted(bad):
        p = byid[pid]
        sig = signature(p, bad[pid])
        if sig in reported:
            continue
        if len(reported) >= 8:
            ctx.notes.append("further rejected programs not re-executed: %d (%s)" % (pid, sig))
            continue
        again = None
        # together with its neighbours, so that other executions precede and accompany it again
        pos = progs.index(p)
        ctxprogs = progs[max(0, pos - 4):pos + 4]
        for attempt in range(3):
            g2 = execute(ctx, header, ctxprogs, "re%d_%d" % (pid, attempt), procs=6, gor=16, chunk=3)
            rec2 = make_record(p, g2[pid], hdig)
            b2 = validate(ctx, [rec2], pf, "re%d_%d" % (pid, attempt))
            if pid in b2:
                again = (rec2, b2[pid])
                break
        if again is None:
            ctx.notes.append("program %d rejected once (%s) but not on 3 re-executions" % (pid, bad[pid][:200]))
            raise vlib.MachineryError("divergence of program %d not reproducible: %s\n%s" % (pid, bad[pid][:300], describe(p, recmap[pid], bad[pid])))
        reported.add(sig)
        ctx.violation(sig, describe(p, again[0], again[1]) + "\n--- program (first 700 bytes) ---\n" + p["src"][:700],
                      {"header": header, "pool": [{"cls": x["cls"], "repr": x["repr"]} for x in pool], "prog": p})

    # evidence
    fam = {}
    nontrivial = set()
    hints = errors = static = ordops = hashes = dirs = 0
    for p in progs:
        seq0 = summary[p["id"]]
        fam[p["fam"]] = fam.get(p["fam"], 0) + 1
        if seq0["steps"] > 0 or "did you mean" in seq0["err"]:
            nontrivial.add(p["src"])
        hints += "did you mean" in seq0["err"]
        errors += (not seq0["ok"]) and not seq0["static"]
        static += seq0["static"]
        ordops += len(p.get("ops", []))
        hashes += seq0["hash"]
        dirs += seq0["dirl"]
    ctx.cov.update({"evaluations": nruns, "programs": len(progs), "runs_per_program": nruns // max(1, len(progs)),
                    "distinct_nontrivial": len(nontrivial), "traces_validated_against_impl": nruns,
                    "processes_with_distinct_hash_seed": len(fps), "per_family": fam,
                    "order_operations_predicted_by_Hashtable_tla": ordops * (nruns // max(1, len(progs))),
                    "programs_ending_in_dynamic_error": int(errors), "programs_with_static_error": int(static),
                    "programs_with_did_you_mean_hint": int(hints), "hash_values_checked_against_java_hashcode": hashes,
                    "dir_listings_checked_sorted": dirs, "design_check_states": design_states})
    for p in progs[:: max(1, len(progs) // 5)][:5]:
        seq0 = summary[p["id"]]
        ctx.samples.append({"family": p["fam"], "src": p["src"][:400], "steps": seq0["steps"], "err": seq0["err"][:120], "printed": seq0["printed"]})
    ctx.assumptions = ["time.now() is read through the injected per-thread clock (fixed instant); wall-clock time is excluded by the property",
                       "the predeclared environment (json, math, time, struct, module, trace, ob, frozen SHARED_* values) is rebuilt identically in every process and shared by all threads of a process",
                       "fresh processes are re-executions of the harness binary; their string-hash seeds are observed to differ (fingerprint of String.Hash)",
                       "set/dict order predictions compare equality classes of keys (1 and 1.0), not which equal key object is retained (doc/spec.md is silent)"]
    return ctx.finish(rule="seeded generator (checks/c03.py): order-exposing programs rendered from operation lists over a key pool (seeded-hash strings, "
                           "FNV-colliding strings, int/float twins, tuples, bytes), feature programs (struct, dir, json, str, hash, time, module, function keys, "
                           "spelling hints, frozen shared values, step-limit and other failures) and random general programs (loops, closures, comprehensions); "
                           "every program runs >= 14 times (3 fresh processes, 2 sequential, 1 reused thread, 8 concurrent); distinct = distinct sources; "
                           "non-trivial = executed at least one step or produced a spelling hint",
                      exhaustive=False)


def replay(ctx, path):
    d = json.load(open(path))["replay"]
    p, header = d["prog"], d["header"]
    hdig = hashlib.sha1(json.dumps(header).encode()).hexdigest()
    pf = ctx.path("pool.ndjson")
    vlib.write_ndjson(pf, [{"cls": [x["cls"] for x in d["pool"]], "reprs": [codes(x["repr"]) for x in d["pool"]],
                            "shd": header["shared_d"], "shs": header["shared_s"]}])
    for attempt in range(3):
        g = execute(ctx, header, [p], "replay%d" % attempt, procs=6, gor=16)
        rec = make_record(p, g[p["id"]], hdig)
        bad = validate(ctx, [rec], pf, "replay%d" % attempt)
        if bad:
            print("replay %s: REJECTED: %s" % (path, describe(p, rec, bad[p["id"]])))
            return 1
    print("replay %s: accepted (3 attempts x 26 runs)" % path)
    return 0
