"""C20  Protocol messages stay well-typed, lossless and respect freezing.

Four parts, all bound to the real lib/proto built from /repo's working tree:

 design   spec/C20MC.tla: TLC checks that the ideal model of spec/ProtoSpec.tla keeps frozen
          content stable, and that the wrapper-flag design (Flags = TRUE) does not
          (TLC must find the shortest violating history).
 hist     spec -> code (P-B): TLC enumerates every transition of ProtoSpec within the bounds
          (spec/C20Hist.tla, history + VIEW + ACTION_CONSTRAINT) plus seeded simulation traces
          beyond them; `vh c20-hist` replays each history as Starlark statements on the real
          code and compares after every step the content of every handle (read through the
          API, through binary and through text marshal/unmarshal) with the model.  Message T has
          fields i, sub, r, rm, mp and mm (map<string, T>); message handles are obtained from variables,
          fields, elements, map entries and through the snapshot routes dict(m.mm), d.update(m.mm),
          f(**m.mm), list(m.rm), which must all denote the message of m and be frozen with it.
 range    code -> spec (P-A): every scalar kind x boundary / wrong-type values x positions,
          executed by `vh c20-exec`, every record validated by TLC against spec/ProtoRange.tla
          (spec/C20Trace.tla).
 crash    operations that make a message contain itself, each followed by str()/marshal in a
          child process (the Go runtime aborts on unbounded recursion).

A VIOLATION is reported only for a property-level divergence (host panic, changed frozen
content, inexact / ill-typed store, lossy round trip), re-executed and shrunk first.  A
divergence from the model that is not one of these is a machinery failure (exit 2): the
model's sharing rules for unfrozen content no longer describe the tree.
"""
import collections, json, os, random
import vlib

LEVEL = "model_checking"

# property-level divergence classes, most specific first
L1 = ["panic", "cyclic-message", "frozen-changed", "inexact", "lossy-roundtrip", "print"]

# ------------------------------------------------------------------ design


def design(ctx):
    r = ctx.tlc_ok("C20MC", "C20MC.cfg", workers=4, timeout=900, heap="4g")
    ctx.log("design: ideal model holds FrozenStable/Acyclic/TypeOK on %d states" % r["states"])
    ctx.cov["design_states_ideal"] = r["states"]
    f = ctx.tlc("C20MC", "C20MCFlags.cfg", workers=1, timeout=900, heap="4g")
    if not f["violated"] or "FrozenStable" not in f["out"]:
        raise vlib.MachineryError("design check: the wrapper-flag model (Flags = TRUE) was expected to violate "
                                  "FrozenStable\n" + f["out"][-2000:])
    # the counterexample is the model-level image of the freeze bypass
    hist = ""
    blocks = f["out"].split("/\\ hist = ")
    if len(blocks) > 1:
        hist = " ".join(blocks[-1].split("/\\ FL")[0].split())
    ctx.notes.append("wrapper-flag model (Flags=TRUE) violates FrozenStable, shortest history: " + hist)
    ctx.log("design: wrapper-flag model violates FrozenStable as expected: " + hist)


# ------------------------------------------------------------------ histories

SHARE = {"copy": "copy", "setsub": "assign-msg", "setsubfrom": "assign-submsg", "setrm": "assign-msglist",
         "setrmfrom": "assign-msglist-from", "rm.append": "append-msg", "vm.append": "append-msg",
         "rm.set0": "setitem-msg", "setmm": "assign-msgmap"}
# snapshot routes: a message handle taken from a copy of a container's entries (dict(m.mm), d.update(m.mm),
# f(**m.mm), list(m.rm)).  The handle belongs to the group of the message it was taken from; the route is the
# sharing step of a freeze bypass only when the mutation comes through such a handle of the frozen group itself.
SNAP = {"snap.mm0": "map-items", "vals.mm0": "map-items", "items.mm0": "map-items", "snap.rm0": "list-iteration"}
OPS_QUICK = ["new", "copy", "freeze", "seti", "setsub", "setsubnew", "setsubfrom", "setsubunset", "setr", "setrfrom", "setrm", "setrmnew",
             "setrmfrom", "setmp", "setmpfrom", "setmm", "setmmnew", "sub.seti", "sub.setmp", "sub.setr", "r.append", "r.set0", "rm0.seti", "mp.setb",
             "mm0.seti", "view.sub", "view.r", "view.rm", "view.mp", "view.rm0", "view.mm0", "snap.mm0", "vals.mm0", "items.mm0",
             "snap.rm0", "v.append", "v.set0", "v0.seti", "v.setb", "clr.i", "clr.sub", "clr.r", "clr.rm", "clr.mp", "clr.mm"]
OPS_RICH = ["rm.append", "rm.set0", "vm.append"]
CREATES = ("new", "copy", "view.sub", "view.r", "view.rm", "view.mp", "view.rm0", "view.mm0") + tuple(SNAP)


def annotate(ops):
    """per operation: (created handle or 0); and root of every handle"""
    nh, root, created = 1, {1: 1}, []
    for o in ops:
        if o[0] in CREATES:
            nh += 1
            root[nh] = nh if o[0] in ("new", "copy") else root.get(o[1], o[1])
            created.append(nh)
        else:
            created.append(0)
    return created, root


def signature(primary, ops, created, root):
    """canonical name of a shrunk history: the operation that made the frozen content shared and
    the side the mutation comes through"""
    names = [o[0] for o in ops]
    last = ops[-1]

    def ends(o, c):      # (destination root, source root) of a sharing operation
        return (c, root.get(o[1])) if o[0] == "copy" else (root.get(o[1]), root.get(o[2]))
    if primary == "frozen-changed":
        fr = [o for o in ops if o[0] == "freeze"]
        rf = fr[-1][1] if fr else None
        rm = root.get(last[1])
        nfr = max([j for j, o in enumerate(ops) if o[0] == "freeze"] or [-1])
        via = [o for j, (o, c) in enumerate(zip(ops[:-1], created[:-1])) if c and c == last[1] and o[0] in SNAP and j < nfr]
        if via and rf == rm:
            # the mutation came through a handle of the frozen group itself, obtained BEFORE the freeze
            # through a snapshot of a container's entries: the snapshot route is the sharing step
            return "proto:freeze-bypass/snapshot-%s+mutate-entry" % SNAP[via[0][0]]
        cands = [(o, c) for o, c in zip(ops[:-1], created[:-1]) if o[0] in SHARE]
        rel = ([x for x in cands if rf != rm and rf in ends(*x) and rm in ends(*x)]
               or [x for x in cands if rf in ends(*x)] or cands)
        if not rel:
            return "proto:freeze-bypass/" + ",".join(names)
        o, c = rel[-1]
        dest, src = ends(o, c)
        if o[0] == "copy":
            side = "mutate-copy" if rf == src else "mutate-original"
        else:
            side = "mutate-dest" if rf == src else "mutate-source"
        # every entry point that stores a message given by the program (field, sub-message of another
        # message, list literal, list copy, append, element assignment, value of a map literal) aliases
        # it the same way
        return "proto:freeze-bypass/%s+%s" % ("copy" if o[0] == "copy" else "assign-msg", side)
    if primary == "cyclic-message":
        # one owner of a list shared by Message(m) stores the other owner into it
        return "proto:cyclic-message/" + ("copy-shares-list" if "copy" in names else ",".join(names))
    if primary == "inexact":
        if last[0] in ("setrfrom", "setrmfrom"):
            # m.r = m.r, or m.r = x.r where x shares the list (a copy of m, a view of m)
            return "proto:lossy-store/assign-repeated-from-own-storage"
        return "proto:lossy-store/" + ",".join(names)
    if primary == "panic":
        return "proto:host-panic/history:" + last[0]
    return "proto:%s/%s" % (primary, ",".join(names))


def strip(step):
    return {k: v for k, v in step.items() if k in ("src", "pre", "chk", "snap")}


def run_cases(ctx, cases, tag, brief=True):
    fin, fout = ctx.path(tag + ".in"), ctx.path(tag + ".out")
    vlib.write_ndjson(fin, cases)
    ctx.vh(["c20-hist", "-in", fin, "-out", fout, "-par", str(vlib.NCPU)] + (["-brief"] if brief else []))
    res = vlib.read_ndjson(fout)
    if len(res) != len(cases):
        raise vlib.MachineryError("c20-hist returned %d results for %d cases" % (len(res), len(cases)))
    return res


def shows(res, primary):
    return bool(res.get("div")) and primary in res["div"]["classes"]


def shrink(ctx, reps):
    """reps: list of dict(primary, ops, steps, created).  Remove steps one at a time while the
    property-level class still shows (all histories in lock step, one harness call per round).
    Every surviving history has been re-executed on the real code."""
    first = run_cases(ctx, [{"id": i, "steps": r["steps"]} for i, r in enumerate(reps)], "reexec")
    # a divergence that does not show again when its history runs alone in a fresh process is not a counterexample (the
    # outcome depended on something outside the history): it is set aside and reported as a machinery failure by the
    # caller unless the same run establishes reproducible violations that are not listed findings
    unrep = [r for r, x in zip(reps, first) if not shows(x, r["primary"])]
    reps[:] = [r for r, x in zip(reps, first) if shows(x, r["primary"])]
    ctx.c20_unreproduced = ["divergence %s of %s not reproduced on re-execution" % (r["primary"], [s["src"] for s in r["steps"]])
                            for r in unrep]
    rnd = 0
    active = set(range(len(reps)))
    while active:
        rnd += 1
        cands, owner = [], []
        for i in sorted(active):
            n = len(reps[i]["steps"])
            for j in range(n - 1):          # the last (diverging) step stays
                cands.append({"id": len(cands), "steps": reps[i]["steps"][:j] + reps[i]["steps"][j + 1:]})
                owner.append((i, j))
        if not cands:
            break
        res = run_cases(ctx, cands, "shrink%d" % rnd)
        done = set()
        nxt = set()
        for (i, j), x in zip(owner, res):
            if i in done:
                continue
            if shows(x, reps[i]["primary"]):
                for k in ("steps", "ops", "created"):
                    reps[i][k] = reps[i][k][:j] + reps[i][k][j + 1:]
                done.add(i)
                nxt.add(i)
        active = nxt
    return reps


def replay_edges(ctx, tlcres, tag):
    if tlcres["error"] or tlcres["violated"] or tlcres["rc"] != 0:
        raise vlib.MachineryError("TLC failed on C20Hist (%s)\n%s" % (tag, tlcres["out"][-3000:]))
    f = ctx.path(tag + ".tlc")
    with open(f, "w") as fh:
        fh.write(tlcres["out"])
    tlcres["out"] = ""
    tlcres["printed"] = []
    out = ctx.path(tag + ".res")
    ctx.vh(["c20-hist", "-edges", f, "-out", out, "-par", str(vlib.NCPU), "-keep", "1"], timeout=3000)
    rows = vlib.read_ndjson(out)
    os.remove(f)
    summary = rows[-1]
    if not summary.get("summary"):
        raise vlib.MachineryError("c20-hist produced no summary")
    mach = [r for r in rows[:-1] if r.get("machinery")]
    if mach:
        raise vlib.MachineryError("c20-hist could not replay %d histories: %s" % (len(mach), mach[0]["machinery"]))
    return summary, [r for r in rows[:-1] if r.get("div")]


def hist_part(ctx):
    cfg = "C20HistQuick.cfg" if ctx.quick else "C20HistThorough.cfg"
    r = ctx.tlc("C20Hist", cfg, workers=min(8, vlib.NCPU), timeout=2400, heap="8g")
    ctx.states += r["states"]
    ctx.transitions += r["transitions"]
    ctx.log("TLC enumerated %d transitions over %d states (%s)" % (r["transitions"], r["states"], cfg))
    summary, divs = replay_edges(ctx, r, "bfs")
    if summary["edges"] != r["transitions"] - 1 and summary["edges"] != r["transitions"]:
        # every generated transition is printed exactly once (the initial state is counted by TLC as generated)
        raise vlib.MachineryError("TLC generated %d transitions but %d histories were printed" % (r["transitions"], summary["edges"]))
    ctx.log("replayed %d histories: %d conform, %d diverge" % (summary["edges"], summary["conform"], summary["divergent"]))
    # vacuity guard: every operation of the model ends at least one replayed history, and the model
    # predicted failures (mutations of frozen content / of unset defaults) as well as successes
    want = set(OPS_QUICK if ctx.quick else OPS_QUICK + OPS_RICH)
    missing = sorted(want - {k for k, v in summary["by_op"].items() if v > 0})
    if missing or not summary["expected_failures"] or summary["expected_failures"] == summary["edges"]:
        raise vlib.MachineryError("coverage guard: operations never generated: %s (expected failures: %d of %d)" %
                                  (missing, summary["expected_failures"], summary["edges"]))
    # seeded simulation beyond the exhaustive bound
    n = 100 if ctx.quick else 800
    s = ctx.tlc("C20Hist", "C20HistSim.cfg", workers=1, timeout=1500, heap="4g", simulate="num=%d" % n, depth=8,
                extra=["-seed", str(ctx.seed)])
    ssum, sdivs = replay_edges(ctx, s, "sim")
    ctx.log("simulation: replayed %d prefixes of %d traces: %d conform, %d diverge" % (ssum["edges"], n, ssum["conform"], ssum["divergent"]))

    alld = divs + sdivs
    l2only = [d for d in alld if not any(c in L1 for c in d["div"]["classes"])]
    alld = [d for d in alld if any(c in L1 for c in d["div"]["classes"])]
    def build_reps(ds_all):
        groups = collections.OrderedDict()
        for d in ds_all:
            names = [o[0] + ("@self" if o[2] and o[2] == o[1] else "") for o in d["ops"][:d["div"]["step"] + 1]]
            groups.setdefault("+".join(d["div"]["classes"]) + "/" + ",".join(names), []).append(d)
        reps = []
        for key, ds in groups.items():
            full = [d for d in ds if d.get("steps")]
            if not full:
                raise vlib.MachineryError("no full record for divergence key " + key)
            d = full[0]
            k = d["div"]["step"] + 1
            ops = d["ops"][:k]
            created, root = annotate(d["ops"])
            reps.append({"key": key, "primary": [c for c in L1 if c in d["div"]["classes"]][0], "ops": ops,
                         "steps": [strip(s) for s in d["steps"][:k]], "created": created[:k], "root": root,
                         "count": len(ds), "detail": d["div"].get("detail") or []})
        return reps
    reps = build_reps(alld)
    ctx.log("%d divergent histories in %d groups; re-executing and shrinking one of each" % (len(alld), len(reps)))
    reps = shrink(ctx, reps) if reps else []
    if getattr(ctx, "c20_unreproduced", None):
        # Some divergences did not show when their history ran alone: the histories of one process influenced each other,
        # and a history then diverges at its first affected step, which hides what it would show by itself.  Every
        # divergent history is therefore executed again ALONE in a process of its own (shortest first, bounded); what
        # diverges there is reproducible by construction and is judged like any other divergence.
        unrep = list(ctx.c20_unreproduced)
        seen, todo = set(), []
        for d in sorted(alld, key=lambda d: (len(d["ops"]), json.dumps(d["ops"]))):
            key = json.dumps(d["ops"])
            if key not in seen:
                seen.add(key)
                todo.append(d["ops"])
        if len(todo) > 3000:      # an even sample over the length-sorted list
            todo = [todo[(j * len(todo)) // 3000] for j in range(3000)]
        import concurrent.futures

        def alone(a):
            i, ops = a
            fin, fout = ctx.path("iso%05d.in" % i), ctx.path("iso%05d.out" % i)
            vlib.write_ndjson(fin, [{"id": i, "ops": ops}])
            ctx.vh(["c20-hist", "-in", fin, "-out", fout, "-par", "1"])
            res = vlib.read_ndjson(fout)
            os.remove(fin)
            os.remove(fout)
            return res[0]
        with concurrent.futures.ThreadPoolExecutor(vlib.NCPU) as ex:
            iso = list(ex.map(alone, enumerate(todo)))
        iso = [x for x in iso if x.get("div") and any(c in L1 for c in x["div"]["classes"])]
        ctx.log("%d divergences depended on earlier histories of their process; %d histories re-run alone, %d diverge alone" %
                (len(unrep), len(todo), len(iso)))
        # (no shrinking here: the shrinking rounds run many histories in one process, which is exactly what cannot be
        # trusted on this tree; the histories are short, and each is executed alone once more for the report)
        more = build_reps(iso) if iso else []
        have = {r["key"] for r in reps}
        reps += [r for r in more if r["key"] not in have]
        ctx.c20_unreproduced = unrep
    bysig = collections.OrderedDict()
    for rp in reps:
        sig = signature(rp["primary"], rp["ops"], rp["created"], rp["root"])
        e = bysig.setdefault(sig, {"count": 0, "rep": rp, "variants": set()})
        e["count"] += rp["count"]
        e["variants"].add(",".join(o[0] for o in rp["ops"] if o[0] in SHARE or o[0] in SNAP or o is rp["ops"][-1]))
        srcs = lambda x: (len(x["steps"]), [t["src"] for t in x["steps"]])
        if srcs(rp) < srcs(e["rep"]):
            e["rep"] = rp
    for sig, e in bysig.items():
        rp = e["rep"]
        x = run_cases(ctx, [{"id": 0, "steps": rp["steps"]}], "final", brief=False)[0]
        if not shows(x, rp["primary"]):
            raise vlib.MachineryError("shrunk history for %s not reproducible" % sig)
        what = "%s  =>  %s" % ("; ".join(s["src"] for s in rp["steps"]), "; ".join(x["div"]["detail"][:2]))
        ctx.violation(sig, what[:600], {"kind": "hist", "primary": rp["primary"], "steps": rp["steps"], "ops": rp["ops"]})
    if getattr(ctx, "c20_unreproduced", None):
        openk = {k["signature"] for k in vlib.load_known() if k.get("status") == "open" and k["property"] == "C20"}
        if all(v[0] in openk for v in ctx.violations):
            raise vlib.MachineryError("; ".join(ctx.c20_unreproduced[:3]))
        ctx.notes.append("%d divergences seen in the batch runs did not show when their history ran alone (the outcome of a history "
                         "depended on earlier histories of the same process): %s" % (len(ctx.c20_unreproduced), ctx.c20_unreproduced[:2]))
    if l2only:
        # divergences that are not property-level failures: the model's sharing rules for unfrozen content do not describe
        # this tree.  That is a machinery failure - unless the same run established property-level violations that are
        # not listed findings (the tree is then wrong in a way the property forbids, and that is what gets reported)
        d = l2only[0]
        msg = ("%d histories diverge from the model without violating the property as stated "
               "(the model's sharing rules for unfrozen content do not describe this tree); first: %s -> %s %s" %
               (len(l2only), [o[0] for o in d["ops"]], d["div"]["classes"], (d["div"].get("detail") or [""])[:2]))
        openk = {k["signature"] for k in vlib.load_known() if k.get("status") == "open" and k["property"] == "C20"}
        if all(v[0] in openk for v in ctx.violations):
            raise vlib.MachineryError(msg)
        ctx.notes.append(msg)
    ctx.cov["histories"] = {
        "exhaustive_edges": summary["edges"], "conform": summary["conform"], "divergent": summary["divergent"],
        "by_length": summary["by_len"], "by_last_operation": summary["by_op"],
        "last_operation_must_fail": summary["expected_failures"],
        "noop_stores_accepted_on_frozen": summary["noop_stores_on_frozen"] + ssum["noop_stores_on_frozen"],
        "simulation_traces": n, "simulation_prefixes": ssum["edges"], "simulation_conform": ssum["conform"],
        "simulation_by_length": ssum["by_len"],
        "divergent_by_signature": {k: v["count"] for k, v in bysig.items()},
        "sharing_and_mutating_operations_by_signature": {k: sorted(v["variants"])[:40] for k, v in bysig.items()}}
    ctx.samples += summary["samples"][:4] + ssum["samples"][-2:]
    return summary["edges"] + ssum["edges"], summary["conform"] + ssum["conform"]


# ------------------------------------------------------------------ ranges

INT_KINDS = ["int32", "int64", "uint32", "uint64", "sint32", "sint64", "fixed32", "fixed64", "sfixed32", "sfixed64"]
KEY_KINDS = INT_KINDS + ["bool", "string"]
KINDS = INT_KINDS + ["bool", "string", "float", "double", "bytes", "enum", "msg"]
PRESET = {"bool": "True", "string": '"pre"', "float": "1.5", "double": "1.5", "bytes": 'b"pre"', "enum": "{E}.E1",
          "msg": "{T}(i = 7)"}


def int_pool(rnd, quick):
    xs = set()
    for b in (31, 32, 63, 64):
        for d in (-2, -1, 0, 1):
            xs.add((1 << b) + d)
            xs.add(-(1 << b) + d)
    xs |= {-2, -1, 0, 1, 2, 5, 7, 127, 128, 255, 1 << 100, -(1 << 100), 1 << 1100, 16777216, 16777217, (1 << 53) + 1}
    for _ in range(4 if quick else 16):
        b = rnd.choice((31, 32, 63, 64))
        xs.add(rnd.choice((1, -1)) * ((1 << b) + rnd.randint(-1000, 1000)))
        xs.add(rnd.randint(-(1 << 70), 1 << 70))
    return [str(x) for x in sorted(xs)]


OTHER_POOL = [
    "True", "False",
    "0.0", "-0.0", "1.5", "-2.25", "0.1", "1e300", "-1e300", "float('inf')", "float('-inf')", "float('nan')", "5e-324",
    "16777217.0", "3.4028234663852886e38", "1e-40", "1.0",
    '""', '"abc"', '"E1"', '"E5"', '"EMIN"', '"nope"', '"1"', '"\\u00e9"', '"\\u65e5\\u672c"', '"\\U0001F600"', '"a\\x00b"',
    '"a" * 300', "BAD_FF", "BAD_TRUNC", "BAD_SURR", '"\\u00e9"[:1]',
    'b""', 'b"abc"', 'b"\\xff\\x00"', 'b"E1"',
    "None", "[1]", "(1,)", '{"i": 1}', "{}", '{"i": "x"}', '{"zz": 1}', "{T}(i = 1)", "{T}()", "{K}()", "{XT}(i = 1)",
    "{E}.E1", "{E}.E5", "{E}.EMIN", "{E}.EMAX", "{F}.F1", "{XE}.E1",
    "{U}.E.NE1", "{U}.E.NE9", "{U}.T(i = 1)", "{U}.T()",      # nested types with the simple names E and T
]


def family(kind, src):
    """is the value of the kind's own family (boundary exploration) rather than a wrong type"""
    isint = src.lstrip("-").isdigit()
    if kind in INT_KINDS:
        return isint
    if kind in ("float", "double"):
        return isint or src[0] in "0123456789-f"
    if kind == "bool":
        return src in ("True", "False")
    if kind in ("string", "bytes"):
        return src[0] in '"bB'
    if kind == "enum":
        return isint or src[0] in '"{'
    return src[0] == "{"


def subst(s, syn):
    p3 = syn == "p3"
    return (s.replace("{E}", "E3" if p3 else "E").replace("{F}", "F3" if p3 else "F").replace("{T}", "T3" if p3 else "T")
            .replace("{K}", "K3" if p3 else "K").replace("{U}", "U3" if p3 else "U").replace("{XE}", "E" if p3 else "E3").replace("{XT}", "T" if p3 else "T3"))


def range_cases(ctx, rnd):
    ints = int_pool(rnd, ctx.quick)
    cases = []
    for syn in ("p2", "p3"):
        K = "K3" if syn == "p3" else "K"
        for kind in KINDS:
            preset = subst(PRESET.get(kind, "7"), syn)
            f, r, mv, mk = "f_" + kind, "r_" + kind, "mv_" + kind, "mk_" + kind
            rt = {"rtb": "proto.unmarshal(%s, proto.marshal(m))" % K, "rtt": "proto.unmarshal_text(%s, proto.marshal_text(m))" % K}
            positions = {
                # name: (pre statements, op template, read lambda, shape, clear, has field)
                "field": (["m.%s = %s" % (f, preset)], "m.%s = {V}" % f, "lambda x: [x.%s]" % f, "replace", "default", f),
                "set_field": (["m.%s = %s" % (f, preset)], "proto.set_field(m, %s.%s, {V})" % (K, f), "lambda x: [x.%s]" % f, "replace", "default", f),
                "ctor": ([], "m = %s(%s = {V})" % (K, f), "lambda x: [x.%s]" % f, "replace", "default", f),
                "ctor_dict": ([], 'm = %s({"%s": {V}})' % (K, f), "lambda x: [x.%s]" % f, "replace", "default", f),
                "list_assign": (["m.%s = [%s]" % (r, preset)], "m.%s = [{V}]" % r, "lambda x: list(x.%s)" % r, "replace", "no", ""),
                "list_pair": (["m.%s = [%s]" % (r, preset)], "m.%s = [%s, {V}]" % (r, preset), "lambda x: list(x.%s)" % r, "pair", "no", ""),
                "list_append": (["m.%s = [%s]" % (r, preset)], "m.%s.append({V})" % r, "lambda x: list(x.%s)" % r, "append", "no", ""),
                "list_set0": (["m.%s = [%s, %s]" % (r, preset, preset)], "m.%s[0] = {V}" % r, "lambda x: list(x.%s)" % r, "set0", "no", ""),
                "list_none": (["m.%s = [%s]" % (r, preset)], "m.%s = {V}" % r, "lambda x: list(x.%s)" % r, "replace", "empty", ""),
                "mapval_set": (['m.%s = {"p": %s}' % (mv, preset)], 'm.%s["k"] = {V}' % mv, "lambda x: [x.%s[k] for k in x.%s]" % (mv, mv), "mapval", "no", ""),
                "mapval_assign": (['m.%s = {"p": %s}' % (mv, preset)], 'm.%s = {"k": {V}}' % mv, "lambda x: [x.%s[k] for k in x.%s]" % (mv, mv), "replace", "no", ""),
                "mapval_none": (['m.%s = {"p": %s}' % (mv, preset)], "m.%s = {V}" % mv, "lambda x: [x.%s[k] for k in x.%s]" % (mv, mv), "replace", "empty", ""),
            }
            if kind in KEY_KINDS:
                positions.update({
                    "mapkey_set": (["m.%s = {%s: 7}" % (mk, preset)], "m.%s[{V}] = 1" % mk, "lambda x: [k for k in x.%s]" % mk, "mapkey", "no", ""),
                    "mapkey_assign": (["m.%s = {%s: 7}" % (mk, preset)], "m.%s = {{V}: 1}" % mk, "lambda x: [k for k in x.%s]" % mk, "replace", "no", ""),
                    "lookup_get": (["m.%s = {%s: 7}" % (mk, preset)], "_x = m.%s[{V}]" % mk, "lambda x: [k for k in x.%s]" % mk, "lookup", "no", ""),
                    "lookup_in": (["m.%s = {%s: 7}" % (mk, preset)], "_x = {V} in m.%s" % mk, "lambda x: [k for k in x.%s]" % mk, "lookup", "no", ""),
                })
            for src0 in ints + OTHER_POOL:
                src = subst(src0, syn)
                own = family(kind, src0)
                for pos, (pre, op, read, shape, clear, hasf) in positions.items():
                    if pos.endswith("_none") and src != "None":
                        continue
                    if ctx.quick:
                        # boundary values of the kind's own family everywhere (proto2), a seeded third elsewhere
                        both = syn == "p2" or kind in ("string", "enum", "bytes")
                        core = own and both and pos in ("field", "list_append", "mapval_set", "mapkey_set", "ctor")
                        wrong = (not own) and both and pos in ("field", "list_append", "mapval_set", "mapkey_set", "lookup_in")
                        if not (core or wrong or src == "None" or rnd.random() < 0.02):
                            continue
                    elif not own and pos in ("set_field", "ctor_dict", "list_pair", "mapval_assign") and rnd.random() < 0.5:
                        continue
                    cases.append({
                        "id": len(cases) + 1,
                        "meta": {"syn": syn, "kind": kind, "pos": pos, "shape": shape, "clear": clear, "src": src, "hasf": hasf},
                        "pre": ["m = %s()" % K] + pre + ["_read = " + read, "_before = _read(m)"],
                        "op": op.replace("{V}", src),
                        "obs": [["val", src], ["before", "_before"], ["rb", "_read(m)"], ["rtb", "_read(%s)" % rt["rtb"]],
                                ["rtt", "_read(%s)" % rt["rtt"]]] + ([["has", 'proto.has(m, "%s")' % hasf]] if hasf else []),
                    })
    return cases


# second valid element per kind for the whole-field (view) assignments: a boundary where there is one
SECOND = {"int32": "2147483647", "sint32": "-2147483648", "sfixed32": "2147483647", "uint32": "4294967295", "fixed32": "4294967295",
          "int64": "9223372036854775807", "sint64": "-9223372036854775808", "sfixed64": "9223372036854775807",
          "uint64": "18446744073709551615", "fixed64": "18446744073709551615", "bool": "False", "string": '"\\u00e9"',
          "float": "-2.25", "double": "1e300", "bytes": 'b"\\xff\\x00"', "enum": "{E}.EMIN", "msg": "{T}(i = 2)",
          "enumf": "{F}.F6", "msgu": "{U}(i = 2)"}
PRESET2 = dict(PRESET, enumf="{F}.F1", msgu="{U}(i = 7)")


def view_cases(ctx, first_id):
    """A repeated / map field assigned from a VIEW of a field of ANOTHER message (and from list(view) /
    dict(view) as controls).  Pairs: same domain (must copy exactly), same kind but another domain
    (another enum type, another message type, proto2 text that is not UTF-8 into proto3), other kinds."""
    def names(syn):
        p3 = syn == "p3"
        return {"{E}": "E3" if p3 else "E", "{F}": "F3" if p3 else "F", "{T}": "T3" if p3 else "T", "{U}": "U3" if p3 else "U"}

    def sub(t, syn):
        for a, b in names(syn).items():
            t = t.replace(a, b)
        return t
    pairs = []   # (label, src syn, src kind, content, dst syn, dst kind)
    for syn in ("p2", "p3"):
        for kind in KINDS + ["enumf", "msgu"]:
            pairs.append(("same", syn, kind, [PRESET2.get(kind, "7"), SECOND[kind]], syn, kind))
        # same kind, another domain
        pairs += [("enum-type", syn, "enum", ["{E}.E1", "{E}.E5"], syn, "enumf"),
                  ("enum-type", syn, "enum", ["{E}.E1"], syn, "enumf"),          # the number exists in F, the type differs
                  ("enum-type", syn, "enumf", ["{F}.F1", "{F}.F6"], syn, "enum"),
                  ("enum-type", syn, "enumf", ["{F}.F6"], syn, "enum"),
                  ("msg-type", syn, "msg", ["{T}(i = 1)"], syn, "msgu"),
                  ("msg-type", syn, "msgu", ["{U}(i = 1)", "{U}()"], syn, "msg"),
                  # other kinds whose domains overlap only partly
                  ("kind", syn, "uint32", ["7", "4294967295"], syn, "int32"),
                  ("kind", syn, "int64", ["7", "-1"], syn, "uint64"),
                  ("kind", syn, "int64", ["7", "8"], syn, "int32"),
                  ("kind", syn, "int32", ["7", "-8"], syn, "sint32"),
                  ("kind", syn, "bytes", ['b"ok"'], syn, "string"),
                  ("kind", syn, "string", ['"ok"'], syn, "bytes"),
                  ("kind", syn, "double", ["1.5", "1e300"], syn, "float"),
                  ("kind", syn, "int32", ["0", "1"], syn, "enum"),
                  ("kind", syn, "int32", ["0", "6"], syn, "enum")]
    # across the two files: the same kinds, but the enum / message types are different types and
    # proto3 text must be UTF-8
    for a, b in (("p2", "p3"), ("p3", "p2")):
        pairs += [("syntax", a, "string", ['"ok"', '"\\u00e9"'], b, "string"),
                  ("syntax-utf8", a, "string", ['"ok"', "BAD_FF"], b, "string"),
                  ("syntax-utf8", a, "string", ["BAD_TRUNC"], b, "string"),
                  ("syntax", a, "int32", ["7", "-2147483648"], b, "int32"),
                  ("syntax", a, "uint64", ["18446744073709551615"], b, "uint64"),
                  ("syntax", a, "bytes", ['b"\\xff"'], b, "bytes"),
                  ("syntax-type", a, "enum", ["{E}.E1"], b, "enum"),
                  ("syntax-type", a, "msg", ["{T}(i = 1)"], b, "msg")]
    cases = []
    for label, ssyn, skind, content, dsyn, dkind in pairs:
        if ssyn == "p3" and any(c.startswith("BAD_") for c in content):
            continue        # a proto3 source cannot hold such text
        SK, DK = ("K3" if ssyn == "p3" else "K"), ("K3" if dsyn == "p3" else "K")
        content = [sub(c, ssyn) for c in content]
        dpre = sub(PRESET2.get(dkind, "7"), dsyn)
        forms = [("list", "r_" + skind, "r_" + dkind, "[%s]" % ", ".join(content), "[%s]" % dpre, "string"),
                 ("mapval", "mv_" + skind, "mv_" + dkind, "{%s}" % ", ".join('"k%d": %s' % (i, c) for i, c in enumerate(content)),
                  '{"p": %s}' % dpre, "string")]
        if skind in KEY_KINDS and dkind in KEY_KINDS:
            forms.append(("mapkey", "mk_" + skind, "mk_" + dkind, "{%s}" % ", ".join("%s: %d" % (c, i + 1) for i, c in enumerate(content)),
                          "{%s: 7}" % dpre, dkind))
        for form, sf, df, ssrc, dsrc, kk in forms:
            if form == "list":
                rv, rk, copy = "lambda x: list(x.%s)", "lambda x: []", "list(s.%s)" % sf
            elif form == "mapval":
                rv, rk, copy = "lambda x: [x.%s[k] for k in x.%s]", "lambda x: [k for k in x.%s]", "dict(s.%s)" % sf
            else:
                rv, rk, copy = "lambda x: [k for k in x.%s]", "lambda x: []", "dict(s.%s)" % sf
            def lam(t, f):
                return t % ((f,) * t.count("%s"))
            rt = {"b": "proto.unmarshal(%s, proto.marshal(m))" % DK, "t": "proto.unmarshal_text(%s, proto.marshal_text(m))" % DK}
            for variant, rhs in (("view", "s.%s" % sf), ("copy", copy)):
                cases.append({
                    "id": first_id + len(cases),
                    "meta": {"syn": dsyn, "kind": dkind if form != "mapkey" else dkind, "kkind": "string", "form": form,
                             "pos": "%s_%s" % (form, variant), "shape": "viewlist" if form == "list" else "viewmap", "clear": "no",
                             "src": "%s.%s=%s" % (ssyn, sf, ssrc), "hasf": "", "pair": label,
                             "from": "%s.%s" % (ssyn, sf), "to": "%s.%s" % (dsyn, df)},
                    "pre": ["m = %s()" % DK, "s = %s()" % SK, "s.%s = %s" % (sf, ssrc), "m.%s = %s" % (df, dsrc),
                            "_read = " + lam(rv, df), "_readk = " + lam(rk, df), "_reads = " + lam(rv, sf), "_before = _read(m)"],
                    "op": "m.%s = %s" % (df, rhs),
                    "obs": [["vals", "_reads(s)"], ["before", "_before"], ["rb", "_read(m)"], ["rbk", "_readk(m)"],
                            ["rtb", "_read(%s)" % rt["b"]], ["rtt", "_read(%s)" % rt["t"]],
                            ["rtbk", "_readk(%s)" % rt["b"]], ["rttk", "_readk(%s)" % rt["t"]], ["printed", "str(m)"]],
                })
    return cases


def exec_cases(ctx, cases, tag, sub="c20-exec"):
    fin, fout = ctx.path(tag + ".in"), ctx.path(tag + ".out")
    vlib.write_ndjson(fin, [{k: c[k] for k in ("id", "pre", "op", "obs")} for c in cases])
    ctx.vh([sub, "-in", fin, "-out", fout], timeout=3000)
    res = {r["id"]: r for r in vlib.read_ndjson(fout)}
    if len(res) != len(cases):
        raise vlib.MachineryError("%s returned %d results for %d cases" % (sub, len(res), len(cases)))
    return res


def seq_obs(o):
    """an observation that is a list -> {ok, v:[elements]}"""
    if o is None or not o.get("ok") or o["v"].get("t") != "list":
        return {"ok": False, "v": []}
    return {"ok": True, "v": o["v"]["v"]}


def record(c, r):
    m, obs = c["meta"], r["obs"]
    if r.get("pre_err"):
        raise vlib.MachineryError("range case %d: set-up failed: %s" % (c["id"], r["pre_err"]))
    val = obs.get("val", {})
    if not val.get("ok") and m["shape"] not in ("viewlist", "viewmap"):
        raise vlib.MachineryError("range case %d: value %s does not evaluate: %s" % (c["id"], m["src"], val))
    before = seq_obs(obs.get("before"))
    if not before["ok"]:
        raise vlib.MachineryError("range case %d: cannot read the preset" % c["id"])
    if m["shape"] in ("viewlist", "viewmap"):
        vals = seq_obs(obs.get("vals"))
        if not vals["ok"]:
            raise vlib.MachineryError("range case %d: cannot read the source %s: %s" % (c["id"], m["src"], obs.get("vals")))
        # the values of a map are judged with the value kind and its keys are text; in the map-key form
        # the elements under test are the keys themselves (read by _read), the values are small ints
        return {"id": c["id"], "syn": m["syn"], "kind": m["kind"], "kkind": m["kkind"], "shape": m["shape"], "val": {"t": "none"},
                "vals": vals["v"], "keys": [{"t": "str", "v": [107, 48 + i]} for i in range(len(vals["v"]))] if m["form"] == "mapval" else [],
                "op": {"ok": bool(r["op"].get("ok")), "panic": bool(r["op"].get("panic")) or any(o.get("panic") for o in obs.values())},
                "before": before["v"], "rb": seq_obs(obs.get("rb")), "rbk": seq_obs(obs.get("rbk")),
                "rtb": seq_obs(obs.get("rtb")), "rtt": seq_obs(obs.get("rtt")),
                "rtbk": seq_obs(obs.get("rtbk")), "rttk": seq_obs(obs.get("rttk"))}
    has = obs.get("has", {})
    return {"id": c["id"], "syn": m["syn"], "kind": m["kind"], "shape": m["shape"], "clear": m["clear"], "val": val["v"],
            "op": {"ok": bool(r["op"].get("ok")), "panic": bool(r["op"].get("panic")) or any(o.get("panic") for o in obs.values())},
            "before": before["v"], "rb": seq_obs(obs.get("rb")), "rtb": seq_obs(obs.get("rtb")), "rtt": seq_obs(obs.get("rtt")),
            "has": bool(has.get("ok") and has["v"].get("v")), "hascheck": bool(m["hasf"]) and m["syn"] == "p2"}


def valtype(v):
    return {"int": "int", "str": "str", "bytes": "bytes", "float": "float", "bool": "bool", "none": "None", "enum": "enum",
            "msg": "msg", "list": "list", "tuple": "tuple", "dict": "dict"}.get(v.get("t"), v.get("t", "?"))


def is_utf8(codes):
    try:
        bytes(codes).decode("utf-8")
        return True
    except UnicodeDecodeError:
        return False


def range_signature(c, rec, r):
    m, vt = c["meta"], valtype(rec["val"])
    if m["shape"] in ("viewlist", "viewmap"):
        # whole-field assignment from a view / copy of another field
        how = "panic" if rec["op"]["panic"] else "stored" if rec["op"]["ok"] else "refused"
        return "proto:view-assign/%s-into-%s/%s" % (m["from"], m["to"], how)
    if rec["op"]["panic"]:
        return "proto:host-panic/%s-into-%s" % (vt, m["kind"])
    if m["kind"] == "string" and m["syn"] == "p3" and vt == "str" and not is_utf8(rec["val"]["v"]) and rec["op"]["ok"] \
            and not (rec["rtb"]["ok"] and rec["rtt"]["ok"]):
        return "proto:ill-typed-store/proto3-string-invalid-utf8"
    # any other disagreement with ProtoRange!Judge: which value type into which kind, and whether it was stored
    return "proto:range/%s-into-%s/%s" % (vt, m["kind"], "stored" if rec["op"]["ok"] else "refused")


def range_part(ctx, rnd):
    cases = range_cases(ctx, rnd)
    views = view_cases(ctx, len(cases) + 1)
    cases += views
    ctx.log("range: %d cases (%d whole-field assignments from views / copies of another field)" % (len(cases), len(views)))
    res = exec_cases(ctx, cases, "range")
    recs = [record(c, res[c["id"]]) for c in cases]
    f = ctx.path("range.ndjson")
    vlib.write_ndjson(f, recs)
    bad, checked = ctx.validate("C20Trace", "C20Trace.cfg", [f])
    if checked != len(cases):
        raise vlib.MachineryError("TLC checked %d of %d range records" % (checked, len(cases)))
    ctx.log("range: TLC validated %d records, %d rejected" % (checked, len(set(bad))))
    byid = {c["id"]: c for c in cases}
    recid = {r["id"]: r for r in recs}
    sigs = collections.OrderedDict()
    for cid in sorted(set(bad)):
        c = byid[cid]
        r2 = exec_cases(ctx, [c], "re%d" % cid)[cid]
        rec2 = record(c, r2)
        if rec2 != recid[cid]:
            raise vlib.MachineryError("range case %d not reproducible" % cid)
        sig = range_signature(c, rec2, r2)
        e = sigs.setdefault(sig, {"count": 0, "case": c, "res": r2, "pos": set()})
        e["count"] += 1
        e["pos"].add(c["meta"]["syn"] + ":" + c["meta"]["pos"])
    for sig, e in sigs.items():
        c, r2 = e["case"], e["res"]
        what = "%s ; %s -> %s (%d records, positions %s)" % (
            "; ".join(c["pre"][:-2]), c["op"], (r2["op"].get("panic") or r2["op"].get("err") or "ok") + " " + r2["op"].get("stack", "") +
            "".join(" | %s: %s" % (k, v.get("err") or v.get("panic")) for k, v in sorted(r2["obs"].items()) if not v.get("ok")),
            e["count"], ",".join(sorted(e["pos"])))
        ctx.violation(sig, what[:700], {"kind": "range", "case": c})
    # not judged (the property only requires well-typed content after a failure): failed stores that changed content
    partial = collections.Counter(byid[r["id"]]["meta"]["pos"] for r in recs
                                  if not r["op"]["ok"] and not r["op"]["panic"] and r["rb"]["ok"] and r["rb"]["v"] != r["before"])
    per = collections.Counter((c["meta"]["kind"], c["meta"]["pos"]) for c in cases)
    verdicts = collections.Counter("ok" if r["op"]["ok"] else "panic" if r["op"]["panic"] else "error" for r in recs)
    vstat = collections.Counter()
    for c in views:
        r = recid[c["id"]]
        vstat[(c["meta"]["pair"], "stored" if r["op"]["ok"] else "panic" if r["op"]["panic"] else "refused")] += 1
    ctx.cov["view_assignments"] = {"records": len(views), "field_pairs": len({(c["meta"]["from"], c["meta"]["to"]) for c in views}),
                                   "outcome_by_pair_class": {"%s:%s" % k: v for k, v in sorted(vstat.items())}}
    ctx.samples.append({"op": views[len(views) // 3]["op"], "pre": views[len(views) // 3]["pre"][:4]})
    ctx.cov["ranges"] = {"records": len(cases), "rejected_by_spec": len(set(bad)), "outcomes": dict(verdicts),
                         "kinds": len(KINDS), "positions": sorted({c["meta"]["pos"] for c in cases}),
                         "distinct_values": len({c["meta"]["src"] for c in cases}),
                         "per_kind": {k: sum(v for (kk, _), v in per.items() if kk == k) for k in KINDS},
                         "failed_stores_that_changed_content_by_position": dict(partial),
                         "rejected_by_signature": {k: v["count"] for k, v in sigs.items()}}
    ctx.samples += [{"op": c["op"], "pre": c["pre"][1:-2], "outcome": "ok" if res[c["id"]]["op"].get("ok") else
                     (res[c["id"]]["op"].get("err") or res[c["id"]]["op"].get("panic"))} for c in cases[:: max(1, len(cases) // 3)]][:3]
    return len(cases), checked - len(set(bad)), len({(c["meta"]["syn"], c["meta"]["kind"], c["meta"]["pos"], c["meta"]["src"]) for c in cases})


# ------------------------------------------------------------------ cycles

CYCLES = [
    (["m = T()"], "m.sub = m", "str(m)"),
    (["m = T()"], "m.rm = [m]", "str(m)"),
    (["m = T()", "m.rm = [T()]"], "m.rm.append(m)", "str(m)"),
    (["m = T()", "m.rm = [T()]"], "m.rm[0] = m", "str(m)"),
    (["a = T()", "m = T()", "a.sub = m"], "m.sub = a", "str(m)"),
    (["a = T()", "m = T()", "a.rm = [m]"], "m.sub = a", "str(m)"),
    (["m = T()"], "m.sub = {'sub': m}", "str(m)"),
    (["m = T()", "m.rm = [T()]", "c = T(m)"], "m.rm = [c]", "str(m)"),
    (["m = T()"], 'm.mm = {"k": m}', "str(m)"),
    (["m = T()"], "m.sub = m", "proto.marshal(m)"),
    (["m = T()"], "m.sub = m", "proto.marshal_text(m)"),
    (["m = T()"], "m = T(sub = m)", "str(m)"),      # control: a fresh message containing m is a tree
    (["m = T()", "m.i = 1"], "m.sub = T(m)", "str(m)"),   # control: a copy of m inside m is a tree
]


def crash_part(ctx):
    cases = [{"id": i + 1, "pre": pre, "op": op, "obs": [["out", use]]} for i, (pre, op, use) in enumerate(CYCLES)]
    res = exec_cases(ctx, cases, "crash", sub="c20-crash")
    fatal = [c for c in cases if res[c["id"]].get("fatal")]
    if fatal:
        again = exec_cases(ctx, fatal[:2], "crash2", sub="c20-crash")
        if not all(again[c["id"]].get("fatal") for c in fatal[:2]):
            raise vlib.MachineryError("host crash not reproducible")
        c = fatal[0]
        ctx.violation("proto:host-crash/cyclic-message",
                      "%s; %s; %s -> the process dies with '%s' at %s (%d of %d cycle-forming programs; the assignment that makes a "
                      "message contain itself is accepted)" % ("; ".join(c["pre"]), c["op"], c["obs"][0][1], res[c["id"]]["fatal"],
                                                              res[c["id"]].get("where"), len(fatal), len(cases) - 2),
                      {"kind": "crash", "case": c})
    for c in cases[-2:]:
        r = res[c["id"]]
        if r.get("fatal") or not r.get("result") or not r["result"]["obs"]["out"].get("ok"):
            raise vlib.MachineryError("control case of the cycle probes failed: %s" % c["op"])
    ctx.cov["cycle_probes"] = {"programs": len(cases), "host_aborts": len(fatal)}
    return len(cases), len(cases) - len(fatal)


# ------------------------------------------------------------------ driver


def run(ctx):
    rnd = random.Random(ctx.seed)
    ctx.build()
    design(ctx)
    h_n, h_ok = hist_part(ctx)
    r_n, r_ok, r_distinct = range_part(ctx, rnd)
    c_n, c_ok = crash_part(ctx)
    ctx.cov["evaluations"] = h_n + r_n + c_n
    ctx.cov["traces_validated_against_impl"] = h_ok + r_ok + c_ok
    ctx.cov["distinct_nontrivial"] = ctx.cov["histories"]["exhaustive_edges"] + r_distinct
    ctx.assumptions = [
        "sharing of UNFROZEN content is modelled as lib/proto documents it (message assignment aliases, Message(m) is a shallow copy, "
        "a repeated field is assigned by copying the elements into the field's list, a map field is replaced); a divergence from these "
        "rules that does not break the property is reported as a machinery failure, not as a violation",
        "Freeze is applied to message variables (constructed or copied); freezing a view wrapper directly is not generated",
        "scalar values of the history model are 1 and 2, repeated fields hold at most 2 elements, map keys are 'a' and 'b'; "
        "the map<string, T> field holds at most the one entry 'k' and is only assigned as a whole (no insertion through a view of it)",
        "a map field has no items()/values() methods in lib/proto: the snapshot routes of a map are dict(m.mm), dict.update(m.mm) and "
        "keyword expansion f(**m.mm) (all MapField.Items()); list(m.rm) is the iteration route of a repeated field",
        "float kinds: only values representable in the field's type are required to read back exactly (rounding is not judged)",
        "messages are built from descriptors created with descriptorpb/protodesc/dynamicpb (no generated Go types)",
    ]
    return ctx.finish(
        rule="histories: every transition of spec/ProtoSpec.tla within the tier's bounds, printed by TLC with a shortest path to its source "
             "state (distinct by construction; non-trivial = ends in an operation on a message, view or copy), plus seeded simulation prefixes; "
             "ranges: kinds x values x positions enumerated by checks/c20.py, distinct = distinct (syntax, kind, position, value source)",
        exhaustive=False)


def replay(ctx, path):
    d = json.load(open(path))
    rp = d["replay"]
    ctx.build()
    if rp["kind"] == "hist":
        x = run_cases(ctx, [{"id": 0, "steps": rp["steps"]}], "replay", brief=False)[0]
        bad = shows(x, rp["primary"])
        print("replay %s: %s" % (path, "; ".join(s["src"] for s in rp["steps"])))
        for s, o in zip(rp["steps"], x.get("outcome", [])):
            print("   %-40s %s" % (s["src"], o))
        print("   final: " + " | ".join(x.get("final", [])))
        print("   -> %s" % ("STILL FAILS: " + "; ".join(x["div"]["detail"][:3]) if bad else "no longer fails"))
        return 1 if bad else 0
    if rp["kind"] == "range":
        c = rp["case"]
        r = exec_cases(ctx, [c], "replay")[c["id"]]
        f = ctx.path("replay.ndjson")
        vlib.write_ndjson(f, [record(c, r)])
        bad, _ = ctx.validate("C20Trace", "C20Trace.cfg", [f])
        print("replay %s: %s ; %s -> %s : %s" % (path, "; ".join(c["pre"][:-2]), c["op"], json.dumps(r["op"]),
                                                  "REJECTED by spec" if bad else "accepted"))
        return 1 if bad else 0
    if rp["kind"] == "crash":
        c = rp["case"]
        r = exec_cases(ctx, [c], "replay", sub="c20-crash")[c["id"]]
        print("replay %s: %s; %s; %s -> %s" % (path, "; ".join(c["pre"]), c["op"], c["obs"][0][1], r.get("fatal") or "no crash"))
        return 1 if r.get("fatal") else 0
    raise vlib.MachineryError("unknown replay kind")
