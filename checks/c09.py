"""C09  Static rules and dialect options are enforced before and during execution.

Part 1 (code -> spec, P-A): programs = valid base programs with exactly one construct planted at a
systematically chosen syntactic position, observed under FileOptions vectors through the real
front end (`vh c09-front`: FileOptions.Parse + resolve.File for the complete error list,
SourceProgramOptions for compilation, ExecFileOptions with a host trace function for "did any code
run").  TLC validates every observation against spec/Resolve.tla (spec/C09Trace.tla).

Part 2 (spec -> code): spec/C09MC.tla enumerates call graphs over <= 4 functions (plain call, call
through a lambda, second closure of one def, key= callback of sorted/min/max), model-checks the
recursion rule on a stack of function codes and emits each graph with the expected trace and outcome
for Recursion off and on; each graph is rendered as a program and executed by `vh eval`.
"""
import json, random, re
import vlib

LEVEL = "model_checking"

OPT_NAMES = ["Set", "While", "TopLevelControl", "GlobalReassign", "LoadBindsGlobally", "Recursion"]


class O:
    """option vector from a bit mask (bit i = OPT_NAMES[i])"""

    def __init__(self, m):
        self.m = m
        self.Set, self.While, self.TLC, self.GR, self.LBG, self.Rec = [(m >> i) & 1 == 1 for i in range(6)]

    def rec(self):
        return {n: (self.m >> i) & 1 == 1 for i, n in enumerate(OPT_NAMES)}


# ------------------------------------------------------------------------------------------ bases
# Slots:  a line "#@ attrs" is a statement slot (attrs: top|fn, loop, nest);
#         "@d@" / "@n@" is an expression slot (d: the expression stands directly in the file
#         block, n: inside a function, lambda body or comprehension block).  Unused statement
#         slots vanish, unused expression slots become 0.
# Conventions: line 1 is trace("start"), line 2 binds zq, the last line binds zlate; the names
# _p _p2 _i _j _k _u _w _x _y _a _b _c _v _i2 lc undef_q are never bound by a base.
BASES = [
    ("core", """trace("start")
zq = 0
#@ top
def f0(a, b=@d@, *args, c, d=2, **kw):
    trace("f0")
    #@ fn
    t = [a + v for v in args if v != @n@]
    for i in range(2):
        #@ fn loop
        if i == @n@:
            #@ fn loop
            continue
        t.append(@n@)
    def inner(u, w=@n@):
        trace("inner")
        #@ fn
        return u + a + @n@
    g = lambda q, r=@n@: q + r + a + @n@
    return inner(1) + g(2) + len(t)
#@ top
zr = f0(1, 2, 3, c=@d@)
zs = [k * @n@ for k in range(@d@) if k != @n@]
zt = {k: @n@ for k in [1, 2]}
zu = (lambda m=@d@: m + @n@)(@d@)
trace(zr, zs, zt, zu, @d@)
#@ top
zlate = 5
"""),
    ("toplevel-control", """trace("start")
zq = 0
load("m.star", "la", lb="b")
if la > @d@:
    trace("then")
    #@ top nest
    zv = 1
else:
    #@ top nest
    zw = 2
for zi in range(@d@ + 2):
    trace("loop")
    #@ top nest loop
    if zi == 1:
        #@ top nest loop
        break
    for zj in [1]:
        #@ top nest loop
        pass
#@ top
def f0(n):
    trace("f0")
    for i in range(n):
        #@ fn loop
        pass
    #@ fn
    return n
trace(f0(2))
zlate = 5
"""),
    ("while-in-function", """trace("start")
zq = 0
def f0(n):
    trace("f0")
    r = 0
    while n > @n@:
        #@ fn loop
        n -= 1
        r += n
        if r > 100:
            #@ fn loop
            break
    #@ fn
    return r
trace(f0(3))
#@ top
zlate = 5
"""),
    ("while-at-top", """trace("start")
zq = 0
zn = [3]
while zn[0] > @d@:
    trace("w")
    #@ top nest loop
    zn[0] -= 1
#@ top
def f0():
    trace("f0")
    return 1
zlate = 5
"""),
    ("set", """trace("start")
zq = 0
zs = set([1, 2, @d@])
def f0(x):
    trace("f0")
    #@ fn
    return set(x) | zs
trace(len(f0([@d@])))
#@ top
zlate = 5
"""),
    ("set-rebound", """trace("start")
zq = 0
def f0(set):
    trace("f0")
    #@ fn
    return [set for set in [set, @n@]]
def f1():
    set = 1
    #@ fn
    return set + @n@
trace(f0(1), f1())
#@ top
zlate = 5
"""),
    ("reassign", """trace("start")
zq = 0
zq = 1
zx = 1
zx += @d@
def f0():
    trace("f0a")
    return 1
def f0():
    trace("f0b")
    #@ fn
    return 2
load("m.star", "la")
la = f0()
#@ top
trace(zq, zx, la)
zlate = 5
"""),
    ("loads", """trace("start")
zq = 0
load("m.star", "la", lb="b")
load("n.star", "x", zy="y")
#@ top
def f0():
    trace("f0")
    #@ fn
    return la + lb + x + zy + @n@
trace(f0(), la, @d@)
zlate = 5
"""),
    ("closures", """trace("start")
zq = 0
def outer(p):
    trace("outer")
    acc = [p]
    def mid(q):
        trace("mid")
        #@ fn
        def leaf(r):
            #@ fn
            return p + q + r + later() + @n@
        return leaf(@n@) + fwd_local
    fwd_local = 10
    #@ fn
    return mid(1) + sum_([x + p for x in acc if x + @n@ >= 0])
def later():
    return 100
def sum_(xs):
    t = 0
    for x in xs:
        #@ fn loop
        t += x
    return t
#@ top
trace(outer(@d@))
zlate = 5
"""),
    ("calls", """trace("start")
zq = 0
def f0(a, b=1, *rest, k, o=2, **more):
    trace("f0")
    return [a, b, rest, k, o, more]
def f1(*, k):
    return k
def f2(a, *, k=1, **more):
    return a
za = [1, 2]
zk = {"o": 5}
trace(f0(1, 2, 3, k=@d@, *za, **zk))
trace(f0(@d@, k=1), f1(k=@d@), f2(1, k=2, z=3))
trace(f0(*za, **{"k": @d@}), f0(1, k=2, **zk))
#@ top
zlate = 5
"""),
    ("assignments", """trace("start")
zq = 0
za, zb = 1, 2
(zc, zd) = (3, 4)
[ze, [zf, zg]] = [5, [6, 7]]
zl = [0, 1, 2]
zl[0] = @d@
zm = {}
zm["k"] = zl
zm["k"][1] = @d@
zst = struct
def f0(v):
    trace("f0")
    a, (b, c) = v, (1, 2)
    a += b
    l = [a]
    l[0] += c
    l[0], d = 1, 2
    for i, (j, k) in [(1, (2, 3))]:
        #@ fn loop
        a += i + j + k
    #@ fn
    return a + d
trace(f0(@d@))
#@ top
zlate = 5
"""),
    ("minimal", """trace("start")
zq = 0
#@ top
zlate = 5
"""),
    ("everything", """trace("start")
zq = 0
load("m.star", "la")
zs = set()
zn = 0
while zn < 2:
    zn += 1
    #@ top nest loop
    if zn == 1:
        zs = zs | set([zn])
        #@ top nest loop
for zi in range(2):
    zq = zi
def f0():
    trace("f0")
    n = 2
    while n:
        n -= 1
        #@ fn loop
    return set([n])
#@ top
trace(f0(), zs, zq)
zlate = 5
"""),
    ("lambdas-comprehensions", """trace("start")
zq = 0
zf = lambda a, b=@d@, *c, d, **e: [a, b, c, d, e, @n@]
zg = [[(x, y, @n@) for y in range(x + @n@) if y != @n@] for x in range(@d@ + 2) if x > @n@]
zh = {k: [k + j for j in [@n@]] for k in [@d@]}
zi = [lambda: w + @n@ for w in [1, 2]]
def f0(s):
    trace("f0")
    h = lambda t: [t + u + s + @n@ for u in s_list(@n@)]
    #@ fn
    return h(1)
def s_list(n):
    return [n]
trace(zf(1, d=2), zg, zh, zi[0](), f0(@d@))
#@ top
zlate = 5
"""),
]


class Slot:
    def __init__(self, kind, idx, attrs):
        self.kind, self.idx = kind, idx
        self.top = "top" in attrs
        self.fn = "fn" in attrs
        self.loop = "loop" in attrs
        self.nest = "nest" in attrs
        self.direct = "d" in attrs
        self.attrs = sorted(attrs)

    def __repr__(self):
        return "%s%d[%s]" % (self.kind, self.idx, " ".join(self.attrs))


ESLOT = re.compile(r"@([dn])@")


def slots_of(text):
    out, ns, ne = [], 0, 0
    for line in text.split("\n"):
        st = line.strip()
        if st.startswith("#@"):
            out.append(Slot("S", ns, set(st[2:].split())))
            ns += 1
        else:
            for m in ESLOT.finditer(line):
                out.append(Slot("E", ne, {m.group(1)}))
                ne += 1
    return out


def render(text, slot=None, snippet=None):
    """source text with `snippet` planted in `slot` (None: the plain base); returns (src, [line, col] of the marker or None)"""
    out, ns, ne = [], 0, 0
    for line in text.split("\n"):
        st = line.strip()
        if st.startswith("#@"):
            if slot is not None and slot.kind == "S" and slot.idx == ns:
                ind = line[: len(line) - len(line.lstrip())]
                for sl in snippet.split("\n"):
                    if sl.strip():
                        out.append(ind + sl)
            ns += 1
            continue

        def sub(m):
            nonlocal ne
            me = ne
            ne += 1
            if slot is not None and slot.kind == "E" and slot.idx == me:
                return "(" + snippet + ")"
            return "0"
        out.append(ESLOT.sub(sub, line))
    src = "\n".join(out)
    p = None
    k = src.find("§")
    if k >= 0:
        before = src[:k]
        p = [before.count("\n") + 1, k - (before.rfind("\n") + 1) + 1]
        src = src.replace("§", "")
    if not src.isascii():
        raise vlib.MachineryError("non-ASCII program text")
    return src, p


# ----------------------------------------------------------------------------------------- plants
# (name, kind S|E, text with the marker in front of the construct's anchor token, rule,
#  active(slot, opts) = is the planted construct a violation there, where(slot) or None, needs)
def always(s, o):
    return True


def never(s, o):
    return False


def P(name, kind, text, rule, active, where=None, needs=()):
    return {"name": name, "kind": kind, "text": text.replace("$", "§"), "rule": rule, "active": active, "where": where, "needs": set(needs)}


def _args(n, named=False):
    return ", ".join(("k%d=0" % i) if named else "0" for i in range(n))


noloop = lambda s, o: not s.loop
attop = lambda s, o: s.top
tlc = lambda s, o: s.top and not o.TLC
rebind = lambda s, o: s.top and not o.GR
fwd = lambda s, o: s.direct and o.GR
topslot = lambda s: s.top
LOAD = 'load("m.star", lc="c")'

PLANTS = [
    # break / continue
    P("break", "S", "$break", "loop", noloop),
    P("continue", "S", "$continue", "loop", noloop),
    P("if-break", "S", "if trace(0):\n    $break", "loop", noloop),
    P("def-break", "S", "def _p():\n    $break", "loop", always),
    P("def-for-def-continue", "S", "def _p():\n    for _i in [1]:\n        def _p2():\n            $continue", "loop", always),
    P("after-loop-break", "S", "for _i in [1]:\n    pass\n$break", "loop", noloop),
    P("for-break-ok", "S", "for _i in [1]:\n    $break", "loop", never),
    P("for-if-continue-ok", "S", "for _i in [1]:\n    if trace(0):\n        pass\n    else:\n        $continue", "loop", never),
    P("while-continue-ok", "S", "while trace(0):\n    $continue", "loop", never),
    # return
    P("return", "S", "$return 7", "return", attop),
    P("return-bare", "S", "$return", "return", attop),
    P("if-return", "S", "if trace(0):\n    $return 7", "return", attop),
    P("for-return", "S", "for _i in []:\n    $return", "return", attop),
    P("def-return-ok", "S", "def _p():\n    $return 7", "return", never),
    # load placement and names
    P("load", "S", "$" + LOAD, "loadplace", lambda s, o: s.fn or s.nest),
    P("if-load", "S", "if trace(0):\n    $" + LOAD, "loadplace", always),
    P("else-load", "S", "if trace(0):\n    pass\nelse:\n    $" + LOAD, "loadplace", always),
    P("for-load", "S", "for _i in []:\n    $" + LOAD, "loadplace", always),
    P("def-load", "S", "def _p():\n    $" + LOAD, "loadplace", always),
    P("loadname", "S", 'load("m.star", lc="$_c")', "loadname", always),
    P("loadname-same", "S", 'load("m.star", "f", "$_lc")', "loadname", always),
    P("loadname-ok", "S", 'load("m.star", _lc="$c")', "loadname", never),
    # if / for / while at top level; while at all
    P("tl-if", "S", "$if trace(0):\n    pass", "toplevel", tlc),
    P("tl-for", "S", "$for _i in [1]:\n    pass", "toplevel", tlc),
    P("tl-while", "S", "$while trace(0):\n    pass", "toplevel", tlc),
    P("tl-nested-for", "S", "if trace(0):\n    pass\nelse:\n    $for _i in [1]:\n        pass", "toplevel", tlc),
    P("tl-elif", "S", "if trace(0):\n    pass\n$elif trace(0):\n    pass", "toplevel", tlc),
    P("def-if-ok", "S", "def _p():\n    $if trace(0):\n        pass", "toplevel", never),
    P("def-for-ok", "S", "def _p():\n    $for _i in []:\n        pass", "toplevel", never),
    P("while", "S", "$while trace(0):\n    pass", "while", lambda s, o: not o.While),
    P("def-while", "S", "def _p():\n    $while trace(0):\n        pass", "while", lambda s, o: not o.While),
    P("for-while", "S", "for _i in []:\n    $while trace(0):\n        pass", "while", lambda s, o: not o.While),
    # rebinding in the file / module block
    P("re-assign", "S", "$zq = 2", "reassign", rebind),
    P("re-def", "S", "def $zq():\n    pass", "reassign", rebind),
    P("re-aug", "S", "$zq += 1", "reassign", rebind),
    P("re-for", "S", "for $zq in []:\n    pass", "reassign", rebind),
    P("re-tuple", "S", "(_u, $zq) = (1, 2)", "reassign", rebind),
    P("re-list", "S", "[$zq, _u] = [1, 2]", "reassign", rebind),
    P("re-load", "S", 'load("m.star", $zq="a")', "reassign", rebind, topslot),
    P("re-la", "S", "$la = 1", "reassign", rebind, None, ["la"]),
    P("re-la-def", "S", "def $la():\n    pass", "reassign", rebind, None, ["la"]),
    P("re-la-load", "S", 'load("n.star", $la="x")', "reassign", rebind, topslot, ["la"]),
    P("re-pre-ok", "S", "$host = 1", "reassign", never),
    P("re-pre-twice", "S", "host = 1\n$host = 2", "reassign", rebind),
    P("re-univ-ok", "S", "$abs = 1", "reassign", never),
    P("re-ifelse", "S", "if trace(0):\n    _u = 1\nelse:\n    $_u = 2", "reassign", rebind),
    P("re-index-ok", "S", "_u = [0]\n_u[0] = 1\n$_u[0] = 2", "reassign", never),
    P("re-twice-new", "S", "_u = 1\n_w = _u\n$_u = _w", "reassign", rebind),
    # parameters of def
    P("pd-dup", "S", "def _p(a, $a):\n    pass", "dupparam", always),
    P("pd-dup-opt", "S", "def _p(a, $a=1):\n    pass", "dupparam", always),
    P("pd-dup-args", "S", "def _p(a, *$a):\n    pass", "dupparam", always),
    P("pd-dup-kwargs", "S", "def _p(a, **$a):\n    pass", "dupparam", always),
    P("pd-dup-args-first", "S", "def _p(*a, $a):\n    pass", "dupparam", always),
    P("pd-dup-kwonly", "S", "def _p(a, *, $a):\n    pass", "dupparam", always),
    P("pd-dup-far", "S", "def _p(a, b, c=1, *d, $b=2, **e):\n    pass", "dupparam", always),
    P("pd-dup-args-kwargs", "S", "def _p(*a, **$a):\n    pass", "dupparam", always),
    P("po-req-after-opt", "S", "def _p(a=1, $b):\n    pass", "paramorder", always),
    P("po-req-after-opt2", "S", "def _p(a, b=1, c=2, $d, *e):\n    pass", "paramorder", always),
    P("po-after-kwargs", "S", "def _p(**k, $a):\n    pass", "paramorder", always),
    P("po-opt-after-kwargs", "S", "def _p(**k, $a=1):\n    pass", "paramorder", always),
    P("po-args-after-kwargs", "S", "def _p(**k, $*a):\n    pass", "paramorder", always),
    P("po-star-after-kwargs", "S", "def _p(**k, $*, a):\n    pass", "paramorder", always),
    P("po-two-args", "S", "def _p(*a, $*b):\n    pass", "paramorder", always),
    P("po-star-then-args", "S", "def _p(*, a, $*b):\n    pass", "paramorder", always),
    P("po-args-then-star", "S", "def _p(*a, $*, b):\n    pass", "paramorder", always),
    P("po-two-kwargs", "S", "def _p(**k, $**j):\n    pass", "paramorder", always),
    P("po-bare", "S", "def _p($*):\n    pass", "paramorder", always),
    P("po-bare-kwargs", "S", "def _p(a, $*, **k):\n    pass", "paramorder", always),
    P("po-ok", "S", "def _p(a, b=1, *c, d, e=2, **$k):\n    pass", "paramorder", never),
    P("po-kwonly-any-order-ok", "S", "def _p(a, $*, d=1, e):\n    pass", "paramorder", never),
    # assignability
    P("as-call", "S", "$len() = 1", "assign", always),
    P("as-lit", "S", "$7 = 1", "assign", always),
    P("as-str", "S", '$"s" = 1', "assign", always),
    P("as-aug-tuple", "S", "($_u, _w) += (1, 2)", "assign", always),
    P("as-aug-tuple-bare", "S", "$_u, _w += 1, 2", "assign", always),
    P("as-aug-list", "S", "$[_u, _w] += [1]", "assign", always),
    P("as-nested", "S", "_u, $len() = 1, 2", "assign", always),
    P("as-nested-deep", "S", "_u, (_w, [$7]) = 1, (2, [3])", "assign", always),
    P("as-binary", "S", "$zq + 1 = 3", "assign", always),
    P("as-unary", "S", "$-zq = 3", "assign", always),
    P("as-lambda", "S", "($lambda: 0) = 1", "assign", always),
    P("as-for", "S", "for $7 in []:\n    pass", "assign", always),
    P("as-for-nested", "S", "for _i, $len() in []:\n    pass", "assign", always),
    P("as-dict", "S", "${} = 1", "assign", always),
    P("as-slice", "S", "$zq[0:1] = [2]", "assign", always),
    P("as-cond", "S", "$zq if zq else zq = 1", "assign", always),
    P("as-comp", "S", "$[_i for _i in []] = 1", "assign", always),
    P("as-aug-call", "S", "$len() += 1", "assign", always),
    P("as-ok", "S", "_u, (_w, [$_x, _y]) = 1, (2, [3, 4])", "assign", never),
    P("as-index-ok", "S", "_u = [0, [1]]\n$_u[0] = 1\n_u[1][0] += 2", "assign", never),
    # undefined names
    P("un-name", "E", "$undef_q", "undefined", always),
    P("un-call", "E", "$undef_q(1)", "undefined", always),
    P("un-dot", "E", "$undef_q.attr", "undefined", always),
    P("un-arg", "E", "trace($undef_q)", "undefined", always),
    P("un-named-arg", "E", "trace(k=$undef_q)", "undefined", always),
    P("un-star-arg", "E", "trace(*$undef_q)", "undefined", always),
    P("un-comp-body", "E", "[$undef_q for _i in [1]]", "undefined", always),
    P("un-comp-iter", "E", "[0 for _i in $undef_q]", "undefined", always),
    P("un-comp-iter2", "E", "[0 for _i in [1] for _k in $undef_q]", "undefined", always),
    P("un-comp-cond", "E", "[0 for _i in [1] if $undef_q]", "undefined", always),
    P("un-dictcomp-val", "E", "{_i: $undef_q for _i in [1]}", "undefined", always),
    P("un-lambda-body", "E", "lambda: $undef_q", "undefined", always),
    P("un-lambda-default", "E", "lambda v=$undef_q: v", "undefined", always),
    P("un-dict", "E", "{1: $undef_q}", "undefined", always),
    P("un-index", "E", "[1][$undef_q]", "undefined", always),
    P("un-slice", "E", "[1][0:$undef_q]", "undefined", always),
    P("un-cond", "E", "1 if $undef_q else 2", "undefined", always),
    P("un-unary", "E", "-$undef_q", "undefined", always),
    P("un-binary", "E", "1 + $undef_q", "undefined", always),
    P("un-comp-leak", "E", "[_j for _j in [1]] + [$_j]", "undefined", always),
    P("un-lambda-leak", "E", "(lambda _v: 0)(1) + $_v", "undefined", always),
    P("un-comp-first-operand", "E", "[0 for _i in $_i2 for _i2 in [[1]]]", "undefined", always),
    P("un-comp-later-operand-ok", "E", "[0 for _i in [] for _k in $_i2 for _i2 in [[1]]]", "undefined", never),
    P("un-comp-nested-leak", "E", "[[_a for _a in [1]] for _b in [$_a]]", "undefined", always),
    P("un-comp-own-var-ok", "E", "[_a for _a in [1] if $_a]", "undefined", never),
    P("un-dot-name-ok", "E", "host.$undef_q", "undefined", never),
    P("un-forward", "E", "$zlate", "undefined", fwd),
    P("un-forward-first-operand", "E", "[0 for _i in [$zlate]]", "undefined", fwd),
    P("un-forward-default", "E", "lambda v=$zlate: v", "undefined", fwd),
    P("un-forward-lambda-ok", "E", "lambda: $zlate", "undefined", never),
    # a first binding whose right-hand side mentions the name being bound: the right-hand side is resolved first
    P("un-self-assign", "S", "zself = $zself + 1", "undefined", lambda s, o: s.top and o.GR),
    P("un-self-unpack", "S", "zsa, zsb = 1, $zsa", "undefined", lambda s, o: s.top and o.GR),
    P("un-self-list-unpack", "S", "[zsc, zsd] = [$zsd, 0]", "undefined", lambda s, o: s.top and o.GR),
    P("un-self-universal-ok", "S", "ord = $ord", "undefined", never),
    P("un-forward-comp-ok", "E", "[$zlate for _i in []]", "undefined", never),
    # set
    P("set", "E", "$set([1])", "set", lambda s, o: not o.Set, None, ["noset"]),
    P("set-lambda", "E", "lambda: $set", "set", lambda s, o: not o.Set, None, ["noset"]),
    P("set-comp", "E", "[$set for _i in []]", "set", lambda s, o: not o.Set, None, ["noset"]),
    P("set-param-ok", "E", "(lambda set: $set)(1)", "set", never),
    P("set-compvar-ok", "E", "[$set for set in [1]]", "set", never),
    P("set-dot-ok", "E", "host.$set", "set", never),
    # argument lists
    P("ao-pos-after-named", "E", "trace(k=1, $2)", "argorder", always),
    P("ao-pos-after-star", "E", "trace(*[1], $2)", "argorder", always),
    P("ao-pos-after-kwargs", "E", "trace(**{}, $2)", "argorder", always),
    P("ao-named-after-star", "E", "trace(*[1], $k=2)", "argorder", always),
    P("ao-named-after-kwargs", "E", "trace(**{}, $k=1)", "argorder", always),
    P("ao-star-after-kwargs", "E", "trace(**{}, $*[1])", "argorder", always),
    P("ao-two-star", "E", "trace(*[1], $*[2])", "argorder", always),
    P("ao-two-kwargs", "E", "trace(**{}, $**{})", "argorder", always),
    P("ao-pos-expr", "E", "trace(k=1, $zq + 1)", "argorder", always),
    P("ao-pos-call", "E", "trace(1, k=1, $len([])[0].x + 1)", "argorder", always),
    P("ao-method", "E", "[].append(k=1, $2)", "argorder", always),
    P("ao-ok", "E", "trace(1, k=2, *[3], $**{})", "argorder", never),
    P("dupkw", "E", "trace(k=1, $k=2)", "dupkw", always),
    P("dupkw-far", "E", "trace(0, k=1, j=2, $k=3, *[1])", "dupkw", always),
    P("dupkw-dynamic-ok", "E", 'trace(k=1, $**{"k": 2})', "dupkw", never),
    P("ac-256", "E", "$trace(" + _args(256) + ")", "argcount", always),
    P("ac-255-ok", "E", "$trace(" + _args(255) + ")", "argcount", never),
    P("ac-256-named", "E", "$trace(" + _args(256, True) + ")", "argcount", always),
    P("ac-255-named-ok", "E", "$trace(" + _args(255, True) + ")", "argcount", never),
    P("ac-255-255-ok", "E", "$trace(" + _args(255) + ", " + _args(255, True) + ")", "argcount", never),
    P("ac-256-method", "E", "$[].append(" + _args(256) + ")", "argcount", always),
    P("ac-300-star", "E", "$trace(" + _args(300) + ", *[1], **{})", "argcount", always),
    # *args and **kwargs are not counted: the limits are on the written positional and named arguments
    P("ac-255-star-ok", "E", "$trace(" + _args(255) + ", *[1])", "argcount", never),
    P("ac-255-starstar-ok", "E", "$trace(" + _args(255) + ", **{})", "argcount", never),
    P("ac-255-both-ok", "E", "$trace(" + _args(255) + ", *[1], **{})", "argcount", never),
    P("ac-254-both-ok", "E", "$trace(" + _args(254) + ", *[1], **{})", "argcount", never),
    P("ac-255-named-both-ok", "E", "$trace(" + _args(255, True) + ", *[1], **{})", "argcount", never),
    P("ac-256-star", "E", "$trace(" + _args(256) + ", *[1])", "argcount", always),
    P("ac-256-named-starstar", "E", "$trace(" + _args(256, True) + ", **{})", "argcount", always),
    # parameters of lambda
    P("lp-dup", "E", "lambda a, $a: 0", "dupparam", always),
    P("lp-dup-opt", "E", "lambda a, b=1, $b=2: 0", "dupparam", always),
    P("lp-order", "E", "lambda a=1, $b: 0", "paramorder", always),
    P("lp-after-kwargs", "E", "lambda **k, $a: 0", "paramorder", always),
    P("lp-bare", "E", "lambda $*: 0", "paramorder", always),
    P("lp-two-star", "E", "lambda *a, $*b: 0", "paramorder", always),
    P("lp-ok", "E", "lambda a, b=1, *c, d, **$e: 0", "paramorder", never),
    # comprehension targets
    P("ct-lit", "E", "[0 for $7 in []]", "assign", always),
    P("ct-call", "E", "[0 for $len() in []]", "assign", always),
    P("ct-nested", "E", '{0: 0 for (_a, $"s") in []}', "assign", always),
    P("ct-ok", "E", "[0 for (_a, [_b, $_c]) in []]", "assign", never),
    P("re-compvar-ok", "E", "[0 for $zq in []]", "reassign", never),
    # rejected by the parser
    P("parse-load-one", "S", '$load("m.star")', "parse", always),
    P("parse-load-expr", "S", '$load("m.star", lc)', "parse", always),
    P("parse-kwarg-form", "E", "trace($1=2)", "parse", always),
    P("parse-def-in-expr", "E", "$def", "parse", always),
    P("parse-break-expr", "E", "[$break]", "parse", always),
]

MSG_CLASS = [
    (r"^undefined: ", "undefined"),
    (r"does not support sets$", "set"),
    (r"^(break|continue) not in a loop$", "loop"),
    (r"^return statement not within a function$", "return"),
    (r"^load statement within a (function|loop|conditional)$", "loadplace"),
    (r"^load: (empty identifier|names with leading underscores are not exported)", "loadname"),
    (r"^(if statement|for loop|while loop) not within a function$", "toplevel"),
    (r"does not support while loops$", "while"),
    (r"^cannot reassign ", "reassign"),
    (r"^duplicate parameter: ", "dupparam"),
    (r"^(required|optional|\*) parameter may not follow ", "paramorder"),
    (r"^multiple \*\*? parameters not allowed$", "paramorder"),
    (r"^bare \* must be followed by keyword-only parameters$", "paramorder"),
    (r"^multiple \*\*?(args|kwargs) not allowed$", "argorder"),
    (r"^(\*args|keyword argument|positional argument) may not follow ", "argorder"),
    (r"^keyword argument \".*\" is repeated$", "dupkw"),
    (r"^\d+ (positional|keyword) arguments in call, limit is 255$", "argcount"),
    (r"^can't assign to ", "assign"),
    (r"^can't use (tuple|list) expression in augmented assignment$", "assign"),
]


def classify(msg):
    for pat, cls in MSG_CLASS:
        if re.search(pat, msg):
            return cls
    raise vlib.MachineryError("resolver message not in the class table: %r" % msg)


def base_features(text):
    f = set()
    if re.search(r"load\(.*\"la\"", text):
        f.add("la")
    if "set" not in text:
        f.add("noset")
    return f


def all_programs():
    """every (base, slot, plant) combination the tables allow, in a fixed order"""
    out = []
    for bname, text in BASES:
        feats = base_features(text)
        for slot in slots_of(text):
            for pl in PLANTS:
                if pl["kind"] != slot.kind or not pl["needs"] <= feats:
                    continue
                if pl["where"] is not None and not pl["where"](slot):
                    continue
                out.append((bname, text, slot, pl))
    return out


COVER8 = None


def covering_masks(rnd):
    """8 option vectors that contain every combination of values of any two options (pairwise cover), from the seed"""
    while True:
        ms = [0, 63] + [rnd.randrange(64) for _ in range(6)]
        ok = all({((m >> i) & 1, (m >> j) & 1) for m in ms} == {(0, 0), (0, 1), (1, 0), (1, 1)} for i in range(6) for j in range(i + 1, 6))
        if ok:
            return ms


def build_cases(ctx, rnd):
    progs = all_programs()
    cases = []
    for bname, text in BASES:
        src, _ = render(text)
        cases.append({"base": bname, "slot": "-", "plant": "-", "src": src, "pl": {"rule": "none", "p": [0, 0]}, "masks": list(range(64)), "act": None})
    # which planted programs get all 64 vectors: one slot per (base, plant), rotating with the seed
    groups = {}
    for k, (bname, text, slot, pl) in enumerate(progs):
        groups.setdefault((bname, pl["name"]), []).append(k)
    full = set()
    byplant_groups = {}
    for key in sorted(groups):
        byplant_groups.setdefault(key[1], []).append(key)
    for name in sorted(byplant_groups):
        keys = byplant_groups[name]
        for key in rnd.sample(keys, min(len(keys), 4)):        # four bases per plant, one slot in each
            full.add(rnd.choice(groups[key]))
    if ctx.quick:
        # every plant at one random position with all vectors, plus a seeded sample of the rest with a pairwise cover
        byplant = {}
        for k, pr in enumerate(progs):
            byplant.setdefault(pr[3]["name"], []).append(k)
        full = set()
        for name in sorted(byplant):
            full.add(rnd.choice(byplant[name]))
        # ... and every plant once in every class of position (top level / in a function / in a loop / nested / ...),
        # since most rules depend on the class and a single random position would leave classes to chance
        byclass = {}
        for k, pr in enumerate(progs):
            byclass.setdefault((pr[3]["name"], tuple(pr[2].attrs)), []).append(k)
        classed = set(rnd.choice(byclass[key]) for key in sorted(byclass)) - full
        rest = [k for k in range(len(progs)) if k not in full and k not in classed]
        chosen = set(rnd.sample(rest, min(len(rest), 400))) | classed
    else:
        chosen = set(range(len(progs))) - full
    for k, (bname, text, slot, pl) in enumerate(progs):
        if k not in full and k not in chosen:
            continue
        src, p = render(text, slot, pl["text"])
        if p is None:
            raise vlib.MachineryError("plant %s has no marker" % pl["name"])
        masks = list(range(64)) if k in full else covering_masks(rnd)
        cases.append({"base": bname, "slot": repr(slot), "plant": pl["name"], "src": src, "pl": {"rule": pl["rule"], "p": p},
                      "masks": masks, "act": {m: bool(pl["active"](slot, O(m))) for m in masks}})
    for i, c in enumerate(cases):
        c["id"] = i + 1
    return cases, len(progs)


def front(ctx, cases, tag):
    fin, fout = ctx.path(tag + ".in"), ctx.path(tag + ".out")
    vlib.write_ndjson(fin, [{"id": c["id"], "src": c["src"], "masks": c["masks"], "ast": True} for c in cases])
    ctx.vh(["c09-front", "-in", fin, "-out", fout], timeout=3000)
    res = {r["id"]: r for r in vlib.read_ndjson(fout)}
    if len(res) != len(cases):
        raise vlib.MachineryError("c09-front returned %d results for %d cases" % (len(res), len(cases)))
    return res


UNIVERSAL_SPEC = {"None", "True", "False", "abs", "any", "all", "bool", "chr", "dict", "dir", "enumerate", "fail", "float", "getattr",
                  "hasattr", "hash", "int", "len", "list", "max", "min", "ord", "print", "range", "repr", "reversed", "set", "sorted",
                  "str", "tuple", "type", "zip"}


def record(c, r):
    """the TLC record of one program: observations keyed by n = id * 64 + mask"""
    rec = {"id": c["id"], "parse_ok": r["parse_ok"], "pre": r["pre"], "pl": c["pl"], "fx": c["src"].startswith("trace("), "obs": []}
    if r["parse_ok"]:
        rec["ast"] = r["ast"]
    for run in r["runs"]:
        m = run["m"]
        if run.get("other"):
            if r["parse_ok"]:
                raise vlib.MachineryError("resolve.File returned a non-ErrorList error: %s" % run["other"])
        o = {"n": c["id"] * 64 + m, "m": m,
             "errs": [{"cls": classify(e["msg"]), "p": [e["line"], e["col"]]} for e in run["errors"]],
             "static": run["static"], "ok": run["ok"], "evalerr": run["evalerr"], "compiled": run["compiled"],
             "effects": run["effects"], "globals": run["globals"], "panic": bool(run.get("panic") or run.get("cpanic")),
             "active": bool(c["act"][m]) if c["act"] is not None else False}
        rec["obs"].append(o)
    return rec


def static_part(ctx, rnd):
    cases, nprogs = build_cases(ctx, rnd)
    nobs = sum(len(c["masks"]) for c in cases)
    ctx.log("static rules: %d programs (of %d base x slot x plant combinations), %d observations" % (len(cases), nprogs, nobs))
    res = front(ctx, cases, "front")
    uni = set(res[cases[0]["id"]]["universe"])
    if not UNIVERSAL_SPEC <= uni:
        raise vlib.MachineryError("universal names of spec.md missing from the implementation: %s" % sorted(UNIVERSAL_SPEC - uni))
    recs = [record(c, res[c["id"]]) for c in cases]
    # parser-level plants must be rejected by the parser, all others must parse (generator self-check)
    for c in cases:
        if (c["pl"]["rule"] == "parse") == res[c["id"]]["parse_ok"]:
            raise vlib.MachineryError("plant %s in %s/%s: parser verdict unexpected: %s" % (c["plant"], c["base"], c["slot"], res[c["id"]].get("perr")))
    f = ctx.path("recs.ndjson")
    vlib.write_ndjson(f, recs)
    bad, checked = ctx.validate("C09Trace", "C09Trace.cfg", [f], heap="8g" if ctx.quick else "16g")
    if checked != len(recs):
        raise vlib.MachineryError("TLC checked %d of %d records" % (checked, len(recs)))
    mach = sorted({-b for b in bad if b < 0})
    if mach:
        n = mach[0]
        c = cases[n // 64 - 1]
        raise vlib.MachineryError("generator and Resolve.tla disagree about plant %s in %s/%s under mask %d (%d observations)\n%s"
                                  % (c["plant"], c["base"], c["slot"], n % 64, len(mach), c["src"]))
    bad = sorted({b for b in bad if b > 0})
    ctx.log("TLC validated %d programs / %d observations against Resolve, %d rejected" % (checked, nobs, len(bad)))
    byid = {c["id"]: c for c in cases}
    if bad:
        report_static(ctx, bad, byid, res)
    active = len({(c["src"], m) for c in cases if c["act"] for m in c["masks"] if c["act"][m]})
    ctx.cov["static_programs"] = len(cases)
    ctx.cov["static_observations"] = nobs
    ctx.cov["static_planted_violations_checked"] = active
    ctx.cov["static_rejected_observations"] = sum(1 for c in cases for run in res[c["id"]]["runs"] if run["static"])
    ctx.cov["static_accepted_observations"] = sum(1 for c in cases for run in res[c["id"]]["runs"] if not run["static"])
    ctx.cov["plants"] = len(PLANTS)
    ctx.cov["slots"] = sum(len(slots_of(t)) for _, t in BASES)
    sm = [c for c in cases if c["act"] and any(c["act"].values())]
    ctx.samples += [{"base": c["base"], "slot": c["slot"], "plant": c["plant"], "planted": c["pl"], "src": c["src"][:600],
                     "observed_mask0": res[c["id"]]["runs"][0]["errors"]} for c in sm[:: max(1, len(sm) // 3)][:3]]
    return nobs, active


def report_static(ctx, bad, byid, res, corpus=False):
    """re-execute each rejected observation alone, classify it with the diagnostic variant, report"""
    groups = {}
    for n in bad:
        groups.setdefault(n // 64, []).append(n % 64)
    recheck = []
    def simplest(kv):     # accepted programs first, then the shortest text
        runs = {r["m"]: r for r in res[kv[0]]["runs"]}
        return (all(runs[m]["static"] for m in kv[1]), len(byid[kv[0]]["src"]), kv[0])
    for cid, masks in sorted(groups.items(), key=simplest):
        c = dict(byid[cid])
        c["masks"] = masks
        recheck.append(c)
    res2 = front(ctx, recheck, "refront")
    recs2 = []
    for c in recheck:
        for run1 in res[c["id"]]["runs"]:
            if run1["m"] in c["masks"]:
                run2 = [r for r in res2[c["id"]]["runs"] if r["m"] == run1["m"]][0]
                if (run1["errors"], run1["static"], run1["ok"], run1["effects"]) != (run2["errors"], run2["static"], run2["ok"], run2["effects"]):
                    raise vlib.MachineryError("observation %d/%d not reproducible" % (c["id"], run1["m"]))
        rec = record(c, res2[c["id"]])
        if corpus:
            rec["pre"] = rec["pre"] + sorted(set(res2[c["id"]]["universe"]) - UNIVERSAL_SPEC)
        recs2.append(rec)
    f = ctx.path("recs-relax.ndjson")
    vlib.write_ndjson(f, recs2)
    # diagnostic runs: why each observation is rejected; does the known deviation (load over a global) explain it
    def diag(relax):
        env = {"VERIF_RECS": f}
        if relax:
            env["VERIF_C09_RELAX"] = "1"
        r = ctx.tlc("C09Trace", "C09Trace.cfg", env=env, workers=4, heap="4g", timeout=1200)
        if r["error"] or r["rc"] != 0 or not any("CHECKED" in l for l in r["printed"]):
            raise vlib.MachineryError("diagnostic TLC run failed\n" + r["out"][-2000:])
        out = {}
        for l in r["printed"]:
            m_ = re.match(r'<<"BAD", (-?\d+)(?:, "([a-z-]+)", \{(.*)\})?>>', l)
            if m_ and int(m_.group(1)) > 0 and m_.group(2) is None:
                out[int(m_.group(1))] = "parser-rejection"
            elif m_ and int(m_.group(1)) > 0:
                out[int(m_.group(1))] = "%s:%s" % (m_.group(2), "+".join(sorted(x.strip().strip('"') for x in m_.group(3).split(",") if x.strip())))
        return out
    strict, still = diag(False), diag(True)
    for c in recheck:
        static_of = {r["m"]: r["static"] for r in res2[c["id"]]["runs"]}
        for m in sorted(c["masks"], key=lambda m: (static_of[m], m)):
            n = c["id"] * 64 + m
            run = [r for r in res2[c["id"]]["runs"] if r["m"] == m][0]
            if n not in strict:
                raise vlib.MachineryError("observation %d rejected only in the first TLC run" % n)
            if n not in still:
                sig = "reassign:load-over-global"
            elif not res2[c["id"]]["parse_ok"]:
                sig = "static:parser-rejection"
            else:
                sig = "static:" + strict[n].rstrip(":")
            what = "[%s] %s in %s/%s: errors=%s static=%s effects=%d | %s" % (
                ",".join(n_ for n_, v in O(m).rec().items() if v) or "no options", c["plant"], c["base"], c["slot"],
                json.dumps([(e["line"], e["col"], e["msg"]) for e in run["errors"]]), run["static"], run["effects"],
                c["src"].replace("\n", "; ")[:300])
            ctx.violation(sig, what, {"kind": "corpus" if corpus else "static", "case": {"id": c["id"], "src": c["src"], "pl": c["pl"], "masks": [m], "act": {str(m): c["act"][m]} if c["act"] else None,
                                                                   "base": c["base"], "slot": c["slot"], "plant": c["plant"]}})


def corpus_part(ctx, rnd):
    """the repository's own test programs (chunks of resolve/, starlark/ and syntax/ testdata) under option vectors:
    whatever they contain, the front end and the oracle must agree"""
    import glob, os
    files = [os.path.join(vlib.REPO, "resolve/testdata/resolve.star")] + sorted(glob.glob(os.path.join(vlib.REPO, "starlark/testdata/*.star"))) \
        + sorted(glob.glob(os.path.join(vlib.REPO, "syntax/testdata/*.star")))
    cases = []
    for fn in files:
        chunks, cur = [], []
        for line in open(fn, encoding="utf-8", errors="replace").read().split("\n"):
            if line == "---":
                chunks.append("\n".join(cur))
                cur = []
            else:
                cur.append(line)
        chunks.append("\n".join(cur))
        for k, ch in enumerate(chunks):
            if not ch.isascii() or not ch.strip():
                continue            # columns are counted in bytes by the scanner and in characters here
            allv = (not ctx.quick) or "resolve" in fn
            cases.append({"base": os.path.relpath(fn, vlib.REPO), "slot": "chunk %d" % k, "plant": "-", "src": ch + "\n", "pl": {"rule": "none", "p": [0, 0]},
                          "masks": list(range(64)) if allv else covering_masks(rnd), "act": None})
    if len(cases) < 100:
        raise vlib.MachineryError("testdata corpus not found")
    for i, c in enumerate(cases):
        c["id"] = 100000 + i
    res = front(ctx, cases, "corpus")
    recs = []
    for c in cases:
        r = res[c["id"]]
        rec = record(c, r)
        # names the implementation's universe has beyond spec.md (bytes) count as predeclared by the application
        rec["pre"] = r["pre"] + sorted(set(r["universe"]) - UNIVERSAL_SPEC)
        recs.append(rec)
    f = ctx.path("corpus.ndjson")
    vlib.write_ndjson(f, recs)
    bad, checked = ctx.validate("C09Trace", "C09Trace.cfg", [f], heap="8g")
    if checked != len(recs):
        raise vlib.MachineryError("TLC checked %d of %d corpus records" % (checked, len(recs)))
    bad = sorted({b for b in bad if b > 0})
    nobs = sum(len(c["masks"]) for c in cases)
    ctx.log("corpus: %d chunks of the repository's testdata / %d observations validated, %d rejected" % (len(cases), nobs, len(bad)))
    if bad:
        report_static(ctx, bad, {c["id"]: c for c in cases}, res, corpus=True)
    ctx.cov["corpus_chunks"] = len(cases)
    ctx.cov["corpus_observations"] = nobs
    rej = len({(c["src"], run["m"]) for c in cases for run in res[c["id"]]["runs"] if run["static"]})
    ctx.cov["corpus_rejected_observations"] = rej
    return nobs, rej


# ------------------------------------------------------------------------------------- recursion
DEPTH = 4


def render_graph(g):
    """program of a call graph: g.edges[i] = list of [target, kind]; every function is produced twice by a factory"""
    n = len(g["edges"])
    L = []
    for i in range(1, n + 1):
        L.append("def mk%d():" % i)
        L.append("    def F%d(d):" % i)
        L.append("        trace(\"F%d\")" % i)
        L.append("        if d == 0:")
        L.append("            return 0")
        for (t, kind) in g["edges"][i - 1]:
            if kind == "call":
                L.append("        F%da(d - 1)" % t)
            elif kind == "twice":
                L.append("        F%db(d - 1)" % t)
            elif kind == "lambda":
                L.append("        (lambda x: F%da(x))(d - 1)" % t)
            elif kind in ("sorted", "min", "max"):
                L.append("        %s([d - 1], key=F%da)" % (kind, t))
            else:
                raise vlib.MachineryError("edge kind " + kind)
        L.append("        return 0")
        L.append("    return F%d" % i)
    for i in range(1, n + 1):
        L.append("F%da = mk%d()" % (i, i))
        L.append("F%db = mk%d()" % (i, i))
    L.append("F1a(%d)" % DEPTH)
    return "\n".join(L) + "\n"


def recursion_part(ctx, rnd):
    if ctx.quick:
        cfgs = [("lasso", 4, 1, 4, ["call", "lambda", "twice", "sorted", "min", "max"]),
                ("general", 3, 2, 3, ["call", "twice", "sorted"])]
    else:
        cfgs = [("lasso", 4, 1, 4, ["call", "lambda", "twice", "sorted", "min", "max"]),
                ("general", 3, 2, 4, ["call", "lambda", "twice", "sorted"]),
                ("general4", 4, 2, 4, ["call", "twice", "max"])]
    graphs = []
    for name, maxf, maxout, maxe, kinds in cfgs:
        cfg = ("CONSTANTS\n  MaxF = %d\n  MaxOut = %d\n  MaxE = %d\n  Depth = %d\n  Kinds = {%s}\n"
               "INIT Init\nNEXT Next\nINVARIANTS StackDistinctWhenOff StackBounded FailsOnlyWhenOff Emit\n"
               % (maxf, maxout, maxe, DEPTH, ", ".join('"%s"' % k for k in kinds)))
        r = ctx.tlc_ok("C09MC", "C09MC_%s.cfg" % name, workers=8, timeout=3000, heap="8g", cfg_text=cfg)
        n0 = len(graphs)
        for l in r["out"].split("\n"):
            if l.startswith('"G{'):
                graphs.append(json.loads(l[2:-1].replace('\\"', '"')))
        ctx.log("C09MC %s (<=%d functions, out-degree <=%d, <=%d edges, %d edge kinds): %d states, %d runs emitted"
                % (name, maxf, maxout, maxe, len(kinds), r["states"], len(graphs) - n0))
        if len(graphs) - n0 < 50:
            raise vlib.MachineryError("graph emission incomplete")
    # the same (graph, rec) may come from two configurations: keep one
    seen, uniq = set(), []
    for g in graphs:
        key = json.dumps([g["edges"], g["rec"]])
        if key not in seen:
            seen.add(key)
            uniq.append(g)
    graphs = uniq
    cases = []
    for i, g in enumerate(graphs):
        m = 63 if g["rec"] else 31
        cases.append({"id": i + 1, "src": render_graph(g), "mode": "file", "opts": O(m).rec(), "want": []})
    res = run_eval(ctx, cases, "rec")
    nfail = sum(1 for g in graphs if g["fail"])
    div = [(g, c, compare_rec(g, res[c["id"]])) for g, c in zip(graphs, cases)]
    div = [x for x in div if x[2]]
    nbad = len(div)
    if div:
        res2 = run_eval(ctx, [c for _, c, _ in div], "rec-re")          # re-execute the divergent runs
        div.sort(key=lambda x: (len(x[1]["src"]), x[1]["id"]))           # simplest program first
        for g, c, d in div:
            if compare_rec(g, res2[c["id"]]) != d:
                raise vlib.MachineryError("recursion case not reproducible: %s" % d)
            # signature: the option and the kind of the call site whose target is already active (none: no re-entry in the model)
            ctx.violation("recursion:%s/%s" % ("on" if g["rec"] else "off", g["failkind"] if g["fail"] else "no-reentry"),
                          "%s | graph %s | %s" % (d, json.dumps(g["edges"]), c["src"].replace("\n", "; ")[:400]),
                          {"kind": "recursion", "graph": g})
    ctx.log("recursion rule: %d graph runs executed, %d must fail with 'called recursively', %d divergent" % (len(graphs), nfail, nbad))
    ctx.cov["recursion_runs"] = len(graphs)
    ctx.cov["recursion_runs_reentering"] = nfail
    gs = [g for g in graphs if g["fail"]]
    ctx.samples += [{"graph": g["edges"], "recursion": g["rec"], "expected_trace": g["log"], "expected_error_in": g["failfn"], "program": render_graph(g)[:500]}
                    for g in gs[:: max(1, len(gs) // 2)][:2]]
    return len(graphs), nfail


def run_eval(ctx, cases, tag):
    fin, fout = ctx.path(tag + ".in"), ctx.path(tag + ".out")
    vlib.write_ndjson(fin, cases)
    ctx.vh(["eval", "-in", fin, "-out", fout], timeout=3000)
    res = {r["id"]: r for r in vlib.read_ndjson(fout)}
    if len(res) != len(cases):
        raise vlib.MachineryError("vh eval dropped cases")
    return res


def compare_rec(g, r):
    """'' if the run of the real interpreter equals the model's prediction"""
    log = [bytes(e["args"][0]["v"]).decode() for e in r.get("effects") or []]
    exp = ["F%d" % i for i in g["log"]]
    if r.get("panic"):
        return "panic: " + r["panic"]
    if g["fail"]:
        want = "function F%d called recursively" % g["failfn"]
        if r["ok"]:
            return "run succeeded, model requires %r" % want
        if r.get("static") or r.get("err") != want:
            return "error %r, model requires %r" % (r.get("err"), want)
    elif not r["ok"]:
        return "run failed with %r, model requires success" % r.get("err")
    if log != exp:
        return "trace %s, model requires %s" % (log, exp)
    return ""


# ------------------------------------------------------------------------------------------ main
def run(ctx):
    rnd = random.Random(ctx.seed)
    nobs, active = static_part(ctx, rnd)
    cobs, crej = corpus_part(ctx, rnd)
    nruns, nfail = recursion_part(ctx, rnd)
    ctx.cov["evaluations"] = nobs + cobs + nruns
    ctx.cov["traces_validated_against_impl"] = nobs + cobs + nruns - len(ctx.violations)
    ctx.cov["distinct_nontrivial"] = active + crej + nfail     # both counted over distinct (program text, options) pairs
    ctx.assumptions = [
        "Resolve.tla is written from doc/spec.md; the position of a violation is the first token or the operator token of the offending construct",
        "with GlobalReassign a use directly in the file block sees only earlier top-level bindings (documented in resolve.go, func use)",
        "an augmented assignment to a name bound nowhere else at top level is not a rebinding (spec.md says it 'may not be used at top level'; the implementation fails dynamically)",
        "predeclared names: trace, host, struct; loadable modules export a b c la lb lc f g x y",
        "recursion: functions take a depth argument (%d at the root) and return at depth 0, so runs terminate when Recursion is on" % DEPTH,
    ]
    return ctx.finish(
        rule="static: %d base programs with %d slots x %d planted constructs (every applicable combination in the thorough tier, a seeded sample in the quick "
             "tier), each under all 64 FileOptions vectors (the plain bases and, per planted construct, one slot in each of four bases; quick tier: one) or a seeded pairwise-covering set of 8; an observation "
             "is non-trivial when the planted construct is a violation under that vector (it must then be reported at its position and nothing may run). "
             "corpus: every ASCII chunk of resolve/, starlark/ and syntax/ testdata under option vectors; non-trivial = rejected statically. "
             "recursion: every call graph emitted by C09MC, run with Recursion off and on; non-trivial = the run re-enters an active function"
             % (len(BASES), ctx.cov.get("slots", 0), len(PLANTS)),
        exhaustive=False)


def replay(ctx, path):
    d = json.load(open(path))["replay"]
    if d["kind"] == "recursion":
        g = d["graph"]
        m = 63 if g["rec"] else 31
        c = {"id": 1, "src": render_graph(g), "mode": "file", "opts": O(m).rec(), "want": []}
        r = run_eval(ctx, [c], "replay")[1]
        diff = compare_rec(g, r)
        print("replay recursion graph %s rec=%s: %s" % (g["edges"], g["rec"], diff or "as the model predicts"))
        return 1 if diff else 0
    c = d["case"]
    c["act"] = {int(k): v for k, v in c["act"].items()} if c.get("act") else None
    res = front(ctx, [c], "replay")
    rec = record(c, res[c["id"]])
    if d["kind"] == "corpus":
        rec["pre"] = rec["pre"] + sorted(set(res[c["id"]]["universe"]) - UNIVERSAL_SPEC)
    f = ctx.path("replay.ndjson")
    vlib.write_ndjson(f, [rec])
    bad, _ = ctx.validate("C09Trace", "C09Trace.cfg", [f])
    run = res[c["id"]]["runs"][0]
    print("replay static %s: errors=%s static=%s effects=%d : %s" % (c.get("plant"), json.dumps(run["errors"]), run["static"], run["effects"],
                                                                  "REJECTED by spec" if bad else "accepted"))
    return 1 if bad else 0
