"""C06  Mutation during iteration fails; locks and thread state are always restored.

(a) spec -> code: spec/C06MC.tla (the Mutability protocol driven by a scenario machine) is
    model-checked (counter exactness, non-negativity, quiescence on every behaviour) and emits
    every abstract scenario with the outcome the protocol requires of each mutation attempt;
    `vh c06-run` renders each with every concrete construct of its class for list/dict/set, runs
    it on the real interpreter with programmable host values and compares.
(b) fault enumeration: every normally terminating scenario is re-run under every step limit
    1..total (cancellation at every step index) with the same post-conditions.
(c) code -> spec: the hook traces (verif build tag) of all those runs and of the repository's own
    test programs are validated by TLC against spec/C06Trace.tla (counters exact, never negative,
    each mutation attempt fails iff the protocol says so, quiescence whenever all call stacks are
    empty).
"""
import json, re
import vlib

LEVEL = "model_checking"


def sig_of(r, p):
    p0 = re.sub(r"\(.*", "", p)
    p0 = re.sub(r"[0-9]+", "N", p0)[:70].strip()
    return "%s/%s/%s/exit=%s%s: %s" % (r["sc"]["cls"], r["conc"], r["kind"], r["sc"]["exit"],
                                        "/limit" if r.get("limit") else "", p0)


def validate_trace(ctx, f, what):
    r = ctx.tlc("C06Trace", "C06Trace.cfg", env={"VERIF_RECS": f}, workers=1, timeout=3000, heap="8g", tag="trace-" + what)
    got = [int(m) for m in re.findall(r'<<"CHECKED", (\d+)>>', r["out"])]
    n = sum(1 for _ in open(f))
    if r["error"] or r["rc"] != 0 or not got or got[0] != n:
        raise vlib.MachineryError("trace validation (%s) failed:\n%s" % (what, r["out"][-2500:]))
    ctx.states += r["states"]
    ctx.transitions += r["transitions"]
    bad = sorted(int(m) for m in re.findall(r'<<"BAD", (\d+)>>', r["out"]))
    return n, bad


def explain_bad(f, bad):
    """first rejected event of each run, with the run it belongs to"""
    out, run, seen = [], None, set()
    want = set(bad)
    for l in open(f):
        e = json.loads(l)
        if e["ev"] == "reset":
            run = e.get("run")
        if e["n"] in want and run not in seen:
            seen.add(run)
            out.append((run, e))
    return out


def run(ctx):
    # (a) model check the protocol and obtain the scenarios
    r = ctx.tlc_ok("C06MC", "C06MC.cfg", workers=4, timeout=1200)
    scs = sorted({l[2:-1].replace('\\"', '"') for l in r["out"].split("\n") if l.startswith('"S{')})
    if len(scs) < 100:
        raise vlib.MachineryError("scenario emission incomplete (%d)" % len(scs))
    ctx.log("C06MC: %d states, invariants hold; %d abstract scenarios" % (r["states"], len(scs)))
    sf = ctx.path("scenarios.ndjson")
    open(sf, "w").write("\n".join(scs) + "\n")
    out, tf = ctx.path("res.ndjson"), ctx.path("trace.ndjson")
    sweep = 9 if ctx.quick else 1
    ctx.vh(["c06-run", "-in", sf, "-out", out, "-trace", tf, "-sweep", str(sweep)], timeout=3000)
    res = vlib.read_ndjson(out)
    summ = res[-1]
    if not summ.get("summary") or summ["abstract"] != len(scs):
        raise vlib.MachineryError("harness did not finish")
    ctx.log("rendered %d concrete runs (%d constructs), %d mutation attempts, %d step-limit runs, %d with problems" % (
        summ["runs"], len(summ["constructs"]), summ["attempts"], summ["sweep_runs"], summ["problem_runs"]))
    for rr in res[:-1]:
        if rr["outcome"].startswith("machinery"):
            raise vlib.MachineryError("scenario did not compile: %s %s" % (rr["conc"], rr["outcome"]))
        for p in rr["problems"]:
            key = "%s/%s/%s/%s/%s/%s/%s/%d" % (rr["sc"]["cls"], rr["conc"], rr["kind"], rr["sc"]["nest"], rr["sc"]["tgt"],
                                                  rr["sc"]["exit"], str(rr["sc"]["fz"]).lower(), rr.get("limit", 0))
            ctx.violation(sig_of(rr, p), "%s: %s" % (key, p), {"only": key, "scenarios": scs})

    # (c) hook traces against the protocol
    n1, bad1 = validate_trace(ctx, tf, "scenarios")
    for runname, e in explain_bad(tf, bad1)[:40]:
        ctx.violation("trace:%s/%s" % (re.sub(r"/limit=\d+", "/limit", runname or "?"), e["ev"]),
                      "hook trace of run %s rejected by the Mutability protocol at event %s" % (runname, json.dumps(e)),
                      {"trace_run": runname, "event": e})
    td = ctx.path("td.ndjson")
    p = ctx.vh(["c06-testdata", "-repo", vlib.REPO, "-trace", td], timeout=3000)
    n2, bad2 = validate_trace(ctx, td, "testdata")
    ctx.log("hook traces: %d events of scenario runs (%d rejected), %d events of repository test programs (%d rejected) [%s]" % (
        n1, len(bad1), n2, len(bad2), p.stderr.strip()))
    for runname, e in explain_bad(td, bad2)[:40]:
        ctx.violation("trace:testdata:%s/%s" % (runname, e["ev"]),
                      "hook trace of %s rejected by the Mutability protocol at event %s" % (runname, json.dumps(e)),
                      {"trace_run": runname, "event": e})

    ctx.cov.update({"evaluations": summ["runs"] + summ["sweep_runs"], "distinct_nontrivial": summ["runs"],
                    "traces_validated_against_impl": summ["runs"] + summ["sweep_runs"] + 93,
                    "mutation_attempts": summ["attempts"], "step_limit_runs": summ["sweep_runs"],
                    "abstract_scenarios": len(scs), "constructs": summ["constructs"],
                    "hook_events_validated": n1 + n2})
    ctx.samples = [json.loads(scs[0]), json.loads(scs[len(scs) // 2]), vlib.read_ndjson(tf)[:6]]
    ctx.assumptions = ["programmable host values (probes) stand for arbitrary hashable/comparable elements",
                       "the step-limit sweep covers %s normally terminating scenario" % ("every 9th" if ctx.quick else "every")]
    return ctx.finish(rule="abstract scenarios = behaviours of C06MC (class x nesting x target x exit x frozen); each rendered for list/dict/set with "
                           "every concrete construct of the class and every would-change mutator; non-trivial = the body hook ran and attempted the mutation",
                      exhaustive=True)


def replay(ctx, path):
    d = json.load(open(path))["replay"]
    if "only" not in d:
        print("replay of trace findings: re-run the check")
        return 1
    sf = ctx.path("scenarios.ndjson")
    open(sf, "w").write("\n".join(d["scenarios"]) + "\n")
    out = ctx.path("res.ndjson")
    ctx.vh(["c06-run", "-in", sf, "-out", out, "-only", d["only"]])
    res = [r for r in vlib.read_ndjson(out) if not r.get("summary")]
    print("replay %s: %s" % (d["only"], json.dumps([r["problems"] for r in res])[:1000]))
    return 1 if res else 0
