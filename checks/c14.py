"""C14  Parsing is faithful to the grammar.

(a) spec -> code, trees: TLC (spec/C14Gen.tla over spec/Grammar.tla) enumerates syntax trees
    -- every ordered pair and triple of operator forms, statement skeletons, and deep
    pseudo-random derivations -- and renders each with Grammar!Render (precedence table,
    NeedsParens, pseudo tokens for the free choices).  `vh c14-trees` writes each token
    list as text under seeded layouts (spacing, comments, blank lines, continuations,
    line breaks in brackets, trailing commas, redundant parentheses, `;`, inline suites,
    CRLF, tabs), parses it with the real parser and compares kinds, operators, literal
    texts, children and the start position of every node.
(b) code -> spec, literals: literal spellings are scanned by the real scanner, TLC
    validates kind and value of every record against spec/Unquote.tla, BitInt!FromDigits
    and Float64!IsNearestDec (spec/C14Trace.tla).
(c) near misses: one token of a valid token list deleted, duplicated or swapped with its
    neighbour; membership is decided by exploring Grammar's push-down recogniser with TLC
    (spec/C14Rec.tla); the real parser, and the resolver for the documented superset, must
    reject exactly the non-members, with a positioned error.
"""
import json, os, random, re
import vlib

LEVEL = "model_checking"

LAYOUT_TOKS = {"@nl", "@sep", "@ind", "@ind?", "@out", "@out?"}
# characters that can begin no token (spec.md "Lexical elements": white space, punctuation, keywords,
# identifiers and literals are the only token kinds); "!" alone is not a token, a backslash must be
# followed by a line break
STRAY = ["$", "?", "!", "`", "\x00", "\x01", "\x7f", "\u20ac", "\\"]
RESERVED = ["as", "async", "await", "class", "del", "except", "finally", "from", "global", "import", "is", "nonlocal", "raise", "try", "with", "yield"]
OPTIONAL_TOKS = {"@n", "@(", "@)", "@,", "@:"}

# resolver messages that enforce the part of the grammar the parser leaves to it
# (grammar.txt: "The grammar does not enforce the legal order of params and args")
SUPERSET_MSGS = (
    "positional argument may not follow", "keyword argument may not follow", "*args may not follow",
    "multiple *args not allowed", "multiple **kwargs not allowed",
    "required parameter may not follow", "optional parameter may not follow", "* parameter may not follow",
    "multiple * parameters not allowed", "multiple ** parameters not allowed",
    "bare * must be followed by keyword-only parameters",
    # LoopVariables / targets: the parser accepts any primary (and unary) expression, the resolver
    # rejects what cannot be assigned to
    "can't assign to",
)


# ------------------------------------------------------------------ TLC output
def tla_unescape(s):
    out, i = [], 0
    while i < len(s):
        c = s[i]
        if c == "\\" and i + 1 < len(s):
            n = s[i + 1]
            out.append({"n": "\n", "t": "\t", "r": "\r", "f": "\f"}.get(n, n))
            i += 2
        else:
            out.append(c)
            i += 1
    return "".join(out)


def printed_trees(r):
    recs = []
    for l in r["printed"]:
        if l.startswith('<<"TREE", "') and l.rstrip().endswith('">>'):
            recs.append(json.loads(tla_unescape(l.rstrip()[len('<<"TREE", "'):-3])))
    return recs


def canonical(toks):
    """minimal parentheses, no optional item; the parentheses NeedsParens requires stay marked"""
    return [t for t in toks if t not in OPTIONAL_TOKS]


def plain(toks):
    return ["(" if t == "@(!" else ")" if t == "@)!" else t for t in toks]


# ------------------------------------------------------------------ part (a)
def gen_trees(ctx, name, mode, budget, alpha, leaves, traces=0, depth=6, timeout=2400):
    env = {"C14_MODE": mode, "C14_BUDGET": budget, "C14_DEPTH": depth, "C14_ALPHA": alpha, "C14_LEAVES": leaves,
           "C14_TRACES": traces, "C14_SEED": ctx.seed % 1000003}
    r = ctx.tlc("C14Gen", "C14Gen.cfg", env=env, workers=vlib.NCPU, timeout=timeout, heap="8g", tag="gen-" + name)
    if r["error"] or r["rc"] != 0 or not r["finished"]:
        raise vlib.MachineryError("C14Gen %s failed (rc=%s)\n%s" % (name, r["rc"], r["out"][-3000:]))
    ctx.states += r["states"]
    ctx.transitions += r["transitions"]
    recs = printed_trees(r)
    if not recs or (traces and len(recs) != traces):
        raise vlib.MachineryError("C14Gen %s emitted %d trees" % (name, len(recs)))
    # the order of TLC's output depends on worker scheduling: sort to make ids stable
    recs.sort(key=lambda x: json.dumps(x["toks"]))
    uniq, seen = [], set()
    for x in recs:
        k = json.dumps(x["toks"])
        if k not in seen:
            seen.add(k)
            uniq.append(x)
    for i, x in enumerate(uniq):
        x["id"] = i + 1
    ctx.log("gen %-8s %-4s budget=%s alpha=%s leaves=%s traces=%s: %d trees (%d states)" %
            (name, mode, budget, alpha, leaves, traces, len(uniq), r["states"]))
    return uniq


def run_trees(ctx, name, mode, recs, layouts):
    fin, fout, flits = ctx.path(name + ".trees"), ctx.path(name + ".res"), ctx.path(name + ".lits")
    vlib.write_ndjson(fin, recs)
    ctx.vh(["c14-trees", "-in", fin, "-out", fout, "-mode", mode, "-layouts", str(layouts), "-lits", flits])
    res = vlib.read_ndjson(fout)
    summ = [x for x in res if x.get("summary")]
    if len(summ) != 1 or summ[0]["texts"] != len(recs) * layouts:
        raise vlib.MachineryError("c14-trees %s: bad summary %s" % (name, summ))
    fails = [x for x in res if not x.get("summary")]
    return summ[0], fails, vlib.read_ndjson(flits)


def confirm_tree(ctx, mode, rec, fail):
    """re-execute one failing (tree, layout) alone; returns the failure record again or None"""
    one = dict(rec)
    one["lay"], one["seed"] = fail["lay"], fail["seed"]
    fin, fout = ctx.path("re.trees"), ctx.path("re.res")
    vlib.write_ndjson(fin, [one])
    ctx.vh(["c14-trees", "-in", fin, "-out", fout, "-mode", mode, "-layouts", "1"])
    again = [x for x in vlib.read_ndjson(fout) if not x.get("summary")]
    if again and again[0]["text"] == fail["text"] and again[0]["diff"] == fail["diff"]:
        return one
    return None


# ------------------------------------------------------------------ part (c)
def mutants(marked, rnd):
    """single-token deletions, duplications and adjacent swaps; and the removal of one pair of
    parentheses that the precedence table requires (the text then has another tree or none)"""
    stack = []
    for i, t in enumerate(marked):
        if t == "@(!":
            stack.append(i)
        elif t == "@)!":
            j = stack.pop()
            yield "unparen", plain(marked[:j] + marked[j + 1:i] + marked[i + 1:])
    toks = plain(marked)
    idx = [i for i, t in enumerate(toks) if t not in LAYOUT_TOKS]
    for i in idx:
        # deleting the only token of a line would leave a blank line, which is not a line at all
        alone = (i == 0 or toks[i - 1] in LAYOUT_TOKS) and (i == len(toks) - 1 or toks[i + 1] in LAYOUT_TOKS)
        if not alone:
            yield "del", toks[:i] + toks[i + 1:]
        yield "dup", toks[:i + 1] + toks[i:]
    for a, b in zip(idx, idx[1:]):
        if b == a + 1 and toks[a] != toks[b]:
            yield "swap", toks[:a] + [toks[b], toks[a]] + toks[b + 1:]
    # one character that belongs to no token, between two tokens or at either end
    for ch in STRAY:
        i = rnd.choice(idx + [len(toks)]) if idx else 0
        if ch == "\\" and (i == len(toks) or toks[i] in LAYOUT_TOKS):
            continue            # a backslash before a line break is a line continuation, not a stray one
        yield "stray", toks[:i] + [ch] + toks[i:]
    # a reserved word where an identifier stands
    ids = [i for i in idx if re.fullmatch(r"v\d+|fn|[pqrukwnmf]", toks[i])]
    if ids:
        i = rnd.choice(ids)
        yield "reserved", toks[:i] + [rnd.choice(RESERVED)] + toks[i + 1:]


def near_cases(rnd, recs, n_orig, max_len):
    pool = [r for r in recs if len(canonical(r["toks"])) <= max_len]
    rnd.shuffle(pool)
    # originals are drawn round-robin from the classes of structural shape (which keywords and brackets occur, whether a
    # comma-separated list has two or more items): a uniform draw leaves rare shapes (a lambda with two parameters, ...) to chance
    STRUCT = {"lambda", "def", "for", "in", "if", "else", "elif", "while", "load", "return", "not", "and", "or", "*", "**", "=", ":", "[", "{", "(", ".", ";"}
    groups = {}
    for r in pool:
        c = canonical(r["toks"])
        key = (tuple(sorted({t for t in c if t in STRUCT})), min(2, sum(1 for t in c if t == ",")))
        groups.setdefault(key, []).append(r)
    order = sorted(groups)
    rnd.shuffle(order)
    chosen, k = [], 0
    while len(chosen) < min(n_orig, len(pool)):
        g = groups[order[k % len(order)]]
        if g:
            chosen.append(g.pop())
        k += 1
        if k > 100 * len(order) + n_orig:
            break
    out, seen = [], set()
    for r in chosen:
        c = canonical(r["toks"])
        for kind, t in [("orig", plain(c))] + list(mutants(c, rnd)):
            key = tuple(t)
            if key in seen or not [x for x in t if x not in LAYOUT_TOKS]:
                continue
            seen.add(key)
            out.append({"id": len(out) + 1, "toks": t, "mut": kind})
    return out


def recognise(ctx, name, cases, start):
    f = ctx.path(name + ".near")
    # (TLC only needs to know that the character is none of the language's tokens)
    vlib.write_ndjson(f, [{"id": c["id"], "toks": ["<stray>" if t in STRAY else t for t in c["toks"]]} for c in cases])
    r = ctx.tlc("C14Rec", "C14Rec.cfg", env={"VERIF_RECS": f, "VERIF_START": start}, workers=vlib.NCPU,
                timeout=3000, heap="12g", tag="rec-" + name)
    if r["error"] or r["rc"] != 0 or not r["finished"]:
        raise vlib.MachineryError("C14Rec %s failed (rc=%s)\n%s" % (name, r["rc"], r["out"][-3000:]))
    n = None
    acc = set()
    for l in r["printed"]:
        m = re.match(r'<<"ACC", (\d+)>>', l)
        if m:
            acc.add(int(m.group(1)))
        m = re.match(r'<<"STRINGS", (\d+), (\d+)>>', l)
        if m:
            n = int(m.group(1))
    if n != len(cases):
        raise vlib.MachineryError("C14Rec %s: %s strings explored, %d expected" % (name, n, len(cases)))
    ctx.states += r["states"]
    ctx.transitions += r["transitions"]
    return acc, r["states"]


def front_end(ctx, name, cases, mode):
    fin, fout = ctx.path(name + ".nin"), ctx.path(name + ".nout")
    vlib.write_ndjson(fin, [{"id": c["id"], "toks": c["toks"]} for c in cases])
    ctx.vh(["c14-near", "-in", fin, "-out", fout, "-mode", mode])
    res = {r["id"]: r for r in vlib.read_ndjson(fout)}
    if len(res) != len(cases):
        raise vlib.MachineryError("c14-near returned %d of %d" % (len(res), len(cases)))
    return res


def judge_near(member, o):
    """None if the front end behaves as the language definition requires, else (signature, text)"""
    if member:
        if not o["parse_ok"]:
            return "near:member-rejected", "grammatical text rejected by the parser: %r: %s" % (o["text"], o["parse_err"])
        return None
    if not o["parse_ok"]:
        if not o["pos_ok"]:
            return "near:error-without-position", "%r: %s" % (o["text"], o["parse_err"])
        return None
    if o["resolve_ok"]:
        return "near:nonmember-accepted", "text outside the grammar accepted by parser and resolver: %r" % o["text"]
    if not o["pos_ok"]:
        return "near:error-without-position", "%r: %s" % (o["text"], o["resolve_errs"])
    if not any(m.startswith(SUPERSET_MSGS) for m in o["resolve_errs"]):
        return "near:nonmember-accepted", "text outside the grammar accepted by the parser; the resolver objects only to %s: %r" % (o["resolve_errs"], o["text"])
    return None


def run_near(ctx, rnd, name, mode, recs, n_orig, max_len, cov):
    cases = near_cases(rnd, recs, n_orig, max_len)
    acc, states = recognise(ctx, name, cases, "Expression" if mode == "expr" else "File")
    for c in cases:
        if c["mut"] == "orig" and c["id"] not in acc:
            raise vlib.MachineryError("specification inconsistent: the recogniser rejects a rendered tree: %s" % " ".join(c["toks"]))
    res = front_end(ctx, name, cases, mode)
    stat = cov.setdefault("near_miss", {})
    for c in cases:
        o, member = res[c["id"]], c["id"] in acc
        key = ("member" if member else "nonmember") + ":" + ("accepted" if o["parse_ok"] and o.get("resolve_ok", True) else
                                                              "parser-rejects" if not o["parse_ok"] else "resolver-rejects")
        stat[key] = stat.get(key, 0) + 1
        stat["mut:" + c["mut"]] = stat.get("mut:" + c["mut"], 0) + 1
        v = judge_near(member, o)
        if v:
            again = front_end(ctx, "re-" + name, [c], mode)[c["id"]]
            if judge_near(member, again) is None or again["text"] != o["text"]:
                raise vlib.MachineryError("near-miss case %d not reproducible" % c["id"])
            kind = c["mut"]
            if kind == "stray":
                kind += "-" + "".join("%02x" % b for t in c["toks"] if t in STRAY for b in t.encode("utf-8"))
            ctx.violation(v[0] + ("/" + kind if kind != "orig" else ""), v[1],
                          {"part": "near", "mode": mode, "case": c, "member": member})
    stat["recogniser_states"] = stat.get("recogniser_states", 0) + states
    ctx.log("near %-6s %d strings (%d originals), %d members, %d recogniser states" %
            (name, len(cases), sum(1 for c in cases if c["mut"] == "orig"), len(acc), states))
    return cases


# ------------------------------------------------------------------ part (b)
PRES = ["18446744073709551616, ", "0xFFFFFFFFFFFFFFFFFF, 0o7, ", "1e300, 0.5, ", "'\\x41', ", "99999999999999999999, 0b1, 2.5, "]


def lit_cases(ctx, rnd):
    out = lit_cases0(ctx, rnd)
    # the same numeric literals scanned AFTER other literals in one text (the scanner reuses its token value)
    extra = []
    for k, c in enumerate([c for c in out if c["cat"] == "num"]):
        if ctx.quick and k % 3:
            continue
        extra.append(dict(c, ctxpre=PRES[k % len(PRES)], fam=c["fam"] + "+pre"))
    out += extra
    for i, c in enumerate(out):
        c["id"] = i + 1
    return out


def lit_cases0(ctx, rnd):
    quick = ctx.quick
    out = []

    def add(cat, fam, text):
        if isinstance(text, str):
            text = text.encode("utf-8")
        out.append({"cat": cat, "fam": fam, "lit": list(text)})

    # ---- strings
    prefixes = ["", "r", "b", "rb"]
    for p in prefixes:
        for c in range(128):
            ch = bytes([c])
            if c == 13:
                continue            # CR: see the CRLF family
            add("str", "esc1", p.encode() + b"'a\\" + ch + b"b'")
        for c in (0x27, 0x22, 0x5c, 0x6e, 0x0a):
            add("str", "esc1", p.encode() + b'"\\' + bytes([c]) + b'"')
            add("str", "esc1", p.encode() + b"'''\\" + bytes([c]) + b"'''")
    # octal: one, two and three digits, all values, then a following digit
    for p in ("", "b"):
        for n in range(512):
            add("str", "octal", "%s'\\%03o'" % (p, n))
            if n < 64:
                add("str", "octal", "%s'\\%o'" % (p, n))
                add("str", "octal", "%s'\\%o8'" % (p, n))
                add("str", "octal", "%s'x\\%oy'" % (p, n))
        for tail in ("7", "9", "a", "\\"):
            add("str", "octal", "%s'\\101%s'" % (p, tail))
        add("str", "octal", "%s'\\1234'" % p)
    # hex
    for p in ("", "b"):
        for n in range(256):
            add("str", "hex", "%s'\\x%02x'" % (p, n))
        for n in (0x0A, 0x7F, 0x80, 0xAB, 0xFF):
            add("str", "hex", "%s'\\x%02X'" % (p, n))
            add("str", "hex", "%s'\\X%02x'" % (p, n))
        for bad in ("\\x", "\\x1", "\\xg1", "\\x1g", "\\x 1", "a\\x4", "\\x411"):
            add("str", "hex", "%s'%s'" % (p, bad))
    # unicode escapes
    cps = [0, 0x41, 0x7F, 0x80, 0x7FF, 0x800, 0xD7FF, 0xD800, 0xDBFF, 0xDC00, 0xDFFF, 0xE000, 0xFFFD, 0xFFFF]
    cps += [rnd.randrange(0x10000) for _ in range(60 if quick else 600)]
    for p in ("", "b", "r"):
        for n in cps:
            add("str", "unicode", "%s'\\u%04x'" % (p, n))
        for n in (0x1F, 0xABCD, 0xD800):
            add("str", "unicode", "%s'\\u%04X'" % (p, n))
        big = [0, 0x41, 0xFFFF, 0x10000, 0x10FFFF, 0x110000, 0x1000000, 0xD800, 0xDFFF, 0xE000, 0x7FFFFFFF, 0xFFFFFFFF, 0x0010FFFE]
        big += [rnd.randrange(0x110000) for _ in range(60 if quick else 600)]
        for n in big:
            add("str", "unicode", "%s'\\U%08x'" % (p, n))
        for bad in ("\\u", "\\u1", "\\u12", "\\u123", "\\u12g4", "\\u 123", "\\U", "\\U0001", "\\U0001F60", "\\U0001F60g", "\\U0001f600x", "\\u00e9\\u00E9"):
            add("str", "unicode", "%s'%s'" % (p, bad))
    # raw strings
    for q in ("'", '"'):
        for body in ("\\n", "\\" + q, "\\\\", "\\\\\\" + q, "a\\qb", "\\x", "\\u12", "\\777", "\\\n", "a\\\nb", "\\"):
            for p in ("r", "rb"):
                add("str", "raw", p + q + body + q)
                add("str", "raw", p + q * 3 + body + q * 3)
    # quotation marks, triple quoting, termination
    for q, o in (("'", '"'), ('"', "'")):
        for p in ("", "b"):
            for body in ("", "a", o, o + o, o * 3, "\\" + q, "\\" + o, "a" + o + "b", q, "a" + q + "b", "a\nb", "a\\\nb"):
                add("str", "quotes", p + q + body + q)
            for body in ("", "a", q, q + q, "a" + q, "a" + q + q, q + "a", q + q + "a", "\\" + q, q + "\\" + q, q + q + "\\" + q,
                         "a\nb", "a\n\nb", "\n", "a\\\nb", o * 3, "a" + q * 3 + "b", "\\" + q * 3, q * 4, "x" + q * 2 + "\\" + q + q * 2):
                add("str", "triple", p + q * 3 + body + q * 3)
            for t in (q, q + "a", q + "a" + o, q + "a\\" + q, q * 3 + "a", q * 3 + "a" + q, q * 3 + "a" + q * 2, q * 4, q * 5, q * 7,
                      q + "a" + q + "b" + q, q * 3 + "a" + q * 4, q + "a" + q + " " + q + "b" + q, q + "a" + q + "+" + q + "b" + q):
                add("str", "termination", p + t)
    for t in ("br'x'", "Rb'x'", "R'x'", "B'x'", "u'x'", "f'x'", "rr'x'", "bb'x'", "rbr'x'"):
        add("str", "prefix", t)
    # line endings inside literals: LF, CR LF, CR
    for nl in ("\n", "\r\n", "\r"):
        for p in ("", "r", "b"):
            add("str", "newline", p + "'''a" + nl + "b'''")
            add("str", "newline", p + "'''a" + nl + nl + "'''")
            add("str", "newline", p + "'a\\" + nl + "b'")
            add("str", "newline", p + "'''a\\" + nl + "b'''")
            add("str", "newline", p + "'a" + nl + "b'")
            add("str", "newline", p + '"""' + nl + 'x' + nl + '"""')
    # non-ASCII source text
    for p in ("", "b", "r"):
        for body in ("é", "日本", "\U0001F600", "aé\\n", "é\\u00e9"):
            add("str", "utf8", p + "'" + body + "'")
    # seeded random bodies from pieces
    pieces = ["a", "Z", "0", " ", "\\n", "\\t", "\\\\", "\\'", '\\"', "\\x41", "\\x7f", "\\xff", "\\101", "\\0", "\\7", "\\400", "\\18",
              "\\u00e9", "\\U0001F600", "\\q", "\\N", "\\8", "\\x4", "\\ud800", "\\\n", "é", "{", "%", "\\a\\b\\f\\r\\v"]
    for _ in range(400 if quick else 12000):
        p = rnd.choice(prefixes)
        q = rnd.choice(["'", '"'])
        tr = rnd.random() < 0.3
        body = "".join(rnd.choice(pieces + ([q, "\n"] if tr else [])) for _ in range(rnd.randint(0, 8)))
        if tr:
            body = body.replace(q * 3, q * 2 + "x")
            if body.endswith(q) and not body.endswith("\\" + q):
                body += "x"
            add("str", "random", p + q * 3 + body + q * 3)
        else:
            add("str", "random", p + q + body + q)

    # ---- numbers
    def num(fam, s):
        add("num", fam, s)

    for n in list(range(0, 21)) + [99, 100, 255, 256, 2 ** 15 - 1, 2 ** 15, 2 ** 30, 2 ** 31 - 1, 2 ** 31, 2 ** 32, 2 ** 53, 2 ** 53 + 1,
                                   2 ** 62, 2 ** 63 - 1, 2 ** 63, 2 ** 63 + 1, 2 ** 64 - 1, 2 ** 64, 2 ** 64 + 1, 10 ** 18, 10 ** 19, 10 ** 20,
                                   2 ** 100, 2 ** 127, 2 ** 128, 10 ** 40, 2 ** 200 - 1, 2 ** 256]:
        num("int-decimal", "%d" % n)
        num("int-hex", "0x%x" % n)
        num("int-hex", "0X%X" % n)
        num("int-octal", "0o%o" % n)
        num("int-octal", "0O%o" % n)
        num("int-binary", "0b" + bin(n)[2:])
        num("int-binary", "0B" + bin(n)[2:])
    for _ in range(60 if quick else 1500):
        bits = rnd.choice([10, 31, 32, 62, 63, 64, 65, 100, 200, 400])
        n = rnd.getrandbits(bits)
        num("int-decimal", "%d" % n)
        num("int-hex", rnd.choice(["0x%x", "0X%x", "0x%X"]) % n)
        num("int-octal", "0o%o" % n)
        num("int-binary", "0b" + bin(n)[2:])
        num("int-hex", "0x" + "0" * rnd.randint(1, 3) + "%x" % n)      # leading zero digits
        num("int-octal", "0o" + "0" * rnd.randint(1, 3) + "%o" % n)
    for s in ("00", "000", "0000000", "01", "007", "0755", "08", "09", "0123456789", "00x1", "0x", "0X", "0o", "0O", "0b", "0B", "0xg", "0x1g",
              "0o8", "0o18", "0b2", "0b12", "0b102", "1L", "1l", "0L", "1j", "1_000", "1__0", "0_0", "0x_1", "1a", "0xABCDEFabcdef", "0o1234567",
              "0b0", "0b1", "0o0", "0x0", "0x00", "0o00", "0b00", "1 2", "+1", "-1", "1+", "1x", "0xx1", "0oo1", "0b1b", "0x1.8",
              "0x1p3", "1e5L", "0e0", "0e", "0.e1", "0.0e", "00e1", "00.0", "08.5", "09e1", "019.", "0777.0", "07e2"):
        num("int-forms", s)
    floats = ["0.0", "0.", ".0", "1.", ".5", "1.5", "1e10", "1e+10", "1e-10", "1.1e10", "1.1e+10", "1.1e-10", "1E10", "1E+10", "1E-3", "1.e2",
              ".5e1", ".5E-1", "00.5", "09.5", "0009.e1", "1e", "1e+", "1e-", "1.5e", "1.5e+", ".", ".e1", "e1", "1e1.5", "1.5.2", "1..2", "1.e", "1e1e1",
              "1.0f", "1.0L", "1.5j", "1e5x", "1_0.5", "1._5", "1e_5", "1.5e5.", "0x1e5", "1e0010", "1e-0010", "1.000000000000000000000000001",
              "0.1", "0.2", "0.3", "0.7", "1.1", "2.5", "3.14159", "1e23", "8.5e22", "9007199254740993.0", "9007199254740992.0", "9007199254740995.0",
              "9007199254740991.5", "4503599627370496.5", "4503599627370497.5", "0.1e1", "123456789012345678901234567890.0",
              "1.7976931348623157e308", "1.7976931348623158e308", "1.7976931348623159e308", "1.797693134862315807e308", "1.797693134862315808e308",
              "1e308", "1e309", "2e308", "1e400", "1e999", "4.9e-324", "5e-324", "2.4703282292062327e-324", "2.4703282292062328e-324", "2.5e-324",
              "1e-323", "1e-324", "1e-400", "2.2250738585072014e-308", "2.2250738585072011e-308", "2.225073858507201e-308", "1e-307",
              "0.000001", "1e-5", "100000000000000000000.0", "1e22", "1e21", "123.456e-7", "0.0000000000000000000000000000000000001e37",
              "179769313486231580793728971405303415079934132710037826936173778980444968292764750946649017977587207096330286416692887910946555547851940402630657488671505820681908902000708383676273854845817711531764475730270069855571366959622842914819860834936475292719074168444365510704342711559699508093042880177904174497791.9"]
    for s in floats:
        num("float-forms", s)
    for _ in range(150 if quick else 6000):
        nd = rnd.randint(1, 20)
        ds = "".join(rnd.choice("0123456789") for _ in range(nd))
        k = rnd.randint(0, nd)
        mant = ds[:k] + "." + ds[k:] if rnd.random() < 0.7 else ds
        if mant == ".":
            mant = "0."
        e = rnd.choice([0, 0, 1, -1, 5, -5, 15, -15, 22, -22, 23, 100, -100, 300, -300, 308, -308, 309, -320, -324, -330])
        form = rnd.choice(["%s", "%se%d", "%sE%d", "%se%+d"])
        s = form % ((mant,) if form == "%s" else (mant, e))
        if "." not in s and "e" not in s and "E" not in s:
            s += "."
        num("float-random", s)
    for i, c in enumerate(out):
        c["id"] = i + 1
    return out


def lit_signature(c):
    """family of the literal, refined so that different defects get different signatures"""
    sig = "lit:%s:%s" % (c["cat"], c["fam"])
    text = show(c["lit"])
    if c["cat"] == "num":
        try:
            v = int(text, 0)
            base = {"x": "hex", "o": "octal", "b": "binary"}.get(text[1:2].lower(), "decimal")
            sig = "lit:num:%s:%s" % (base, ">=2^63" if v >= 2 ** 63 else "<2^63")
        except ValueError:
            pass
    else:
        m = re.search(r"\\(.)", text)
        if m:
            e = m.group(1)
            sig += ":esc-" + ("octal" if e in "01234567" else e if e.isalnum() else "x%02x" % ord(e))
    return sig


def scan_lits(ctx, cases, tag="lits"):
    fin, fout = ctx.path(tag + ".in"), ctx.path(tag + ".out")
    vlib.write_ndjson(fin, [dict({"id": c["id"], "lit": c["lit"], "cat": c["cat"]}, **({"pre": c["ctxpre"]} if c.get("ctxpre") else {})) for c in cases])
    ctx.vh(["c14-lits", "-in", fin, "-out", fout])
    res = {r["id"]: r for r in vlib.read_ndjson(fout)}
    if len(res) != len(cases):
        raise vlib.MachineryError("c14-lits returned %d of %d" % (len(res), len(cases)))
    return res


def lit_record(c, r):
    res = dict(r["res"])
    for k in ("err", "raw", "start", "other"):
        res.pop(k, None)
    return {"id": c["id"], "cat": c["cat"], "lit": c["lit"], "res": res}


def validate_lits(ctx, recs, tag):
    # short records first: the invariant of the initial states runs on a small stack
    order = sorted(recs, key=lambda x: len(x["lit"]))
    f = ctx.path(tag + ".recs")
    vlib.write_ndjson(f, order)
    bad, checked = ctx.validate("C14Trace", "C14Trace.cfg", [f])
    if checked != len(recs):
        raise vlib.MachineryError("TLC checked %d of %d literal records" % (checked, len(recs)))
    return set(bad)


def show(lit):
    return bytes(lit).decode("utf-8", "backslashreplace")


# ------------------------------------------------------------------ driver
def plan(ctx):
    if ctx.quick:
        return {
            "expr": [("e2full", 2, "full", "id", 0, 4), ("e3small", 3, "small", "id", 0, 3), ("e1lits", 1, "mid", "all", 0, 4),
                     ("ernd", 10, "full", "all", 100, 4)],
            "file": [("f2full", 2, "full", "id", 0, 4), ("f3mid", 3, "mid", "id", 0, 4), ("frnd", 7, "full", "id", 50, 4)],
            "near": {"expr": (110, 22), "file": (40, 30)},
        }
    return {
        "expr": [("e2full", 2, "full", "id", 0, 6), ("e3mid", 3, "mid", "id", 0, 3), ("e1lits", 1, "full", "all", 0, 4),
                 ("ernd", 12, "full", "all", 1500, 5)],
        "file": [("f2full", 2, "full", "id", 0, 6), ("f3full", 3, "full", "id", 0, 3), ("f4mid", 4, "mid", "id", 0, 3), ("frnd", 9, "full", "id", 800, 5)],
        "near": {"expr": (700, 26), "file": (400, 36)},
    }


def design_check(ctx):
    """renderer / recogniser agreement and the pinned member / non-member strings (spec/C14MC.tla)"""
    runs = [("expr", 2, "small")] if ctx.quick else [("expr", 2, "mid"), ("file", 3, "small")]
    for mode, budget, alpha in runs:
        env = {"C14_MODE": mode, "C14_BUDGET": budget, "C14_DEPTH": 6, "C14_ALPHA": alpha, "C14_LEAVES": "id", "C14_TRACES": 0, "C14_SEED": 1}
        r = ctx.tlc_ok("C14MC", "C14MC.cfg", env=env, workers=vlib.NCPU, timeout=1800, heap="8g", tag="mc-" + mode)
        ctx.log("design check %s budget=%d alpha=%s: %d states, renderings accepted by Grammar!Recognise" % (mode, budget, alpha, r["states"]))


def run(ctx):
    rnd = random.Random(ctx.seed)
    pl = plan(ctx)
    design_check(ctx)
    parts = os.environ.get("C14_PARTS", "abc")      # development aid: run only some parts
    if "a" not in parts:
        pl["expr"], pl["file"] = pl["expr"][:1], pl["file"][:1]
    cov = ctx.cov
    cov["trees"] = {}
    n_texts = n_distinct = n_nodes = n_trees = 0
    tree_lits = {}
    pools = {"expr": [], "file": []}
    samples = []
    for mode in ("expr", "file"):
        for name, budget, alpha, leaves, traces, layouts in pl[mode]:
            recs = gen_trees(ctx, name, mode, budget, alpha, leaves, traces)
            summ, fails, lits = run_trees(ctx, name, mode, recs, layouts)
            cov["trees"][name] = {"mode": mode, "budget": budget, "alphabet": alpha, "leaves": leaves, "pseudo_random_derivations": traces,
                                  "trees": len(recs), "layouts_per_tree": layouts, "texts": summ["texts"], "distinct_texts": summ["distinct"],
                                  "agree": summ["ok"], "node_positions_checked": summ["nodes"]}
            n_trees += len(recs)
            n_texts += summ["texts"]
            n_distinct += summ["distinct"]
            n_nodes += summ["nodes"]
            samples += [s["text"] for s in (summ.get("samples") or [])[:1]]
            if not traces:
                pools[mode] += recs
            for l in lits:
                tree_lits[json.dumps(l["lit"])] = l
            byid = {r["id"]: r for r in recs}
            reported = set()
            for f in fails:
                if f["class"] in reported:
                    continue
                one = confirm_tree(ctx, mode, byid[f["id"]], f)
                if one is None:
                    raise vlib.MachineryError("tree case %s/%d layout %d not reproducible" % (name, f["id"], f["lay"]))
                reported.add(f["class"])
                ctx.violation("tree:" + f["class"], "%r: %s" % (f["text"], f["diff"]), {"part": "tree", "mode": mode, "rec": one})
            ctx.log("trees %-8s %d texts (%d distinct), %d disagree" % (name, summ["texts"], summ["distinct"], len(fails)))

    # ---- (c) near misses
    near_n = 0
    for mode in (("expr", "file") if "c" in parts else ()):
        n_orig, max_len = pl["near"][mode]
        cases = run_near(ctx, rnd, "near-" + mode, mode, pools[mode], n_orig, max_len, cov)
        near_n += len(cases)

    # ---- (b) literals
    cases = lit_cases(ctx, rnd) if "b" in parts else []
    nid = len(cases)
    for l in tree_lits.values():
        nid += 1
        kind = l["res"]["kind"]
        cases.append({"id": nid, "cat": "str" if kind in ("string", "bytes") else "num", "fam": "from-trees", "lit": l["lit"], "pre": l["res"]})
    res = scan_lits(ctx, [c for c in cases if "pre" not in c])
    recs = []
    for c in cases:
        recs.append(lit_record(c, {"res": c["pre"]} if "pre" in c else res[c["id"]]))
    bad = validate_lits(ctx, recs, "lits")
    byid = {c["id"]: c for c in cases}
    recid = {r["id"]: r for r in recs}
    fam = {}
    for c in cases:
        fam[c["fam"]] = fam.get(c["fam"], 0) + 1
    # re-execute the rejected cases (one batch) before reporting them
    redo = [byid[cid] for cid in sorted(bad) if "pre" not in byid[cid]]
    again = scan_lits(ctx, redo, tag="relit") if redo else {}
    per_sig = {}
    for cid in sorted(bad):
        c = byid[cid]
        if "pre" not in c and lit_record(c, again[cid]) != recid[cid]:
            raise vlib.MachineryError("literal case %d not reproducible" % cid)
        sig = lit_signature(c)
        per_sig[sig] = per_sig.get(sig, 0) + 1
        if per_sig[sig] > 1:
            continue
        r = recid[cid]["res"]
        got = "rejected" if not r["ok"] else "%s %s" % (r["kind"], json.dumps(r["v"])[:120])
        ctx.violation(sig, "literal %r scanned as: %s; the specification disagrees" % (show(c["lit"]), got),
                      {"part": "lit", "case": {k: v for k, v in c.items() if k != "pre"}, "record": recid[cid]})
    ctx.log("literals: %d records validated by TLC, %d rejected" % (len(recs), len(bad)))
    cov["literals"] = {"records": len(recs), "per_family": fam, "accepted_by_scanner": sum(1 for r in recs if r["res"]["ok"]),
                       "rejected_by_spec_per_signature": per_sig}

    cov["evaluations"] = n_texts + near_n + len(recs)
    cov["distinct_nontrivial"] = n_distinct + near_n + len({json.dumps(r["lit"]) for r in recs})
    cov["traces_validated_against_impl"] = n_texts + near_n + len(recs)
    cov["syntax_trees_generated_by_tlc"] = n_trees
    cov["node_positions_checked"] = n_nodes
    cov["near_miss_strings"] = near_n
    ctx.samples = samples[:5] + [show(c["lit"]) for c in cases[:: max(1, len(cases) // 3)]][:3]
    ctx.assumptions = [
        "ASCII identifiers and comments: columns are compared in code points = bytes",
        "doc/spec.md is silent on bytes literals, \\u/\\U escapes and the treatment of octal/hex escapes above 0x7F in text strings: "
        "Unquote.tla follows the Starlark language spec (UTF-8 encoding of the code point; escapes above 0x7F rejected in text strings)",
        "CR LF and lone CR are line endings inside literals; layouts use LF or CR LF (a lone CR outside a literal is not generated)",
        "tolerated, not judged: '00' read as 0; float literals that round to infinity rejected; "
        "operand of a comprehension `for` clause restricted to an or-test and `if` clause to a no-cond test (parse.go comment, Python 3 rule) "
        "although grammar.txt says Test",
        "near-miss membership is decided for the canonical layout (one blank between tokens, 4 blanks per level); mutations never touch layout tokens",
    ]
    # (d) statement nesting from indentation: TLC enumerates every skeleton of header / simple-statement / blank / comment
    #     lines over a set of indentation columns (spec/Layout.tla, LayoutMC.tla) with the nesting the specification derives,
    #     or "not a program"; each is written with spaces, with tabs and with CR LF and parsed by the real front end
    if "d" in os.environ.get("C14_PARTS", "abcd"):
        maxlines = 3 if ctx.quick else 4
        cfg = "CONSTANT MaxLines = %d\nINIT Init\nNEXT Next\nINVARIANTS WellNested Emit\n" % maxlines
        rl = ctx.tlc_ok("LayoutMC", "LayoutMC_gen.cfg", workers=8, timeout=3000, heap="8g", cfg_text=cfg)
        sk = ctx.path("skeletons.ndjson")
        nsk = 0
        with open(sk, "w") as f:
            for l in rl["out"].split("\n"):
                if l.startswith('"L{'):
                    f.write(l[2:-1].replace('\\"', '"') + "\n")
                    nsk += 1
        if nsk != rl["states"] - 1:
            raise vlib.MachineryError("layout skeleton emission incomplete: %d of %d" % (nsk, rl["states"] - 1))
        lo = ctx.path("layout.out")
        ctx.vh(["c14-layout", "-in", sk, "-out", lo], timeout=3000)
        lres = vlib.read_ndjson(lo)
        if not lres[-1].get("summary") or lres[-1]["skeletons"] != nsk:
            raise vlib.MachineryError("layout replay incomplete")
        ctx.log("layout: %d indentation skeletons (<= %d lines) x 3 writings parsed, %d nest as programs, %d disagree" % (
            nsk, maxlines, lres[-1]["nested"], lres[-1]["problems"]))
        for rr in lres[:-1][:40]:
            kind = "accepted" if rr["what"].startswith("accepted") else ("rejected" if rr["what"].startswith("rejected") else "nesting")
            ctx.violation("layout:%s" % kind, "%s: %r" % (rr["what"], rr["text"]), {"layout": rr})
        ctx.cov["layout_skeletons"] = nsk
        ctx.cov["layout_texts"] = lres[-1]["texts"]
        ctx.cov["evaluations"] = ctx.cov.get("evaluations", 0) + lres[-1]["texts"]

    return ctx.finish(
        rule="(a) syntax trees are enumerated by TLC (C14Gen: all pairs over the full operator alphabet, all triples over a reduced one, statement "
             "skeletons, pseudo-random deep derivations) and rendered by Grammar!Render; each tree is written under several seeded layouts and "
             "parsed; distinct = distinct source texts. (b) literal spellings enumerated per family (escapes, octal, hex, unicode, raw, triple, "
             "termination, line endings, all integer bases and sizes, float forms incl. rounding boundaries) + seeded random ones; every record "
             "validated by TLC. (c) all single-token deletions, duplications and adjacent swaps of sampled valid texts; membership by TLC "
             "exploration of the push-down recogniser.",
        exhaustive=False)


def replay(ctx, path):
    d = json.load(open(path))
    rp = d["replay"]
    if rp["part"] == "tree":
        fin, fout = ctx.path("rp.trees"), ctx.path("rp.res")
        vlib.write_ndjson(fin, [rp["rec"]])
        ctx.vh(["c14-trees", "-in", fin, "-out", fout, "-mode", rp["mode"], "-layouts", "1"])
        fails = [x for x in vlib.read_ndjson(fout) if not x.get("summary")]
        for f in fails:
            print("replay %s: %r: %s" % (path, f["text"], f["diff"]))
        if not fails:
            print("replay %s: parser now agrees with the specification" % path)
        return 1 if fails else 0
    if rp["part"] == "near":
        c = rp["case"]
        acc, _ = recognise(ctx, "rp", [c], "Expression" if rp["mode"] == "expr" else "File")
        o = front_end(ctx, "rp", [c], rp["mode"])[c["id"]]
        v = judge_near(c["id"] in acc, o)
        print("replay %s: %r member=%s parse_ok=%s resolve_ok=%s -> %s" % (path, o["text"], c["id"] in acc, o["parse_ok"], o.get("resolve_ok"), v[0] if v else "as specified"))
        return 1 if v else 0
    if rp["part"] == "lit":
        c = rp["case"]
        rec = lit_record(c, scan_lits(ctx, [c], tag="rp")[c["id"]])
        bad = validate_lits(ctx, [rec], "rp")
        print("replay %s: %r -> %s : %s" % (path, show(c["lit"]), json.dumps(rec["res"])[:200], "REJECTED by spec" if bad else "accepted"))
        return 1 if bad else 0
    raise vlib.MachineryError("unknown replay part")
