"""C11  Equality, hashing and ordering are mutually coherent.

code -> spec record validation (P-A).  A pool of values (the property's list) is
built by a Starlark source file; `vh c11-run` records, through the real
interpreter, the full matrices of == != < <= > >= and of membership in {x: 1},
set([x]), [x] for ALL ordered pairs, and Value.Hash() of every value three times
(before the comparisons, after them, after freezing) - on the three Int
representation builds.  TLC (spec/C11Trace.tla) checks the laws over the
recorded relations (triples derived from the matrices) and, independently, every
entry against the oracle spec/Values.tla.  sorted/min/max are evaluated with
`vh eval` over all short sequences of two 6-value pools and random long ones and
checked against Values.StableSortPerm / MinIdx / MaxIdx.
"""
import datetime, itertools, json, os, random, re, struct
import vlib

LEVEL = "model_checking"

# ----------------------------------------------------------------------------
# value descriptions: python terms -> (starlark source, spec encoding)
# ----------------------------------------------------------------------------
LIMB = 15


def limbs(n):
    n = abs(n)
    out = []
    while n:
        out.append(n & ((1 << LIMB) - 1))
        n >>= LIMB
    return out


def enc_int(n):
    if -(1 << 30) < n < (1 << 30):
        return {"t": "int", "v": n}
    return {"t": "big", "neg": n < 0, "m": limbs(n)}


def enc_big(n):
    return {"neg": n < 0, "m": limbs(n)}


def enc_float(f):
    b = struct.unpack(">Q", struct.pack(">d", f))[0]
    m = limbs(b & ((1 << 52) - 1))
    while len(m) < 4:
        m.append(0)
    return {"t": "float", "s": b >> 63, "e": (b >> 52) & 0x7ff, "m": m}


def float_src(f):
    if f != f:
        return 'float("nan")'
    if f in (float("inf"), float("-inf")):
        return 'float("%sinf")' % ("-" if f < 0 else "+")
    r = repr(f)
    if "." not in r and "e" not in r and "E" not in r:
        r += ".0"
    return r            # a leading '-' is the unary operator: -0.0 is negative zero


def str_src(b, isbytes):
    """string / bytes literal for the byte string b (strings: valid UTF-8 only, written raw)"""
    out = []
    if isbytes:
        for c in b:
            if c in (0x22, 0x5c):
                out.append("\\" + chr(c))
            elif 0x20 <= c < 0x7f:
                out.append(chr(c))
            else:
                out.append("\\x%02x" % c)
        return 'b"' + "".join(out) + '"'
    for ch in b.decode("utf-8"):
        if ch in '"\\':
            out.append("\\" + ch)
        elif ch == "\n":
            out.append("\\n")
        elif ord(ch) < 0x20 or ord(ch) == 0x7f:
            out.append("\\x%02x" % ord(ch))
        else:
            out.append(ch)
    return '"' + "".join(out) + '"'


class V:
    """a pool value: kind + payload; src() and desc() derive the two views"""

    def __init__(self, kind, *a, src=None, desc=None):
        self.kind, self.a, self._src, self._desc = kind, a, src, desc

    def src(self):
        k, a = self.kind, self.a
        if self._src is not None:
            return self._src
        if k == "none":
            return "None"
        if k == "bool":
            return "True" if a[0] else "False"
        if k == "int":
            return str(a[0]) if a[0] >= 0 else "(%d)" % a[0]
        if k == "float":
            s = float_src(a[0])
            return "(%s)" % s if s.startswith("-") else s
        if k == "str":
            return str_src(a[0], False)
        if k == "bytes":
            return str_src(a[0], True)
        if k == "list":
            return "[" + ", ".join(x.src() for x in a[0]) + "]"
        if k == "tuple":
            return "(" + "".join(x.src() + ", " for x in a[0]) + ")"
        if k == "set":
            return "set([" + ", ".join(x.src() for x in a[0]) + "])"
        if k == "dict":
            return "{" + ", ".join("%s: %s" % (x.src(), y.src()) for x, y in a[0]) + "}"
        if k == "struct":
            return "struct(" + ", ".join("%s = %s" % (n, y.src()) for n, y in a[0]) + ")"
        if k == "range":
            return "range(%d, %d, %d)" % a
        raise ValueError(k)

    def desc(self):
        """spec encoding computed here, independently of the harness (None: taken from the harness)"""
        k, a = self.kind, self.a
        if self._desc is not None:
            return self._desc
        if k == "none":
            return {"t": "none"}
        if k == "bool":
            return {"t": "bool", "v": a[0]}
        if k == "int":
            return enc_int(a[0])
        if k == "float":
            return enc_float(a[0])
        if k in ("str", "bytes"):
            return {"t": k, "v": list(a[0])}
        if k in ("list", "tuple", "set"):
            return {"t": k, "v": [x.desc() for x in a[0]]}
        if k == "dict":
            return {"t": "dict", "v": [[x.desc(), y.desc()] for x, y in a[0]]}
        if k == "struct":
            return {"t": "struct", "v": [[n, y.desc()] for n, y in sorted(a[0], key=lambda p: p[0])]}
        if k == "range":
            r = range(*a)
            return {"t": "range", "start": a[0], "step": a[2], "len": len(r)}
        if k in ("fn", "builtin", "host"):
            return None
        raise ValueError(k)


def I(n): return V("int", n)
def F(f): return V("float", float(f))
def S(s): return V("str", s.encode("utf-8") if isinstance(s, str) else s)
def By(b): return V("bytes", b)
def L(*xs): return V("list", list(xs))
def T(*xs): return V("tuple", list(xs))
def St(*xs): return V("set", list(xs))
def D(*kv): return V("dict", list(kv))
def Sr(**kw): return V("struct", list(kw.items()))
def R(a, b, c=1): return V("range", a, b, c)
NONE, TRUE, FALSE = V("none"), V("bool", True), V("bool", False)
NAN, INF = float("nan"), float("inf")


def floatof(n):
    """float(n) evaluated by the implementation; described as python's correctly rounded conversion"""
    return V("float", float(n), src="float(%d)" % n)


def nest(mk, k, leaf):
    x = leaf
    for _ in range(k):
        x = mk(x)
    return x


PRELUDE = '''
def F1(): return 1
def F2(): return 1
def _mk():
    def F1(): return 2
    return F1
F3 = _mk()
def a_function_with_a_long_name(): return 1
L1 = lambda: 0
L2 = lambda: 0
M1 = "abc".upper
T0 = time.from_timestamp(0)
def _upd(x, y):
    d = {x: 1}
    d[y] = 2
    return len(d) == 1
'''


def ref(name, kind="fn"):
    return V(kind, src=name)


def tm(src, sec, ns=0):
    return V("host", src=src, desc={"t": "time", "sec": enc_big(sec), "ns": ns})


def dur(src, ns):
    return V("host", src=src, desc={"t": "duration", "ns": enc_big(ns)})


def pool_items(quick):
    """[(class label, V, in_quick_pool, pid)]"""
    P = []

    def add(cls, v, q=False):
        P.append((cls, v, q))
    # --- numbers: equal magnitudes across representations
    add("bool", TRUE, True); add("bool", FALSE, True); add("none", NONE, True)
    for n, q in ((0, True), (1, True), (-1, False), (2, True), (3, False)):
        add("num-small", I(n), q)
    for f, q in ((0.0, True), (-0.0, True), (1.0, True), (-1.0, False), (2.0, False), (0.5, True), (1.5, False),
                 (5e-324, True), (1e-320, False), (2.2250738585072014e-308, False), (1.7976931348623157e308, True)):
        add("num-float", F(f), q)
    for n, q in (((1 << 53) - 1, True), (1 << 53, True), ((1 << 53) + 1, True), ((1 << 53) + 2, False)):
        add("num-2^53", I(n), q)
        add("num-2^53", floatof(n), q)
    for n in ((1 << 31) - 1, 1 << 31, -(1 << 31), -(1 << 31) - 1, (1 << 32) + 5, (1 << 63) - 1, 1 << 63, -(1 << 63),
              -(1 << 63) - 1, 1 << 64, (1 << 64) + 1, -(1 << 64)):
        add("num-big", I(n), n in (1 << 31, 1 << 63, 1 << 64, (1 << 64) + 1))
    for n in (1 << 31, 1 << 63, -(1 << 63), 1 << 64, -(1 << 64), (1 << 63) - 1):
        add("num-big", floatof(n), n in (1 << 63, 1 << 64))
    add("num-huge", F(1e300), True)
    add("num-huge", I(int(1e300)), True)            # the integer equal to the float 1e300
    add("num-huge", I(10 ** 300), True)             # mathematically 10^300, not equal to the float
    add("num-huge", I(-int(1e300)))
    add("num-huge", F(-1e300))
    add("num-huge", I(1 << 1023)); add("num-huge", floatof(1 << 1023))
    add("num-huge", I(1 << 1024), True)             # larger than every finite float
    add("num-huge", I(-(1 << 1024)))
    # equal int/float pairs at NON-power-of-two integral values over many magnitudes (the hash of a float must be
    # the hash of the equal int whatever its size: low machine words non-zero below 2^84), both signs, and the
    # same values inside tuple keys
    mags = [(1 << k) + (1 << (k - 52)) for k in (54, 60, 63, 64, 65, 70, 80, 83, 84, 90, 100, 200)]
    mags += [int(f) for f in (1e20, 3e19, 1e22, 123456789e15)]
    for n in mags:
        assert int(float(n)) == n
        for sgn in (1, -1):
            add("num-intfloat", I(sgn * n), True)
            add("num-intfloat", floatof(sgn * n), True)
    for k, n in enumerate(mags):
        q = k in (1, 3, 4, 7, 12, 13)
        add("num-intfloat-key", T(I(n), S("k")), q)
        add("num-intfloat-key", T(floatof(n), S("k")), q)
        add("num-intfloat-key", T(I(-n)), False)
        add("num-intfloat-key", T(floatof(-n)), False)
    # the same small integers reached through big intermediate values (every operator that can shrink a big operand):
    # equal values must hash alike however they were computed
    routes = [(-3, "((1 << 40) | (-3))", True), (-1, "((-(1 << 40)) | ((1 << 40) - 1))", True), (-7, "((-(1 << 40)) | (-7))", False),
              (5, "(((1 << 70) + 5) & 255)", True), (5, "(((1 << 70) + 5) ^ (1 << 70))", True), (5, "((5 << 70) >> 70)", False),
              (-3, "((1 << 70) - (1 << 70) - 3)", True), (1, "((1 << 70) // (1 << 70))", False), (3, "((1 << 70) % ((1 << 70) - 3))", True),
              (-1, "((-(1 << 70)) // (1 << 70))", False), (-1, "(~(1 << 70) + (1 << 70))", True), (0, "((1 << 70) * 0)", True),
              (0, "((1 << 70) & 1)", False), (-(1 << 31), "((-(1 << 62)) // (1 << 31))", True), ((1 << 31) - 1, "(((1 << 64) >> 33) - 1)", False),
              (3, 'int("3")', False), (3, "int(3.0)", False), (-3, "(-(1 << 70) + ((1 << 70) - 3))", False),
              (-3, "(((1 << 70) - 3) - (1 << 70))", False), (2, "(1 << 71) // (1 << 70)", False)]
    for n, src, q in routes:
        add("num-route", V("int", n, src=src if src.startswith("(") or src.startswith("int") else "(" + src + ")"), q)
    for n in (-7, -3):
        add("num-small", I(n), n == -3)
    add("num-nonfinite", F(INF), True); add("num-nonfinite", F(-INF), True)
    add("num-nonfinite", V("float", NAN), True)
    add("num-nonfinite", V("float", NAN, src='(-float("nan"))'), True)     # another NaN (sign bit)
    add("num-nonfinite", V("float", NAN, src='(float("inf") - float("inf"))'))
    # --- strings around the 12-byte switch of the hash function; pairs differing in the last byte
    base = "abcdefghijklmnopqrstuvwxyzABCDEFGHIJKLMNOPQRST"
    for n, q in ((0, True), (1, True), (11, True), (12, True), (13, True), (40, True)):
        s = base[:n]
        add("str", S(s), q)
        if n:
            add("str", S(s[:-1] + "~"), q and n in (11, 12, 40))
        add("bytes", By(s.encode()), q and n in (0, 12))
        if n:
            add("bytes", By(s[:-1].encode() + b"~"), False)
    add("str", V("str", base[:12].encode(), src='("abcdef" + "ghijkl")'), True)      # same text, built at run time
    add("str", V("str", base[:40].encode(), src='"".join(["%s", "%s"])' % (base[:20], base[20:40])))
    add("str", S("A")); add("str", S("b")); add("str", S("ab")); add("str", S("\x7f"), True)
    add("str", S("é"), True); add("str", S("\U0001F600")); add("str", S("￿"))
    add("bytes", By(b"\x7f")); add("bytes", By(b"\x80"), True); add("bytes", By(b"\xff"), True)
    add("bytes", By("é".encode()))
    # --- tuples and lists
    add("tuple", T(), True); add("tuple", T(I(1)), True); add("tuple", T(F(1.0)), True); add("tuple", T(I(1), I(2)), True)
    add("tuple", T(I(1), I(2), I(0))); add("tuple", T(I(1), S("a")), True); add("tuple", T(S("a"), I(1)))
    add("tuple", T(I(2), I(2))); add("tuple", T(T(I(1)))); add("tuple", T(T(F(1.0))), True)
    add("tuple", T(T(T(I(1))))); add("tuple", T(I(1), T(I(2), T(I(3))))); add("tuple", T(I(1), T(F(2.0), T(I(3)))))
    add("tuple", T(V("float", NAN)), True); add("tuple", T(I(1), L(I(2))), True); add("tuple", T(L()))
    add("tuple", T(NONE)); add("tuple", T(TRUE, FALSE)); add("tuple", T(I(1 << 64), S(base[:13])), True)
    add("tuple", T(floatof(1 << 64), S(base[:13])), True)
    add("list", L(), True); add("list", L(I(1)), True); add("list", L(F(1.0)), True); add("list", L(I(1), I(2)), True)
    add("list", L(I(1), I(2), I(0)), True); add("list", L(L(I(1)))); add("list", L(L(F(1.0)))); add("list", L(L(L(I(1)))))
    add("list", L(S("a"))); add("list", L(I(1), S("a")), True); add("list", L(I(2), I(2)), True); add("list", L(NONE))
    add("list", L(V("float", NAN))); add("list", L(T(I(1), I(2)))); add("list", L(I(1), L(I(2), L(F(3.0)))))
    add("list", L(I(1), L(I(2), L(I(3)))))
    # --- nesting up to and beyond the comparison depth limit (10): k containers around a leaf
    for k, q in ((8, False), (9, True), (10, True), (11, False)):
        add("deep", nest(L, k, I(1)), q)
        add("deep", nest(L, k, F(1.0)), q and k == 9)
        add("deep", nest(L, k, I(2)), k == 9)
        add("deep", nest(T, k, I(1)), q)
        add("deep", nest(T, k, I(2)), False)
    add("deep", L(nest(L, 10, I(1)), I(0)))           # unequal lengths decide == without descending
    add("deep", L(I(0), nest(L, 10, I(1))))
    add("deep", D((I(1), nest(L, 9, I(1)))))
    add("deep", D((I(1), nest(L, 8, I(1)))))
    add("deep", Sr(a=nest(L, 9, I(1))))
    add("deep", Sr(a=nest(L, 8, F(1.0))))
    # --- dicts, sets, ranges, structs
    add("dict", D(), True); add("dict", D((I(1), I(2))), True); add("dict", D((F(1.0), F(2.0))), True)
    add("dict", D((I(1), I(2)), (I(3), I(4)))); add("dict", D((I(3), I(4)), (I(1), I(2))), True)
    add("dict", D((S("a"), L(I(1))))); add("dict", D((S("a"), L(F(1.0))))); add("dict", D((I(1), I(3))))
    add("set", St(), True); add("set", St(I(1)), True); add("set", St(F(1.0))); add("set", St(I(1), I(2)), True)
    add("set", St(I(2), I(1)), True); add("set", St(I(1), I(2), I(3))); add("set", St(I(1), I(3), I(4)), True)
    add("set", St(S("a")))
    add("range", R(0, 0), True); add("range", R(5, 5)); add("range", R(0, 3), True); add("range", R(0, 3, 1))
    add("range", R(1, 2), True); add("range", R(1, 5, 7), True); add("range", R(0, 6, 2), True); add("range", R(0, 5, 2), True)
    add("range", R(0, 4))
    add("struct", Sr(), True); add("struct", Sr(a=I(1), b=I(2)), True); add("struct", Sr(b=I(2), a=I(1)), True)
    add("struct", Sr(a=F(1.0), b=I(2)), True); add("struct", Sr(a=I(1))); add("struct", Sr(a=L(I(1))), True)
    add("struct", Sr(a=I(1), b=I(3))); add("struct", Sr(a=T(I(1), I(2))))
    # --- functions and built-ins (identity)
    for name, q in (("F1", True), ("F1", True), ("F2", True), ("F3", False), ("a_function_with_a_long_name", True),
                    ("L1", True), ("L1", False), ("L2", False), ("(lambda: 0)", False)):
        add("function", ref(name), q)
    for name, q in (("len", True), ("len", True), ("str", False), ("M1", True), ("M1", False), ('"abc".upper', True),
                    ("struct", False), ("json.encode", False), ("[].append", False)):
        add("builtin", ref(name, "builtin"), q)
    # --- time values: the same instant in different zones
    add("time", tm("T0", 0), True)
    add("time", tm('time.parse_time("1970-01-01T02:00:00+02:00")', 0), True)
    add("time", tm('time.parse_time("1969-12-31T19:00:00-05:00")', 0))
    add("time", tm("time.from_timestamp(0, 1)", 0, 1), True)
    add("time", tm("time.from_timestamp(1)", 1))
    add("time", tm('time.parse_time("1970-01-01T00:00:01Z")', 1))
    add("time", tm("time.from_timestamp(-1)", -1))
    y3000 = int((datetime.datetime(3000, 1, 1, tzinfo=datetime.timezone.utc) - datetime.datetime(1970, 1, 1, tzinfo=datetime.timezone.utc)).total_seconds())
    add("time", tm('time.parse_time("3000-01-01T00:00:00Z")', y3000))
    add("time", tm('time.parse_time("3000-01-01T05:30:00+05:30")', y3000))
    # instants more than 2^63 ns apart from one another (all inside the int64 nanosecond range)
    for year, q in ((1700, True), (1950, True), (2200, True), (2261, False), (1680, False)):
        secs = int((datetime.datetime(year, 1, 1, tzinfo=datetime.timezone.utc) - datetime.datetime(1970, 1, 1, tzinfo=datetime.timezone.utc)).total_seconds())
        add("time", tm('time.parse_time("%d-01-01T00:00:00Z")' % year, secs), q)
    add("duration", dur('time.parse_duration("1h")', 3600 * 10 ** 9), True)
    add("duration", dur('time.parse_duration("60m")', 3600 * 10 ** 9), True)
    add("duration", dur('time.parse_duration("1s")', 10 ** 9)); add("duration", dur('time.parse_duration("0s")', 0))
    add("duration", dur('time.parse_duration("-1s")', -10 ** 9))
    P = [(cls, v, q, pid) for pid, (cls, v, q) in enumerate(P)]      # pid: stable position, used by replay files
    if quick:
        P = [p for p in P if p[2]]
    return P


OPS_SRC = '''
OPS = {
    "eq": lambda x, y: x == y,
    "ne": lambda x, y: x != y,
    "lt": lambda x, y: x < y,
    "le": lambda x, y: x <= y,
    "gt": lambda x, y: x > y,
    "ge": lambda x, y: x >= y,
    "ind": lambda x, y: y in {x: 1},
    "ins": lambda x, y: y in set([x]),
    "inl": lambda x, y: y in [x],
    "get": lambda x, y: {x: 1}.get(y) == 1,
    "one": lambda x, y: len(set([x, y])) == 1,
    "upd": _upd,
}
'''
OPNAMES = ["eq", "ne", "lt", "le", "gt", "ge", "ind", "ins", "inl", "get", "one", "upd"]


def pool_source(items):
    return PRELUDE + "POOL = [\n" + "".join("    %s,\n" % it[1].src() for it in items) + "]\n" + OPS_SRC


def canon(o):
    return json.dumps(o, sort_keys=True, separators=(",", ":"))


def same_desc(mine, theirs):
    """python's description against the harness encoding (NaN: class only)"""
    if mine.get("t") == "float" and theirs.get("t") == "float" and mine["e"] == 2047 and theirs["e"] == 2047:
        return any(mine["m"]) == any(theirs["m"])
    if mine.get("t") in ("list", "tuple", "set") and theirs.get("t") == mine["t"] and len(mine["v"]) == len(theirs["v"]):
        return all(same_desc(a, b) for a, b in zip(mine["v"], theirs["v"]))
    if mine.get("t") == "dict" and theirs.get("t") == "dict" and len(mine["v"]) == len(theirs["v"]):
        return all(same_desc(a[0], b[0]) and same_desc(a[1], b[1]) for a, b in zip(mine["v"], theirs["v"]))
    if mine.get("t") == "struct" and theirs.get("t") == "struct" and len(mine["v"]) == len(theirs["v"]):
        return all(a[0] == b[0] and same_desc(a[1], b[1]) for a, b in zip(mine["v"], theirs["v"]))
    return canon(mine) == canon(theirs)


def final_desc(v, val):
    """the description given to TLC: data values as the harness encoded them (after the cross-check
    against python's own description), others from python / identity classes"""
    k = v.kind
    if k in ("fn", "builtin"):
        if "ptr" not in val:
            raise vlib.MachineryError("pool value %s is not a function object (%s)" % (v.src(), val["type"]))
        return {"t": "fn" if val["type"] == "function" else "builtin", "id": val["ptr"]}
    if k == "host":
        d = v.desc()
        if d["t"] == "time":
            if canon(val.get("time")) != canon({"sec": d["sec"], "ns": d["ns"]}):
                raise vlib.MachineryError("pool construction: %s is not the instant intended: %s" % (v.src(), val.get("time")))
        elif canon(val.get("dur")) != canon(d["ns"]):
            raise vlib.MachineryError("pool construction: %s is not the duration intended: %s" % (v.src(), val.get("dur")))
        return d
    if k == "range":
        if val["type"] != "range" or val["enc"].get("len") != v.desc()["len"]:
            raise vlib.MachineryError("pool construction: %s -> %s" % (v.src(), val["enc"]))
        return v.desc()
    if not same_desc(v.desc(), val["enc"]):
        raise vlib.MachineryError("pool construction: %s evaluates to %s, intended %s" % (v.src(), canon(val["enc"]), canon(v.desc())))
    return val["enc"]


# ----------------------------------------------------------------------------
# matrices
# ----------------------------------------------------------------------------
BUILDS = ("normal", "generic", "limit_v")


def run_build(ctx, build, src, tag):
    fin, fout = ctx.path("%s-%s.in.json" % (tag, build)), ctx.path("%s-%s.out" % (tag, build))
    json.dump({"src": src}, open(fin, "w"))
    if build == "generic":
        ctx.vh(["c11-run", "-in", fin, "-out", fout], binary=ctx.build(overlay_generic=True))
    elif build == "limit_v":
        ctx.vh(["c11-run", "-in", fin, "-out", fout], limit_v=3000000)
    else:
        ctx.vh(["c11-run", "-in", fin, "-out", fout])
    recs = vlib.read_ndjson(fout)
    hdr = recs[0]
    vals = [r for r in recs if r["op"] == "val"]
    rows = [r for r in recs if r["op"] == "row"]
    if hdr["op"] != "header" or len(vals) != hdr["n"] or len(rows) != hdr["n"]:
        raise vlib.MachineryError("c11-run (%s): malformed output" % build)
    return hdr, vals, rows


def matrix_records(ctx, items, builds, tag):
    """run the harness on every build; returns (header, pool descs, TLC records, rows of build 1)"""
    src = pool_source(items)
    outs = [run_build(ctx, b, src, tag) for b in builds]
    hdr, vals, rows = outs[0]
    n = hdr["n"]
    if n != len(items):
        raise vlib.MachineryError("pool has %d values, expected %d" % (n, len(items)))
    descs = [final_desc(it[1], val) for it, val in zip(items, vals)]
    recs = []
    for r in rows:
        recs.append({"id": len(recs) + 1, "op": "row", "b": 1, "i": r["i"], "m": r["m"],
                     "hash": {"ok": r["hash"]["ok"], "oks": r["hash"]["oks"], "h": r["hash"]["h"]},
                     "hf": {"ok": r["hf"]["ok"], "v": r["hf"].get("v", [])}})
        if r["hf"].get("panic"):
            raise vlib.MachineryError("hash(%s): %s" % (items[r["i"] - 1][1].src(), r["hf"]["panic"]))
    for bi, (h2, v2, r2) in enumerate(outs[1:], start=2):
        # the recorded relations must be identical on every Int representation (raw hashes differ
        # between processes: string hashing is seeded per process)
        if h2["limit"] != hdr["limit"] or [canon(x["enc"]) for x in v2] != [canon(x["enc"]) for x in vals]:
            raise vlib.MachineryError("build %s: pool values differ from build %s" % (builds[bi - 1], builds[0]))
        for ra, rb in zip(rows, r2):
            if ra["hf"] != rb["hf"]:
                ctx.divergent.append((builds[bi - 1], "hash-builtin", ra["i"], 0, ra["hf"], rb["hf"]))
            if ra["m"] != rb["m"]:
                op = [o for o in OPNAMES if ra["m"][o] != rb["m"][o]][0]
                j = [k for k in range(n) if ra["m"][op][k] != rb["m"][op][k]][0]
                ctx.divergent.append((builds[bi - 1], op, ra["i"], j + 1, ra["m"][op][j], rb["m"][op][j]))
            recs.append({"id": len(recs) + 1, "op": "hash", "b": bi, "i": rb["i"],
                         "hash": {"ok": rb["hash"]["ok"], "oks": rb["hash"]["oks"], "h": rb["hash"]["h"]}})
    return hdr, descs, recs, rows


def tlc_validate(ctx, hdr, descs, sdescs, recs, tag):
    """returns (list of (id, law, j, k, count), n_checked, notfirst ids)"""
    fp, fr = ctx.path(tag + ".pool.ndjson"), ctx.path(tag + ".recs.ndjson")
    vlib.write_ndjson(fp, [{"n": len(descs), "limit": hdr["limit"], "s": len(sdescs)}] +
                      [{"v": d} for d in descs] + [{"v": d} for d in sdescs])
    vlib.write_ndjson(fr, recs)
    r = ctx.tlc("C11Trace", "C11Trace.cfg", env={"VERIF_POOL": fp, "VERIF_RECS": fr}, workers=vlib.NCPU,
                heap="12g", timeout=3000, tag=tag)
    bad, notfirst, checked = [], [], None
    ctx.tlc_notes = getattr(ctx, "tlc_notes", [])
    nbad0 = vlib.count_bad(r["out"])
    for l in r["printed"]:
        m = re.match(r'<<"NOTE", (\d+), "([^"]*)">>', l)
        if m:
            ctx.tlc_notes.append((int(m.group(1)), m.group(2)))
        m = re.match(r'<<"BAD", (\d+), "([^"]*)", (\d+), (\d+), (\d+)>>', l)
        if m:
            bad.append((int(m.group(1)), m.group(2), int(m.group(3)), int(m.group(4)), int(m.group(5))))
        m = re.match(r'<<"NOTFIRST", (\d+)>>', l)
        if m:
            notfirst.append(int(m.group(1)))
        m = re.match(r'<<"CHECKED", (\d+)>>', l)
        if m:
            checked = int(m.group(1))
        if l.startswith('<<"SPECBUG"'):
            raise vlib.MachineryError("Values.StableSortPerm contradicts IsStableSorted: " + l)
    if checked is None or r["error"] or r["rc"] != 0:
        raise vlib.MachineryError("TLC validation failed (rc=%s)\n%s" % (r["rc"], r["out"][-4000:]))
    if nbad0 != len(bad):
        raise vlib.MachineryError("C11Trace: TLC printed %d rejected records but %d were understood" % (nbad0, len(bad)))
    ctx.states += r["states"]
    ctx.transitions += r["transitions"]
    return bad, checked, notfirst


def kind_label(d):
    return "int" if d["t"] in ("int", "big") else d["t"]


# ----------------------------------------------------------------------------
# sorted / min / max
# ----------------------------------------------------------------------------
def sort_pools():
    num = [I(1), F(1.0), I(2), F(0.0), F(-0.0), V("float", NAN)]
    tup = [T(I(1), S("a")), T(I(1), S("b")), T(F(1.0), S("c")), T(I(2), S("d")), T(F(2.0), S("a")), T(I(0), S("e"))]
    big = [I(0), I(-1), I(3), F(2.0), F(0.5), F(-INF), F(INF), I((1 << 53) + 1), floatof(1 << 53), I(1 << 53), I(1 << 64),
           floatof(1 << 64), F(1e300), I(int(1e300)), I(-(1 << 64)), V("float", NAN, src='(-float("nan"))')]
    strs = [S(""), S("a"), S("b"), S("ab"), S("abcdefghijkl"), S("abcdefghijk~"), S("B"), S("é"), S("\x7f")]
    tup2 = [T(I(3), S("f")), T(F(3.0), S("g")), T(V("float", NAN), S("h")), T(F(INF), S("i")), T(I(1 << 64), S("j")),
            T(floatof(1 << 64), S("k")), T(F(-0.0), S("l")), T(F(0.0), S("m"))]
    lists = [L(), L(I(1)), L(F(1.0)), L(I(1), I(2)), L(I(1), I(2), I(0)), L(I(2))]
    others = [NONE, TRUE, FALSE, By(b"a"), By(b"b")]
    return num, tup, big, strs, tup2, lists, others


def sort_cases(ctx, rnd):
    num, tup, big, strs, tup2, lists, others = sort_pools()
    pool = num + tup + big + strs + tup2 + lists + others
    index = {id(v): k + 1 for k, v in enumerate(pool)}
    cases = []

    counter = [0]

    def emit(seq, keyed):
        idx = [index[id(v)] for v in seq]
        lst = "[" + ", ".join(v.src() for v in seq) + "]"
        ka = ", key = lambda t: t[0]" if keyed else ""
        # every third sequence uses the other call forms: a tuple as the iterable, min/max with
        # several positional arguments
        counter[0] += 1
        alt = counter[0] % 3 == 0
        it = ("(" + "".join(v.src() + ", " for v in seq) + ")") if alt else lst
        for rev in (False, True):
            cases.append({"op": "sorted", "s": idx, "key": "t0" if keyed else "id", "rev": rev,
                          "src": "sorted(%s%s%s)" % (it, ka, ", reverse = True" if rev else "")})
        for op in ("min", "max"):
            if alt and len(seq) >= 2:
                src = "%s(%s%s)" % (op, ", ".join(v.src() for v in seq), ka)
            else:
                src = "%s(%s%s)" % (op, lst, ka)
            cases.append({"op": op, "s": idx, "key": "t0" if keyed else "id", "rev": False, "src": src})
    maxlen = 4 if ctx.quick else 5
    for n in range(0, maxlen + 1):
        for seq in itertools.product(num, repeat=n):
            emit(seq, False)
        for seq in itertools.product(tup, repeat=n):
            emit(seq, False)
            emit(seq, True)
    nrand = 300 if ctx.quick else 4000
    for _ in range(nrand):
        n = rnd.randint(2, 40)
        cls = rnd.randrange(6)
        if cls == 0:
            emit([rnd.choice(num + big) for _ in range(n)], False)
        elif cls == 1:
            emit([rnd.choice(strs) for _ in range(n)], False)
        elif cls == 2:
            seq = [rnd.choice(tup + tup2) for _ in range(n)]
            emit(seq, True)
            emit(seq, False)
        elif cls == 3:
            emit([rnd.choice(lists) for _ in range(n)], False)
        elif cls == 4:
            # two mutually unordered classes: must fail (every comparison sort meets a cross pair)
            a, b = rnd.sample([num, strs, lists, others[1:3], others[3:5], tup], 2)
            seq = [rnd.choice(a) for _ in range(rnd.randint(1, 6))] + [rnd.choice(b) for _ in range(rnd.randint(1, 6))]
            rnd.shuffle(seq)
            emit(seq, False)
        else:
            emit([rnd.choice(others[1:3]) for _ in range(n)], False)
    # singletons and unordered singletons (no comparison is needed), None
    for v in (others[0], others[1], others[3], lists[0]):
        emit([v], False)
    emit([NONE, NONE], False)       # None is not ordered in the implementation; see C11Trace!Acc
    cases = [c for c in cases if not (c["s"] == [index[id(NONE)]] * 2)]   # None vs None: left to the matrix part
    for k, c in enumerate(cases):
        c["id"] = k + 1
    return pool, cases


def eval_cases(ctx, cases, tag, build="normal"):
    fin, fout = ctx.path(tag + ".in"), ctx.path(tag + ".out")
    vlib.write_ndjson(fin, [{"id": c["id"], "src": c["src"]} for c in cases])
    if build == "generic":
        ctx.vh(["eval", "-in", fin, "-out", fout], binary=ctx.build(overlay_generic=True))
    elif build == "limit_v":
        ctx.vh(["eval", "-in", fin, "-out", fout], limit_v=3000000)
    else:
        ctx.vh(["eval", "-in", fin, "-out", fout])
    res = {r["id"]: r for r in vlib.read_ndjson(fout)}
    if len(res) != len(cases):
        raise vlib.MachineryError("harness returned %d results for %d cases" % (len(res), len(cases)))
    return res


def sort_record(c, r, lookup):
    rec = {"id": c["id"], "op": c["op"], "s": c["s"], "key": c["key"], "rev": c["rev"]}
    if not r["ok"]:
        rec["res"] = {"ok": False}
    elif c["op"] == "sorted":
        if r["v"]["t"] != "list":
            rec["res"] = {"ok": True, "v": [0]}
        else:
            rec["res"] = {"ok": True, "v": [lookup.get(canon(e), 0) for e in r["v"]["v"]]}
    else:
        rec["res"] = {"ok": True, "v": lookup.get(canon(r["v"]), 0)}
    return rec


def sort_pool_descs(ctx, pool):
    src = "[" + ", ".join(v.src() for v in pool) + "]"
    r = eval_cases(ctx, [{"id": 1, "src": src}], "spool")[1]
    if not r["ok"]:
        raise vlib.MachineryError("sort pool failed: %s" % r.get("err"))
    encs = r["v"]["v"]
    for v, e in zip(pool, encs):
        if not same_desc(v.desc(), e):
            raise vlib.MachineryError("sort pool construction: %s evaluates to %s" % (v.src(), canon(e)))
    lookup = {}
    for k, e in enumerate(encs):
        if canon(e) in lookup:
            raise vlib.MachineryError("sort pool values %d and %d are indistinguishable" % (lookup[canon(e)], k + 1))
        lookup[canon(e)] = k + 1
    return encs, lookup


# ----------------------------------------------------------------------------
def matrix_signature(law, descs, i, j, k):
    ks = [kind_label(descs[i - 1])]
    if j:
        ks.append(kind_label(descs[j - 1]))
    if k:
        ks.append(kind_label(descs[k - 1]))
    return "law=%s/%s" % (law, ",".join(ks))


def recheck_matrix(ctx, items, sel, builds, law, tag):
    """re-execute the values involved in a rejected law instance alone; True if it is rejected again"""
    sub = [items[a - 1] for a in sel]
    hdr, descs, recs, _ = matrix_records(ctx, sub, builds, tag)
    bad, _, _ = tlc_validate(ctx, hdr, descs, [], recs, tag)
    return [b for b in bad if b[1] == law], bad


def run(ctx):
    rnd = random.Random(ctx.seed)
    ctx.divergent = []
    items = pool_items(ctx.quick)
    # the order of the pool is irrelevant to the property: shuffle it with the seed so that
    # hash-table layouts and identity classes differ between seeds
    rnd.shuffle(items)
    ctx.log("pool of %d values" % len(items))
    # design level (P-E): the oracle itself satisfies the laws on a small universe; StableSortPerm is the
    # unique stable sort for all key sequences up to length 4
    ctx.tlc_ok("C11MC", "C11MC.cfg", workers=4, timeout=1200, heap="4g")
    ctx.log("design-level check of Values.tla passed")
    hdr, descs, recs, rows = matrix_records(ctx, items, BUILDS, "m")
    n = len(items)
    nrow = len(recs)
    # sorting
    spool, cases = sort_cases(ctx, rnd)
    sdescs, lookup = sort_pool_descs(ctx, spool)
    ctx.log("%d sorted/min/max cases over a pool of %d" % (len(cases), len(spool)))
    res = eval_cases(ctx, cases, "sort")
    for b in BUILDS[1:]:
        rb = eval_cases(ctx, cases, "sort-" + b, build=b)
        for c in cases:
            x, y = res[c["id"]], rb[c["id"]]
            if (x["ok"], canon(x.get("v"))) != (y["ok"], canon(y.get("v"))):
                ctx.divergent.append((b, c["op"], c["src"], 0, canon(x.get("v", x.get("err"))), canon(y.get("v", y.get("err")))))
    ctx.log("sort cases evaluated on %d builds" % len(BUILDS))
    panics = [c for c in cases if res[c["id"]].get("panic")]
    srecs = []
    for c in cases:
        rec = sort_record(c, res[c["id"]], lookup)
        rec["id"] = nrow + c["id"]
        srecs.append(rec)
    bad, checked, notfirst = tlc_validate(ctx, hdr, descs, sdescs, recs + srecs, "all")
    ctx.log("TLC validated %d records: %d law/conformance rejections" % (checked, len(bad)))
    if checked != len(recs) + len(srecs):
        raise vlib.MachineryError("TLC checked %d of %d records" % (checked, len(recs) + len(srecs)))

    # ---- re-execute every rejected instance alone before reporting it
    byid = {c["id"] + nrow: c for c in cases}
    seen = set()
    bad.sort()
    MAXSIG = 12          # every reported signature costs one re-execution (harness + TLC)
    for rid, law, j, k, cnt in bad:
        if len(seen) >= MAXSIG:
            ctx.log("more rejected records exist; only the first %d signatures are re-executed and reported" % MAXSIG)
            break
        if rid <= nrow:
            rec = recs[rid - 1]
            i = rec["i"]
            sel = [i] + ([j] if j and j != i else []) + ([k] if k and k not in (i, j) else [])
            sig = matrix_signature(law, descs, i, j, k)
            if sig in seen:
                continue
            seen.add(sig)
            builds = BUILDS if rec["op"] == "hash" else BUILDS[:1]
            again, allbad = recheck_matrix(ctx, items, sel, builds, law, "re%d" % len(seen))
            if not again:
                raise vlib.MachineryError("rejected instance %s of values %s is not reproducible alone" % (law, sel))
            what = "%s violated by %s (%d instances in this row%s)" % (
                law, "; ".join(items[a - 1][1].src()[:80] for a in sel), cnt,
                "" if rec["op"] == "row" else ", build " + BUILDS[rec["b"] - 1])
            if rec["op"] == "row":
                ops = [o for o in OPNAMES]
                jj = j if j else i
                what += " observed " + ", ".join("%s=%s" % (o, rec["m"][o][jj - 1]) for o in ops)
            ctx.violation(sig, what, {"kind": "matrix", "law": law, "builds": list(builds),
                                      "values": [items[a - 1][1].src() for a in sel],
                                      "pids": [items[a - 1][3] for a in sel]})
        else:
            c = byid[rid]
            sig = "%s/%s%s" % (law, c["key"], "/reverse" if c["rev"] else "")
            if sig in seen:
                continue
            seen.add(sig)
            r2 = eval_cases(ctx, [c], "re-sort%d" % len(seen))[c["id"]]
            if sort_record(c, r2, lookup)["res"] != sort_record(c, res[c["id"]], lookup)["res"]:
                raise vlib.MachineryError("case %s not reproducible" % c["src"])
            ctx.violation(sig, "%s -> %s, specification disagrees" % (c["src"][:300], canon(res[c["id"]].get("v", res[c["id"]].get("err")))[:300]),
                          {"kind": "sort", "case": c})
    for c in panics:
        ctx.violation("%s/panic" % c["op"], "%s panics: %s" % (c["src"], res[c["id"]]["panic"]), {"kind": "sort", "case": c})
    for d in ctx.divergent[:1]:
        ctx.violation("int-representation/%s" % d[1], "build %s differs from the normal build: %s" % (d[0], d[1:]),
                      {"kind": "divergent", "what": list(d)})

    # ---- evidence
    per_class = {}
    for it in items:
        per_class[it[0]] = per_class.get(it[0], 0) + 1
    entries = sum(1 for r in rows for o in OPNAMES for _ in r["m"][o])
    errors = sum(1 for r in rows for o in OPNAMES for c in r["m"][o] if c == 2)
    eqpairs = sum(1 for r in rows for c in r["m"]["eq"] if c == 1) - n
    ltpairs = sum(1 for r in rows for c in r["m"]["lt"] if c == 1)
    tri_eq = sum(1 for r in rows for j, c in enumerate(r["m"]["eq"]) if c == 1 for c2 in rows[j]["m"]["eq"] if c2 == 1)
    tri_lt = sum(1 for r in rows for j, c in enumerate(r["m"]["lt"]) if c == 1 for c2 in rows[j]["m"]["lt"] if c2 == 1)
    ctx.cov["evaluations"] = entries * len(BUILDS) + len(cases) * len(BUILDS) + 3 * n * len(BUILDS)
    ctx.cov["traces_validated_against_impl"] = checked
    ctx.cov["distinct_nontrivial"] = entries - errors + len({c["src"] for c in cases})
    ctx.cov["pool_size"] = n
    ctx.cov["pool_per_class"] = per_class
    ctx.cov["ordered_pairs"] = n * n
    ctx.cov["triples_examined_by_TLC"] = n * n * n
    ctx.cov["matrix_entries_per_build"] = entries
    ctx.cov["entries_that_are_errors"] = errors
    ctx.cov["equal_pairs_of_distinct_pool_positions"] = eqpairs
    ctx.cov["less_than_pairs"] = ltpairs
    ctx.cov["transitivity_instances_with_true_premises"] = {"eq": tri_eq, "lt": tri_lt}
    ctx.cov["hash_samples"] = 3 * n * len(BUILDS)
    ctx.cov["int_representation_builds"] = list(BUILDS)
    ctx.cov["sort_cases"] = len(cases)
    ctx.cov["sort_cases_per_op"] = {o: sum(1 for c in cases if c["op"] == o) for o in ("sorted", "min", "max")}
    ctx.cov["min_max_not_first_extremum"] = len(notfirst)
    ctx.cov["compare_limit"] = hdr["limit"]
    for rid, what in sorted(set(getattr(ctx, "tlc_notes", []))):
        if rid <= nrow:
            ctx.notes.append("%s: %s (not judged: outside the property)" % (what, items[recs[rid - 1]["i"] - 1][1].src()))
    ctx.samples = [{"x": items[r["i"] - 1][1].src()[:60], "y": items[j][1].src()[:60],
                    "observed": {o: r["m"][o][j] for o in OPNAMES}}
                   for r in rows[:: max(1, n // 4)] for j in (rnd.randrange(n),)][:5]
    ctx.samples += [{"src": c["src"][:120], "observed": canon(res[c["id"]].get("v", "error"))[:160]}
                    for c in cases[:: max(1, len(cases) // 3)]][:3]
    ctx.assumptions = [
        "values are described to TLC by the harness encoding (enc.go) after a cross-check against the generator's own description; "
        "functions/built-ins by Go pointer identity classes; time values by (Unix seconds, nanoseconds) from Go's time package",
        "NaN == NaN and NaN greater than every number, as the property states (doc/spec.md describes IEEE comparisons instead)",
        "a comparison may fail with an error only if the element-wise comparison would descend deeper than starlark.CompareLimit",
        "None < None: doc/spec.md lists NoneType as ordered, the implementation rejects it; both accepted",
        "min/max: doc/spec.md does not say which of several extrema is returned; only 'is an extremum' is judged (first-ness counted)",
        "structs: default constructor only",
    ]
    return ctx.finish(rule="pool of values listed in checks/c11.py (every class of the property's quantifier), ALL ordered pairs x 10 operators "
                           "on 3 Int-representation builds, all triples derived in TLC; sorted/min/max: all sequences of length <= %d over two 6-value pools "
                           "with duplicate keys x {key, reverse} plus seeded random sequences to length 40; distinct = matrix entries with a Boolean answer + distinct sort expressions"
                           % (4 if ctx.quick else 5),
                      exhaustive=True)


def replay(ctx, path):
    d = json.load(open(path))["replay"]
    ctx.divergent = []
    if d["kind"] == "matrix":
        full = pool_items(False)
        items = [full[p] for p in d["pids"]]
        again, allbad = recheck_matrix(ctx, items, list(range(1, len(items) + 1)), d["builds"], d["law"], "rp")
        print("replay %s: law %s over %s : %s" % (path, d["law"], "; ".join(d["values"]), "REJECTED again %s" % again if again else "accepted"))
        return 1 if again else 0
    if d["kind"] == "sort":
        c = d["case"]
        spool, _ = sort_cases(ctx, random.Random(ctx.seed))
        sdescs, lookup = sort_pool_descs(ctx, spool)
        r = eval_cases(ctx, [c], "rp")[c["id"]]
        rec = sort_record(c, r, lookup)
        rec["id"] = 1
        bad, _, _ = tlc_validate(ctx, {"limit": 10}, [], sdescs, [rec], "rp")
        print("replay %s: %s -> %s : %s" % (path, c["src"], canon(r.get("v", r.get("err")))[:300], "REJECTED by spec" if bad else "accepted"))
        return 1 if bad else 0
    print("replay %s: the builds of the Int representation diverged; re-running the check" % path)
    return run(ctx)
