"""C10  Integer and numeric operations are exact.

code -> spec record validation (P-A).  The operand pool of the property's
quantifier is generated here (seeded), every case is a Starlark expression
evaluated by the real pipeline (`vh eval`) on THREE builds - normal, the generic
Int representation (int_generic.go via -overlay) and the normal binary under
`ulimit -v` (the smallints == 0 fallback of int_posix64.go) - the three result
streams must be identical, and TLC validates every record against the exact
semantics of spec/BitInt.tla, spec/Float64.tla and spec/NumOps.tla through
spec/C10Trace.tla.  Design checks: BitIntMC, Float64MC, NumOpsMC.

Verdicts of the oracle: ok / tol (failed although an exact result exists: allowed
for built-ins, "either return the exact result or fail") / bad (wrong value, or
success where the spec mandates a failure).
"""
import json, math, os, random, re, struct, sys
from fractions import Fraction
import vlib

LEVEL = "exploration"
NONE = {"some": False}
I64 = 1 << 63


def some(x):
    return {"some": True, "v": x}


# ------------------------------------------------------------------ encodings
def limbs(n):
    out = []
    while n:
        out.append(n & 0x7FFF)
        n >>= 15
    return out


def big(n):
    return {"neg": n < 0, "m": limbs(abs(n))}


def unbig(b):
    x = 0
    for l in reversed(b["m"]):
        x = (x << 15) | l
    return -x if b["neg"] else x


def fbits(f):
    return struct.unpack(">Q", struct.pack(">d", f))[0]


def fl(f):
    b = fbits(f)
    m = b & ((1 << 52) - 1)
    return {"s": b >> 63, "e": (b >> 52) & 0x7FF, "m": [(m >> (15 * i)) & 0x7FFF for i in range(4)]}


def isrc(n):
    return str(n) if n >= 0 else "(-%d)" % -n


def fsrc(f):
    if f != f:
        return 'float("nan")'
    if f in (math.inf, -math.inf):
        return 'float("%sinf")' % ("-" if f < 0 else "")
    s = repr(f)
    return "(%s)" % s if s.startswith("-") else s


def num(t, v):
    return isrc(v) if t == "int" else fsrc(v)


def enc(t, v):
    return big(v) if t == "int" else fl(v)


def codes(s):
    return [ord(c) for c in s]


# ------------------------------------------------------------------ operand pool
CENTERS = [0, 1 << 15, 1 << 30, 1 << 31, 1 << 32, 1 << 53, 1 << 63, 1 << 64]
SPECIAL_INTS = sorted({s * c + d for c in CENTERS for s in (1, -1) for d in range(-3, 4)})


def rand_int(rnd, maxbits=200):
    bits = rnd.randint(1, maxbits)
    k = rnd.random()
    if k < 0.6:
        n = rnd.getrandbits(bits) | (1 << (bits - 1))
    elif k < 0.75:
        n = (1 << bits) - 1
    elif k < 0.9:
        n = (1 << bits) + rnd.randint(-2, 2)
    else:
        n = (rnd.getrandbits(bits) | (1 << (bits - 1))) & ~((1 << (bits // 2)) - 1)
    return -n if rnd.random() < 0.5 else n


def pick_int(rnd):
    return rnd.choice(SPECIAL_INTS) if rnd.random() < 0.55 else rand_int(rnd)


MAXF = 1.7976931348623157e308
MINSUB = 5e-324
MINNORM = 2.2250738585072014e-308


def mkfloat(s, e, m):
    return struct.unpack(">d", struct.pack(">Q", (s << 63) | (e << 52) | m))[0]


def special_floats():
    out = [0.0, -0.0, MINSUB, -MINSUB, 2 * MINSUB, MINNORM, -MINNORM, mkfloat(0, 0, (1 << 52) - 1), MAXF, -MAXF,
           math.inf, -math.inf, math.nan, 0.5, -0.5, 1.5, -1.5, 2.5, -2.5, 3.5, 0.25, 0.75, -0.75,
           0.49999999999999994, 0.5000000000000001, 4503599627370495.5, -4503599627370495.5, 4503599627370496.5,
           2147483647.5, -2147483648.5, 4294967295.5, 1e22, 1e23, 1e100, -1e100, 1e300, 1e-300, 0.1, -0.1, 1 / 3]
    for k in [1, 2, 3, 1 << 15, 1 << 30, 1 << 31, 1 << 32, 1 << 53, 1 << 63, 1 << 64, 10 ** 22]:
        for s in (1, -1):
            for d in (-2, -1, 0, 1, 2):
                f = float(s * k + d)
                out += [f, math.nextafter(f, math.inf), math.nextafter(f, -math.inf)]
    res, seen = [], set()
    for f in out:
        b = fbits(f)
        if b not in seen:
            seen.add(b)
            res.append(f)
    return res


SPECIAL_FLOATS = special_floats()


def rand_float(rnd):
    k = rnd.random()
    if k < 0.3:
        return mkfloat(rnd.getrandbits(1), rnd.randint(0, 2046), rnd.getrandbits(52))
    if k < 0.5:   # moderate exponents: fractions and integers up to 2^70
        return mkfloat(rnd.getrandbits(1), rnd.randint(1023 - 10, 1023 + 70), rnd.getrandbits(52))
    if k < 0.7:   # integer-valued
        n = rand_int(rnd, 120)
        return float(n)
    if k < 0.85:  # n / 2^j
        return rnd.randint(-(1 << 20), 1 << 20) / (1 << rnd.randint(1, 12))
    return mkfloat(rnd.getrandbits(1), 0, rnd.getrandbits(52))   # subnormal


def pick_float(rnd):
    return rnd.choice(SPECIAL_FLOATS) if rnd.random() < 0.55 else rand_float(rnd)


def floats_near_int(n):
    """floats adjacent to the integer n (when n converts)"""
    try:
        f = float(n)
    except OverflowError:
        return [MAXF if n > 0 else -MAXF, math.inf if n > 0 else -math.inf]
    out = [f, math.nextafter(f, math.inf), math.nextafter(f, -math.inf)]
    if abs(n) < (1 << 51):
        out += [n + 0.5, n - 0.5]
    return out


# ------------------------------------------------------------------ case families
class Gen:
    def __init__(self, ctx):
        self.ctx = ctx
        self.rnd = random.Random(ctx.seed)
        self.out = []
        self.q = ctx.quick

    def n(self, quick, thorough):
        # thorough: about 290 000 cases (measured 446 000 cases = 24 min on the loaded 16-core sandbox)
        return quick if self.q else int(thorough * 0.65)

    def add(self, op, src, **kw):
        c = {"op": op, "src": src}
        c.update(kw)
        self.out.append(c)

    # ---- integer operators
    def arith(self):
        rnd = self.rnd
        for o in ("+", "-", "*", "&", "|", "^"):
            for _ in range(self.n(500, 12000)):
                x, y = pick_int(rnd), pick_int(rnd)
                self.add("bin", "%s %s %s" % (isrc(x), o, isrc(y)), o=o, x=big(x), y=big(y))
        for _ in range(self.n(1200, 30000)):
            x, y = pick_int(rnd), pick_int(rnd)
            if rnd.random() < 0.15:      # divisors close to the dividend / small divisors
                y = rnd.choice([1, -1, 2, -2, 3, -3, 7, x, -x, x + 1, x - 1, (x >> 1) or 1, 0])
            self.add("divmod", "(%s // %s, %s %% %s)" % (isrc(x), isrc(y), isrc(x), isrc(y)), x=big(x), y=big(y))
        for _ in range(self.n(300, 6000)):
            x, y = pick_int(rnd), pick_int(rnd)
            o = rnd.choice(["//", "%"])
            self.add("div1", "%s %s %s" % (isrc(x), o, isrc(y)), o=o, x=big(x), y=big(y))
        for o in ("-", "+", "~"):
            for x in SPECIAL_INTS if not self.q else rnd.sample(SPECIAL_INTS, 40):
                self.add("unary", "%s%s" % (o, isrc(x)), o=o, x=big(x))
            for _ in range(self.n(60, 1500)):
                x = rand_int(rnd)
                self.add("unary", "%s%s" % (o, isrc(x)), o=o, x=big(x))
        counts = list(range(0, 70)) + [100, 127, 128, 200, 255, 256, 500, 511, 512, 513, 1000, 4095, 65535, 65536,
                                      (1 << 31) - 1, 1 << 31, (1 << 31) + 1, (1 << 32) - 1, 1 << 32, (1 << 32) + 1,
                                      (1 << 32) + 5, 1 << 63, 1 << 64, (1 << 64) + 3, -1, -2, -(1 << 31), -(1 << 31) - 1,
                                      -(1 << 32), -(1 << 64)]
        for _ in range(self.n(900, 20000)):
            x = pick_int(rnd)
            y = rnd.choice(counts)
            if rnd.random() < 0.5:
                self.add("shl", "%s << %s" % (isrc(x), isrc(y)), x=big(x), y=big(y))
            else:
                self.add("shr", "%s >> %s" % (isrc(x), isrc(y)), x=big(x), y=big(y))

    # ---- comparisons
    def cmp_case(self, xt, x, yt, y):
        a, b = num(xt, x), num(yt, y)
        src = "(%s < %s, %s <= %s, %s > %s, %s >= %s, %s == %s, %s != %s)" % (a, b, a, b, a, b, a, b, a, b, a, b)
        self.add("cmp", src, xt=xt, x=enc(xt, x), yt=yt, y=enc(yt, y))

    def compare(self):
        rnd = self.rnd
        for _ in range(self.n(500, 12000)):
            x = pick_int(rnd)
            y = rnd.choice([x, x + 1, x - 1, -x, pick_int(rnd), pick_int(rnd)])
            self.cmp_case("int", x, "int", y)
        for _ in range(self.n(1500, 40000)):
            x = pick_int(rnd)
            k = rnd.random()
            if k < 0.6:
                f = rnd.choice(floats_near_int(x))
            elif k < 0.8:
                f = pick_float(rnd)
            else:
                f = rnd.choice([math.nan, math.inf, -math.inf, 0.0, -0.0, MINSUB, -MINSUB, MAXF, -MAXF])
            if rnd.random() < 0.5:
                self.cmp_case("int", x, "float", f)
            else:
                self.cmp_case("float", f, "int", x)
        for _ in range(self.n(500, 12000)):
            f = pick_float(rnd)
            k = rnd.random()
            g = f if k < 0.15 else -f if k < 0.25 else math.nextafter(f, math.inf) if k < 0.35 else pick_float(rnd)
            self.cmp_case("float", f, "float", g)

    # ---- literals, parsing, formatting
    DIG = "0123456789abcdefghijklmnopqrstuvwxyz"

    def rand_digits(self, base, n):
        rnd = self.rnd
        ds = [rnd.randrange(base) for _ in range(n)]
        if ds[0] == 0 and n > 1:
            ds[0] = rnd.randrange(1, base)
        return ds

    def text_of(self, ds, upper=False):
        s = "".join(self.DIG[d] for d in ds)
        return s.upper() if upper else s

    def literals(self):
        rnd = self.rnd
        for _ in range(self.n(300, 6000)):
            base = rnd.choice([10, 16, 8, 2])
            big_one = base in (10, 16) or rnd.random() < 0.15     # octal/binary literals >= 2^63 are rejected by the scanner
            nd = rnd.randint(1, {10: 62, 16: 52, 8: 68, 2: 205}[base] if big_one else {8: 21, 2: 63}[base])
            ds = self.rand_digits(base, nd)
            pre = {10: "", 16: rnd.choice(["0x", "0X"]), 8: rnd.choice(["0o", "0O"]), 2: rnd.choice(["0b", "0B"])}[base]
            self.add("lit", pre + self.text_of(ds, rnd.random() < 0.3), digs=ds, base=base)

    def parsing(self):
        rnd = self.rnd
        bases = [None, 0, 2, 3, 8, 10, 12, 16, 25, 34, 35, 36] + list(range(2, 37))
        for _ in range(self.n(1500, 30000)):
            base = rnd.choice(bases)
            k = rnd.random()
            if k < 0.08:
                base = rnd.choice([1, 37, -1, -16, 100])
            digbase = (base if base not in (None, 0) else 10) if k >= 0.08 else 10
            pre = ""
            if rnd.random() < 0.35:
                pre = rnd.choice(["0x", "0X", "0b", "0B", "0o", "0O"])
                if rnd.random() < 0.6:
                    digbase = {"x": 16, "b": 2, "o": 8}[pre[1].lower()]
            digbase = min(max(digbase, 2), 36)
            nd = rnd.randint(1, 45)
            ds = self.rand_digits(digbase, nd)
            if rnd.random() < 0.1:
                ds[rnd.randrange(nd)] = min(35, digbase + rnd.randint(0, 1))     # a digit equal to / above the base
            txt = self.text_of(ds, rnd.random() < 0.3)
            if rnd.random() < 0.08:
                txt = "0" + txt           # redundant leading zero
            sign = rnd.choice(["", "", "+", "-"])
            txt = sign + pre + txt
            if rnd.random() < 0.06:
                txt = rnd.choice(["", "-", "+", "0x", "-0x", "0b", "+-1", "-+1", "1 ", " 1", "1_0", "1__0", "_1", "0x_1",
                                  "1.0", "1e3", "0x-1", "--1", "0", "-0", "+0", "00", "0o", "0O7", "0B", "z", "Z"])
            b = 10 if base is None else base
            src = 'int("%s")' % txt if base is None else 'int("%s", %d)' % (txt, base)
            self.add("parse", src, txt=codes(txt), base=b)

    def parsing_boundaries(self):
        """int(text[, base]) at the representation boundaries: +-(2^k + d) spelled in several bases, with and without prefix"""
        def digits(n, base):
            out = []
            while n:
                out.append(n % base)
                n //= base
            return list(reversed(out)) or [0]
        for k in (7, 15, 16, 31, 32, 53, 62, 63, 64, 65, 127, 128):
            for dlt in (-2, -1, 0, 1, 2):
                mag = (1 << k) + dlt
                for sign in ("", "-", "+"):
                    for base, pre in ((None, ""), (10, ""), (0, "0x"), (16, ""), (16, "0X"), (2, ""), (0, "0b"), (8, ""), (0, "0o"), (36, ""), (7, "")):
                        digbase = {"0x": 16, "0X": 16, "0b": 2, "0o": 8}.get(pre, base or 10)
                        txt = sign + pre + self.text_of(digits(mag, digbase), (k + dlt) % 2 == 0)
                        src = 'int("%s")' % txt if base is None else 'int("%s", %d)' % (txt, base)
                        self.add("parse", src, txt=codes(txt), base=10 if base is None else base)

    ROUTES = [(-3, "((1 << 40) | (-3))"), (-1, "((-(1 << 40)) | ((1 << 40) - 1))"), (-7, "((-(1 << 40)) | (-7))"),
              (5, "(((1 << 70) + 5) & 255)"), (5, "(((1 << 70) + 5) ^ (1 << 70))"), (5, "((5 << 70) >> 70)"),
              (-3, "((1 << 70) - (1 << 70) - 3)"), (1, "((1 << 70) // (1 << 70))"), (3, "((1 << 70) % ((1 << 70) - 3))"),
              (-1, "((-(1 << 70)) // (1 << 70))"), (-1, "(~(1 << 70) + (1 << 70))"), (0, "((1 << 70) * 0)"), (0, "((1 << 70) & 1)"),
              (-(1 << 31), "((-(1 << 62)) // (1 << 31))"), ((1 << 31) - 1, "(((1 << 64) >> 33) - 1)"), (2, "((1 << 71) // (1 << 70))"),
              (3, 'int("3")'), (3, "int(3.0)"), (2, "(-(-(1 << 70)) - (1 << 70) + 2)"), (1, "((1 << 70) ** 0)" if False else "(((1 << 70) | 1) & 1)"),
              ((1 << 62), "((1 << 124) >> 62)"), (-(1 << 63), "((-(1 << 126)) >> 63)"), ((1 << 63) - 1, "((1 << 63) - 1)"), (7, "(((1 << 64) + 7) % (1 << 64))")]

    def routes(self):
        """small integers reached through big intermediate values behave exactly like their literals in every context that
        looks at an integer's representation (index, repetition, shift count, range, hash / dict key, conversions)"""
        ctx = "[X, X + 0, X * 1, -X, X // 1, X % 1000003, X & -1, X | 0, X ^ 0, ~X, X << 1, X >> 1, abs(X), str(X), repr(X), \"%d|%x\" % (X, X), " \
              "float(X), int(float(X)) if -(1 << 53) < X and X < (1 << 53) else 0, X == X + 0, X < X + 1, {X: 1}.get(X + 0), {X + 0: 1}.get(X), X in {X + 0: 1}, len(set([X, X + 0])), " \
              "(X,) == (X + 0,), [10, 20, 30, 40, 50, 60, 70, 80][X] if -8 <= X and X < 8 else 0, \"ab\" * X if -6 < X and X < 6 else 0, [1] * X if -6 < X and X < 6 else 0, " \
              "(1 << X) if 0 <= X and X < 80 else 0, (1 << 90) >> X if 0 <= X and X < 80 else 0, list(range(X)) if -9 < X and X < 9 else len(range(X)), " \
              "list(range(0, 20, X)) if X > 0 and X < 30 else 0, range(100)[X] if -100 <= X and X < 100 else 0, \"abcdefgh\"[X:] if True else 0, bool(X), max(X, 0), sorted([X, 0, X + 0])]"
        for n, rt in self.ROUTES:
            src = "(lambda X: %s)(%s), (lambda X: %s)(%s)" % (ctx, rt, ctx, isrc(n))
            self.add("route", "(" + src + ")", x=big(n))

    def formatting(self):
        rnd = self.rnd
        forms = [("str", "str(%s)"), ("repr", "repr(%s)"), ("d", '"%%d" %% %s'), ("s", '"%%s" %% %s'), ("x", '"%%x" %% %s'),
                 ("X", '"%%X" %% %s'), ("o", '"%%o" %% %s'), ("fmt", '"{}".format(%s)'), ("d", '"%%d" %% (%s,)')]
        for _ in range(self.n(900, 20000)):
            x = pick_int(rnd)
            f, pat = rnd.choice(forms)
            self.add("fmt", pat % isrc(x), f=f, x=big(x))
        for _ in range(self.n(200, 4000)):
            f = pick_float(rnd)
            if abs(f) > 1e80 and f == f and abs(f) != math.inf and rnd.random() < 0.8:
                f = f / 1e60 if abs(f) < 1e140 else float(rand_int(rnd, 90))
            self.add("fmtf", '"%%d" %% %s' % fsrc(f), a=fl(f))

    # ---- conversions
    def conversions(self):
        rnd = self.rnd
        tops = [(1 << 1024) - (1 << 970) + d for d in (-2, -1, 0, 1)] + [1 << 1023, (1 << 1024) - 1, 1 << 1024, 1 << 1100]
        for _ in range(self.n(1200, 30000)):
            k = rnd.random()
            if k < 0.5:
                x = pick_int(rnd)
            elif k < 0.9:     # more than 53 significant bits: ties and near-ties
                bits = rnd.randint(54, 200)
                hi = rnd.getrandbits(53) | (1 << 52)
                sh = bits - 53
                lowc = rnd.choice([0, 1, (1 << (sh - 1)) - 1, 1 << (sh - 1), (1 << (sh - 1)) + 1, (1 << sh) - 1, rnd.getrandbits(sh)])
                x = (hi << sh) | (lowc & ((1 << sh) - 1))
                x = -x if rnd.random() < 0.5 else x
            else:
                x = rnd.choice(tops) * rnd.choice([1, -1])
            self.add("float_of_int", "float(%s)" % isrc(x), x=big(x))
        for _ in range(self.n(800, 20000)):
            f = pick_float(rnd)
            if abs(f) > 1e150 and abs(f) != math.inf and rnd.random() < 0.9:
                f = float(rand_int(rnd, 200))
            self.add("int_of_float", "int(%s)" % fsrc(f), a=fl(f))
        # decimal text -> float (float("...") and float literals)
        tricky = ["9007199254740993", "9007199254740992.9999", "9007199254740993.0000000001", "4.9e-324", "2.47e-324",
                  "2.4703282292062327e-324", "2.4703282292062328e-324", "1.7976931348623157e308", "1.7976931348623158e308",
                  "1.797693134862315807e308", "1.797693134862315808e308", "1e309", "1e-400", "0.1", "0.30000000000000004",
                  "2.2250738585072011e-308", "2.2250738585072014e-308", "1e23", "8.41e21", "5e-324", "0e500", "0.0e-500",
                  "123456789012345678901234567890.123456789", "0.000000000000000000000000000001e30", "1.", ".5", "1e+5"]
        for t in tricky:
            for neg in ("", "-"):
                self.add_decimal(neg + t, via=rnd.choice(["call", "call", "lit"]))
        for _ in range(self.n(500, 12000)):
            nd = rnd.randint(1, 30)
            ds = "".join(str(d) for d in self.rand_digits(10, nd))
            k = rnd.randint(0, nd)
            e = rnd.choice([0, 0, rnd.randint(-30, 30), rnd.randint(-345, 310)])
            t = (ds[:k] or "0") + "." + ds[k:] + ("e%d" % e if e or rnd.random() < 0.3 else "")
            if rnd.random() < 0.2:
                t = ds + ("e%d" % e if e else "")
            self.add_decimal(rnd.choice(["", "", "-"]) + t, via=rnd.choice(["call", "lit"]))
        # halfway cases between adjacent floats, written out exactly in decimal
        for _ in range(self.n(150, 4000)):
            f = abs(rand_float(rnd))
            if f != f or f == math.inf or f > 1e60 or f < 1e-25:
                f = rnd.random() * 10 ** rnd.randint(-5, 20)
            g = math.nextafter(f, math.inf)
            mid = (Fraction(f) + Fraction(g)) / 2 + rnd.choice([0, 0, Fraction(1, 10 ** 60), -Fraction(1, 10 ** 60)])
            # exact decimal expansion of a dyadic rational
            den = mid.denominator
            p2 = 0
            while den % 2 == 0:
                den //= 2
                p2 += 1
            p5 = 0
            while den % 5 == 0:
                den //= 5
                p5 += 1
            if den != 1:
                continue
            sc = max(p2, p5)
            digits = str(mid.numerator * (10 ** sc) // mid.denominator)
            self.add_decimal(digits + "e-%d" % sc, via="call")

    def add_decimal(self, text, via):
        m = re.fullmatch(r"(-?)(\d*)\.?(\d*)(?:e([+-]?\d+))?", text)
        neg, ip, fp, ex = m.group(1) == "-", m.group(2), m.group(3), int(m.group(4) or 0)
        digs = [int(c) for c in ip + fp]
        e10 = ex - len(fp)
        if via == "lit" and not neg and ip and ("." in text or "e" in text):
            src = text
        else:
            src = 'float("%s")' % text
        self.add("float_of_str", src, neg=neg, digs=digs, e10=e10)

    def mathfns(self):
        rnd = self.rnd
        for _ in range(self.n(900, 20000)):
            fn = rnd.choice(["floor", "ceil", "round"])
            if rnd.random() < 0.75:
                f = pick_float(rnd)
                if abs(f) > 1e150 and abs(f) != math.inf and rnd.random() < 0.9:
                    f = float(rand_int(rnd, 200))
                if rnd.random() < 0.3:        # halves and near-halves
                    n = rnd.choice(SPECIAL_INTS + [rnd.randint(-100, 100)])
                    if abs(n) < (1 << 51):
                        h = n + 0.5
                        f = rnd.choice([h, math.nextafter(h, math.inf), math.nextafter(h, -math.inf)])
                self.add("math", "math.%s(%s)" % (fn, fsrc(f)), fn=fn, at="float", a=fl(f))
            else:
                x = pick_int(rnd)
                if rnd.random() < 0.1:
                    x = rnd.choice([1 << 1023, (1 << 1024) - (1 << 970), 1 << 1024, -(1 << 1024)])
                self.add("math", "math.%s(%s)" % (fn, isrc(x)), fn=fn, at="int", a=big(x))

    def mixed(self):
        rnd = self.rnd
        for _ in range(self.n(900, 20000)):
            o = rnd.choice(["+", "-", "*", "/"])
            x = pick_int(rnd)
            k = rnd.random()
            if k < 0.25 and o == "/":
                y = pick_int(rnd)
                self.add("mixed", "%s / %s" % (isrc(x), isrc(y)), o=o, xt="int", x=big(x), yt="int", y=big(y))
                continue
            f = rnd.choice(floats_near_int(x)) if rnd.random() < 0.4 else pick_float(rnd)
            if f != f or abs(f) == math.inf:
                f = rnd.choice([0.0, -0.0, 1.0, 0.5, 3.0, 1e300, MINSUB])
            if rnd.random() < 0.08:
                x = rnd.choice([1 << 1023, (1 << 1024) - (1 << 970) - 1, (1 << 1024) - (1 << 970), 1 << 1024, -(1 << 1030)])
            if rnd.random() < 0.5:
                self.add("mixed", "%s %s %s" % (isrc(x), o, fsrc(f)), o=o, xt="int", x=big(x), yt="float", y=fl(f))
            else:
                self.add("mixed", "%s %s %s" % (fsrc(f), o, isrc(x)), o=o, xt="float", x=fl(f), yt="int", y=big(x))

    def dict_keys(self):
        rnd = self.rnd
        for _ in range(self.n(500, 10000)):
            x = pick_int(rnd)
            k = rnd.random()
            f = rnd.choice(floats_near_int(x)) if k < 0.75 else pick_float(rnd)
            self.add("dict_in", "(%s in {%s: 1}, %s in {%s: 1}, len(set([%s, %s])))" % (fsrc(f), isrc(x), isrc(x), fsrc(f), isrc(x), fsrc(f)),
                     x=big(x), a=fl(f))

    # ---- range
    RP = None

    def range_params(self):
        """(start, stop, step): mostly inside the signed 64-bit range the implementation accepts
        (so that the operation under test is reached), a minority beyond it"""
        rnd = self.rnd
        wild = rnd.random() < 0.12
        P = [0, 1, 2, 3, 5, 10, 1 << 31, 1 << 32, 1 << 62, (1 << 63) - 3]
        anchors = sorted({s * p + d for p in P for s in (1, -1) for d in (-2, -1, 0, 1, 2)} | {-(1 << 63), -(1 << 63) + 1})
        steps = [1, 1, 1, 2, 3, 7, -1, -1, -2, -3, (1 << 31) - 1, 1 << 31, (1 << 32) + 1, 1 << 61, 1 << 62, (1 << 63) - 1,
                 -(1 << 31), -(1 << 32) - 1, -(1 << 62), -(1 << 63) + 1, -(1 << 63)]
        if wild:
            anchors += [s * p + d for p in (1 << 63, 1 << 64) for s in (1, -1) for d in (-1, 0, 1)]
            steps += [1 << 63, 1 << 64, -(1 << 63) - 1, 0, 0]
        k = rnd.random()
        s = rnd.choice(steps)
        if k < 0.5:       # few elements, placed anywhere
            a = rnd.choice(anchors)
            cnt = rnd.randint(0, 6)
            b = a + cnt * s + (rnd.choice([-1, 0, 1]) if s else 3)
            if not wild and not -I64 <= b < I64:
                b = max(-I64, min(I64 - 1, b))
        elif k < 0.85:    # both ends anchored: possibly astronomically long
            a, b = rnd.choice(anchors), rnd.choice(anchors)
        else:
            a, b = rand_int(rnd, 70 if wild else 62), rand_int(rnd, 70 if wild else 62)
            if rnd.random() < 0.5:
                s = rand_int(rnd, 66 if wild else 60)
        return a, b, s

    @staticmethod
    def rlen(a, b, s):
        if s > 0:
            return (b - a - 1) // s + 1 if b > a else 0
        return (a - b - 1) // (-s) + 1 if a > b else 0

    def rsrc(self, a, b, s):
        rnd = self.rnd
        if s == 1 and a == 0 and rnd.random() < 0.5:
            return "range(%s)" % isrc(b)
        if s == 1 and rnd.random() < 0.6:
            return "range(%s, %s)" % (isrc(a), isrc(b))
        return "range(%s, %s, %s)" % (isrc(a), isrc(b), isrc(s))

    def ranges(self):
        rnd = self.rnd
        PROBE = "(lambda r: [len(r), r[0], r[-1]] if r else [0])(%s)"
        for _ in range(self.n(2600, 60000)):
            a, b, s = self.range_params()
            R = self.rsrc(a, b, s)
            base = dict(a=big(a), b=big(b), s=big(s))
            n = self.rlen(a, b, s) if s else 0
            k = rnd.random()
            if k < 0.12:
                self.add("range_len", "len(%s)" % R, **base)
            elif k < 0.17:
                self.add("range_bool", "bool(%s)" % R, **base)
            elif k < 0.30:
                if n <= 12:
                    self.add("range_list", rnd.choice(["list(%s)", "[x for x in %s]", "sorted(%s)" if s > 0 else "list(%s)"]) % R, **base)
                else:
                    self.add("range_len", "len(%s)" % R, **base)
            elif k < 0.48:
                cands = [0, 1, -1, n - 1, n, -n, -n - 1, n // 2, 2, -2, n - 2, 1 - n, rnd.randrange(n) if 0 < n else 0,
                         -rnd.randrange(n) - 1 if 0 < n else -1]
                if rnd.random() < 0.25:
                    cands = [(1 << 31), (1 << 32), (1 << 31) - 1, -(1 << 31), (1 << 32) + 1, 1 << 63, (1 << 63) - 1, -(1 << 63),
                             1 << 64, -(1 << 64), n - (1 << 32), (n % (1 << 32))]
                i = rnd.choice(cands)
                self.add("range_index", "%s[%s]" % (R, isrc(i)), i=big(i), **base)
            elif k < 0.74:
                kk = rnd.random()
                if kk < 0.7 or not s:
                    if n > 0 and rnd.random() < 0.8:
                        j = rnd.choice([0, n - 1, n // 2, rnd.randrange(n), n, -1, n - (1 << 32) if n > (1 << 32) else 1])
                        x = a + j * s + rnd.choice([0, 0, 0, 1, -1])
                    else:
                        x = rnd.choice([a, b, a - s, b - s, 0, pick_int(rnd), x32(rnd, a)])
                    self.add("range_in", "%s in %s" % (isrc(x), R), xt="int", x=big(x), **base)
                else:
                    if n > 0 and rnd.random() < 0.8:
                        e = a + rnd.choice([0, n - 1, n // 2]) * s
                        f = rnd.choice(floats_near_int(e) + [float(e) if abs(e) < 1 << 1000 else 0.0])
                    else:
                        f = pick_float(rnd)
                    self.add("range_in", "%s in %s" % (fsrc(f), R), xt="float", x=fl(f), **base)
            else:
                def idx():
                    r = rnd.random()
                    if r < 0.25:
                        return None
                    if r < 0.85:
                        return rnd.choice([0, 1, 2, -1, -2, n, n - 1, n + 1, -n, -n - 1, n // 2, rnd.randint(-5, 5),
                                           (1 << 31) - 1, -(1 << 31)]) if abs(n) < (1 << 31) else rnd.randint(-9, 9)
                    return rnd.choice([n, n - 1, -n, n // 2, 1 << 31, -(1 << 31) - 1, 1 << 32, (1 << 63) - 1, -(1 << 63), 1 << 64, -(1 << 70)])
                lo, hi = idx(), idx()
                st = rnd.choice([None, None, 1, 2, 3, -1, -1, -2, 7, 1 << 3, 1 << 20, (1 << 31) - 1, -(1 << 31), -(1 << 31) + 1] +
                                ([1 << 31, 1 << 33, (1 << 63) - 1, -(1 << 63), 1 << 64, 0, 0] if rnd.random() < 0.2 else []))
                o = lambda v: NONE if v is None else some(big(v))
                t = lambda v: "" if v is None else isrc(v)
                self.add("range_slice", PROBE % ("%s[%s:%s:%s]" % (R, t(lo), t(hi), t(st))), lo=o(lo), hi=o(hi), st=o(st), **base)

    def enumerate_(self):
        rnd = self.rnd
        starts = sorted({s * c + d for c in (0, 1 << 31, 1 << 32, 1 << 63, 1 << 64) for s in (1, -1) for d in range(-4, 5)})
        for _ in range(self.n(250, 5000)):
            st = rnd.choice(starts) if rnd.random() < 0.8 else rand_int(rnd, 80)
            n = rnd.randint(0, 5)
            elems = [10 + j for j in range(n)]
            lst = ", ".join(map(str, elems))
            seq = "[%s]" % lst if rnd.random() < 0.6 else ("(%s,)" % lst if n else "()")
            self.add("enumerate", "enumerate(%s, %s)" % (seq, isrc(st)), start=big(st), elems=elems)

    def repeats(self):
        rnd = self.rnd
        ns = [-(1 << 64), -(1 << 63) - 1, -(1 << 31) - 1, -(1 << 31), -2, -1, 0, 1, 2, 3, 7, 40, (1 << 30), (1 << 31) - 1, 1 << 31,
              (1 << 31) + 1, (1 << 32) - 1, 1 << 32, (1 << 32) + 1, (1 << 32) + 3, (1 << 63) - 1, 1 << 63, (1 << 64) + 2]
        for _ in range(self.n(400, 8000)):
            n = rnd.choice(ns) if rnd.random() < 0.85 else rand_int(rnd, 100)
            if 100 < n < (1 << 30):
                n += 1 << 30
            ty = rnd.choice(["str", "bytes", "list", "tuple"])
            L = rnd.randint(0, 3)
            s = [97 + j for j in range(L)]
            if ty == "str":
                S = '"%s"' % "".join(map(chr, s))
            elif ty == "bytes":
                S = 'b"%s"' % "".join(map(chr, s))
            elif ty == "list":
                S = "[%s]" % ", ".join(map(str, s))
            else:
                S = "(%s)" % "".join("%d, " % v for v in s)
            src = "%s * %s" % (S, isrc(n)) if rnd.random() < 0.5 else "%s * %s" % (isrc(n), S)
            self.add("repeat", src, ty=ty, s=s, n=big(n))

    def all(self):
        for g in (self.arith, self.compare, self.literals, self.parsing, self.parsing_boundaries, self.routes, self.formatting, self.conversions,
                  self.mathfns, self.mixed, self.dict_keys, self.ranges, self.enumerate_, self.repeats):
            g()
        self.fixed()
        for i, c in enumerate(self.out):
            c["id"] = i + 1
        return self.out

    def fixed(self):
        """the inputs named in the property text and their neighbours, always present"""
        R = lambda a, b, s: dict(a=big(a), b=big(b), s=big(s))
        self.add("range_in", "(1<<40) in range(1<<41)", xt="int", x=big(1 << 40), **R(0, 1 << 41, 1))
        self.add("range_in", "1.5 in range(3)", xt="float", x=fl(1.5), **R(0, 3, 1))
        self.add("range_in", "2.0 in range(3)", xt="float", x=fl(2.0), **R(0, 3, 1))
        self.add("range_in", "(1<<31) in range(0, (1<<32) + 5)", xt="int", x=big(1 << 31), **R(0, (1 << 32) + 5, 1))
        self.add("enumerate", "enumerate([10, 11], (1<<63) - 1)", start=big((1 << 63) - 1), elems=[10, 11])
        self.add("range_list", "list(range(-(1<<63), (1<<63) - 1))", **R(-(1 << 63), (1 << 63) - 1, 1))
        self.add("range_bool", "bool(range(-(1<<62), 1<<62))", **R(-(1 << 62), 1 << 62, 1))
        self.add("range_slice", "(lambda r: [len(r), r[0], r[-1]] if r else [0])(range(0, 1<<62, 1<<60)[::8])",
                 lo=NONE, hi=NONE, st=some(big(8)), **R(0, 1 << 62, 1 << 60))
        self.add("range_slice", "(lambda r: [len(r), r[0], r[-1]] if r else [0])(range(1<<62, (1<<63)-1, 1<<61)[0:2])",
                 lo=some(big(0)), hi=some(big(2)), st=NONE, **R(1 << 62, (1 << 63) - 1, 1 << 61))
        self.add("range_slice", "(lambda r: [len(r), r[0], r[-1]] if r else [0])(range(0, 1<<62, 1<<60)[::-(1<<31)])",
                 lo=NONE, hi=NONE, st=some(big(-(1 << 31))), **R(0, 1 << 62, 1 << 60))
        self.add("math", "math.round(9007199254740993)", fn="round", at="int", a=big((1 << 53) + 1))


def x32(rnd, a):
    """a value congruent to a modulo 2^32 (aliases under 32-bit truncation)"""
    return a + rnd.choice([1, -1, 2]) * (1 << 32)


# ------------------------------------------------------------------ execution
BUILDS = ("normal", "generic", "fallback")


def evaluate(ctx, cases, tag, build):
    fin, fout = ctx.path(tag + ".in"), ctx.path("%s.%s.out" % (tag, build))
    if not os.path.exists(fin):
        vlib.write_ndjson(fin, [{"id": c["id"], "src": c["src"]} for c in cases])
    if build == "normal":
        p = ctx.vh(["eval", "-in", fin, "-out", fout])
    elif build == "generic":
        p = ctx.vh(["eval", "-in", fin, "-out", fout], binary=ctx.build(overlay_generic=True))
    else:
        p = ctx.vh(["eval", "-in", fin, "-out", fout], limit_v=3000000)
        if "failed to allocate 4GB address space" not in p.stderr:
            raise vlib.MachineryError("the int_posix64 fallback was not taken under ulimit -v (stderr: %r)" % p.stderr[-300:])
    res = {r["id"]: r for r in vlib.read_ndjson(fout)}
    if len(res) != len(cases):
        raise vlib.MachineryError("harness (%s) returned %d results for %d cases" % (build, len(res), len(cases)))
    return res


def obs(r):
    """the observable part of a result"""
    if r.get("panic"):
        return {"ok": False, "panic": r["panic"]}
    if r["ok"]:
        return {"ok": True, "v": r["v"]}
    return {"ok": False, "err": r.get("err", "")}


def record(c, r):
    rec = {k: v for k, v in c.items() if k != "src"}
    rec["res"] = {"ok": True, "v": r["v"]} if r["ok"] else {"ok": False}
    return rec


def tlc_validate(ctx, files):
    """returns (bad ids, tolerated ids, checked)"""
    bad, tol, checked = [], [], 0
    for f in files:
        r = ctx.tlc("C10Trace", "C10Trace.cfg", env={"VERIF_RECS": f}, workers=vlib.NCPU, heap="16g", timeout=3000,
                    tag="C10Trace-" + os.path.basename(f))
        got = None
        for l in r["printed"]:
            m = re.match(r'<<"(bad|tol)", (\d+)>>', l)
            if m:
                (bad if m.group(1) == "bad" else tol).append(int(m.group(2)))
            m = re.match(r'<<"CHECKED", (\d+)>>', l)
            if m:
                got = int(m.group(1))
        if got is None or r["error"] or r["rc"] != 0:
            raise vlib.MachineryError("TLC validation of %s failed (rc=%s)\n%s" % (f, r["rc"], r["out"][-4000:]))
        checked += got
        ctx.states += r["states"]
        ctx.transitions += r["transitions"]
    return bad, tol, checked


def float_int_value(f):
    """the integer a float record is equal to, or None"""
    if f["e"] == 2047:
        return None
    m = sum(l << (15 * i) for i, l in enumerate(f["m"]))
    sig, ex = (m, -1074) if f["e"] == 0 else (m | (1 << 52), f["e"] - 1075)
    if ex >= 0:
        v = sig << ex
    elif sig % (1 << -ex) == 0:
        v = sig >> -ex
    else:
        return None
    return -v if f["s"] else v


def span_overflows(a, b, s):
    """rangeLen's intermediate (stop - 1 - start, or -step) does not fit a signed 64-bit integer"""
    if s > 0 and b > a:
        return b - 1 - a >= I64 or Gen.rlen(a, b, s) >= I64
    if s < 0 and a > b:
        return a - 1 - b >= I64 or s == -I64 or Gen.rlen(a, b, s) >= I64
    return False


def signature(c):
    """class of the failing input (stable across seeds; one class per root cause)"""
    op = c["op"]
    if op.startswith("range_"):
        a, b, s = unbig(c["a"]), unbig(c["b"]), unbig(c["s"])
        if span_overflows(a, b, s):
            return "range/span-beyond-int64"
        if op == "range_in":
            if c["xt"] == "float":
                x = float_int_value(c["x"])
                if x is None:
                    return "range_in/float-non-integral"
            else:
                x = unbig(c["x"])
            return "range_in/" + ("beyond-int32" if not -(1 << 31) <= x < (1 << 31) else "within-int32")
        if op == "range_slice":
            return "range_slice/int64-overflow"
        return op
    if op == "enumerate":
        st = unbig(c["start"])
        return "enumerate/index-beyond-int64" if st + len(c["elems"]) > I64 or st < -I64 else "enumerate"
    if op == "math" and c["at"] == "int" and c["fn"] == "round":
        return "math.round/int-not-representable"
    if op in ("bin", "unary", "div1", "mixed"):
        return "op=%s/%s" % (op, c["o"])
    if op == "math":
        return "op=math.%s/%s" % (c["fn"], c["at"])
    if op == "fmt":
        return "op=fmt/%s" % c["f"]
    return "op=" + op


def run_cases(ctx, cases, tag="cases"):
    """evaluate on the three builds, compare, validate.  Returns (results, mismatches, bad, tol, checked)."""
    res = {b: evaluate(ctx, cases, tag, b) for b in BUILDS}
    mism = [c for c in cases if not (obs(res["normal"][c["id"]]) == obs(res["generic"][c["id"]]) == obs(res["fallback"][c["id"]]))]
    recs = [record(c, res["normal"][c["id"]]) for c in cases]
    files = []
    for k, sh in enumerate(vlib.shard(recs, max(1, len(recs) // 150000 + 1))):
        f = ctx.path("%s-recs%02d.ndjson" % (tag, k))
        vlib.write_ndjson(f, sh)
        files.append(f)
    bad, tol, checked = tlc_validate(ctx, files)
    if checked != len(cases):
        raise vlib.MachineryError("TLC checked %d of %d records" % (checked, len(cases)))
    return res, mism, bad, tol, checked


def show(r):
    o = obs(r)
    return json.dumps(o.get("v", o.get("panic", o.get("err"))))[:160]


def design_checks(ctx):
    ctx.tlc_ok("BitIntMC", "BitIntMC.cfg", workers=4, timeout=1200)
    ctx.tlc_ok("Float64MC", "Float64MC.cfg", workers=8, timeout=1200, heap="4g")
    ctx.tlc_ok("NumOpsMC", "NumOpsMCq.cfg" if ctx.quick else "NumOpsMC.cfg", workers=8, timeout=2400, heap="4g")
    ctx.log("design checks BitIntMC, Float64MC, NumOpsMC passed (%d states)" % ctx.states)


def run(ctx):
    design_checks(ctx)
    cases = Gen(ctx).all()
    ctx.log("generated %d cases" % len(cases))
    res, mism, bad, tol, checked = run_cases(ctx, cases)
    ctx.log("3 builds x %d cases evaluated; TLC validated %d records: %d rejected, %d tolerated failures, %d cross-build mismatches"
            % (len(cases), checked, len(bad), len(tol), len(mism)))
    byid = {c["id"]: c for c in cases}
    nres = res["normal"]
    # confirm every candidate by re-executing it alone on the three builds and validating it again
    cand = sorted(set(bad) | {c["id"] for c in mism} | {c["id"] for c in cases if nres[c["id"]].get("panic")})
    if cand:
        sub = [byid[k] for k in cand]
        res2, mism2, bad2, _, _ = run_cases(ctx, sub, tag="recheck")
        for c in sub:
            k = c["id"]
            if obs(res2["normal"][k]) != obs(nres[k]):
                raise vlib.MachineryError("case %d (%s) is not reproducible" % (k, c["src"]))
        bad2, mism2 = set(bad2), {c["id"] for c in mism2}
        for c in sub:
            k = c["id"]
            r = nres[k]
            if r.get("panic"):
                ctx.violation(("range_slice" if c["op"] == "range_slice" else signature(c)) + "/panic", "%s panics: %s" % (c["src"], r["panic"]), {"case": c})
            elif k in bad2:
                ctx.violation(signature(c), "%s -> %s, not the exact result" % (c["src"], show(r)), {"case": c})
            if k in mism2:
                ctx.violation("representation/" + signature(c),
                              "%s differs between Int representations: %s" % (c["src"], {b: show(res2[b][k]) for b in BUILDS}),
                              {"case": c})
    ops, tolops, failops = {}, {}, {}
    tolset = set(tol)
    for c in cases:
        ops[c["op"]] = ops.get(c["op"], 0) + 1
        if c["id"] in tolset:
            tolops[c["op"]] = tolops.get(c["op"], 0) + 1
        if not nres[c["id"]]["ok"]:
            failops[c["op"]] = failops.get(c["op"], 0) + 1
    ctx.cov["evaluations"] = 3 * len(cases)
    ctx.cov["cases"] = len(cases)
    ctx.cov["traces_validated_against_impl"] = checked
    ctx.cov["distinct_nontrivial"] = len({c["src"] for c in cases})
    ctx.cov["cross_build_comparisons"] = 2 * len(cases)
    ctx.cov["per_operation"] = ops
    ctx.cov["failed_results_per_operation"] = failops
    ctx.cov["tolerated_failures_per_operation"] = tolops
    ctx.cov["rejected_records"] = len(set(bad))
    ctx.cov["builds"] = list(BUILDS)
    step = max(1, len(cases) // 8)
    ctx.samples = [{"src": c["src"], "observed": show(nres[c["id"]])} for c in cases[::step]][:8]
    ctx.assumptions = [
        "BitInt/Float64/NumOps are the oracle; model-checked against TLC native integers, CPython-rounded decimal literals and the CPython-validated Seqs!Slice (BitIntMC, Float64MC, NumOpsMC) and cross-validated against CPython (tools/c10_xval.py)",
        "a failure is tolerated where an exact result exists for range/enumerate/len/repetition/math.round(int), for shift counts >= 2^31 and for left shifts >= 512 (doc/spec.md allows a limit)",
        "comparisons use the total order of value.go/property C11 (NaN == NaN, NaN greatest); doc/spec.md describes IEEE comparisons",
        "float op float arithmetic is checked only as the correctly rounded result of int-converted operands (+ - * /); // and % on floats are not judged",
        "operands are written as decimal literals in the source expression, so the scanner's literal conversion is part of every case",
    ]
    return ctx.finish(rule="seeded generation by checks/c10.py over the pool of the quantifier (neighbourhoods +-3 of 0, +-2^15, +-2^30, +-2^31, "
                           "+-2^32, +-2^53, +-2^63, +-2^64, random magnitudes to 2^200; floats: +-0, subnormals, halves, neighbours of integers, "
                           "extremes, inf, NaN, random bit patterns) x operator families; every case runs on 3 builds; distinct = distinct source expressions",
                      exhaustive=False)


def replay(ctx, path):
    d = json.load(open(path))
    c = d["replay"]["case"]
    res, mism, bad, tol, _ = run_cases(ctx, [c], tag="replay")
    r = res["normal"][c["id"]]
    failing = bool(bad) or bool(mism) or bool(r.get("panic"))
    print("replay %s: %s -> %s : %s" % (path, c["src"], show(r),
          "REJECTED by spec" if bad else "representations differ" if mism else "panic" if r.get("panic") else "accepted"))
    return 1 if failing else 0
