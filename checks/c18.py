"""C18  JSON encoding and decoding are faithful.

code -> spec record validation (P-A).  This driver only GENERATES inputs: JSON documents
from the RFC 8259 grammar (arbitrary whitespace, every escape, surrogate pairs, all number
forms), labelled single-token corruptions of such documents, and nested Starlark values
(as source expressions).  `vh c18-run` feeds them to the real lib/json (documents as raw
bytes, no quoting layer) and TLC decides every record with spec/JsonSpec.tla (recogniser +
evaluator of RFC 8259 over byte arrays, exact integers on BitInt, floats by the
nearest-binary64 test of Float64) through spec/C18Trace.tla.
"""
import json, os, random, re, struct
import vlib

LEVEL = "exploration"

# ------------------------------------------------------------------------------ documents
WS = [b"", b"", b"", b"", b" ", b"\n", b"\t", b"\r", b"  ", b" \r\n\t "]

NUM_SPECIAL = [b"0", b"-0", b"0.0", b"-0.0", b"0e0", b"0E+0", b"0.0e-0", b"1", b"-1", b"10", b"1.5", b"-1.5e-3", b"1e5", b"1E5", b"1e+5", b"1E-5",
               b"4.9e-324", b"5e-324", b"3e-324", b"2e-324", b"2.4703282292062327e-324", b"2.4703282292062328e-324", b"1e-400", b"-1e-400",
               b"2.2250738585072011e-308", b"2.2250738585072014e-308", b"2.225073858507201e-308",
               b"1.7976931348623157e308", b"1.7976931348623158e308", b"1.7976931348623159e308", b"1e308", b"1e309", b"-1e309", b"1e400",
               b"17976931348623157" + b"0" * 292 + b".0", b"17976931348623157" + b"0" * 292,
               b"9007199254740992", b"9007199254740993", b"9007199254740993.0", b"9007199254740992.5", b"9007199254740994.5",
               b"0.1", b"0.2", b"0.30000000000000004", b"1e23", b"8.41e21", b"1e21", b"1e22", b"123456789012345678901234567890",
               b"-123456789012345678901234567890123456789012345678901234567890", b"0.1000000000000000055511151231257827021181583404541015625",
               b"1.00000000000000011102230246251565404236316680908203125", b"1.00000000000000011102230246251565404236316680908203124",
               b"1.00000000000000011102230246251565404236316680908203126", b"100000000000000000000000.0", b"1e0000000000000000001", b"1e-0",
               b"0.000001", b"0.0000001", b"123e-2", b"1.0E+2", b"6.02214076e23", b"-2147483648", b"2147483647", b"4294967296",
               b"9223372036854775807", b"-9223372036854775808", b"9223372036854775808", b"18446744073709551616", b"1" + b"0" * 60]


def digits(rnd, n, first_nonzero=False):
    s = "".join(rnd.choice("0123456789") for _ in range(n))
    if first_nonzero and s[0] == "0":
        s = rnd.choice("123456789") + s[1:]
    return s


NUM_CHEAP = [n for n in NUM_SPECIAL if len(n) < 40 and not re.search(rb"[eE][-+]?\d{3}", n)]


def gen_number(rnd):
    r = rnd.random()
    if r < 0.3:
        return rnd.choice(NUM_SPECIAL if rnd.random() < 0.04 else NUM_CHEAP)
    s = "-" if rnd.random() < 0.3 else ""
    k = rnd.choice([1, 1, 2, 3, 5, 9, 10, 16, 17, 19, 20, 25] + ([40, 62] if rnd.random() < 0.1 else []))
    s += "0" if rnd.random() < 0.15 else digits(rnd, k, True)
    if r < 0.55:
        return s.encode()
    if rnd.random() < 0.75:
        s += "." + digits(rnd, rnd.choice([1, 1, 2, 3, 6, 15, 17, 20, 30]))
    if rnd.random() < 0.6:
        big = [100, 290, 300, 307, 308, 310, 323, 324, 400] if rnd.random() < 0.06 else []
        s += rnd.choice("eE") + rnd.choice(["", "+", "-"]) + str(rnd.choice([0, 1, 2, 5, 10, 15, 22, 23, 30] + big))
    return s.encode()


ASTRAL = [0x10000, 0x1F600, 0x10FFFF, 0x1D11E]
BMP = [0xE9, 0x20AC, 0x2028, 0x2029, 0xFFFD, 0xFFFF, 0x7FF, 0x800, 0x80, 0xD7FF, 0xE000, 0x3042, 0x0416]


def gen_string_body(rnd, maxlen=8):
    """bytes between the quotes of a valid JSON string"""
    out = b""
    for _ in range(rnd.choice([0, 1, 1, 2, 3, maxlen])):
        r = rnd.random()
        if r < 0.4:
            c = rnd.choice(" !#$%&'()*+,-./0123456789:;<=>?@ABCXYZ[]^_`abcxyz{|}~\x7f")
            out += c.encode()
        elif r < 0.55:
            out += rnd.choice([b'\\"', b"\\\\", b"\\/", b"\\b", b"\\f", b"\\n", b"\\r", b"\\t"])
        elif r < 0.7:
            cp = rnd.choice(BMP + [0, 1, 0x1f, 0x20, 0x22, 0x5c, 0x2f, 0x7f, 0x41, rnd.randrange(0, 0xD800), rnd.randrange(0xE000, 0x10000)])
            h = "%04x" % cp
            out += ("\\u" + "".join(ch.upper() if rnd.random() < 0.5 else ch for ch in h)).encode()
        elif r < 0.8:
            cp = rnd.choice(ASTRAL + [rnd.randrange(0x10000, 0x110000)]) - 0x10000
            out += ("\\u%04x\\u%04X" % (0xD800 + (cp >> 10), 0xDC00 + (cp & 0x3FF))).encode()
        elif r < 0.99:
            out += chr(rnd.choice(BMP + ASTRAL + [rnd.randrange(0x80, 0xD800), rnd.randrange(0x10000, 0x110000)])).encode("utf-8")
        else:       # unpaired surrogate escape: meaning not defined by the RFC (note class)
            out += rnd.choice([b"\\ud800", b"\\udc00", b"\\uDBFF\\u0041", b"\\udc00\\ud800"])
    return out


def gen_string(rnd):
    return b'"' + gen_string_body(rnd) + b'"'


class Doc:
    """a JSON document as a tree; ser() renders it with random whitespace"""

    def __init__(self, rnd):
        self.rnd = rnd

    def value(self, depth):
        rnd = self.rnd
        r = rnd.random()
        if depth <= 0 or r < 0.5:
            k = rnd.random()
            if k < 0.15:
                return ("leaf", rnd.choice([b"null", b"true", b"false"]))
            if k < 0.6:
                return ("leaf", gen_number(rnd))
            return ("leaf", gen_string(rnd))
        if r < 0.75:
            return ("arr", [self.value(depth - 1) for _ in range(rnd.choice([0, 1, 1, 2, 3, 4]))])
        n = rnd.choice([0, 1, 1, 2, 3])
        keys = [gen_string(rnd) for _ in range(n)]
        if n >= 2 and rnd.random() < 0.1:
            keys[-1] = keys[0]          # repeated name
        return ("obj", [(k, self.value(depth - 1)) for k in keys])

    def ws(self):
        return self.rnd.choice(WS)

    def ser(self, node, hole=None):
        """hole = (path tuple, replacement bytes): the node at that path is replaced by raw bytes"""
        return self.ws() + self._ser(node, (), hole) + self.ws()

    def _ser(self, node, path, hole):
        if hole is not None and hole[0] == path:
            return hole[1]
        kind, v = node
        if kind == "leaf":
            return v
        if kind == "arr":
            parts = [self.ws() + self._ser(x, path + (i,), hole) + self.ws() for i, x in enumerate(v)]
            return b"[" + (b",".join(parts) if parts else self.ws()) + b"]"
        parts = [self.ws() + k + self.ws() + b":" + self.ws() + self._ser(x, path + (i,), hole) + self.ws() for i, (k, x) in enumerate(v)]
        return b"{" + (b",".join(parts) if parts else self.ws()) + b"}"

    def paths(self, node, path=()):
        yield path
        kind, v = node
        if kind == "arr":
            for i, x in enumerate(v):
                yield from self.paths(x, path + (i,))
        elif kind == "obj":
            for i, (_, x) in enumerate(v):
                yield from self.paths(x, path + (i,))


def corruptions(rnd, val):
    """labelled invalid fragments; val() yields the bytes of a small valid value.  Each fragment replaces one value
    of a valid document (or the whole document), so exactly one token (group) is corrupted."""
    ctrl = bytes([rnd.choice(list(range(0, 32)))])
    body = gen_string_body(rnd, 4).replace(b"\\ud800", b"").replace(b"\\udc00", b"").replace(b"\\uDBFF\\u0041", b"")
    plain = "".join(rnd.choice("abc xyz09") for _ in range(rnd.randint(0, 4))).encode()
    n = digits(rnd, rnd.choice([1, 2, 5]), True)
    frac = digits(rnd, rnd.choice([1, 3]))
    ex = rnd.choice("eE") + rnd.choice(["", "+", "-"]) + str(rnd.randint(0, 20))
    sg = rnd.choice(["", "-"])
    return [
        ("number:dot-without-fraction", (sg + n + ".").encode()),
        ("number:dot-without-fraction", (sg + n + "." + ex).encode()),
        ("number:dot-without-fraction", (sg + "0.").encode()),
        ("number:minus-dot", ("-." + frac).encode()),
        ("number:minus-dot", ("-." + frac + ex).encode()),
        ("number:leading-dot", ("." + frac).encode()),
        ("number:leading-plus", ("+" + n).encode()),
        ("number:leading-zero", (sg + "0" + n).encode()),
        ("number:leading-zero", (sg + "00").encode()),
        ("number:leading-zero", (sg + "0" + n + "." + frac).encode()),
        ("number:empty-exponent", (sg + n + rnd.choice(["e", "E", "e+", "e-", ".5e", ".5E+"])).encode()),
        ("number:hex", rnd.choice([b"0x1F", b"0X10", b"-0x1", b"0x1p-2"])),
        ("number:underscore", (n + "_000").encode()),
        ("number:nan-inf", rnd.choice([b"NaN", b"nan", b"Infinity", b"-Infinity", b"inf", b"-inf", b"+inf", b"-NaN"])),
        ("number:two-dots", (n + "." + frac + "." + frac).encode()),
        ("number:double-sign", rnd.choice([b"--1", b"-+1", b"+-1", b"1e--1", b"1e+-1"])),
        ("number:minus-space", ("- " + n).encode()),
        ("number:lone-minus", rnd.choice([b"-", b"-e", b"-e5", b"-E", b"e5", b"E5", b".", b"-.", b".e1"])),
        ("number:trailing-letter", (n + rnd.choice(["a", "f", "L", "d", "n", "x", "e1x"])).encode()),
        ("number:exponent-fraction", (n + "e1." + frac).encode()),
        ("number:sign-inside", (n + rnd.choice(["-", "+", "-1", "+1", ".5-", "e5+"])).encode()),
        ("string:raw-control-char", b'"' + plain + ctrl + plain + b'"'),
        ("string:raw-control-char", b'"' + ctrl + b'"'),
        ("string:raw-control-char", b'"' + plain + rnd.choice([b"\n", b"\t", b"\r", b"\x00", b"\x1f"]) + b'"'),
        ("string:raw-control-char+escape", b'"' + plain + b"\\n" + ctrl + b'"'),
        ("string:raw-control-char+non-ascii", b'"' + "é".encode() + ctrl + plain + b'"'),
        ("string:single-quotes", b"'" + plain + b"'"),
        ("string:unclosed", b'"' + body),
        ("string:bad-escape", b'"' + plain + rnd.choice([b"\\x41", b"\\a", b"\\v", b"\\0", b"\\'", b"\\ ", b"\\u{41}", b"\\N", b"\\e", b"\\101", b"\\\n"]) + b'"'),
        ("string:short-unicode-escape", b'"' + rnd.choice([b"\\u12", b"\\u12G4", b"\\u 123", b"\\u", b"\\u123", b"\\uu0041", b"\\u-123", b"\\u+123"]) + plain + b'"'),
        ("string:upper-U-escape", b'"\\U00000041"'),
        ("string:trailing-backslash", b'"' + plain + b'\\"'),
        ("string:unescaped-quote", b'"' + plain + b'"' + plain + b'x"'),
        ("literal:capitalised", rnd.choice([b"True", b"False", b"Null", b"NULL", b"TRUE", b"nulL"])),
        ("literal:truncated", rnd.choice([b"nul", b"tru", b"fals", b"n", b"t", b"f", b"nu"])),
        ("literal:extended", rnd.choice([b"nulll", b"truee", b"falsee", b"truefalse", b"null0", b"true1", b"nullnull"])),
        ("literal:other-name", rnd.choice([b"undefined", b"None", b"nil", b"yes", b"no", b"NaN", b"a", b"$", b"@"])),
        ("struct:trailing-comma", b"[" + val() + b",]"),
        ("struct:trailing-comma", b'{"a":' + val() + b",}"),
        ("struct:trailing-comma", b"[" + val() + b", ]"),
        ("struct:leading-comma", b"[," + val() + b"]"),
        ("struct:leading-comma", b'{,"a":' + val() + b"}"),
        ("struct:double-comma", b"[" + val() + b",," + val() + b"]"),
        ("struct:lone-comma", rnd.choice([b"[,]", b"{,}", b","])),
        ("struct:missing-comma", b"[" + val() + b" " + val() + b"]"),
        ("struct:missing-comma", b'{"a":' + val() + b' "b":' + val() + b"}"),
        ("struct:missing-colon", b'{"a" ' + val() + b"}"),
        ("struct:colon-in-array", b"[" + val() + b":" + val() + b"]"),
        ("struct:unquoted-key", b"{a:" + val() + b"}"),
        ("struct:non-string-key", rnd.choice([b"{1:", b"{null:", b"{true:", b'{["a"]:', b"{{}:", b"{1.5:"]) + val() + b"}"),
        ("struct:unclosed", rnd.choice([b"[", b"{", b"[" + val(), b"[" + val() + b",", b'{"a":' + val(), b'{"a"', b'{"a":', b"[[" + val() + b"]"])),
        ("struct:extra-close", rnd.choice([b"[" + val() + b"]]", b'{"a":' + val() + b"}}", b"]", b"}", b"[]]", b"{}}"])),
        ("struct:mismatched", rnd.choice([b"[" + val() + b"}", b'{"a":' + val() + b"]", b"[}", b"{]", b"(" + val() + b")", b"<" + val() + b">"])),
        ("struct:key-without-value", rnd.choice([b'{"a"}', b'{"a":}', b'{"a":,"b":1}', b'{"a",1}', b'{:1}'])),
        ("struct:wrong-separator", rnd.choice([b'{"a":1;"b":2}', b'{"a"=1}', b"[1;2]", b'{"a"::1}', b'{"a":1,,"b":2}', b'{"a"=>1}'])),
        ("ws:form-feed", b"[\x0c" + val() + b"]"),
        ("ws:vertical-tab", b"[" + val() + b"\x0b]"),
        ("ws:nbsp", b"[\xc2\xa0" + val() + b"]"),
        ("ws:line-separator", b"[" + val() + b"\xe2\x80\xa8]"),
        ("ws:nul", b"[" + val() + b"\x00]"),
        ("ws:zero-width-space", b"[\xe2\x80\x8b" + val() + b"]"),
        ("comment", rnd.choice([b"[1 //x\n]", b"[1 /*x*/]", b"[1 #x\n]", b"/**/1", b"//\n1"])),
    ]


TOP_LEVEL_BAD = [("doc:empty", b""), ("doc:only-whitespace", b" "), ("doc:only-whitespace", b"\n\t\r "), ("doc:two-values", b"1 2"),
                 ("doc:two-values", b"{} []"), ("doc:two-values", b"null null"), ("doc:two-values", b'"a" "b"'), ("doc:two-values", b"1,2"),
                 ("doc:two-values", b"[1][2]"), ("doc:two-values", b"truefalse"), ("doc:two-values", b"1true"), ("doc:two-values", b'1"a"'),
                 ("doc:trailing-garbage", b"{} x"), ("doc:trailing-garbage", b"[1] ]"), ("doc:trailing-garbage", b"1,"), ("doc:trailing-garbage", b"null;"),
                 ("doc:trailing-garbage", b'"a"b'), ("doc:trailing-garbage", b"0 \x00"), ("doc:trailing-garbage", b"1 //c"),
                 ("doc:bom", b"\xef\xbb\xbf1"), ("doc:bom", b"\xef\xbb\xbf[]"), ("doc:leading-garbage", b"x[1]"), ("doc:leading-garbage", b")1"),
                 ("doc:not-utf8", b'"\xff"'), ("doc:not-utf8", b'"\xc3"'), ("doc:not-utf8", b'"\xed\xa0\x80"'), ("doc:not-utf8", b'["a\\n\xff"]'),
                 ("doc:not-utf8", b'"\xc0\xaf"'), ("doc:not-utf8", b"\xff"), ("doc:not-utf8", b"[1,\xa0]")]

VALID_EXTRA = [b"0", b"-0", b" 1 ", b'""', b'"\\u0000"', b'"\\ud83d\\ude00"', b'"\\uD83D\\uDE00"', b'"\xf0\x9f\x98\x80"', b'"\x7f"', b'"\\/"', b'"/"',
               b"[]", b"{}", b"[ ]", b"{ }", b"[[]]", b"[{}]", b'{"":0}', b'{"a":{"a":{"a":{"a":{"a":{"a":1}}}}}}', b"[[[[[[1]]]]]]",
               b'{"a":1,"a":2}', b'{"a":1,"b":2,"a":3}', b'{"a":{"b":1},"a":[2]}', b'{"\\u0061":1,"a":2}', b"\t\n\r [\t\n\r 1\t\n\r ,\t\n\r 2\t\n\r ]\t\n\r ",
               b"null", b"true", b"false", b'"\\"\\\\\\/\\b\\f\\n\\r\\t"', b'"\\u00e9\xc3\xa9"', b'["\\ud800"]', b'["\\udc00\\ud800"]', b'"\\ud800\\u0041"',
               b'"\\uFFFF\\ufffe"', b'"\xef\xbf\xbf"', b'"\xe2\x80\xa8\xe2\x80\xa9"', b"1E400", b"-1E400", b'{"k":1e999}', b"[1e-999]"]


def gen_docs(ctx, rnd):
    """yields (label, doc bytes)"""
    out = []
    for d in VALID_EXTRA:
        out.append(("valid", d))
    for n in NUM_SPECIAL:
        out.append(("valid", n))
        out.append(("valid", b"[" + n + b"]"))
    for lab, d in TOP_LEVEL_BAD:
        out.append((lab, d))
    nvalid = 4000 if ctx.quick else 70000
    ncorr = 150 if ctx.quick else 1200          # rounds over the corruption catalogue
    for _ in range(nvalid):
        g = Doc(rnd)
        out.append(("valid", g.ser(g.value(rnd.choice([0, 1, 2, 3, 4, 6])))))
    for _ in range(ncorr):
        g = Doc(rnd)
        small = lambda: Doc(rnd)._ser(Doc(rnd).value(rnd.choice([0, 0, 1])), (), None)
        for lab, frag in corruptions(rnd, small):
            if ctx.quick and rnd.random() < 0.5:
                continue
            tree = g.value(rnd.choice([0, 0, 1, 2, 3]))
            path = rnd.choice(list(g.paths(tree)))
            out.append((lab, g.ser(tree, (path, frag))))
    return out


# --------------------------------------------------------------------------------- values
def star_str(s):
    """Starlark string literal for a Python str of Unicode scalar values"""
    out = '"'
    for ch in s:
        o = ord(ch)
        if ch in '"\\':
            out += "\\" + ch
        elif o < 0x20 or o == 0x7f:
            out += "\\x%02x" % o
        else:
            out += ch
    return out + '"'


STR_SPECIAL = ["", "a", "hello world", '"', "\\", "/", "\x00", "\x01\x02", "\t\n\r", "\x1f", "\x7f", "a\x7fb", "\x7f\u00e9", "\u00e9", "\u20ac", "\u2028\u2029",
               "\ufffd", "\uffff", "\U0001F600", "\U0010FFFF", "\ud7ff\ue000", "<script>&amp;</script>", "\u0080", "a\"b\\c/d", "\\u0041", "\\n",
               "\b\f", "tab\there", "{}[],:", "null", "0", " ", "~", "\x7f\x7f"]
FLOAT_SPECIAL = [0.0, -0.0, 1.0, -1.0, 1.5, 0.1, 0.2, 0.30000000000000004, 1 / 3, 1e-7, 1e-5, 1e15, 1e16, 1e17, 1e20, 1e21, 1e22, 1e23, 123456789.0,
                 5e-324, 2.2250738585072014e-308, 2.225073858507201e-308, 1.7976931348623157e308, 9007199254740992.0, 9007199254740994.0,
                 4.35, 0.000001, 1e100, 1e-100, 2.5e-9, 6.02214076e23, 3.141592653589793, 100.0, 1e6, 123456.7]


class ValGen:
    def __init__(self, rnd):
        self.rnd = rnd

    def string(self):
        rnd = self.rnd
        if rnd.random() < 0.4:
            return rnd.choice(STR_SPECIAL)
        out = ""
        for _ in range(rnd.choice([1, 2, 3, 6])):
            r = rnd.random()
            if r < 0.4:
                out += chr(rnd.randrange(0x20, 0x7f))
            elif r < 0.55:
                out += chr(rnd.choice(list(range(0, 0x20)) + [0x7f]))
            elif r < 0.8:
                out += chr(rnd.choice(BMP + [rnd.randrange(0x80, 0xD800), rnd.randrange(0xE000, 0x10000)]))
            else:
                out += chr(rnd.choice(ASTRAL + [rnd.randrange(0x10000, 0x110000)]))
        return out

    def integer(self):
        rnd = self.rnd
        r = rnd.random()
        if r < 0.3:
            return rnd.randint(-10, 10)
        if r < 0.5:
            return rnd.choice([1 << 31, -(1 << 31), (1 << 31) - 1, 1 << 32, 1 << 53, (1 << 53) + 1, (1 << 63) - 1, -(1 << 63), 1 << 63, 1 << 64,
                               1 << 200, -(1 << 200), (1 << 200) - 1, 10 ** 30, 10 ** 60])
        v = rnd.getrandbits(rnd.randint(1, 200))
        return -v if rnd.random() < 0.5 else v

    def flt(self):
        rnd = self.rnd
        r = rnd.random()
        if r < 0.4:
            f = rnd.choice(FLOAT_SPECIAL)
        elif r < 0.7:
            while True:
                f = struct.unpack("<d", struct.pack("<Q", rnd.getrandbits(64)))[0]
                if f == f and abs(f) != float("inf"):
                    break
        else:
            f = rnd.choice([rnd.uniform(-1000, 1000), rnd.random(), rnd.randint(-10 ** 6, 10 ** 6) / 100.0, float(rnd.getrandbits(rnd.randint(1, 70)))])
        s = repr(f)
        return "(%s)" % s if s.startswith("-") else s

    def value(self, depth):
        rnd = self.rnd
        r = rnd.random()
        if depth <= 0 or r < 0.5:
            k = rnd.random()
            if k < 0.1:
                return rnd.choice(["None", "True", "False"])
            if k < 0.35:
                n = self.integer()
                return str(n) if n >= 0 else "(%d)" % n
            if k < 0.6:
                return self.flt()
            return star_str(self.string())
        if r < 0.65:
            return "[" + ", ".join(self.value(depth - 1) for _ in range(rnd.choice([0, 1, 2, 3]))) + "]"
        if r < 0.75:
            return "(" + "".join(self.value(depth - 1) + ", " for _ in range(rnd.choice([0, 1, 2, 3]))) + ")"
        if r < 0.9:
            keys = []
            for _ in range(rnd.choice([0, 1, 2, 3])):
                k = self.string()
                if k not in keys:
                    keys.append(k)
            return "{" + ", ".join("%s: %s" % (star_str(k), self.value(depth - 1)) for k in keys) + "}"
        names = rnd.sample(["a", "b", "c", "x1", "_y", "zz", "name", "k"], rnd.choice([0, 1, 2, 3]))
        if rnd.random() < 0.3:
            k = self.string()
            return "struct(**{%s: %s})" % (star_str(k), self.value(depth - 1))
        return "struct(" + ", ".join("%s = %s" % (n, self.value(depth - 1)) for n in names) + ")"


VAL_EXTRA = ['float("inf")', 'float("-inf")', 'float("nan")', '[1.0, float("inf")]', '{"a": float("nan")}', "struct(a = float(\"inf\"))",
             "{1: 2}", '{"a": {2: 3}}', "{None: 1}", '{(1, 2): 3}', '[{"a": 1}, {True: 2}]',
             '"\u00e9"[:1]', '"a" + "\u20ac"[1:]', '"\U0001F600"[:2] + "x"', '["\u00e9"[1:]]', '{"\u00e9"[:1]: 1}',
             "(lambda l: [l, l])([1])", '(lambda d: {"a": d, "b": d})({"k": [1.5]})', "()", "(1,)", "[()]", "{}", "[[], {}, ()]", "struct()",
             '{"b": 1, "a": 2, "c": 3}', 'struct(b = 1, a = 2)', '{"a": {"b": {"c": {"d": {"e": {"f": [1, 2.5, "x", None, True]}}}}}}',
             "[[[[[[1 << 200]]]]]]", '"\\x7f"', '["\\x7f"]', '{"\\x7f": 1}', 'struct(**{"\\x7f": 1})', '"\\x7f\u00e9"', '"\\x01\\x7f"', '"a\\x7f"']


def gen_values(ctx, rnd):
    out = [("extra", v) for v in VAL_EXTRA]
    out += [("string", star_str(s)) for s in STR_SPECIAL]
    for f in FLOAT_SPECIAL:
        s = repr(f)
        out.append(("float", "(%s)" % s if s.startswith("-") else s))
    g = ValGen(rnd)
    for _ in range(4000 if ctx.quick else 60000):
        out.append(("random", g.value(rnd.choice([0, 0, 1, 2, 3, 4, 6]))))
    for cp in list(range(0, 0x80)) + BMP + ASTRAL:      # every ASCII character on its own and inside a word
        out.append(("string", star_str(chr(cp))))
        out.append(("string", star_str("a" + chr(cp) + "b")))
    return out


# ---------------------------------------------------------- independent anchor for the oracle
def _no_const(name):
    raise ValueError("constant %s is not JSON" % name)


def py_enc(v):
    """CPython value -> harness value encoding (None if it has none, e.g. unpaired surrogates)"""
    if v is None:
        return {"t": "none"}
    if v is True or v is False:
        return {"t": "bool", "v": v}
    if isinstance(v, int):
        if abs(v) < (1 << 30):
            return {"t": "int", "v": v}
        m, n = [], abs(v)
        while n:
            m.append(n & 32767)
            n >>= 15
        return {"t": "big", "neg": v < 0, "m": m}
    if isinstance(v, float):
        b = struct.unpack("<Q", struct.pack("<d", v))[0]
        frac = b & ((1 << 52) - 1)
        return {"t": "float", "s": b >> 63, "e": (b >> 52) & 0x7ff, "m": [(frac >> (15 * k)) & 32767 for k in range(4)]}
    if isinstance(v, str):
        return {"t": "str", "v": list(v.encode("utf-8"))}
    if isinstance(v, list):
        return {"t": "list", "v": [py_enc(x) for x in v]}
    return {"t": "dict", "v": [[py_enc(k), py_enc(x)] for k, x in v.items()]}


def py_opinion(doc):
    """strict CPython json.loads as a second, independent JSON reader (used to validate JsonSpec, not the code under test)"""
    try:
        text = bytes(doc).decode("utf-8")
    except UnicodeDecodeError:
        return {"has": False, "valid": False, "hasv": False}
    try:
        v = json.loads(text, parse_constant=_no_const)
    except (ValueError, RecursionError):
        return {"has": True, "valid": False, "hasv": False}
    try:
        return {"has": True, "valid": True, "hasv": True, "v": py_enc(v)}
    except (UnicodeEncodeError, OverflowError):
        return {"has": True, "valid": True, "hasv": False}


# -------------------------------------------------------------------------------- running
def evaluate(ctx, cases, tag="cases"):
    fin, fout = ctx.path(tag + ".in"), ctx.path(tag + ".out")
    vlib.write_ndjson(fin, [({"id": c["id"], "doc": c["doc"]} if c["c"] == "dec" else {"id": c["id"], "src": c["src"]}) for c in cases])
    ctx.vh(["c18-run", "-in", fin, "-out", fout])
    res = {r["id"]: r for r in vlib.read_ndjson(fout)}
    if len(res) != len(cases):
        raise vlib.MachineryError("harness returned %d results for %d cases" % (len(res), len(cases)))
    for c in cases:
        r = res[c["id"]]
        if c["c"] == "enc" and not r.get("panic") and not r["x"]["ok"]:
            raise vlib.MachineryError("generated value expression does not evaluate: %s: %s" % (c["src"], r["x"].get("err")))
    return res


def outcome(o):
    if o is None:
        return {"ok": False, "isdefault": False}
    d = {"ok": o["ok"], "isdefault": bool(o.get("isdefault"))}
    if o["ok"]:
        d["v"] = o["v"]
    return d


def record(c, r):
    if c["c"] == "dec":
        return {"id": c["id"], "c": "dec", "doc": c["doc"], "res": outcome(r.get("res")), "dflt": outcome(r.get("dflt")),
                "py": py_opinion(c["doc"])}
    return {"id": c["id"], "c": "enc", "x": outcome(r.get("x")), "enc": outcome(r.get("enc")), "back": outcome(r.get("back"))}


def tlc_validate(ctx, files):
    verdicts, checked, xval = {}, 0, []
    for f in files:
        r = ctx.tlc("C18Trace", "C18Trace.cfg", env={"VERIF_RECS": f}, timeout=3000, heap="14g", workers=vlib.NCPU,
                    tag="C18Trace-" + os.path.basename(f))
        got = None
        for l in r["printed"]:
            m = re.match(r'<<"VERDICT", (\d+), "([^"]*)">>', l)
            if m:
                verdicts[int(m.group(1))] = m.group(2)
            m = re.match(r'<<"XVAL", (\d+), "([^"]*)">>', l)
            if m:
                xval.append((int(m.group(1)), m.group(2)))
            m = re.match(r'<<"CHECKED", (-?\d+)>>', l)
            if m:
                got = int(m.group(1))
        if got is None or r["error"] or r["rc"] != 0:
            raise vlib.MachineryError("TLC validation of %s failed (rc=%s)\n%s" % (f, r["rc"], r["out"][-4000:]))
        checked += got
        ctx.states += r["states"]
        ctx.transitions += r["transitions"]
    if xval:
        raise vlib.MachineryError("the oracle JsonSpec disagrees with CPython's strict json.loads on records %s" % xval[:10])
    return verdicts, checked


def enc_feature(c, r):
    """names the input class of an encoder failure (label only; the verdict is TLC's)"""
    e = bytes(r["enc"]["v"]["v"]) if r.get("enc") and r["enc"]["ok"] else b""
    if re.search(rb'\\[^"\\/bfnrtu]', e):
        return "string:invalid-escape-in-output"
    if re.search(rb"[\x00-\x1f]", e):
        return "string:raw-control-char-in-output"
    return c["label"]


def signature(c, r, verdict):
    if c["c"] == "dec":
        return "json:decode/%s/%s" % (verdict, c["label"])
    return "json:encode/%s/%s" % (verdict, enc_feature(c, r))


def show_doc(b):
    return repr(bytes(b))[1:]


def show_val(v):
    """readable rendering of a harness-encoded value (messages only)"""
    t = v.get("t")
    if t == "none":
        return "None"
    if t == "bool":
        return str(v["v"])
    if t == "int":
        return str(v["v"])
    if t == "big":
        n = 0
        for l in reversed(v["m"]):
            n = (n << 15) | l
        return str(-n if v["neg"] else n)
    if t == "float":
        frac = sum(l << (15 * k) for k, l in enumerate(v["m"]))
        return repr(struct.unpack("<d", struct.pack("<Q", (v["s"] << 63) | (v["e"] << 52) | frac))[0])
    if t in ("str", "bytes"):
        return repr(bytes(v["v"]))[1:]
    if t in ("list", "tuple"):
        return ("[%s]" if t == "list" else "(%s)") % ", ".join(show_val(x) for x in v["v"])
    if t == "dict":
        return "{%s}" % ", ".join("%s: %s" % (show_val(k), show_val(x)) for k, x in v["v"])
    return json.dumps(v)[:80]


def run(ctx):
    rnd = random.Random(ctx.seed)
    cases = []
    for lab, d in gen_docs(ctx, rnd):
        cases.append({"id": len(cases) + 1, "c": "dec", "label": lab, "doc": list(d)})
    for lab, src in gen_values(ctx, rnd):
        cases.append({"id": len(cases) + 1, "c": "enc", "label": lab, "src": src})
    ctx.log("generated %d cases" % len(cases))
    res = evaluate(ctx, cases)
    ctx.tlc_ok("C18MC", "C18MC.cfg" if ctx.quick else "C18MCThorough.cfg", workers=12, heap="6g")
    ctx.log("design check of JsonSpec (C18MC) passed")
    recs = [record(c, res[c["id"]]) for c in cases]
    files = []
    for k, sh in enumerate(vlib.shard(recs, max(1, (len(recs) + 59999) // 60000))):
        f = ctx.path("recs%02d.ndjson" % k)
        vlib.write_ndjson(f, sh)
        files.append(f)
    verdicts, checked = tlc_validate(ctx, files)
    if checked != len(cases):
        raise vlib.MachineryError("TLC checked %d of %d records" % (checked, len(cases)))
    byid = {c["id"]: c for c in cases}
    bad = {i: v for i, v in verdicts.items() if not v.startswith("note:")}
    notes = {i: v for i, v in verdicts.items() if v.startswith("note:")}
    ctx.log("TLC judged %d records: %d rejected, %d notes" % (checked, len(bad), len(notes)))
    redo = sorted((byid[i] for i in bad), key=lambda c: (len(c.get("doc", c.get("src", ""))), c["id"]))
    sig_count = {}
    if redo:
        r2 = evaluate(ctx, redo, tag="redo")
        for c in redo:
            if record(c, r2[c["id"]]) != record(c, res[c["id"]]):
                raise vlib.MachineryError("case %d not reproducible" % c["id"])
    for c in redo:
        r = res[c["id"]]
        sig = signature(c, r, bad[c["id"]])
        sig_count[sig] = sig_count.get(sig, 0) + 1
        if c["c"] == "dec":
            what = "json.decode(%s) -> %s" % (show_doc(c["doc"]), show_val(r["res"]["v"])[:120] if r["res"]["ok"] else "error: " + r["res"].get("err", ""))
        else:
            what = "json.encode(%s) -> %s" % (c["src"], show_doc(r["enc"]["v"]["v"]) if r.get("enc") and r["enc"]["ok"] else "error")
            if r.get("back") is not None and not r["back"]["ok"]:
                what += "; json.decode of that: " + r["back"].get("err", "")
        ctx.violation(sig, what + " (%s)" % bad[c["id"]], {"case": c, "observed": r})
    for c in cases:
        if res[c["id"]].get("panic"):
            ctx.violation("json:%s/panic" % c["c"], "%s panics: %s" % (c.get("src") or show_doc(c["doc"]), res[c["id"]]["panic"]), {"case": c})
    # ---- evidence
    per_label, note_count, valid_docs, invalid_docs = {}, {}, 0, 0
    for c in cases:
        key = c["c"] + ":" + c["label"]
        per_label[key] = per_label.get(key, 0) + 1
        if c["c"] == "dec":
            ok = res[c["id"]]["res"]["ok"]
            valid_docs += ok
            invalid_docs += not ok
    for i, v in notes.items():
        key = "%s (%s)" % (v, byid[i]["c"])
        note_count[key] = note_count.get(key, 0) + 1
    ctx.cov["evaluations"] = len(cases)
    ctx.cov["traces_validated_against_impl"] = checked - len(bad)
    ctx.cov["distinct_nontrivial"] = len({bytes(c["doc"]) if c["c"] == "dec" else c["src"] for c in cases})
    ctx.cov["documents"] = sum(1 for c in cases if c["c"] == "dec")
    ctx.cov["documents_accepted_by_impl"] = valid_docs
    ctx.cov["documents_rejected_by_impl"] = invalid_docs
    ctx.cov["values_encoded"] = sum(1 for c in cases if c["c"] == "enc")
    ctx.cov["per_label"] = per_label
    ctx.cov["rejected_by_signature"] = sig_count
    ctx.cov["notes_not_violations"] = note_count
    step = max(1, len(cases) // 7)
    ctx.samples = [({"doc": show_doc(c["doc"]), "decoded": res[c["id"]]["res"].get("v", "error")} if c["c"] == "dec"
                    else {"src": c["src"][:200], "encoded": show_doc(res[c["id"]]["enc"]["v"]["v"])[:200] if res[c["id"]].get("enc") and res[c["id"]]["enc"]["ok"] else "error"})
                   for c in cases[::step]][:8]
    ctx.assumptions = [
        "documents that are not UTF-8, unpaired surrogate escapes, numbers beyond the binary64 range and str values that are not UTF-8 are recorded as notes (RFC 8259 / module documentation silent)",
        "for a repeated object name the last member counts (RFC 8259 section 4: the usual behaviour)",
        "floats are judged by the nearest-binary64 (ties to even) test of spec/Float64.tla on the exact decimal",
        "object member order of json.encode is not asserted (only the set of names and their values)",
    ]
    return ctx.finish(rule="checks/c18.py: documents from the RFC 8259 grammar (random trees to depth 6, random whitespace, every escape form, surrogate pairs, "
                           "hard number forms), each catalogue corruption applied to one value of such a document, hand-written boundary documents; nested "
                           "Starlark values (None/bool/int to 2^200/float incl. random bit patterns/str over all of Unicode/list/tuple/dict/struct, depth <= 6); "
                           "distinct = distinct document bytes or value expressions; every case reaches json.decode or json.encode",
                      exhaustive=False)


def replay(ctx, path):
    d = json.load(open(path))
    c = d["replay"]["case"]
    r = evaluate(ctx, [c])[c["id"]]
    if r.get("panic"):
        print("replay %s: panics: %s" % (path, r["panic"]))
        return 1
    f = ctx.path("replay.ndjson")
    vlib.write_ndjson(f, [record(c, r)])
    verdicts, _ = tlc_validate(ctx, [f])
    v = verdicts.get(c["id"], "ok")
    print("replay %s: %s : %s" % (path, c.get("src") or show_doc(c["doc"]), v))
    return 1 if (v != "ok" and not v.startswith("note:")) else 0
