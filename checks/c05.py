"""C05  Frozen values and compiled programs are safe to share between threads.

(1) design (P-E): spec/Threads.tla (operations as sequences of atomic accesses to implementation
    locations, vector-clock happens-before, sync.Once for the line table) is model-checked through
    spec/C05MC.tla: all interleavings of all ordered pairs of operation x value kind on two threads,
    all triples on a reduced set on three threads, two operations per thread on the position-decoding
    operations.  Invariants NoRace, Immutable, OnceOK.  Variants with one guard removed must violate
    NoRace (negative design checks: the invariant is not vacuous).
(2) code -> spec, deterministic (P-D): with the verif hooks on, a module builds every value kind, finishes
    (publication), then every operation runs on every published value on one thread; TLC validates the
    hook trace against spec/C05Trace.tla: no iterator-counter or frozen-flag write on a published object.
    The same for the globals of the repository's own test programs.
(3) spec -> code under the Go race detector: the combinations emitted by TLC in (1) are run by the -race
    harness on 2..8 goroutines behind a start barrier on one freshly published module and one set of
    shared compiled programs per combination; race reports, per-goroutine transcripts (compared with the
    solo transcripts) and accepted mutations are findings.  Every finding is re-executed in a fresh process.
"""
import concurrent.futures, json, os, random, re
import vlib

LEVEL = "exploration"

INVS = "TypeOK NoRace Immutable OnceOK Emit"


def cfg_text(n, maxops, opset, guards, invs):
    return ("CONSTANTS\n  NThreads = %d\n  MaxOps = %d\n  OpSet <- %s\n  Guards <- %s\nINIT Init\nNEXT Next\nINVARIANTS %s\n"
            % (n, maxops, opset, guards, invs))


def model_check(ctx, name, n, maxops, opset):
    """design-level model check that must hold; returns the emitted combinations (list of per-thread op lists)"""
    r = ctx.tlc_ok("C05MC", "C05MC_%s.cfg" % name, workers=6, timeout=3000, heap="2g", tag="mc-" + name,
                   cfg_text=cfg_text(n, maxops, opset, "GuardsAll", INVS))
    seen, out = set(), []
    for l in r["out"].split("\n"):
        if l.startswith('"P{'):
            s = l.strip()[2:-1].replace('\\"', '"')
            if s not in seen:
                seen.add(s)
                out.append(json.loads(s)["ops"])
    combos = {(o["op"], o["k"]) for c in out for seq in c for o in seq}
    want = len(combos) ** (n * maxops)
    if not out or len(out) != want:
        raise vlib.MachineryError("C05MC/%s: %d combinations emitted, %d expected" % (name, len(out), want))
    ctx.log("C05MC/%s: %d threads x %d op(s), %d operation x kind: %d states, NoRace/Immutable/OnceOK hold; %d combinations" % (
        name, n, maxops, len(combos), r["states"], len(out)))
    return out, combos


def negative_check(ctx, guard):
    """a variant of the model with one guard removed must violate NoRace"""
    r = ctx.tlc("C05MC", "C05MC_neg_%s.cfg" % guard, workers=2, timeout=1200, heap="1g", tag="neg-" + guard,
                cfg_text=cfg_text(2, 1, "NegOps", guard, "NoRace"))
    if not (r["violated"] and "Invariant NoRace is violated" in r["out"]):
        raise vlib.MachineryError("negative design check %s: TLC did not report the race (NoRace would be vacuous)\n%s" % (guard, r["out"][-2000:]))
    ctx.states += r["states"]
    ctx.transitions += r["transitions"]
    # the racing operations: cur of the last state of the counterexample
    last = r["out"].rsplit("/\\ cur = ", 1)[-1]
    ops = re.findall(r'\[op \|-> "(\w+)", k \|-> "(\w+)"\]', last.split("/\\ ", 1)[0])
    return "+".join("%s/%s" % o for o in ops if o[0] != "none")


def validate_trace(ctx, f, what):
    r = ctx.tlc("C05Trace", "C05Trace.cfg", env={"VERIF_RECS": f}, workers=1, timeout=3000, heap="2g", tag="trace-" + what)
    got = [int(m) for m in re.findall(r'<<"CHECKED", (\d+)>>', r["out"])]
    n = sum(1 for _ in open(f))
    if r["error"] or r["rc"] != 0 or not got or got[0] != n:
        raise vlib.MachineryError("trace validation (%s) failed:\n%s" % (what, r["out"][-2500:]))
    ctx.states += r["states"]
    ctx.transitions += r["transitions"]
    bad = sorted(int(m) for m in re.findall(r'<<"BAD", (\d+)>>', r["out"]))
    pub = [int(m) for m in re.findall(r'<<"PUBLISHED", (\d+)>>', r["out"])]
    return n, bad, pub


def explain_bad(f, bad):
    """rejected events with the run and the operation they belong to"""
    out, run, op = [], None, None
    want = set(bad)
    for l in open(f):
        e = json.loads(l)
        if e["ev"] == "reset":
            run, op = e["tag"], None
        elif e["ev"] == "op":
            op = e["tag"]
        if e["n"] in want:
            out.append((run, op, e))
    return out


def run_trace(ctx, binary, only=None, onlyrun=None, repo=True, tag="trace"):
    tf, sf = ctx.path(tag + ".ndjson"), ctx.path(tag + "-summary.json")
    args = ["c05-trace", "-trace", tf, "-out", sf]
    if only:
        args += ["-only", only]
    if onlyrun:
        args += ["-onlyrun", onlyrun]
    if repo and not only:
        args += ["-repo", vlib.REPO]
    ctx.vh(args, binary=binary, timeout=3000)
    summ = vlib.read_ndjson(sf)[-1]
    if not summ.get("summary"):
        raise vlib.MachineryError("c05-trace did not finish")
    return tf, summ


def race_env(ctx, tag):
    return {"GORACE": "halt_on_error=0 exitcode=0 history_size=5 log_path=%s" % ctx.path("racelog-" + tag)}


def run_race(ctx, racebin, cases, iters, gs, tag):
    cf, rf = ctx.path("cases-%s.ndjson" % tag), ctx.path("race-%s.ndjson" % tag)
    vlib.write_ndjson(cf, cases)
    ctx.vh(["c05-race", "-in", cf, "-out", rf, "-iters", str(iters), "-g", gs, "-selftest"], binary=racebin,
           env=race_env(ctx, tag), timeout=6000)
    res = vlib.read_ndjson(rf)
    summ = res[-1]
    if not summ.get("summary") or summ["combos"] != len(cases):
        raise vlib.MachineryError("c05-race did not finish (%s)" % tag)
    if not summ["selftest_reported"]:
        raise vlib.MachineryError("the race detector did not report the deliberately racy self-test: pipeline is blind")
    return res[:-1], summ


def top_frames(report):
    """for each of the two conflicting accesses of the first report: the innermost frame that belongs to the
    implementation (go.starlark.net/...) if the access reaches one before any harness frame (a race inside a standard
    library object owned by the implementation is the implementation's), else the innermost frame"""
    tops = []
    lines = report.split("\n")
    for i, l in enumerate(lines):
        if re.match(r"\s*(Previous )?(atomic )?([Ww]rite|[Rr]ead) at 0x[0-9a-f]+ by ", l) and i + 1 < len(lines):
            frames = []
            j = i + 1
            while j < len(lines) and lines[j].strip():
                frames.append(re.sub(r"\(\)$", "", lines[j].strip()))
                j += 2
            pick = frames[0] if frames else ""
            for f in frames:
                if f.startswith("go.starlark.net/"):
                    pick = f
                    break
                if f.startswith("main.") or f.startswith("verifharness"):
                    break
            tops.append(pick)
        if len(tops) == 2:
            break
    return tops


def race_signature(report):
    tops = top_frames(report)
    if len(tops) < 2:
        raise vlib.MachineryError("unparseable race report:\n" + report[:1500])
    if not any("go.starlark.net/" in t for t in tops):
        raise vlib.MachineryError("data race inside the harness itself (not a finding):\n" + report[:3000])
    short = sorted(re.sub(r"^go\.starlark\.net/", "", t) for t in tops)
    return "race:" + "+".join(short)


def combo_name(case):
    return "+".join(",".join("%s/%s" % (o["op"], o["k"]) for o in seq) for seq in case["ops"])


def ordered_key(c):
    return json.dumps(c, sort_keys=True)


def run(ctx):
    quick = ctx.quick
    rng = random.Random(ctx.seed)
    bg = concurrent.futures.ThreadPoolExecutor(1)

    def go_jobs():
        b = ctx.build()
        tf, summ = run_trace(ctx, b)
        combos = {(o["op"], o["k"]) for o in map(json.loads, ctx.vh(["c05-combos"], binary=b).stdout.split())}
        return b, tf, summ, combos
    fut_go = bg.submit(go_jobs)
    fut_race = bg.submit(lambda: ctx.build(race=True))

    # ---------------------------------------------------------------- (1) design-level model checking
    try:
        pairs, combos = model_check(ctx, "pairs", 2, 1, "PairOps")
        triples, _ = model_check(ctx, "triples", 3, 1, "TripleOpsQuick" if quick else "TripleOps")
        progseqs, _ = model_check(ctx, "program", 2, 2, "ProgramOpsQuick" if quick else "ProgramOps")
        variants = (["NoIterGuard", "NoFreezeGuard", "NoOnceGuard"] if quick else
                    ["NoIterGuard", "NoFreezeGuard", "NoCellGuard", "NoOnceGuard", "NoPublish"])
        with concurrent.futures.ThreadPoolExecutor(3) as ex:      # tiny models: JVM start-up dominates
            negs = dict(zip(variants, ex.map(lambda g: negative_check(ctx, g), variants)))
        ctx.log("negative design checks (guard removed => TLC reports the race): " + ", ".join("%s: %s" % kv for kv in negs.items()))

        # ------------------------------------------------------------ (2) write-after-publish on one thread
        b, tf, tsumm, hcombos = fut_go.result()
        if hcombos != combos:
            raise vlib.MachineryError("operation tables differ: model-only %s, harness-only %s" % (sorted(combos - hcombos), sorted(hcombos - combos)))
        n_ev, bad, pub = validate_trace(ctx, tf, "all")
        if not pub or pub[0] < 10 or tsumm["ops"] != 4 * len(combos):
            raise vlib.MachineryError("hook trace is vacuous: published=%s ops=%s" % (pub[:1], tsumm["ops"]))
        ctx.log("hook trace: %d events, %d operations on the published module (%d flagged objects), %d test-program chunks with %d global values; %d rejected" % (
            n_ev, tsumm["ops"], pub[0], tsumm["chunks"], tsumm["values"], len(bad)))
        groups = {}
        rejected = explain_bad(tf, bad)
        # a counter left non-zero at the end is the consequence of a rejected begin/done of the same run
        runs_with_writes = {r for r, _, e in rejected if e["ev"] in ("begin", "done", "freeze")}
        for runname, op, e in rejected:
            if e["ev"] == "final" and runname in runs_with_writes:
                continue
            if e["ev"] == "publish":
                raise vlib.MachineryError("run %s: a container reachable from the globals was not seen being frozen by the hooks (event %s)" % (runname, e))
            opk = "/".join((op or "?").split("/")[-3:][:2]) if runname == "module" else "testdata:" + (op or "?").split("/", 1)[-1]
            sig = "write-after-publish:%s/%s" % ({"begin": "iter-begin", "done": "iter-done", "freeze": "freeze", "final": "final-state"}[e["ev"]], e.get("ot", "obj"))
            groups.setdefault(sig, []).append((runname, opk, e))
        for sig, items in groups.items():
            runname, opk, e = items[0]
            # re-execute the first failing operation alone and validate again
            if e["ev"] == "final":
                opk = None
            if runname == "module":
                tf2, _ = run_trace(ctx, b, only=opk, repo=False, tag="trace-again")
            else:
                tf2, _ = run_trace(ctx, b, onlyrun=runname, tag="trace-again")
            _, bad2, _ = validate_trace(ctx, tf2, "again")
            if not bad2:
                raise vlib.MachineryError("rejected event %s of run %s did not reproduce" % (e, runname))
            ops = sorted({i[1] for i in items})
            ctx.violation(sig, "after publication the %s of a published %s was written (hook event %s) by: %s" % (
                {"begin": "iterator counter", "done": "iterator counter", "freeze": "frozen flag", "final": "state"}[e["ev"]],
                e.get("ot", "object"), json.dumps(e), ", ".join(ops[:12])),
                {"trace_only": opk if runname == "module" else None, "trace_run": runname})
        for m in tsumm["mutated"][:5]:
            ctx.violation("mutation-accepted:" + m.split("/")[-1], "a mutation of a published value was not rejected: " + m, {"trace_only": None, "trace_run": "module"})
        for k, v in tsumm["transcripts"].items():
            if k.endswith("/second-differs"):
                ctx.violation("transcript:" + "/".join(k.split("/")[:2]), "the second execution of %s on one thread observed something else: %s" % (k, v[:300]),
                              {"trace_only": "/".join(k.split("/")[:2]), "trace_run": "module"})

        # ------------------------------------------------------------ (3) under the race detector
        racebin = fut_race.result()
    finally:
        bg.shutdown(wait=True)
    if quick:
        # unordered pairs (goroutines of both roles run concurrently anyway), all triples, a sample of the sequences
        keep, seenp = [], set()
        for p in pairs:
            k = tuple(sorted(ordered_key(s) for s in p))
            if k not in seenp:
                seenp.add(k)
                keep.append(p)
        sel = keep + triples + rng.sample(progseqs, min(len(progseqs), 60))
        iters, gs = 20, "2,4"
    else:
        sel = pairs + triples + progseqs
        iters, gs = 100, "2,4,8"
    cases = [{"id": i + 1, "ops": c} for i, c in enumerate(sel)]
    probs, rsumm = run_race(ctx, racebin, cases, iters, gs, "main")
    npairs = len(sel) - len(triples) - (60 if quick else len(progseqs))
    ctx.log("race harness: %d combinations (%d pairs, %d triples, %d two-op sequences) on %d goroutines, %d operation executions, %d with problems" % (
        rsumm["combos"], npairs, len(triples), len(sel) - npairs - len(triples), rsumm["goroutines"], rsumm["executions"], len(probs)))
    by_id = {c["id"]: c for c in cases}
    done_sigs = set()
    unreproduced = []
    for p in probs:
        if p["id"] == -1:
            for m in p["mutated"]:
                ctx.violation("mutation-accepted:" + m, "a mutation of a published value was not rejected (solo run): " + m, {"case": None})
            continue
        case = dict(by_id[p["id"]], g=p["g"])
        name = combo_name(case)
        if p["race"]:
            sig = race_signature(p["race"])
            if sig in done_sigs:
                continue
            done_sigs.add(sig)
            again = None
            for attempt in range(3):
                pr, _ = run_race(ctx, racebin, [case], iters * 2, str(p["g"]), "again%d" % attempt)
                if pr and pr[0]["race"]:
                    again = pr[0]
                    break
            if again is None:
                # a report that cannot be reproduced is never a verdict; it is a machinery failure unless the same run has
                # deterministic violations to report (decided at the end)
                unreproduced.append("race report of %s did not reproduce in 3 fresh processes:\n%s" % (name, p["race"][:3000]))
                continue
            tops = top_frames(again["race"])
            ctx.violation(sig, "DATA RACE while %d goroutines ran %s on one published module: %s" % (p["g"], name, " <-> ".join(tops)),
                          {"case": case, "iters": iters * 2, "report": again["race"][:4000]})
        for m in (p["mismatch"] or [])[:1]:
            sig = "transcript:" + "/".join(m["op"].split("/")[:2])
            if sig in done_sigs:
                continue
            done_sigs.add(sig)
            pr, _ = run_race(ctx, racebin, [case], iters * 2, str(p["g"]), "again-t")
            if not (pr and pr[0]["mismatch"]):
                raise vlib.MachineryError("transcript mismatch of %s did not reproduce: %s" % (name, json.dumps(m)[:1500]))
            ctx.violation(sig, "while running %s concurrently, goroutine %d observed for %s: %s  -- alone it observes: %s" % (
                name, m["goroutine"], m["op"], m["got"][:400], m["want"][:400]), {"case": case, "iters": iters * 2})
        for m in (p["mutated"] or [])[:1]:
            ctx.violation("mutation-accepted:" + m, "a mutation of a published value was not rejected while running %s: %s" % (name, m), {"case": case, "iters": iters})

    ctx.cov.update({
        "evaluations": rsumm["executions"] + tsumm["ops"] + tsumm["values"],
        "distinct_nontrivial": rsumm["combos"] + tsumm["ops"] // 2,
        "traces_validated_against_impl": 1 + tsumm["chunks"],
        "concurrent_combinations": rsumm["combos"], "goroutines_started": rsumm["goroutines"],
        "operation_executions_under_race_detector": rsumm["executions"],
        "ordered_pairs_model_checked": len(pairs), "triples_model_checked": len(triples), "two_op_sequences_model_checked": len(progseqs),
        "operation_x_kind": len(combos), "negative_design_checks": negs,
        "hook_events_validated": n_ev, "test_program_chunks_traced": tsumm["chunks"], "published_objects_in_module": pub[0],
        "race_detector_selftest_reported": rsumm["selftest_reported"],
    })
    ctx.samples = [cases[0], cases[len(cases) // 2], cases[-1],
                   {"transcript of iterate/list/0": tsumm["transcripts"].get("iterate/list/0", "")[:300]},
                   vlib.read_ndjson(tf)[:8]]
    ctx.assumptions = [
        "the Go race detector is a dynamic observer: it reports conflicting accesses that the executed operations actually perform without "
        "happens-before; a write site that no operation of the corpus reaches is missed",
        "hooks exist for the iterator counters and frozen flags of lists and hash tables only; struct and closure-cell flags are covered by the race runs only",
        "solo transcripts are taken on a structurally equal module in the same process (string hashes are seeded per process)",
        "quick tier runs unordered pairs (both roles run concurrently in either order) and a seeded sample of the two-operation sequences",
    ]
    if unreproduced:
        if not ctx.violations:
            raise vlib.MachineryError(unreproduced[0])
        ctx.notes.append("%d race report(s) did not reproduce and were not reported: %s" % (len(unreproduced), unreproduced[0][:300]))
    return ctx.finish(rule="combinations = behaviours of C05MC (all ordered pairs of 54 operation x kind on 2 threads; all triples of a reduced set; two-op "
                           "sequences of the position-decoding operations), each run on 2..8 goroutines x iterations on a freshly published module with two "
                           "variants (plain / nested) of every kind; plus every operation x kind x variant twice on one thread under hooks; distinct = "
                           "different combination or different operation/kind/variant; non-trivial = all goroutines executed all their operations and every "
                           "transcript was compared with the solo transcript", exhaustive=False)


def replay(ctx, path):
    d = json.load(open(path))["replay"]
    if d.get("case"):
        racebin = ctx.build(race=True)
        pr, _ = run_race(ctx, racebin, [d["case"]], d.get("iters", 100), str(d["case"].get("g", 4)), "replay")
        print("replay %s: %s" % (combo_name(d["case"]), json.dumps(pr)[:3000]))
        return 1 if pr else 0
    b = ctx.build()
    if d.get("trace_run", "module") == "module":
        tf, summ = run_trace(ctx, b, only=d.get("trace_only"), repo=False, tag="replay")
    else:
        tf, summ = run_trace(ctx, b, onlyrun=d["trace_run"], tag="replay")
    _, bad, _ = validate_trace(ctx, tf, "replay")
    print("replay: rejected events %s, accepted mutations %s" % (explain_bad(tf, bad)[:5], summ["mutated"][:5]))
    return 1 if bad or summ["mutated"] else 0
