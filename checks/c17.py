"""C17  Compiled programs survive serialization unchanged.

(1) design check (spec/C17MC.tla over spec/Serial.tla): Decode(Encode(p)) = p, canonical re-encoding and
    rejection of damaged files over a field domain that covers every constant kind, flag combination,
    list shape and string adjacency of the documented format;
(2) code -> spec record validation (P-A, spec/C17Trace.tla): for every generated source the harness
    (`vh c17-run`) builds P from source, b1 = Write(P), Q = CompiledProgram(b1), b2 = Write(Q), runs
    P.Init and Q.Init with the same environment and loader, and TLC checks Obs(P) = Obs(Q),
    Meta(P) = Meta(Q), b1 = b2 on every record; for the branch programs and a fifth of the generated ones the real file b1 (split
    into raw varints and string section only) is parsed by Serial!Decode and must equal the fields the
    implementation holds for P, re-encode to b1, and equal the fields of Q.
"""
import base64, json, os, random, re
import vlib

LEVEL = "exploration"
ALL_ON = {"Set": True, "While": True, "TopLevelControl": True, "GlobalReassign": True, "LoadBindsGlobally": False, "Recursion": True}


def q(s):
    out = '"'
    for c in s:
        if c == '"' or c == "\\":
            out += "\\" + c
        elif c == "\n":
            out += "\\n"
        elif c == "\x00":
            out += "\\x00"
        else:
            out += c
    return out + '"'


INT_CONSTS = ["0", "1", "7", "255", "65536", "2147483647", "2147483648", "4294967296", "4611686018427387904", "9223372036854775807",
              "9223372036854775808", "18446744073709551616", "1180591620717411303424", "123456789012345678901234567890",
              "0x7fffffffffffffff", "0o777", "0b1011", "1" + "0" * 60]
FLOAT_CONSTS = ["0.0", "1.5", "1e308", "5e-324", "1e-7", "3.141592653589793", "1e21", "0.1", "2.2250738585072014e-308", "1.7976931348623157e308", ".5", "1e0"]
BYTES_CONSTS = ['b""', 'b"\\x00\\xff\\xfe"', 'b"abc"', 'b"\\n\\t"', 'b"\\xc3\\x28"', 'b"' + "z" * 200 + '"', 'b"\\xf0\\x9f\\x98\\x80"']
STR_CONSTS = ['""', '"abc"', '"\\u00e9\\U0001F600"', '"nul\\x00nul"', '"' + "long " * 60 + '"', '"q\\"uote\\\\"', '"line\\nbreak"', "'single'",
              '"""triple\nquoted"""', 'r"raw\\n"', '"\\u4e2d\\u6587"', '"a" "b"' if False else '"ab"']
NAMES = ["alpha", "beta", "gamma", "delta", "eps", "zeta", "eta", "theta", "iota", "kappa", "lam", "mu", "nu", "xi", "omi", "pi_", "rho", "sigma", "tau", "ups"]


def const(rnd):
    k = rnd.random()
    if k < 0.3:
        c = rnd.choice(INT_CONSTS)
        return ("-" + c) if rnd.random() < 0.25 else c
    if k < 0.5:
        c = rnd.choice(FLOAT_CONSTS)
        return ("-" + c) if rnd.random() < 0.25 else c
    if k < 0.65:
        return rnd.choice(BYTES_CONSTS)
    if k < 0.85:
        return rnd.choice(STR_CONSTS)
    if k < 0.9:
        return rnd.choice(["None", "True", "False"])
    return rnd.choice(["(%s, %s)" % (const(rnd), const(rnd)), "[%s]" % const(rnd), "{%s: %s}" % (rnd.choice(STR_CONSTS[:3]), const(rnd)), "()"])


FAILS = ["1 // ZERO", "[1, 2][5]", '{}["k"]', "None.attr", 'int("x")', 'fail("deliberate", 1)', '"a" + 1', "len(1, 2)", "1 % ZERO", "[] < 1",
         '"abc".nosuch()', "(lambda: 1 // ZERO)()", "[x // ZERO for x in [1]]", "{1: 2}.pop(3)", "sorted([1, \"a\"])", "struct(a=1).b", "json.decode(\"{\")"]


class PG:
    """generator of statically valid programs that exercise the serialised form"""

    def __init__(self, rnd):
        self.rnd = rnd
        self.n = 0

    def name(self, base=None):
        self.n += 1
        return "%s_%d" % (base or self.rnd.choice(NAMES), self.n)

    def docstring(self, ind):
        r = self.rnd
        if r.random() < 0.55:
            return []
        txt = r.choice(["Doc.", "Returns the thing.\n\n    Args:\n      x: a value\n    ", "\\u00e9t\\u00e9 \\U0001F600", "", "d" * 300, "tabs\\tand \\\\ backslash"])
        return ["    " * ind + '"""%s"""' % txt]

    def params(self):
        """(parameter list source, a call argument list source that binds it)"""
        r = self.rnd
        ps, args = [], []
        npos, ndef = r.randint(0, 3), r.randint(0, 2)
        names = []
        allpos = True          # every parameter so far was bound positionally
        for _ in range(npos):
            n = self.name("p")
            ps.append(n)
            names.append(n)
            args.append(const(r))
        for _ in range(ndef):
            n = self.name("d")
            ps.append("%s=%s" % (n, const(r)))
            names.append(n)
            if r.random() < 0.4:
                if allpos and r.random() < 0.6:
                    args.append(const(r))
                else:
                    args.append("%s=%s" % (n, const(r)))
                    allpos = False
            else:
                allpos = False
        star = r.choice([None, None, "args", "bare"])
        kwargs_list = []
        if star == "args":
            a = self.name("args")
            ps.append("*" + a)
            names.append(a)
            if allpos and r.random() < 0.5:
                args += [const(r) for _ in range(r.randint(1, 2))]
        if star:
            nkw = r.randint(1 if star == "bare" else 0, 2)
            if star == "bare" and nkw:
                ps.append("*")
            for _ in range(nkw):
                n = self.name("k")
                names.append(n)
                if r.random() < 0.5:
                    ps.append(n)
                    kwargs_list.append("%s=%s" % (n, const(r)))
                else:
                    ps.append("%s=%s" % (n, const(r)))
                    if r.random() < 0.4:
                        kwargs_list.append("%s=%s" % (n, const(r)))
        if r.random() < 0.3:
            k = self.name("kw")
            ps.append("**" + k)
            names.append(k)
            if r.random() < 0.5:
                kwargs_list.append("%s=%s" % (self.name("extra"), const(r)))
        return ", ".join(ps), ", ".join(args + kwargs_list), names

    def body(self, ind, names, fail, depth):
        r = self.rnd
        pad = "    " * ind
        out = []
        loc = self.name("loc")
        out.append(pad + "%s = [%s]" % (loc, ", ".join(names[:3])))
        k = r.random()
        if k < 0.3:
            out.append(pad + "for %s in range(%d):" % (self.name("i"), r.randint(0, 4)))
            out.append(pad + "    %s.append(%s)" % (loc, const(r)))
            if r.random() < 0.3:
                out.append(pad + "    if len(%s) > 3: break" % loc)
        elif k < 0.5:
            v = self.name("v")
            out.append(pad + "%s = [(%s, %s) for %s in %s if %s != None]" % (self.name("c"), v, const(r), v, loc, v))
        elif k < 0.6:
            w = self.name("w")
            out += [pad + "%s = 0" % w, pad + "while %s < %d:" % (w, r.randint(0, 3)), pad + "    %s += 1" % w]
        elif k < 0.7:
            out.append(pad + "%s = {str(%s): %s for %s in range(%d)}" % (self.name("m"), "j", const(r), "j", r.randint(0, 3)))
        inner = None
        if depth < 2 and r.random() < 0.55:
            # a nested function with free variables: the enclosing locals become cells
            inner = self.name("inner")
            ps, args, ns = self.params()
            out.append(pad + "def %s(%s):" % (inner, ps))
            out += self.docstring(ind + 1)
            out += self.body(ind + 1, ns + [loc] + names[:1], fail and r.random() < 0.5, depth + 1)
            if r.random() < 0.5:
                out.append(pad + "trace(%s(%s))" % (inner, args))
            else:
                out.append(pad + "%s.append(%s(%s))" % (loc, inner, args))
        if r.random() < 0.3:
            cap = names[0] if names else loc
            out.append(pad + "%s = lambda y=%s: (y, %s, %s)" % (self.name("lam"), const(r), cap, loc))
        if fail:
            out.append(pad + "%s = %s" % (self.name("bad"), fail))
        ret = r.choice([loc, "(%s, %s)" % (loc, inner) if inner else loc, "len(%s)" % loc, inner or loc])
        out.append(pad + "return %s" % ret)
        return out

    def program(self):
        r = self.rnd
        lines, mods = [], {}
        if r.random() < 0.4:
            lines.append('"""%s"""' % r.choice(["Module docstring.", "m\\u00f6dule", "x" * 100]))
        nload = r.choice([0, 0, 1, 2])
        for m in range(nload):
            mod = "lib%d.star" % m
            names = [self.name("ext") for _ in range(r.randint(1, 3))]
            mods[mod] = "".join("%s = %s\n" % (n, const(r)) for n in names) + "def %s_fn(x=%s):\n    \"\"\"loaded\"\"\"\n    return [x, %s]\n" % (names[0], const(r), names[0])
            items = []
            for n in names + [names[0] + "_fn"]:
                items.append(q(n) if r.random() < 0.6 else "%s=%s" % (self.name("al"), q(n)))
            lines.append("load(%s, %s)" % (q(mod), ", ".join(items)))
        lines.append("ZERO = 0")
        for _ in range(r.randint(1, 6)):
            lines.append("%s = %s" % (self.name("C").upper(), const(r)))
        where = r.random()
        fail = r.choice(FAILS) if where < 0.45 else None
        nfun = r.randint(1, 4)
        failfn = r.randrange(nfun) if fail and where < 0.35 else -1
        calls = []
        for i in range(nfun):
            f = self.name("fn")
            ps, args, ns = self.params()
            gap = ""
            if r.random() < 0.04:
                gap = "\n" * r.choice([40, 300, 100001, 140000])     # line deltas beyond what one table row can hold
            lines.append(gap + "def %s(%s):" % (f, ps))
            lines += self.docstring(1)
            lines += self.body(1, ns, fail if i == failfn else None, 0)
            calls.append("%s = %s(%s)" % (self.name("res"), f, args))
        if r.random() < 0.25:
            lines += ["def fact(n):", "    return 1 if n <= 1 else n * fact(n - 1)"]
            calls.append("%s = fact(%d)" % (self.name("res"), r.choice([0, 1, 5, 25])))
        r.shuffle(calls)
        for c in calls:
            if r.random() < 0.05:
                # a very long line: column deltas beyond what one table row can hold
                c = c.replace("(", "(" + " " * r.choice([70, 5000, 10050, 70000]), 1)
            lines.append(c)
            if r.random() < 0.3:
                lines.append("print(%s)" % c.split(" = ")[0])
        if fail and failfn < 0:
            pre = " " * r.choice([0, 0, 0, 40, 10100]) if r.random() < 0.3 else ""
            lines.append(("\n" * r.choice([0, 0, 33, 100500]) if r.random() < 0.2 else "") + "%s = (%s%s)" % (self.name("bad"), pre, fail))
        lines.append("trace(ZERO, %s)" % ", ".join(c.split(" = ")[0] for c in calls[:3]))
        opts = dict(ALL_ON)
        if r.random() < 0.3:
            for f in opts:
                opts[f] = r.random() < 0.6
        p = {"src": "\n".join(lines) + "\n", "opts": opts}
        if mods:
            p["mods"] = mods
        return p


def branch_programs():
    """hand-written programs, one per encoder branch"""
    out = []
    add = lambda src, **kw: out.append(dict({"src": src, "opts": dict(ALL_ON)}, **kw))
    add("A = 9223372036854775807\nB = -9223372036854775807 - 1\nC = 9223372036854775808\nD = -9223372036854775809\nE = 1 << 200\nF = %s\ntrace(A, B, C, D, E, F)\n" % ("7" * 400))
    add("A = 0.0\nB = -0.0\nC = 5e-324\nD = 1.7976931348623157e308\nE = 0.5\nF = 2.5e-310\ntrace(A, B, C, D, E, F, float('nan'), float('inf'))\n")
    add('A = b""\nB = b"\\x00\\x01\\xfe\\xff"\nC = b"\\xc3\\x28"\nD = "\\u00e9"\nE = b"text" + b"\\x80"\ntrace(A, B, C, D, E, str(B), "%r" % B)\n')
    add('A = ""\nB = "\\x00"\nC = "\\u00e9\\U0001F600"\nD = "a" * 3\nE = A + B + C\ndef f():\n    """\\u00e9 doc \\x00 nul"""\n    return [A, B, C]\ntrace(f(), E)\n')
    add("def f(a, b=1, *args, c, d=2, **kw):\n    return (a, b, args, c, d, kw)\ndef g(*, k):\n    return k\ndef h(*a, **k):\n    return (a, k)\ndef i(x, *, y=3):\n    return x + y\n"
        "trace(f(0, c=9), f(1, 2, 3, 4, c=5, d=6, e=7), g(k=1), h(1, 2, z=3), i(1), i(1, y=2))\n")
    add("def outer(a):\n    b = [a]\n    def mid(c):\n        def inner(d):\n            b.append(d)\n            return a + c + d + len(b)\n        return inner\n    return mid\n"
        "m = outer(1)\nf = m(2)\nr = [f(3), f(4)]\nfs = [lambda x, i=i: x + i for i in range(3)]\ntrace(r, [g(10) for g in fs])\n")
    add('load("a.star", "x", y2="y")\nload("b.star", "z")\nload("a.star", x3="x")\ntrace(x, y2, z, x3)\n',
        mods={"a.star": "x = 1\ny = [2]\n", "b.star": 'load("a.star", "y")\nz = (y, 3)\n'})
    for rec in (True, False):
        o = dict(ALL_ON, Recursion=rec)
        out.append({"src": "def fact(n):\n    return 1 if n <= 1 else n * fact(n - 1)\nr = fact(10)\ntrace(r)\n", "opts": o})
        out.append({"src": "def ev(n): return True if n == 0 else od(n - 1)\ndef od(n): return False if n == 0 else ev(n - 1)\ntrace(ev(7))\n", "opts": o})
    # saturated position deltas: very long lines and huge line gaps, with failures on the far side
    for col in (31, 32, 33, 63, 64, 1000, 10001, 70000):
        add("ZERO = 0\nx = (%s1 // ZERO)\n" % (" " * col))
        add("ZERO = 0\ndef f(a):\n    return [a, (%s a // ZERO)]\ny = f(1)\n" % (" " * col))
    for gap in (15, 16, 17, 31, 32, 1000, 100001, 131072, 200000):
        add("ZERO = 0\n%sx = 1 // ZERO\n" % ("\n" * gap))
        add("ZERO = 0\ndef f(a):\n    b = a%s\n    return b // ZERO\n%sy = f(1)\n" % ("\n" * gap, "\n" * (gap // 2)))
        add("def f(a):%s\n    return a\ny = (f(1),%s f(2), [][0])\n" % ("\n" * gap, "\n" * gap))
    add("x = 1\n" * 3000 + "ZERO = 0\ny = 1 // ZERO\n")
    add("def big():\n" + "".join("    v%d = %d\n" % (i, i) for i in range(400)) + "    return v399 // ZERO\nZERO = 0\nbig()\n")
    add("")                                     # empty file
    add("# only a comment\n")
    add('"""only a docstring"""\n')
    add("def nodoc(): pass\ndef onlydoc():\n    \"\"\"d\"\"\"\ntrace(nodoc(), onlydoc())\n")
    add("x = [i for i in range(5) if i % 2]\ny = {k: v for k, v in [(1, 2)]}\nz = [a + b for a in [1] for b in [2, 3]]\ntrace(x, y, z)\n")
    add("def many(" + ", ".join("p%d=%d" % (i, i) for i in range(60)) + "):\n    return p59\ntrace(many(), many(p3=1))\n")
    # source bytes that are not valid UTF-8 inside a string literal and a comment
    out.append({"src": "", "srcb": base64.b64encode(b'S = "a\xff\xfeb"\n# \xff comment\nB = b"raw \xf0 byte"\ntrace(S, B, len(S))\n').decode(), "opts": dict(ALL_ON)})
    return out


def generate(ctx):
    rnd = random.Random(ctx.seed)
    n = int(os.environ.get("VERIF_C17_N", "0")) or (1500 if ctx.quick else 12000)   # 20000 took 6.5 min on a quiet box, 21 min under load 60
    progs = branch_programs()
    seen = {p["src"] for p in progs}
    while len(progs) < n:
        p = PG(rnd).program()
        if p["src"] in seen:
            continue
        seen.add(p["src"])
        progs.append(p)
    for i, p in enumerate(progs):
        p["id"] = i + 1
        p["fields"] = (i % 5 == 0) or i < 120       # conformance with Serial.tla: the branch programs and every fifth program
    return progs


def execute(ctx, progs, tag):
    fin, fout = ctx.path(tag + ".in"), ctx.path(tag + ".out")
    vlib.write_ndjson(fin, progs)
    ctx.vh(["c17-run", "-in", fin, "-out", fout], timeout=3000)
    recs = vlib.read_ndjson(fout)
    os.remove(fout)
    if [r["id"] for r in recs] != [p["id"] for p in progs]:
        raise vlib.MachineryError("harness returned %d records for %d programs" % (len(recs), len(progs)))
    return recs


STUB = {"ok": False}
COMPS = ["ok", "panic", "err", "stack", "printed", "effects", "globals", "steps", "filename", "loads", "fns"]


def tlc_record(r):
    """records of sources that compile; a failed decode keeps only the flag.  The two sides are interned:
    tab[c] lists the distinct values of component c (one entry when P and Q agree), p and q hold
    1-based indices; C17Trace expands them again.  Likewise ftab / pf / qf for the program fields."""
    if not r.get("decok"):
        return {"id": r["id"], "decok": False, "same": False, "hasf": False, "ver": 0, "tab": STUB, "p": STUB, "q": STUB,
                "ftab": [], "pf": 0, "qf": 0, "b1": STUB}
    tab, p, q = {}, {}, {}
    for c in COMPS:
        tab[c] = [r["p"][c]]
        p[c] = 1
        if r["q"][c] == r["p"][c]:
            q[c] = 1
        else:
            tab[c].append(r["q"][c])
            q[c] = 2
    out = {"id": r["id"], "decok": True, "same": r["same"], "hasf": r["hasf"], "ver": r["ver"], "tab": tab, "p": p, "q": q,
           "ftab": [], "pf": 0, "qf": 0, "b1": STUB}
    if r["hasf"]:
        out["ftab"] = [r["p"]["fields"]]
        out["pf"] = out["qf"] = 1
        if r["q"]["fields"] != r["p"]["fields"]:
            out["ftab"].append(r["q"]["fields"])
            out["qf"] = 2
        out["b1"] = r["b1"]
    return out


def validate(ctx, recs, tag):
    bad, n = {}, 0
    per = 2500
    for k in range(0, len(recs), per):
        f = ctx.path("%s-%03d.ndjson" % (tag, k // per))
        part = recs[k:k + per]
        vlib.write_ndjson(f, part)
        r = ctx.tlc("C17Trace", "C17Trace.cfg", env={"VERIF_RECS": f}, workers=min(16, vlib.NCPU), timeout=3000, heap="16g",
                    tag="%s-%03d" % (tag, k // per))
        got = [int(m) for m in re.findall(r'<<"CHECKED", (\d+)>>', r["out"])]
        if r["error"] or r["rc"] != 0 or not got or got[0] != len(part):
            raise vlib.MachineryError("TLC validation of %s failed (rc=%s)\n%s" % (f, r["rc"], r["out"][-4000:]))
        ctx.states += r["states"]
        ctx.transitions += r["transitions"]
        found = list(re.finditer(r'<<"BAD", (\d+), <<"([^"]*)", "([^"]*)">>>>', r["out"]))
        vlib.expect_bad(r, len(found), "C17Trace")
        for m in found:
            bad[int(m.group(1))] = (m.group(2), m.group(3))
        n += got[0]
        os.remove(f)
    return bad, n


def features(p):
    s = p["src"]
    f = []
    if p.get("mods"):
        f.append("load")
    if "\n" * 1000 in s:
        f.append("line-gap")
    if " " * 1000 in s:
        f.append("long-line")
    if re.search(r"\*\w*, \w+", s) or "*, " in s:
        f.append("kwonly")
    if "def inner" in s or "lambda" in s:
        f.append("closure")
    if re.search(r"\d{19,}", s):
        f.append("bigint")
    if 'b"' in s:
        f.append("bytes")
    if not p["opts"].get("Recursion"):
        f.append("recursion-off")
    return f


def run(ctx):
    r = ctx.tlc_ok("C17MC", "C17MC.cfg" if ctx.quick else "C17MCThorough.cfg", workers=12, timeout=3000, heap="8g")
    ctx.log("design check C17MC: %d programs of the field domain: Decode(Encode(p)) = p, canonical, damaged files rejected" % (r["states"] - 14))
    design = r["states"]
    progs = generate(ctx)
    raw = execute(ctx, progs, "cases")
    byid = {p["id"]: p for p in progs}
    static = [r for r in raw if r["static"]]
    recs = [tlc_record(r) for r in raw if not r["static"]]
    ctx.log("%d programs: %d compile (%d with Serial.tla conformance), %d rejected statically (outside the quantifier)" % (
        len(progs), len(recs), sum(1 for r in recs if r["hasf"]), len(static)))
    if len(static) > len(progs) // 4:
        raise vlib.MachineryError("too many generated programs do not compile: %s" % [r["err"] for r in static[:3]])
    bad, checked = validate(ctx, recs, "recs")
    ctx.log("TLC validated %d records, %d rejected" % (checked, len(bad)))
    rawmap = {r["id"]: r for r in raw}
    reported = set()
    for pid in sorted(bad):
        sig = "%s:%s" % bad[pid]
        if sig in reported:
            continue
        p = byid[pid]
        # together with the program that preceded it (other compiled files are read between decoding and running)
        before = [byid[k] for k in (pid - 2, pid - 1) if k in byid]
        r2 = [r for r in execute(ctx, before + [dict(p, fields=True)], "re%d" % pid) if r["id"] == pid][0]
        b2, _ = validate(ctx, [tlc_record(r2)], "re%d" % pid)
        if pid not in b2:
            raise vlib.MachineryError("rejection of program %d (%s) not reproducible" % (pid, sig))
        reported.add(sig)
        rr = rawmap[pid]
        detail = ""
        if rr.get("decok"):
            for k in ("ok", "err", "stack", "steps", "printed", "effects", "globals", "filename", "loads", "fns"):
                if rr["p"][k] != rr["q"][k]:
                    detail = " %s: from source %s / after Write+Read %s" % (k, json.dumps(rr["p"][k])[:200], json.dumps(rr["q"][k])[:200])
                    break
        else:
            detail = " CompiledProgram(Write(P)) failed: %s" % rr.get("decerr")
        ctx.violation(sig, "program %d: %s (%s)%s\n--- source (first 600 bytes) ---\n%s" % (pid, bad[pid][0], bad[pid][1], detail, p["src"][:600]),
                      {"prog": p})

    ok_recs = [rawmap[r["id"]] for r in recs if rawmap[r["id"]].get("decok")]
    feat = {}
    for p in progs:
        for f in features(p):
            feat[f] = feat.get(f, 0) + 1
    nontrivial = {byid[r["id"]]["src"] for r in ok_recs if r["p"]["steps"] > 3}
    ctx.cov.update({"evaluations": 2 * len(recs), "programs": len(progs), "programs_compiled": len(recs),
                    "distinct_nontrivial": len(nontrivial), "traces_validated_against_impl": checked,
                    "records_with_format_conformance": sum(1 for r in recs if r["hasf"]),
                    "programs_ending_in_error": sum(1 for r in ok_recs if not r["p"]["ok"]),
                    "functions_compared": sum(len(r["p"]["fns"]) for r in ok_recs),
                    "serialized_bytes": sum(r["len1"] for r in ok_recs), "per_feature": feat, "design_check_states": design,
                    "static_rejections_not_judged": len(static)})
    for r in ok_recs[:: max(1, len(ok_recs) // 5)][:5]:
        ctx.samples.append({"src": byid[r["id"]]["src"][:300], "bytes": r["len1"], "functions": len(r["p"]["fns"]), "ok": r["p"]["ok"],
                            "err": r["p"]["err"], "steps": r["p"]["steps"]})
    ctx.assumptions = ["sources that do not compile are outside the quantifier (counted, not judged)",
                       "loaded modules are executed from source by the same loader for P and Q",
                       "string constants are always valid UTF-8 (the scanner replaces invalid bytes and rejects non-ASCII \\x / octal escapes), so "
                       "non-UTF-8 data reaches the encoder only through bytes constants and raw source bytes",
                       "the harness splits a file into varints and string section without interpreting them; Serial.tla does the parsing"]
    return ctx.finish(rule="hand-written encoder-branch programs (constant kinds and extremes, parameter forms, cells, loads, Recursion on/off, saturated "
                           "line/column deltas) + seeded generator (checks/c17.py: constants, parameter forms, nested functions with free variables, "
                           "comprehensions, loops, docstrings, loads, failing operations at varied positions, long lines and line gaps, dialect options); "
                           "distinct = distinct sources; non-trivial = compiles and executes more than 3 steps",
                      exhaustive=False)


def replay(ctx, path):
    p = json.load(open(path))["replay"]["prog"]
    r = execute(ctx, [dict(p, fields=True)], "replay")[0]
    if r["static"]:
        print("replay %s: source does not compile: %s" % (path, r["err"]))
        return 0
    bad, _ = validate(ctx, [tlc_record(r)], "replay")
    print("replay %s: %s" % (path, ("REJECTED %s" % (bad[p["id"]],)) if bad else "accepted"))
    return 1 if bad else 0
