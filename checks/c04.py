"""C04  Values reachable from a finished module are deeply immutable.

spec -> code: spec/C04MC.tla builds object graphs with the construction actions of a module,
model-checks the flag-first freeze traversal (terminates, freezes exactly the flagged nodes
reachable from the globals, on success and on failure of the module) and emits every finished
construction with the expected frozen set; `vh c04-run` renders each as a module, executes it
with the real pipeline and probes every node with every would-change operation.
"""
import json, re
import vlib

LEVEL = "model_checking"


def run(ctx):
    nodes, edges = (3, 2) if ctx.quick else (4, 1)
    cfg = "CONSTANTS\n  MaxNodes = %d\n  MaxEdges = %d\nINIT Init\nNEXT Next\nINVARIANTS FrozenExactly MutableUnreached WorkBounded Emit\n" % (nodes, edges)
    r = ctx.tlc_ok("C04MC", "C04MC_gen.cfg", workers=8, timeout=3000, heap="8g", cfg_text=cfg)
    gf = ctx.path("graphs.ndjson")
    n = 0
    with open(gf, "w") as f:
        for l in r["out"].split("\n"):
            if l.startswith('"G{'):
                f.write(l[2:-1].replace('\\"', '"') + "\n")
                n += 1
    if n < 1000:
        raise vlib.MachineryError("graph emission incomplete (%d)" % n)
    ctx.log("C04MC (<=%d nodes, <=%d extra edges): %d states; traversal freezes exactly Reach(globals); %d constructions" % (nodes, edges, r["states"], n))
    out = ctx.path("res.ndjson")
    ctx.vh(["c04-run", "-in", gf, "-out", out], timeout=3000)
    res = vlib.read_ndjson(out)
    summ = res[-1]
    if not summ.get("summary") or summ["graphs"] != n:
        raise vlib.MachineryError("harness did not finish")
    ctx.log("executed %d modules, %d probes, %d with problems" % (summ["graphs"], summ["probes"], summ["problem_graphs"]))
    for rr in res[:-1]:
        for p in rr["problems"]:
            if p.startswith("machinery"):
                raise vlib.MachineryError(p)
            g = rr["graph"]
            kinds = "+".join(sorted(set(g["kinds"])))
            sig = "freeze:%s: %s" % (kinds, re.sub(r"\d+", "N", re.sub(r":.*", "", p))[:80])
            if "boxreb" in g["kinds"]:
                # one finding whatever else the graph holds: what is reachable only through a closure variable that was
                # rebound after the host froze a container of the closure
                sig = "freeze:rebound-after-early-freeze-of-container"
            ctx.violation(sig, "%s | module: %s" % (p, rr["src"].replace("\n", "; ")), {"graph": g})
    ctx.cov.update({"evaluations": summ["probes"], "traces_validated_against_impl": summ["graphs"],
                    "distinct_nontrivial": summ["graphs_with_frozen_mutable"], "graphs": n})
    lines = open(gf).read().split("\n")
    ctx.samples = [json.loads(lines[0]), json.loads(lines[n // 2])]
    ctx.assumptions = ["dict keys and set elements must be hashable, hence cannot reach mutable values: those edge kinds carry no node",
                       "thorough tier trades extra edges for a fourth node"]
    return ctx.finish(rule="all constructions of C04MC with <=%d nodes (list, dict, set, tuple, struct, default, closure, mutating closure, bound method), "
                           "<=%d later list/dict edges incl. cycles, <=2 globals, both module outcomes; non-trivial = at least one mutable node is reachable "
                           "from a global" % (nodes, edges), exhaustive=True)


def replay(ctx, path):
    d = json.load(open(path))["replay"]
    gf, out = ctx.path("g.ndjson"), ctx.path("res.ndjson")
    open(gf, "w").write(json.dumps(d["graph"]) + "\n")
    ctx.vh(["c04-run", "-in", gf, "-out", out])
    res = [r for r in vlib.read_ndjson(out) if not r.get("summary")]
    print("replay: %s" % json.dumps([r["problems"] for r in res])[:1000])
    return 1 if res else 0
