"""C19  Time and duration arithmetic is consistent.

code -> spec record validation (P-A).  This driver only ENUMERATES expressions over
the `time` module (ordered operand kind pairs x operators x a value pool, laws,
round trips) and records what the real interpreter + lib/time return (`vh eval`).
Every verdict is computed by TLC: spec/C19Trace.tla judges each record with the
oracle spec/TimeSpec.tla (operator table over ordered operand kinds, exact
nanosecond arithmetic on BitInt, proleptic Gregorian calendar, duration text
grammar) and prints the coverage of the declared kind-pair x operator table.
"""
import datetime, json, os, random, re
import vlib

LEVEL = "exploration"

MAXI64 = (1 << 63) - 1
MINI64 = -(1 << 63)
E9 = 10 ** 9

# wrapper that turns a result into a coded tuple of plain values (see C19Trace.tla)
W = ('(lambda r: (1, r.nanoseconds) if type(r) == "time.duration" else ((2, r.unix, r.nanosecond) if type(r) == "time.time" '
     'else ((3, r) if type(r) == "int" else ((4, r) if type(r) == "float" else ((5, r) if type(r) == "bool" else (0,))))))')

ARITH = ["+", "-", "*", "/", "//", "%"]
CMPS = ["<", "<=", ">", ">=", "==", "!="]
OPS = ARITH + CMPS
KINDS = ["time", "duration", "int", "float", "other"]
ACCEPTED = {("duration", "+", "duration"), ("duration", "+", "time"), ("time", "+", "duration"),
            ("duration", "-", "duration"), ("time", "-", "duration"), ("time", "-", "time"),
            ("duration", "/", "duration"), ("duration", "/", "int"), ("duration", "/", "float"),
            ("duration", "//", "duration"), ("duration", "*", "int"), ("int", "*", "duration")}   # generation weights only


def limbs(n):
    n = abs(n)
    out = []
    while n:
        out.append(n & 32767)
        n >>= 15
    return out


def big(n):
    return {"neg": n < 0, "m": limbs(n)}


def enc_operand(x):
    return {"k": x["k"], "n": big(x.get("n", 0)), "p": x.get("p", 0), "q": x.get("q", 1), "z": x.get("z", 0)}


# ----------------------------------------------------------------------------- zones
# (label, in_location name or None, fixed offset in seconds east of UTC or None when only a label)
ZONES = [
    ("utc-plain", None, 0),
    ("UTC", "UTC", 0),
    ("Etc/GMT+8", "Etc/GMT+8", -28800),
    ("Etc/GMT-14", "Etc/GMT-14", 50400),
    ("Etc/GMT-5", "Etc/GMT-5", 18000),
    ("Asia/Kolkata", "Asia/Kolkata", None),
    ("America/New_York", "America/New_York", None),
    ("Local", "Local", None),
]
# constructor variants that need no tz database: RFC 3339 text with a numeric offset
TEXT_OFFSETS = [19800, -28800, 0, 50400, -60]


def civil(sec_local):
    dt = datetime.datetime(1970, 1, 1) + datetime.timedelta(seconds=sec_local)
    return [dt.year, dt.month, dt.day, dt.hour, dt.minute, dt.second]


def off_text(off):
    s = "+" if off >= 0 else "-"
    a = abs(off)
    return "%s%02d:%02d" % (s, a // 3600, a % 3600 // 60)


def rfc3339(comp, off):
    frac = (".%09d" % comp[6]) if comp[6] else ""
    return "%04d-%02d-%02dT%02d:%02d:%02d%s%s" % (comp[0], comp[1], comp[2], comp[3], comp[4], comp[5], frac, off_text(off))


class Gen:
    def __init__(self, ctx, zones_ok):
        self.ctx = ctx
        self.rnd = random.Random(ctx.seed)
        self.cases = []
        self.vals = {}        # operand source -> val record (each distinct operand expression is validated once)
        self.in_pool = True   # operands created for the pools (all validated by TLC); later ones are sampled
        self.zones = [z for z in ZONES if z[1] is None or zones_ok.get(z[1])]

    def add(self, rec):
        rec["id"] = len(self.cases) + 1
        self.cases.append(rec)
        return rec

    # ---------------------------------------------------------------- operands
    def time_op(self, ns, variant=None, unnorm=False):
        """an operand expression denoting the instant ns; variant selects the constructor / zone"""
        rnd = self.rnd
        sec, nsec = divmod(ns, E9)
        if variant is None:
            variant = rnd.randrange(len(self.zones) + 2)
        if variant < len(self.zones):
            label, loc, off = self.zones[variant]
            s2, n2 = sec, nsec
            if unnorm:      # from_timestamp accepts nanoseconds outside [0, 1e9)
                kshift = rnd.choice([-3, -1, 1, 2])
                s2, n2 = sec - kshift, nsec + kshift * E9
            src = "time.from_timestamp(%d, %d)" % (s2, n2) if (n2 or rnd.random() < 0.5) else "time.from_timestamp(%d)" % s2
            val = {"c": "val", "ctor": "ts", "a": [big(s2), big(n2)]}
            if loc is not None:
                src += '.in_location("%s")' % loc
            x = {"k": "time", "n": ns, "z": variant, "src": src, "off": off, "loc": loc}
        elif variant == len(self.zones):
            off = rnd.choice(TEXT_OFFSETS)
            comp = civil(sec + off) + [nsec]
            src = 'time.parse_time("%s")' % rfc3339(comp, off)
            val = {"c": "val", "ctor": "civil", "comp": comp, "off": off, "a": []}
            x = {"k": "time", "n": ns, "z": 100 + TEXT_OFFSETS.index(off), "src": src, "off": off, "loc": None}
        else:
            fixed = [z for z in self.zones if z[1] is not None and z[2] is not None]
            label, loc, off = rnd.choice(fixed)
            comp = civil(sec + off) + [nsec]
            src = ('time.time(year=%d, month=%d, day=%d, hour=%d, minute=%d, second=%d, nanosecond=%d, location="%s")'
                   % tuple(comp + [loc]))
            val = {"c": "val", "ctor": "civil", "comp": comp, "off": off, "a": []}
            x = {"k": "time", "n": ns, "z": 200 + ZONES.index((label, loc, off)), "src": src, "off": off, "loc": loc}
        self.note_val(x, val)
        return x

    DUR_SPELL = {1: ["time.nanosecond"], 1000: ["time.microsecond", 'time.parse_duration("1us")', 'time.parse_duration("1µs")'],
                 10 ** 6: ["time.millisecond", 'time.parse_duration("1ms")'],
                 E9: ["time.second", 'time.parse_duration("1s")', 'time.parse_duration("1000ms")'],
                 60 * E9: ["time.minute", 'time.parse_duration("1m")', 'time.parse_duration("60s")'],
                 3600 * E9: ["time.hour", 'time.parse_duration("1h")', 'time.parse_duration("60m")', 'time.parse_duration("0.5h30m")'],
                 -3600 * E9: ['time.parse_duration("-1h")'], 0: ['time.parse_duration("0s")', 'time.parse_duration("0ns")'],
                 1500 * 10 ** 6: ['time.parse_duration("1.5s")'], -1500 * 10 ** 6: ['time.parse_duration("-1.5s")'],
                 500 * 10 ** 6: ['time.parse_duration("0.5s")', 'time.parse_duration(".5s")']}

    def dur_op(self, ns, plain=False):
        spell = ['time.parse_duration("%dns")' % ns]
        if not plain:
            spell = spell + self.DUR_SPELL.get(ns, [])
        src = self.rnd.choice(spell)
        x = {"k": "duration", "n": ns, "src": src}
        self.note_val(x, {"c": "val", "ctor": "ns", "a": [big(ns)]})
        return x

    def int_op(self, n):
        return {"k": "int", "n": n, "src": str(n) if n >= 0 else "(%d)" % n}

    def float_op(self, p, q):
        f = p / q
        assert float(f).as_integer_ratio() == (p // gcd(p, q), q // gcd(p, q))      # p/q is exact in binary64
        s = repr(float(f))
        return {"k": "float", "p": p, "q": q, "src": "(%s)" % s if s.startswith("-") else s}

    OTHERS = ['"a"', "None", "[1]", "True", "(1,)", "{}", "time.now", '"1h"', "b\"x\""]

    def other_op(self, i=None):
        return {"k": "other", "src": self.OTHERS[i] if i is not None else self.rnd.choice(self.OTHERS)}

    def note_val(self, x, val):
        if x["src"] in self.vals:
            return
        val = dict(val)
        val["X"] = enc_operand(x)
        val["src"] = W + "(" + x["src"] + ")"
        val["pool"] = self.in_pool
        self.vals[x["src"]] = val

    # ------------------------------------------------------------------- records
    def op(self, L, op, R):
        self.add({"c": "op", "op": op, "L": enc_operand(L), "R": enc_operand(R),
                  "src": "%s((%s) %s (%s))" % (W, L["src"], op, R["src"])})

    def law(self, name, A, B, src):
        self.add({"c": "law", "name": name, "A": enc_operand(A), "B": enc_operand(B), "src": W + "(" + src + ")"})

    def laws_td(self, t, d):
        T, D = t["src"], d["src"]
        self.law("addsub", t, d, "((%s) + (%s)) - (%s) == (%s)" % (T, D, D, T))
        self.law("comm", t, d, "(%s) + (%s) == (%s) + (%s)" % (T, D, D, T))

    def laws_tt(self, t1, t2):
        self.law("subadd", t1, t2, "((%s) - (%s)) + (%s) == (%s)" % (t2["src"], t1["src"], t1["src"], t2["src"]))

    def laws_dd(self, d1, d2):
        self.law("ddadd", d1, d2, "((%s) + (%s)) - (%s) == (%s)" % (d1["src"], d2["src"], d2["src"], d1["src"]))

    def laws_t(self, t):
        z = {"k": "other"}
        self.law("unix", t, z, "(lambda t: time.from_timestamp(t.unix, t.nanosecond) == t)(%s)" % t["src"])
        self.law("unixnano", t, z, "(lambda t: time.from_timestamp(0, t.unix_nano) == t)(%s)" % t["src"])
        if t.get("loc") is not None and t.get("off") is not None:
            self.law("comp", t, z, '(lambda t: time.time(year=t.year, month=t.month, day=t.day, hour=t.hour, minute=t.minute, '
                                   'second=t.second, nanosecond=t.nanosecond, location="%s") == t)(%s)' % (t["loc"], t["src"]))
        if t.get("off") is not None:
            self.add({"c": "attrs", "X": enc_operand(t), "off": t["off"],
                      "src": "(lambda t: (t.year, t.month, t.day, t.hour, t.minute, t.second, t.nanosecond, t.unix, t.unix_nano))(%s)" % t["src"]})

    def laws_d(self, d):
        self.law("durstr", d, {"k": "other"}, "(lambda d: time.parse_duration(str(d)) == d)(%s)" % d["src"])
        self.add({"c": "dstr", "X": enc_operand(d),
                  "src": "(lambda d: (str(d), time.parse_duration(str(d)).nanoseconds))(%s)" % d["src"]})

    def hash(self, A, B):
        self.add({"c": "hash", "A": enc_operand(A), "B": enc_operand(B),
                  "src": "(lambda a, b: ({a: 1}.get(b, 0), len(dict([(a, 1), (b, 2)]))))(%s, %s)" % (A["src"], B["src"])})

    def sort(self, xs):
        self.add({"c": "sort", "xs": [enc_operand(x) for x in xs],
                  "src": "[%s(x) for x in sorted([%s])]" % (W, ", ".join(x["src"] for x in xs))})

    def civil_recs(self, comp, off, loc):
        if loc is not None:
            self.add({"c": "mk", "comp": comp, "off": off,
                      "src": W + '(time.time(year=%d, month=%d, day=%d, hour=%d, minute=%d, second=%d, nanosecond=%d, location="%s"))'
                      % tuple(comp + [loc])})
        else:
            self.add({"c": "ptime", "comp": comp, "off": off, "src": W + '(time.parse_time("%s"))' % rfc3339(comp, off)})

    def dparse(self, text):
        self.add({"c": "dparse", "text": list(text.encode("utf-8")), "src": W + '(time.parse_duration("%s"))' % text})


def gcd(a, b):
    a, b = abs(a), abs(b)
    while b:
        a, b = b, a % b
    return a or 1


# ------------------------------------------------------------------------------ pools
D_POOL = [0, 1, -1, 999, -999, 1000, 500 * 10 ** 6, -1500 * 10 ** 6, E9, 60 * E9, 3600 * E9, -3600 * E9,
          365 * 86400 * E9, (1 << 53) + 1, 1 << 62, -(1 << 62), MAXI64 - 1, MAXI64, MINI64 + 1, MINI64]
T_POOL = [0, 1, -1, E9, 1580702706 * E9 + 7, -1580702706 * E9 + 500 * 10 ** 6, 951782400 * E9, 3600 * E9,
          9214646400 * E9, -9214646400 * E9, MAXI64, MINI64]
I_POOL = [0, 1, -1, 2, -2, 7, 1000, -1000, 1 << 40, -(1 << 40), MAXI64, MINI64, 1 << 63, 1 << 64, -(1 << 70)]
F_POOL = [(1, 2), (2, 1), (-3, 2), (0, 1), (1, 1), (-1, 4), (1000, 1), (3, 1)]

DUR_TEXTS = ["1h", "1h30m", "-1.5h", "+3ms", ".5s", "5.s", "1.5h0.5m", "007s", "1µs", "1us", "1.000000001s", "0.000000001s",
             "2562047h47m16.854775807s", "-2562047h47m16.854775807s", "2562047h47m16.854775808s", "-2562047h47m16.854775808s",
             "9223372036854775807ns", "9223372036854775808ns", "-9223372036854775808ns", "-9223372036854775809ns",
             "2562048h", "1000000000000000000000h", "0.0000000001h", "0.5ns", "1.5ns",
             "", "1", "h", ".s", ".", "-", "+", "1h-3m", "3 ms", " 3ms", "3ms ", "1x", "1hh", "1.5.5s", "--1s", "+-1s", "1e3s", "1H", "1S",
             "1d", "1w", "1y", "0x10s", "1_000s", "١s", "1ns1us1ms1s1m1h", "1h1m1s1ms1us1ns", "1s1s", "0h0m0s", "00.00s"]


def rand_ns(rnd):
    r = rnd.random()
    if r < 0.08:        # close to the ends of the range (callers clamp)
        return rnd.choice([MAXI64, MINI64]) + rnd.randint(-2000, 2000)
    k = rnd.randint(0, 63)
    v = rnd.getrandbits(k) if k else 0
    if rnd.random() < 0.25 and k > 32:
        v = v // E9 * E9            # whole seconds
    return -v if rnd.random() < 0.5 else v


def clamp(v):
    return max(MINI64, min(MAXI64, v))


def rand_int(rnd):
    r = rnd.random()
    if r < 0.3:
        return rnd.randint(-10, 10)
    if r < 0.35:
        return rnd.choice([MAXI64, MINI64, 1 << 63, 1 << 64]) + rnd.randint(-2, 2)
    k = rnd.randint(0, 66)
    v = rnd.getrandbits(k) if k else 0
    return -v if rnd.random() < 0.5 else v


def rand_float(rnd):
    q = 1 << rnd.randint(0, 10)
    p = rnd.randint(-4096, 4096)
    return p, q


def rand_operand(g, kind):
    rnd = g.rnd
    if kind == "time":
        return g.time_op(clamp(rand_ns(rnd)), unnorm=rnd.random() < 0.1)
    if kind == "duration":
        return g.dur_op(clamp(rand_ns(rnd)))
    if kind == "int":
        return g.int_op(rand_int(rnd))
    if kind == "float":
        return g.float_op(*rand_float(rnd))
    return g.other_op()


def rand_dur_text(rnd):
    units = ["ns", "us", "µs", "ms", "s", "m", "h"]
    n = rnd.randint(1, 4)
    out = rnd.choice(["", "", "", "-", "+"])
    for _ in range(n):
        form = rnd.random()
        ip = str(rnd.randint(0, rnd.choice([9, 99, 5000, 10 ** 6])))
        if form < 0.5:
            num = ip
        elif form < 0.8:
            num = ip + "." + "".join(rnd.choice("0123456789") for _ in range(rnd.randint(1, 9)))
        elif form < 0.9:
            num = "." + "".join(rnd.choice("0123456789") for _ in range(rnd.randint(1, 6)))
        else:
            num = ip + "."
        out += num + rnd.choice(units if len(ip) < 5 else units[:5])      # keep most sums inside the range
    r = rnd.random()
    if r < 0.25:       # one corruption
        pos = rnd.randint(0, len(out))
        out = out[:pos] + rnd.choice([" ", "x", "-", "+", ".", "d", "e", "1", "", "µ"]) + out[pos + (1 if rnd.random() < 0.5 else 0):]
    return out


def generate(ctx, zones_ok):
    g = Gen(ctx, zones_ok)
    rnd = g.rnd
    nz = len(g.zones)
    # ---- pools: every instant appears in its plain UTC form and in seeded zone / constructor variants
    nvar = 1 if ctx.quick else 3
    times = []
    for ns in T_POOL:
        times.append(g.time_op(ns, variant=0))
        for _ in range(nvar):
            times.append(g.time_op(ns, variant=rnd.randrange(1, nz + 2), unnorm=rnd.random() < 0.3))
    durs = [g.dur_op(ns) for ns in D_POOL]
    ints = [g.int_op(n) for n in I_POOL]
    floats = [g.float_op(p, q) for p, q in F_POOL]
    others = [g.other_op(k) for k in range(len(Gen.OTHERS))]
    pool = {"time": times, "duration": durs, "int": ints, "float": floats, "other": others}
    small = {"time": times[::3][:8], "duration": durs[::2][:10], "int": ints[::2][:6], "float": floats[:4], "other": others[:6]}
    # ---- the full ordered product over the pools, all operators
    for a in KINDS:
        for b in KINDS:
            if a not in ("time", "duration") and b not in ("time", "duration"):
                continue
            hot = any((a, op, b) in ACCEPTED for op in OPS) or (a == b)
            pa, pb = (pool[a], pool[b]) if hot else (small[a], small[b])
            for x in pa:
                for y in pb:
                    for op in OPS:
                        g.op(x, op, y)
    # ---- laws, attributes, hashing on the pools
    for t in times:
        g.laws_t(t)
        for d in durs:
            g.laws_td(t, d)
    for t1 in times:
        for t2 in times:
            g.laws_tt(t1, t2)
            g.hash(t1, t2)
    for d in durs:
        g.laws_d(d)
        for d2 in durs:
            g.laws_dd(d, d2)
            g.hash(d, d2)
    hashable = [o for o in others if o["src"] in ('"a"', "None", "True", "(1,)", "time.now", '"1h"')]
    for x in small["time"] + small["duration"]:
        for y in small["int"] + small["float"] + hashable + small["time"][:3] + small["duration"][:3]:
            g.hash(x, y)
            g.hash(y, x)
    # an int equal to the nanosecond count of a duration / instant is still a different value
    for ns in (0, 1, 3600 * E9):
        g.hash(g.dur_op(ns), g.int_op(ns))
        g.hash(g.time_op(ns, variant=0), g.int_op(ns))
        g.hash(g.time_op(ns, variant=0), g.dur_op(ns))
    for _ in range(20 if ctx.quick else 400):
        k = rnd.randint(2, 7)
        g.sort([rnd.choice(times) for _ in range(k)])
        g.sort([rnd.choice(durs) for _ in range(k)])
    for text in DUR_TEXTS:
        g.dparse(text)
    # ---- civil dates: constructor and RFC 3339 parsing on chosen and random wall clocks
    fixed = [z for z in g.zones if z[1] is not None and z[2] is not None]
    comps = [[1970, 1, 1, 0, 0, 0, 0], [2000, 2, 29, 23, 59, 59, 999999999], [1900, 2, 28, 12, 0, 0, 1], [1900, 3, 1, 0, 0, 0, 0],
             [2100, 2, 28, 23, 59, 59, 0], [2024, 2, 29, 0, 0, 0, 0], [1677, 9, 22, 0, 0, 0, 0], [2262, 4, 11, 0, 0, 0, 0],
             [1969, 12, 31, 23, 59, 59, 999999999], [2020, 2, 3, 4, 5, 6, 7], [1999, 12, 31, 23, 59, 59, 0], [2023, 4, 31, 0, 0, 0, 0]]
    nciv = 200 if ctx.quick else 6000
    for _ in range(nciv):
        y = rnd.randint(1678, 2261)
        m = rnd.randint(1, 12)
        dmax = [31, 29 if (y % 4 == 0 and (y % 100 != 0 or y % 400 == 0)) else 28, 31, 30, 31, 30, 31, 31, 30, 31, 30, 31][m - 1]
        d = rnd.choice([1, dmax, rnd.randint(1, dmax)])
        comps.append([y, m, d, rnd.randint(0, 23), rnd.randint(0, 59), rnd.randint(0, 59), rnd.choice([0, 1, 999999999, rnd.randint(0, 999999999)])])
    for comp in comps:
        z = rnd.choice(fixed) if fixed else None
        if z:
            g.civil_recs(comp, z[2], z[1])
        g.civil_recs(comp, rnd.choice(TEXT_OFFSETS), None)
    # ---- seeded random part of the quantifier
    g.in_pool = False
    acc = sorted(ACCEPTED)
    nrand = 3000 if ctx.quick else 180000
    for _ in range(nrand):
        r = rnd.random()
        if r < 0.55:
            a, op, b = rnd.choice(acc)
            if rnd.random() < 0.3:
                a, b = b, a                      # the reversed operand order of a documented entry
        elif r < 0.75:
            a = b = rnd.choice(["time", "duration"])
            op = rnd.choice(CMPS)
        else:
            while True:
                a, b = rnd.choice(KINDS), rnd.choice(KINDS)
                if a in ("time", "duration") or b in ("time", "duration"):
                    break
            op = rnd.choice(OPS)
        x, y = rand_operand(g, a), rand_operand(g, b)
        if a == b and rnd.random() < 0.15:
            y = g.time_op(x["n"]) if a == "time" else (g.dur_op(x["n"]) if a == "duration" else y)
        g.op(x, op, y)
    nlaw = 500 if ctx.quick else 8000
    for _ in range(nlaw):
        t, t2 = rand_operand(g, "time"), rand_operand(g, "time")
        d, d2 = rand_operand(g, "duration"), rand_operand(g, "duration")
        if rnd.random() < 0.5:      # keep most sums inside the representable range
            d = g.dur_op(clamp(rand_ns(rnd)) >> rnd.randint(1, 40))
        g.laws_td(t, d)
        g.laws_tt(t, t2)
        g.laws_dd(d, d2)
        g.laws_t(t)
        g.laws_d(d)
        same = g.time_op(t["n"])
        g.hash(t, same)
        g.hash(t, t2)
        g.hash(d, d2)
        g.hash(d, g.dur_op(d["n"], plain=True))
    for _ in range(300 if ctx.quick else 15000):
        g.dparse(rand_dur_text(rnd))
    # every distinct operand expression is itself a case (constructor / attribute binding): all of them are
    # evaluated; TLC validates all pool operands and a seeded sample of the random ones (plus any that failed)
    nval = 10 ** 9 if ctx.quick else 40000
    rest = [v for v in g.vals.values() if not v["pool"]]
    keep = set(id(v) for v in (rest if len(rest) <= nval else rnd.sample(rest, nval)))
    for v in g.vals.values():
        v["judge"] = v.pop("pool") or id(v) in keep
        g.add(v)
    return g


# ------------------------------------------------------------------------------ running
def evaluate(ctx, cases, tag="cases"):
    fin, fout = ctx.path(tag + ".in"), ctx.path(tag + ".out")
    vlib.write_ndjson(fin, [{"id": c["id"], "src": c["src"]} for c in cases])
    ctx.vh(["eval", "-in", fin, "-out", fout])
    res = {r["id"]: r for r in vlib.read_ndjson(fout)}
    if len(res) != len(cases):
        raise vlib.MachineryError("harness returned %d results for %d cases" % (len(res), len(cases)))
    for c in cases:
        if res[c["id"]].get("static"):
            raise vlib.MachineryError("generated expression does not compile: %s: %s" % (c["src"], res[c["id"]].get("err")))
    return res


def record(c, r):
    rec = {k: v for k, v in c.items() if k not in ("src", "judge")}
    rec["res"] = {"ok": True, "v": r["v"]} if r["ok"] else {"ok": False}
    return rec


def unbig(b):
    v = 0
    for l in reversed(b["m"]):
        v = (v << 15) | l
    return -v if b["neg"] else v


def has_min_duration(*xs):
    return any(x["k"] == "duration" and unbig(x["n"]) == MINI64 for x in xs)


def signature(c, suffix=True):
    """names the failing input class: the ordered operand kinds and the operator of a table entry, the law, or the
    function.  A documented (accepted) entry or a law that fails only because a duration operand is the most negative
    value -2^63 ns (negating it overflows) is a different defect class and gets the suffix /min-duration."""
    k = c["c"]
    if k == "op":
        e = (c["L"]["k"], c["op"], c["R"]["k"])
        return "time:%s%s%s" % e + ("/min-duration" if suffix and e in ACCEPTED and has_min_duration(c["L"], c["R"]) else "")
    if k == "val":
        return "time:val/%s" % c["ctor"]
    if k == "law":
        return "time:law/%s" % c["name"] + ("/min-duration" if suffix and has_min_duration(c["A"], c["B"]) else "")
    if k == "hash":
        return "time:hash/%s,%s" % (c["A"]["k"], c["B"]["k"])
    return {"attrs": "time:attrs", "mk": "time:time()", "ptime": "time:parse_time", "sort": "time:sorted",
            "dstr": "time:str(duration)", "dparse": "time:parse_duration"}[k]


def show(r):
    """readable form of an observed result (for messages only)"""
    if not r["ok"]:
        return "error: " + r.get("err", "")
    v = r.get("v", {})
    try:
        iv = lambda x: x["v"] if x["t"] == "int" else unbig(x)
        if v.get("t") == "tuple" and v["v"] and v["v"][0].get("t") == "int":
            code, t = v["v"][0]["v"], v["v"]
            if code == 1:
                return "duration of %d ns" % iv(t[1])
            if code == 2:
                return "time unix=%d s + %d ns" % (iv(t[1]), iv(t[2]))
            if code == 3:
                return "int %d" % iv(t[1])
            if code == 5:
                return "bool %s" % t[1]["v"]
    except Exception:
        pass
    return json.dumps(v)[:160]


def tlc_validate(ctx, files, need_cover=True):
    """like ctx.validate, but also collects NOTE verdicts and the table coverage printed by C19Trace"""
    bad, notes, checked, cover = [], [], 0, None
    for f in files:
        r = ctx.tlc("C19Trace", "C19Trace.cfg", env={"VERIF_RECS": f}, timeout=3000, heap="14g", workers=vlib.NCPU,
                    tag="C19Trace-" + os.path.basename(f))
        got, missing = None, None
        nb0 = len(bad)
        for l in r["printed"]:
            m = re.match(r'<<"BAD", (\d+)>>', l)
            if m:
                bad.append(int(m.group(1)))
            m = re.match(r'<<"NOTE", (\d+), "([^"]*)">>', l)
            if m:
                notes.append((int(m.group(1)), m.group(2)))
            m = re.match(r'<<"CHECKED", (\d+)>>', l)
            if m:
                got = int(m.group(1))
            m = re.match(r'<<"COVER", (\d+), (\d+), (\d+), (\d+)>>', l)
            if m:
                cover = tuple(int(x) for x in m.groups())
            if l.startswith('<<"MISSING"'):
                missing = l.strip()
        vlib.expect_bad(r, len(bad) - nb0, "C19Trace")
        if got is None or r["error"] or r["rc"] != 0:
            raise vlib.MachineryError("TLC validation of %s failed (rc=%s)\n%s" % (f, r["rc"], r["out"][-4000:]))
        if need_cover and (cover is None or missing != '<<"MISSING", {}>>' or cover[0] != cover[1] or cover[2] != cover[3]):
            raise vlib.MachineryError("vacuity guard: the records do not cover the declared operator table: %s %s" % (cover, missing))
        checked += got
        ctx.states += r["states"]
        ctx.transitions += r["transitions"]
    return bad, notes, checked, cover


def probe_zones(ctx):
    names = [z[1] for z in ZONES if z[1]]
    c = {"id": 1, "src": "[time.is_valid_timezone(z) for z in [%s]]" % ", ".join('"%s"' % n for n in names)}
    r = evaluate(ctx, [c], tag="zones")[1]
    if not r["ok"]:
        raise vlib.MachineryError("zone probe failed: %s" % r.get("err"))
    return {n: bool(v["v"]) for n, v in zip(names, r["v"]["v"])}


def run(ctx):
    zones_ok = probe_zones(ctx)
    ctx.log("zones loadable in this environment: %s" % zones_ok)
    g = generate(ctx, zones_ok)
    cases = g.cases
    ctx.log("generated %d cases (%d distinct operand expressions)" % (len(cases), len(g.vals)))
    res = evaluate(ctx, cases)
    # operand expressions outside the TLC sample must at least evaluate (otherwise they are judged like the others)
    nall = len(cases)
    cases = [c for c in cases if c["c"] != "val" or c["judge"] or not res[c["id"]]["ok"]]
    g.cases = cases
    ctx.log("%d operand expressions evaluated without error and left out of the TLC sample" % (nall - len(cases)))
    ctx.tlc_ok("C19MC", "C19MC.cfg", workers=8, heap="4g")
    ctx.log("design check of TimeSpec (C19MC) passed")
    recs = [record(c, res[c["id"]]) for c in cases]
    files = []
    for k, sh in enumerate(vlib.shard(recs, max(1, (len(recs) + 119999) // 120000))):
        f = ctx.path("recs%02d.ndjson" % k)
        vlib.write_ndjson(f, sh)
        files.append(f)
    bad, notes, checked, cover = tlc_validate(ctx, files)
    ctx.log("TLC judged %d records: %d rejected, %d notes; table coverage %s" % (checked, len(bad), len(notes), cover))
    if checked != len(cases):
        raise vlib.MachineryError("TLC checked %d of %d records" % (checked, len(cases)))
    byid = {c["id"]: c for c in cases}
    # re-execute every rejected case alone before reporting it (one representative per signature and source is enough
    # for the report, but all are re-executed so that a flaky result is a machinery error)
    def plain(c):       # report an illustrative representative first: non-zero operands in the plain UTC spelling
        xs = [c[f] for f in ("L", "R", "A", "B", "X") if f in c]
        return (any(unbig(x["n"]) == 0 and x["k"] in ("time", "duration", "int") for x in xs),
                any(abs(unbig(x["n"])) < E9 and x["k"] == "duration" for x in xs), sum(x["z"] for x in xs), len(c["src"]))
    redo = sorted((byid[i] for i in set(bad)), key=lambda c: (signature(c), plain(c), c["id"]))
    if redo:
        r2 = evaluate(ctx, redo, tag="redo")
        for c in redo:
            if record(c, r2[c["id"]])["res"] != record(c, res[c["id"]])["res"]:
                raise vlib.MachineryError("case %d not reproducible: %s" % (c["id"], c["src"]))
    sig_count = {}
    for c in redo:
        sig = signature(c)
        sig_count[sig] = sig_count.get(sig, 0) + 1
        r = res[c["id"]]
        ctx.violation(sig, "%s -> %s, TimeSpec disagrees" % (c["src"].replace(W, "W"), show(r)), {"case": c, "observed": r})
    if os.environ.get("C19_STRICT_RANGE") == "1":
        # optional strict reading: a result that does not fit the type must be rejected, never wrapped or clamped
        for cid, v in notes:
            if v in ("wrap", "sat"):
                c = byid[cid]
                ctx.violation("time:overflow-%s/%s" % (v, signature(c, suffix=False)[5:]), "%s -> %s" % (c["src"].replace(W, "W"), show(res[cid])),
                              {"case": c, "observed": res[cid]})
    for c in cases:
        if res[c["id"]].get("panic"):
            ctx.violation(signature(c) + "/panic", "%s panics: %s" % (c["src"].replace(W, "W"), res[c["id"]]["panic"]), {"case": c})
    # ---- evidence
    per_class, per_entry, accepted_outcomes = {}, {}, set()
    for c in cases:
        per_class[c["c"]] = per_class.get(c["c"], 0) + 1
        if c["c"] == "op":
            e = "%s %s %s" % (c["L"]["k"], c["op"], c["R"]["k"])
            per_entry[e] = per_entry.get(e, 0) + 1
            if res[c["id"]]["ok"]:
                accepted_outcomes.add(e)
    note_count, note_ex = {}, {}
    for cid, v in notes:
        c = byid[cid]
        key = "%s: %s" % (v, signature(c, suffix=False))
        note_count[key] = note_count.get(key, 0) + 1
        note_ex.setdefault(key, c["src"].replace(W, "W"))
    ctx.cov["evaluations"] = nall
    ctx.cov["traces_validated_against_impl"] = checked - len(set(bad))
    ctx.cov["distinct_nontrivial"] = len({c["src"] for c in cases})
    ctx.cov["per_class"] = per_class
    ctx.cov["table_entries_declared"] = cover[1]
    ctx.cov["table_entries_exercised"] = cover[0]
    ctx.cov["accepted_entries_exercised"] = "%d of %d" % (cover[2], cover[3])
    ctx.cov["entries_with_a_non_error_outcome"] = len(accepted_outcomes)
    ctx.cov["min_records_per_table_entry"] = min(per_entry.values())
    ctx.cov["rejected_by_signature"] = sig_count
    ctx.cov["notes_not_violations"] = note_count
    ctx.notes = ["%s (%d), e.g. %s" % (k, n, note_ex[k]) for k, n in sorted(note_count.items())]
    step = max(1, len(cases) // 7)
    ctx.samples = [{"src": c["src"].replace(W, "W"), "observed": res[c["id"]].get("v", "error: " + res[c["id"]].get("err", ""))}
                   for c in cases[::step]][:8]
    ctx.assumptions = [
        "results are observed through attributes (nanoseconds; unix and nanosecond) - the constructor/attribute binding is itself validated by the val records",
        "zone offsets are asserted only for UTC, Etc/GMT+-N and numeric RFC 3339 offsets; other zones are labels (zones loadable here: %s)"
        % ", ".join(sorted(n for n, ok in zones_ok.items() if ok)),
        "operands of float kind are dyadic rationals p/q with |p| <= 4096, q <= 1024 (exact in binary64); float-valued entries are judged on acceptance, kind, sign and zero-ness only",
        "results that do not fit the signed 64-bit nanosecond range, int operands outside int64 and the rounding direction of inexact quotients are recorded as notes, not violations (documentation silent)",
        "the string operand of kind 'other' contains no % verb (string % x is the core language's formatting operator)",
    ]
    return ctx.finish(rule="checks/c19.py: full ordered product of the value pools (12 instants x zone/constructor variants, 20 durations, 15 ints, "
                           "8 floats, 9 other values) x 12 operators over the 16 ordered kind pairs with a time or duration operand, laws "
                           "(add/sub inverse, commutation, unix/unix_nano/components/str round trips), dict-key coherence, sorted(), civil dates, "
                           "duration texts, plus seeded random operands over the whole int64 nanosecond range; distinct = distinct source expressions; "
                           "every case evaluates an operator, law or round trip of the time module",
                      exhaustive=False)


def replay(ctx, path):
    d = json.load(open(path))
    c = d["replay"]["case"]
    r = evaluate(ctx, [c])[c["id"]]
    if r.get("panic"):
        print("replay %s: %s panics: %s" % (path, c["src"], r["panic"]))
        return 1
    f = ctx.path("replay.ndjson")
    vlib.write_ndjson(f, [record(c, r)])
    bad, notes, _, _ = tlc_validate(ctx, [f], need_cover=False)
    print("replay %s: %s -> %s : %s" % (path, c["src"].replace(W, "W"), show(r),
                                        "REJECTED by spec" if bad else "accepted"))
    return 1 if bad else 0
