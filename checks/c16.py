"""C16  Errors report the true call stack and source positions.

(1) design check (P-E): spec/LineTab.tla models the pc -> (line, col) table and its delta encoding with
    bounded field widths and continuation words as compile.go documents it; TLC checks decode(encode) = id,
    word shape and lookup = "last row with pc <= x" exhaustively for scaled-down widths and on boundary
    deltas (incl. 10^4 columns, 10^5 lines, thousands of instructions) for the real widths (spec/C16MC.tla).
(2) code -> spec (P-A): generated programs lay out call chains of depth 1-8 through defs, lambdas,
    comprehensions, callbacks of sorted/min/max and (sometimes) a loaded module, ending in every failing
    operation kind, with every call site and the failing operation placed at chosen (line, column)
    coordinates.  Two oracles, both evaluated by TLC on every record (spec/C16Trace.tla):
      (a) the generator's layout knowledge: (function name, file, line, col) per frame, outermost first,
          positions taken from the final source text (operator token, '[', '.', '(', identifier, '=' / 'for');
      (b) the reference semantics RefSem run on the real parser's tree: error kind, the failing
          operation's position, the active calls and the position of every call.
    The observed EvalError.CallStack must equal both; Backtrace() must list the same frames; the stack of
    the same program after Program.Write / CompiledProgram must be identical.
"""
import json, os, random, re
import vlib
import c01          # the table message -> error kind established for C01 (kind_of)

LEVEL = "exploration"

MAIN = "pkg/c16_main.star"
LIB = "lib/c16_lib.star"
M0, M1 = "\x01", "\x02"

# ------------------------------------------------------------------ layout vocabulary
# column / line distances around the saturation bounds of the documented encoding
# (col delta -32..31, line delta -16..15, pc delta 0..15) and far beyond them
COL_SMALL = [0, 0, 0, 0, 1, 1, 1, 2, 3, 5, 8]
COL_BOUND = [28, 29, 30, 31, 32, 33, 34, 35, 60, 61, 62, 63, 64, 65, 66, 93, 94, 95, 96, 127, 128, 200]
COL_BIG = [500, 1000, 2047, 4096, 9000, 10000]
LINE_SMALL = [0, 0, 0, 0, 0, 1, 1, 2, 3]
LINE_BOUND = [12, 13, 14, 15, 16, 17, 18, 28, 29, 30, 31, 32, 33, 34, 45, 46, 47, 48, 49, 64, 100]
LINE_BIG = [1000, 5000, 20000, 100000]
FILL_SMALL = [0, 0, 0, 1, 2, 3, 4, 5, 6, 7, 8, 9, 12, 16, 20, 33]
FILL_BIG = [300, 1000, 2500, 5000]

PRELUDE = ["a = 7", "NN = None", "ZZ = 0", "LL = [1, 2]", "SS = \"s\"", "def g1(x):", "    return x",
           "def g2(x):", "    y = x + 1", "    z = [y, y * 2]", "    return z[0]"]
W0, W1 = "\x03", "\x04"      # around a callee name that the twin program blanks out (the call becomes a parenthesised operand)


class Gen:
    """One program: a chain of frames 0 (<toplevel>) .. D-1; frame i reaches frame i+1 through a direct call or a
    callback of sorted/min/max; the last frame performs the failing operation.  Text is produced with markers
    (\\x01 n \\x02) in front of every token whose position is expected in a frame; the markers are removed by
    `resolve`, which computes (line, col) of each from the final text: col counts code points from 1."""

    def __init__(self, rnd, profile):
        self.r = rnd
        self.profile = profile           # set of layout classes: plain / bound / wide / tall / heavy
        self.nmark = 0
        self.uid = 0
        self.exp = []                    # expected frames, outermost first
        self.blocks = {MAIN: [], LIB: []}   # module-level definition blocks per file
        self.tail = {MAIN: [], LIB: []}
        self.opts = None                 # None = all options on
        self.features = set()
        self.force = None                # (op class, (l, o, r), condition context): the enumerated condition-position family
        self.big_cols = 2 if "wide" in profile else 0
        self.big_lines = 1 if "tall" in profile else 0
        self.big_fill = 1 if "heavy" in profile else 0
        self.infrag = True               # may be inside RefSem's fragment (no load, callback, fail, ...)
        self.weight = 0                  # rough size of the syntax tree
        self.outer_local = None          # a not yet assigned local of the lexically enclosing def, if any
        self.used_outer = set()
        self.post_local = []             # locals of the current def to assign after the site
        self.op = None

    # -------------------------------------------------------------- helpers
    def pick(self, xs):
        return xs[self.r.randrange(len(xs))]

    def chance(self, p):
        return self.r.random() < p

    def fresh(self, p):
        self.uid += 1
        return "%s%d" % (p, self.uid)

    def mark(self):
        self.nmark += 1
        return self.nmark, "%s%d%s" % (M0, self.nmark, M1)

    def ncol(self):
        if "plain" in self.profile:
            return self.pick([0, 0, 1])
        x = self.r.random()
        if self.big_cols > 0 and x < 0.12:
            self.big_cols -= 1
            self.features.add("col>=500")
            return self.pick(COL_BIG) + self.r.randrange(0, 3)
        if x < 0.45:
            self.features.add("col-bound")
            return self.pick(COL_BOUND)
        return self.pick(COL_SMALL)

    def nline(self):
        if "plain" in self.profile:
            return self.pick([0, 0, 1])
        x = self.r.random()
        if self.big_lines > 0 and x < 0.2:
            self.big_lines -= 1
            self.features.add("line>=1000")
            return self.pick(LINE_BIG) + self.r.randrange(0, 3)
        if x < 0.4:
            self.features.add("line-bound")
            return self.pick(LINE_BOUND)
        return self.pick(LINE_SMALL)

    def sp(self, least=0):
        """horizontal white space (allowed between any two tokens of a line); a tab is one column"""
        n = max(least, self.ncol())
        if n and "plain" not in self.profile and self.chance(0.08):
            self.features.add("tabs")
            return "".join(self.pick(" \t") for _ in range(n))
        return " " * n

    def gap(self, inbr, least=0):
        """white space between two tokens: inside brackets it may contain line breaks and comments"""
        if inbr and self.chance(0.35):
            n = max(1, self.nline())
            cm = self.pick(["", "", " # c", "  # \u00fcn\u00ef\u00e7\u00f8d\u00e9 \U0001d11e"]) if self.chance(0.3) else ""
            return cm + "\n" * n + " " * self.ncol()
        return self.sp(least)

    def vgap(self):
        """blank lines between two statements (as a list of lines)"""
        n = self.nline()
        if n == 0:
            return []
        if n > 200:
            return ["\n" * (n - 1)]
        filler = self.pick(["", "", "", "   ", "# c", "        # \u00e9\u00e8 \u4e2d\u6587"])
        return [filler if (k % 7 == 3) else "" for k in range(n)]

    # -------------------------------------------------------------- filler: preceding instructions
    def filler_lines(self, indent):
        """statements that execute before the site without failing (thousands of instructions in the heavy class)"""
        if "plain" in self.profile and self.chance(0.7):
            return [], None
        if self.big_fill > 0 and self.chance(0.5):
            self.big_fill -= 1
            n = self.pick(FILL_BIG) + self.r.randrange(0, 16)
            self.features.add("fill>=300")
        else:
            n = self.pick(FILL_SMALL)
        if n == 0:
            return [], None
        self.weight += n
        v = self.fresh("q")
        style = self.pick(["assign", "assign", "arith", "biglist", "biglist", "calls"])
        self.features.add("fill:" + style)
        if style == "assign":         # no fallible operation: the pc advances without new table rows
            return [indent + "%s = %d" % (v, k % 10) for k in range(n)], None
        if style == "arith":          # one row (or more) per line
            return [indent + "%s = 0" % v] + [indent + "%s = %s + %d" % (v, v, k % 7) for k in range(n)], None
        if style == "calls":
            return [indent + "%s = len([%d])" % (v, k % 10) for k in range(n)], None
        # one long line; the site may follow on the same line after ';'
        return [], indent + "%s = [%s]" % (v, ", ".join(str(k % 10) for k in range(n)))

    def prefix_expr(self):
        """expression prefix for lambda frames: evaluates to a false value after many instructions"""
        if "plain" in self.profile or self.chance(0.5):
            return None
        if self.big_fill > 0 and self.chance(0.5):
            self.big_fill -= 1
            n = self.pick(FILL_BIG)
            self.features.add("fill>=300")
        else:
            n = self.pick(FILL_SMALL)
        if n == 0:
            return None
        self.weight += n
        return "[%s][0]" % ", ".join("0" for _ in range(n))

    # -------------------------------------------------------------- frames
    def frame(self, i, name, file, cmp="full"):
        n, m = self.mark()
        self.exp.append({"name": name, "file": file, "mark": n, "cmp": cmp})
        return m

    def builtin_frame(self, name):
        self.exp.append({"name": name, "file": "<builtin>", "mark": 0, "cmp": "builtin"})

    def program(self, depth):
        self.depth = depth
        self.kinds = ["top"] + [self.pick(["def", "def", "lambda"]) for _ in range(depth - 1)]
        self.names = ["<toplevel>"] + [(self.fresh("f") if k == "def" else "lambda") for k in self.kinds[1:]]
        self.vars = [None] * depth      # global / own name through which the function of frame i can be called
        self.files = [MAIN] * depth
        self.place = [None] * depth
        # a loaded module: every frame from `split` on lives in LIB (needs a module-level def there)
        self.split = None
        if depth >= 2 and self.chance(0.12):
            self.split = self.r.randrange(1, depth)
            self.kinds[self.split] = "def"
            self.names[self.split] = self.fresh("f")
            for j in range(self.split, depth):
                self.files[j] = LIB
            self.infrag = False
            self.features.add("load")
        self.recursion = False
        body = self.body(0, "")
        main = []
        main += self.vgap()
        if self.split is not None:
            main.append("load(\"%s\", \"%s\")" % (LIB, self.names[self.split]))
        main += PRELUDE
        blocks = self.blocks[MAIN]
        self.r.shuffle(blocks)
        for b in blocks:
            main += self.vgap() + b
        main += self.vgap() + body + self.tail[MAIN]
        files = {MAIN: "\n".join(main) + "\n"}
        if self.split is not None:
            lib = self.vgap() + PRELUDE
            blocks = self.blocks[LIB]
            self.r.shuffle(blocks)
            for b in blocks:
                lib += self.vgap() + b
            lib += self.tail[LIB]
            files[LIB] = "\n".join(lib) + "\n"
        return files

    def define_next(self, i, stmt_ok, indent, pre):
        """make frame i+1 available to frame i; returns the callee expression text"""
        j = i + 1
        kind, file = self.kinds[j], self.files[j]
        crossing = self.split == j
        if kind == "lambda":
            place = self.pick(["inline", "inline", "module"] + (["local"] if stmt_ok else []))
            self.place[j] = place
            if place == "module":
                self.outer_local = None          # not lexically enclosed by frame i
            if place == "inline":
                self.weight += 3
                return "(lambda a:%s(%s))" % (self.sp(), self.lambda_expr(j))
            name = self.fresh("h")
            if place == "module":
                self.vars[j] = name
            text = "%s%s=%slambda a:%s(%s)" % (name, self.sp(), self.sp(), self.sp(1), self.lambda_expr(j))
            if place == "local":
                pre.append(indent + text)
            else:
                self.blocks[file].append([text])
            return name
        name = self.names[j]
        place = "module" if crossing or not stmt_ok else self.pick(["nested", "module", "module"])
        self.place[j] = place
        self.vars[j] = name
        if place == "nested":
            pre.extend([indent + "def %s(a):" % name] + self.body(j, indent + "    "))
        else:
            self.outer_local = None
            self.blocks[file].append(["def %s(a):" % name] + self.body(j, "    "))
        return name

    def link(self, i, stmt_ok, indent, inbr, pre):
        """expression in frame i that reaches frame i+1"""
        j = i + 1
        via = self.pick(["call"] * 10 + ["sorted", "min", "max"])
        m = self.frame(i, self.names[i], self.files[i])
        if via != "call":
            self.builtin_frame(via)
            self.infrag = False
            self.features.add("callback:" + via)
        callee = self.define_next(i, stmt_ok, indent, pre)
        self.features.add("frame:%s/%s" % (self.kinds[j], self.place[j]))
        if via == "call":
            arg = self.pick(["a", "a", "a", "7", "(a)", "a=a", "a = 7", "*[a]", "*(a,)", "**{\"a\": a}"])
            return "%s%s%s(%s%s%s)" % (callee, self.sp(), m, self.gap(True), arg, self.gap(True))
        seq = self.pick(["[a, 9]", "[8, a]", "(a, 9)", "[a, a, a]", "[9, 8, 7]"])      # elements >= 7: out of range for every index site
        return "%s%s%s(%s%s%s,%skey%s=%s%s%s)" % (via, self.sp(), m, self.gap(True), seq, self.gap(True), self.gap(True),
                                                   self.sp(), self.gap(True), callee, self.gap(True))

    # -------------------------------------------------------------- the failing operation
    def operand(self, kinds):
        """an operand text of one of the requested kinds; names have table rows, literals do not"""
        table = {"int": ["a", "a", "7", "ZZ", "(a)"], "none": ["None", "NN", "NN"], "str": ["SS", "\"s\"", "\"\u00e9\U0001d11e\u4e2d\""],
                 "list": ["LL", "[1, 2]", "[a]"], "zero": ["ZZ", "0", "ZZ"], "big": ["a", "a", "7", "(a)"], "dict": ["{}", "{1: a}"], "tuple": ["(1, a)", "(a,)"]}
        return self.pick(table[self.pick(kinds)])

    def failing_expr(self, i, inbr, stmt_ok, in_def):
        """(op kind, expression text with the marker of frame i, post lines) for an expression-level failing operation"""
        g = lambda least=0: self.gap(inbr, least)
        ops = ["binop", "binop", "pluschain", "cmp", "divzero", "unary", "index", "index", "attr", "notcallable", "arity", "unpack-comp",
               "unbound-global", "fail", "boom", "builtin", "binop-ns", "unbound-comp"]
        if in_def:
            ops += ["unbound-local", "unbound-local"]
        if self.outer_local is not None:
            ops += ["unbound-free", "unbound-free"]
        if self.files[i] == LIB or self.kinds[i] == "top":
            # a loaded module has finished initialising before it is called; at top level a forward reference is a static error
            ops.remove("unbound-global")
        if self.recursion_target(i) is not None:
            ops += ["recursion", "recursion"]
        op = self.pick(ops)
        if self.force:
            op = self.force[0]
        name, file = self.names[i], self.files[i]
        post = []
        if self.force:
            l, o, r = self.force[1]
            if op == "binop-ns" or o == "/":
                self.infrag = False
            m = self.frame(i, name, file)
            if o == "not in":
                return op, "%s%snot %sin%s%s" % (self.operand([l]), g(1), m, g(1), self.operand([r])), post
            return op, "%s%s%s%s%s%s" % (self.operand([l]), g(1), m, o, g(1), self.operand([r])), post
        if op in ("binop", "binop-ns", "cmp", "divzero"):
            if op == "binop":         # inside RefSem's fragment
                l, o, r = self.pick([("int", "+", "none"), ("none", "+", "int"), ("int", "-", "none"), ("none", "-", "int"), ("int", "+", "str"),
                                     ("str", "+", "int"), ("str", "-", "int"), ("none", "//", "int"), ("int", "%", "none"), ("str", "+", "none"), ("tuple", "+", "int")])
            elif op == "binop-ns":
                l, o, r = self.pick([("int", "*", "none"), ("int", "|", "none"), ("str", "&", "int"), ("int", "^", "none"), ("int", "<<", "none"), ("int", ">>", "none"),
                                     ("int", "in", "int"), ("int", "not in", "int"), ("list", "+", "int"), ("list", "-", "list"), ("int", "/", "none"), ("dict", "|", "int")])
                self.infrag = False
            elif op == "cmp":
                l, o, r = self.pick([("int", "<", "none"), ("none", "<=", "int"), ("str", ">", "int"), ("int", ">=", "str")])
            else:
                l, o, r = self.pick([("int", "//", "zero"), ("int", "%", "zero"), ("int", "/", "zero")])
                if o == "/":
                    self.infrag = False
            m = self.frame(i, name, file)
            if o == "not in":
                # the real parser records the position of `in` for the two-word operator (convention, see the report)
                return op, "%s%snot %sin%s%s" % (self.operand([l]), g(1), m, g(1), self.operand([r])), post
            return op, "%s%s%s%s%s%s" % (self.operand([l]), g(1), m, o, g(1), self.operand([r])), post
        if op == "pluschain":
            # a chain of '+' is compiled as one n-ary sum with folded literals; each '+' keeps its own position
            terms, k = self.pick([(["a", "a", "None"], 2), (["a", "NN", "a"], 1), (["\"x\"", "\"y\"", "None"], 2), (["SS", "\"x\"", "\"y\"", "NN"], 3),
                                  (["None", "\"x\"", "\"y\""], 1), (["[1]", "[2]", "a"], 2), (["(1,)", "(2,)", "(a,)", "a"], 3), (["a", "[1]", "[2]"], 1),
                                  (["a", "(a + a)", "ZZ", "SS", "SS"], 3), (["\"\u00e9\"", "\"\u4e2d\"", "a", "\"z\""], 2)])
            if terms[0] in ("[1]", "a") and "[2]" in terms:
                self.infrag = False
            m = self.frame(i, name, file)
            e = terms[0]
            for n, t in enumerate(terms[1:], 1):
                e += g(1) + (m if n == k else "") + "+" + g(1) + t
            return op, e, post
        if op == "unary":
            o, x = self.pick([("-", "none"), ("-", "str"), ("+", "none"), ("+", "str"), ("~", "none"), ("~", "str"), ("-", "tuple")])
            if o == "~":
                self.infrag = False
            m = self.frame(i, name, file)
            return op, "%s%s%s%s" % (m, o, g(), self.operand([x])), post
        if op == "index":
            x, y = self.pick([("list", "big"), ("tuple", "big"), ("dict", "big"), ("none", "int"), ("int", "zero"), ("str", "big"), ("list", "none"), ("dict", "list")])
            xt = self.operand([x]) if x != "str" else self.pick(["SS", "\"s\""])     # (strings are indexed by byte)
            m = self.frame(i, name, file)
            return op, "%s%s%s[%s%s%s]" % (xt, self.sp(), m, self.gap(True), self.operand([y]), self.gap(True)), post
        if op == "attr":
            x = self.pick(["none", "int", "list", "str", "tuple"])
            m = self.frame(i, name, file)
            return op, "%s%s%s.%s%s" % (self.operand([x]), g(1 if x == "int" else 0), m, g(), self.pick(["foo", "nope", "append_"])), post
        if op == "notcallable":
            x = self.pick(["none", "int", "str", "list"])
            m = self.frame(i, name, file)
            return op, "%s%s%s(%s%s%s)" % (self.operand([x]), self.sp(), m, self.gap(True), self.pick(["", "a", "a, a", "k=a"]), self.gap(True)), post
        if op == "arity":
            callee, cname = self.pick([("g1", "g1"), ("g2", "g2"), ("g2", "g2"), ("(lambda x: x)", "lambda")])
            args = self.pick(["a, a", "", "a, zz=a", "zz=a", "a, x=a", "*[a, a]"])
            if callee == "g2" and self.chance(0.7):
                # an earlier, successful call of the same function at the same depth (its frame slot is reused by the failing call)
                args = self.pick(["@(a), a", "@(a), zz=a", "a, x=@(a)", "@(@(a)), a"]).replace("@", W0 + "g2" + W1)
                self.features.add("warm-callee")
            m = self.frame(i, name, file)
            self.exp.append({"name": cname, "file": file, "mark": 0, "cmp": "name"})
            return op, "%s%s%s(%s%s%s)" % (callee, self.sp(), m, self.gap(True), args, self.gap(True)), post
        if op == "recursion":
            tgt = self.recursion_target(i)
            self.recursion = True
            m = self.frame(i, name, file)
            self.exp.append({"name": self.names[tgt], "file": self.files[tgt], "mark": 0, "cmp": "name"})
            return op, "%s%s%s(%s%s%s)" % (self.vars[tgt], self.sp(), m, self.gap(True), "a", self.gap(True)), post
        if op == "unpack-comp":
            u, v = self.fresh("u"), self.fresh("u")
            m = self.frame(i, name, file)
            rhs = self.pick(["[[a]]", "[(a,)]", "[[a, a, a]]", "[a]", "[NN]"])
            form = self.pick(["[%(u)s%(g)s%(m)sfor %(u)s, %(v)s in %(rhs)s]", "{%(u)s: %(v)s%(g)s%(m)sfor %(u)s, %(v)s in %(rhs)s}",
                              "[%(u)s for q0 in [0]%(g)s%(m)sfor (%(u)s, %(v)s) in %(rhs)s]", "[0%(g)s%(m)sfor [%(u)s, %(v)s] in %(rhs)s]"])
            return op, form % {"u": u, "v": v, "g": self.gap(True, 1), "m": m, "rhs": rhs}, post
        if op == "unbound-comp":      # the second clause's iterable is evaluated in the comprehension's own block
            u = self.fresh("u")
            m = self.frame(i, name, file)
            return op, "[0 for q0 in [0] for %s in [%s%s%s]]" % (u, self.gap(True), m, u), post
        if op == "unbound-local":
            u = self.fresh("u")
            m = self.frame(i, name, file)
            self.post_local.append(u)
            return op, "%s%s" % (m, u), post
        if op == "unbound-free":
            u = self.outer_local
            self.used_outer.add(u)
            m = self.frame(i, name, file)
            return op, "%s%s" % (m, u), post
        if op == "unbound-global":
            u = self.fresh("GLATER")
            self.tail[MAIN] += self.vgap() + ["%s = 1" % u]
            m = self.frame(i, name, file)
            return op, "%s%s" % (m, u), post
        if op == "fail":
            args = self.pick(["\"msg\"", "a", "\"x\", a", "\"\u00e9\", sep=\"-\"", ""])
            m = self.frame(i, name, file)
            self.builtin_frame("fail")
            self.infrag = False
            return op, "fail%s%s(%s%s%s)" % (self.sp(), m, self.gap(True), args, self.gap(True)), post
        if op == "boom":
            m = self.frame(i, name, file)
            self.builtin_frame("boom")
            return op, "boom%s%s(%s%s%s)" % (self.sp(), m, self.gap(True), self.pick(["", "a", "a, k=a"]), self.gap(True)), post
        if op == "builtin":
            fn, bname, args = self.pick([("len", "len", "a"), ("len", "len", ""), ("[].pop", "pop", ""), ("{}.popitem", "popitem", ""), ("int", "int", "\"x\""),
                                         ("list", "list", "a"), ("getattr", "getattr", "a, \"zz\""), ("hash", "hash", "[]"), ("SS.index", "index", "\"z\""),
                                         ("LL.index", "index", "a"), ("range", "range", "SS"), ("tuple", "tuple", "NN")])
            if fn not in ("len", "[].pop", "list", "tuple"):
                self.infrag = False
            m = self.frame(i, name, file)
            self.builtin_frame(bname)
            return op, "%s%s%s(%s%s%s)" % (fn, self.sp(), m, self.gap(True), args, self.gap(True)), post
        raise AssertionError(op)

    def recursion_target(self, i):
        """a frame k <= i of the chain whose function can be named from frame i (recursive call with Recursion off)"""
        c = [k for k in range(1, i + 1) if self.vars[k] is not None and self.files[k] == self.files[i] and
             (self.place[k] == "module" or (k == i and self.kinds[k] == "def"))]
        return c[-1] if c else None

    def failing_stmt(self, i, indent):
        """(op kind, statement lines) for a statement-level failing operation of frame i"""
        name, file = self.names[i], self.files[i]
        op = self.pick(["unpack", "unpack", "unpack-for", "setindex", "setfield", "augassign", "for-noniter", "unpack"])
        u, v = self.fresh("u"), self.fresh("u")
        m = self.frame(i, name, file)
        if op == "unpack":
            rhs = self.pick(["[a]", "(a,)", "[a, a, a]", "a", "NN", "LL + [a]", "[]"])
            lhs = self.pick(["%s, %s", "[%s, %s]", "(%s, %s)", "%s,%s"]) % (u, v)
            return op, [indent + "%s%s%s=%s%s" % (lhs, self.sp(), m, self.sp(), rhs)]
        if op == "unpack-for":
            rhs = self.pick(["[[a]]", "[(a,)]", "[LL + LL]", "[a]", "(NN,)"])
            return op, [indent + "%sfor%s%s, %s in %s:" % (m, self.sp(1), u, v, rhs), indent + "    pass"]
        if op == "setindex":
            x, y = self.pick([("LL", "a"), ("NN", "0"), ("a", "0"), ("(1, 2)", "0"), ("SS", "0"), ("{}", "[]")])
            return op, [indent + "%s%s%s[%s%s]%s=%s0" % (x, self.sp(), m, self.gap(True), y, self.sp(), self.sp())]
        if op == "setfield":
            x = self.pick(["NN", "a", "LL", "SS"])
            return op, [indent + "%s%s%s.%sfoo%s=%s0" % (x, self.sp(1), m, self.sp(), self.sp(), self.sp())]
        if op == "augassign":
            o, r = self.pick([("+=", "None"), ("-=", "NN"), ("+=", "SS"), ("//=", "ZZ"), ("%=", "0"), ("*=", "NN"), ("|=", "SS")])
            if o in ("*=", "|="):
                self.infrag = False
            return op, [indent + "%s = a" % u, indent + "%s%s%s%s%s%s" % (u, self.sp(1), m, o, self.sp(), r)]
        if op == "for-noniter":
            x = self.pick(["a", "NN", "7"])
            return op, [indent + "%sfor%s%s in %s%s:" % (m, self.sp(1), u, self.sp(), x), indent + "    pass"]
        raise AssertionError(op)

    # -------------------------------------------------------------- expression contexts
    def wrap(self, inner, inbr):
        """put the site expression into 0-2 enclosing expression contexts; inner(inbr) produces the expression"""
        n = self.pick([0, 0, 1, 1, 1, 2, 2, 3]) if "plain" not in self.profile else self.pick([0, 0, 1])
        ws = [self.pick(["paren", "paren", "list", "list2", "tuple", "dict", "lcomp", "lcomp", "dcomp-val", "dcomp-key", "comp-if", "comp-for2",
                         "comp-first", "comp-nested", "or", "and", "cond-then", "cond-else", "cond-test", "not", "call-arg"]) for _ in range(n)]
        if self.force:
            ws = [self.force[2]] if self.force[2] in ("cond-test", "comp-if-bare", "comp-if-not", "cond-test-and") else []
            n = len(ws)
        e = inner(inbr or n > 0)
        for k, w in enumerate(reversed(ws)):
            g = lambda least=0: self.gap(True, least)
            q, q2 = self.fresh("c"), self.fresh("c")
            self.features.add("ctx:" + w)
            self.weight += 2
            if w == "paren":
                e = "(%s%s%s)" % (g(), e, g())
            elif w == "list":
                e = "[%s%s%s]" % (g(), e, g())
            elif w == "list2":
                e = "[0,%s%s%s,%s0]" % (g(), e, g(), g())
            elif w == "tuple":
                e = "(%s%s%s,%s0)" % (g(), e, g(), g())
            elif w == "dict":
                e = "{0:%s%s%s}" % (g(), e, g())
            elif w == "lcomp":
                e = "[%s%s%sfor %s in [0]]" % (g(), e, g(1), q)
            elif w == "dcomp-val":
                e = "{%s:%s%s%sfor %s in [0]}" % (q, g(), e, g(1), q)
            elif w == "dcomp-key":
                e = "{%s%s%s:%s0 for %s in [0]}" % (g(), e, g(), g(), q)
            elif w == "comp-if":
                e = "[%s for %s in [0]%sif%s(%s%s)]" % (q, q, g(1), g(1), e, g())
            elif w == "comp-if-bare":      # the site is the bare condition of a comprehension clause
                e = "[%s for %s in [0]%sif%s%s%s]" % (q, q, g(1), g(1), e, g())
            elif w == "comp-if-not":
                e = "[%s for %s in [0]%sif not%s%s%s]" % (q, q, g(1), g(1), e, g())
            elif w == "cond-test-and":
                e = "(1 if 1 and%s%s%selse 0)" % (g(1), e, g(1))
            elif w == "comp-for2":
                e = "[%s for %s in [0]%sfor %s in [%s%s%s]]" % (q, q, g(1), q2, g(), e, g())
            elif w == "comp-first":
                e = "[%s for %s in [%s%s%s]]" % (q, q, g(), e, g())
            elif w == "comp-nested":
                e = "[%s for %s in [0] for %s in [1]%sif %s%sif (%s%s)]" % (q2, q, q2, g(1), q2, g(1), e, g())
            elif w == "or":
                e = "(0 or%s%s)" % (g(1), e)
            elif w == "and":
                e = "(1 and%s%s)" % (g(1), e)
            elif w == "cond-then":
                e = "(%s%s%sif 1 else 0)" % (g(), e, g(1))
            elif w == "cond-else":
                e = "(0 if 0 else%s%s)" % (g(1), e)
            elif w == "cond-test":
                e = "(1 if%s%s%selse 0)" % (g(1), e, g(1))
            elif w == "not":
                e = "(not%s%s)" % (g(1), e)
            elif w == "call-arg":
                e = "g1(%s%s%s)" % (g(), e, g())
        return e

    # -------------------------------------------------------------- frame bodies
    def lambda_expr(self, i):
        """the body expression of lambda frame i (always placed inside parentheses by the caller)"""
        pre = []
        if i == self.depth - 1:
            e = self.wrap(lambda ib: self.set_op(self.failing_expr(i, ib, False, False)), True)
        else:
            self.outer_local = None
            e = self.wrap(lambda ib: self.link(i, False, "", ib, pre), True)
        assert not pre
        p = self.prefix_expr()
        if p is not None:
            e = "%s%sor%s%s" % (p, self.gap(True, 1), self.gap(True, 1), e)
        return self.gap(True) + e + self.gap(True)

    def set_op(self, t):
        self.op, e, _ = t
        return e

    def body(self, i, indent):
        """statement lines of top / def frame i"""
        in_def = self.kinds[i] == "def"
        last = i == self.depth - 1
        pre, post = [], []
        fill, longline = self.filler_lines(indent)
        # nesting of the site statement in control flow (blocks are laid out out of source order)
        nest = self.pick([None, None, None, "if", "else", "for", "for2", "while"]) if "plain" not in self.profile else None
        sind = indent + ("    " if nest else "")
        saved_post, self.post_local = self.post_local, []
        w = None
        if self.force:
            nest = None
            sind = indent
        if last and not self.force and self.chance(0.3):
            self.op, site = self.failing_stmt(i, sind)
            simple = False
        else:
            if last:
                # self.outer_local (set by the enclosing def, if this frame is lexically inside it) stays visible
                e = self.wrap(lambda ib: self.set_op(self.failing_expr(i, ib, True, in_def)), False)
            else:
                # a local of this function that is assigned only after the site: an enclosed last frame may refer to it
                w = self.fresh("w") if in_def and i + 1 == self.depth - 1 else None
                self.outer_local = w
                e = self.wrap(lambda ib: self.link(i, True, indent, ib, pre), False)
                self.outer_local = None
            forms = ["%(v)s%(s)s=%(s2)s%(e)s", "%(v)s%(s)s=%(s2)s%(e)s", "%(e)s", "if%(s1)s%(e)s%(s)s:\n%(i)s    pass", "for %(v)s in [%(s)s%(e)s]:\n%(i)s    pass",
                     "%(v)s = [0]\n%(i)s%(v)s[0]%(s)s=%(s2)s%(e)s", "%(v)s = 0\n%(i)s%(v)s%(s1)s+=%(s2)s%(e)s", "if 0:\n%(i)s    pass\n%(i)selif%(s1)s%(e)s:\n%(i)s    pass"]
            if in_def:
                forms += ["return%(s1)s%(e)s", "return%(s1)s%(e)s"]
            f = self.pick(forms) if "plain" not in self.profile else forms[0]
            if self.force and last:
                f = CONDFORMS.get(self.force[2], "%(v)s%(s)s=%(s2)s%(e)s")
            simple = "\n" not in f and not f.startswith("if") and not f.startswith("for")
            site = [sind + f % {"v": self.fresh("v"), "s": self.sp(), "s1": self.sp(1), "s2": self.sp(), "e": e, "i": sind}]
        if w is not None and w in self.used_outer:
            post.append(indent + "%s = 0" % w)
            self.features.add("unbound-free")
        assert in_def or not self.post_local
        for u in self.post_local:
            post.append(indent + "%s = 0" % u)
        self.post_local = saved_post
        if nest is not None:
            self.features.add("nest:" + nest)
            self.weight += 3
            qv = self.fresh("n")
            if nest == "if":
                site = [indent + "if a:"] + site
            elif nest == "else":
                site = [indent + "if not a:", indent + "    pass", indent + "else:"] + site
            elif nest == "for":
                site = [indent + "for %s in [0]:" % qv] + site
            elif nest == "for2":
                site = [indent + "for %s in [0, 1]:" % qv] + self.vgap() + site + [sind + "%s = 0" % self.fresh("v")]
            elif nest == "while":
                site = [indent + "while True:"] + site + [sind + "break"]
            simple = False
        lines = list(fill)
        if longline is not None:
            if simple and self.chance(0.6):
                self.features.add("same-line;")
                site[0] = longline + ";" + self.sp() + site[0][len(indent):]
            else:
                lines.append(longline)
        lines += self.vgap() + pre + self.vgap() + site + post
        return lines


def resolve(text):
    """remove the markers; returns (clean text, {marker number: (line, col)}) with 1-based code point columns"""
    out, pos = [], {}
    line, col, k, n = 1, 1, 0, len(text)
    while k < n:
        ch = text[k]
        if ch == M0:
            e = text.index(M1, k)
            pos[int(text[k + 1:e])] = (line, col)
            k = e + 1
            continue
        out.append(ch)
        if ch == "\n":
            line, col = line + 1, 1
        else:
            col += 1
        k += 1
    return "".join(out), pos


PROFILES = [({"plain"}, 8), ({"bound"}, 44), ({"bound", "wide"}, 14), ({"bound", "tall"}, 7), ({"bound", "heavy"}, 8), ({"bound", "wide", "tall"}, 3),
            ({"bound", "wide", "heavy"}, 3), ({"bound", "wide", "tall", "heavy"}, 1)]


# the condition-position family: the compiler translates a condition by a separate routine (jumps instead of values, with its
# own cases for not / and / or / not in), so every failing binary operation is also placed, bare, in every condition position
CONDFORMS = {"if": "if%(s1)s%(e)s%(s)s:\n%(i)s    pass", "elif": "if 0:\n%(i)s    pass\n%(i)selif%(s1)s%(e)s%(s)s:\n%(i)s    pass",
             "while": "while%(s1)s%(e)s%(s)s:\n%(i)s    break", "if-not": "if not%(s1)s%(e)s%(s)s:\n%(i)s    pass",
             "if-and": "if 1 and%(s1)s%(e)s%(s)s:\n%(i)s    pass", "if-or": "if 0 or%(s1)s%(e)s%(s)s:\n%(i)s    pass",
             "if-and-l": "if%(s1)s%(e)s%(s1)sand 1:\n%(i)s    pass", "if-or-l": "if%(s1)s%(e)s%(s1)sor 1:\n%(i)s    pass",
             "if-not-and": "if not (1 and%(s1)s%(e)s%(s)s):\n%(i)s    pass"}
CONDCTX = sorted(CONDFORMS) + ["cond-test", "comp-if-bare", "comp-if-not", "cond-test-and"]
CONDOPS = ([("binop", t) for t in [("int", "+", "none"), ("none", "-", "int"), ("str", "+", "int"), ("none", "//", "int"), ("int", "%", "none")]] +
           [("binop-ns", t) for t in [("int", "*", "none"), ("int", "|", "none"), ("int", "<<", "none"), ("int", "in", "int"), ("int", "not in", "int"),
                                      ("none", "not in", "int"), ("list", "-", "list")]] +
           [("cmp", t) for t in [("int", "<", "none"), ("none", "<=", "int"), ("str", ">", "int"), ("int", ">=", "str")]] +
           [("divzero", t) for t in [("int", "//", "zero"), ("int", "%", "zero")]])
COND_FAMILY = [(oc, t, cx) for (oc, t) in CONDOPS for cx in CONDCTX]


def make_case(rnd, cid, force=None):
    tot = sum(w for _, w in PROFILES)
    x = rnd.randrange(tot)
    for prof, w in PROFILES:
        if x < w:
            break
        x -= w
    if force:
        prof = {"bound"}
    g = Gen(rnd, prof)
    g.force = force
    if force:
        g.features.add("condpos:" + force[2])
    depth = rnd.choice([1, 2, 2, 3, 3, 4, 4, 5, 6, 7, 8])
    files = g.program(depth)
    clean, frames = {}, []
    marks = {}
    crlf = "plain" not in prof and rnd.random() < 0.06
    if crlf:
        g.features.add("crlf")
    cold = {}
    for fn, text in files.items():
        if W0 in text:
            cold[fn] = resolve(re.sub(W0 + ".*?" + W1, lambda m: " " * (len(m.group(0)) - 2), text))[0]
            text = text.replace(W0, "").replace(W1, "")
        c, pos = resolve(text)
        if crlf:
            c = c.replace("\n", "\r\n")       # a line terminator either way: lines and columns are unchanged
        clean[fn] = c
        for k, v in pos.items():
            marks[k] = (fn, v)
    for e in g.exp:
        if e["cmp"] == "full":
            fn, (l, c) = marks[e["mark"]]
            assert fn == e["file"], (fn, e)
            frames.append({"name": e["name"], "file": e["file"], "line": l, "col": c, "cmp": "full"})
        else:
            frames.append({"name": e["name"], "file": e["file"], "line": 0, "col": 0, "cmp": e["cmp"]})
    opts = None
    if g.recursion:
        opts = dict(Set=True, While=True, TopLevelControl=True, GlobalReassign=True, LoadBindsGlobally=False, Recursion=False)
    case = {"id": cid, "file": MAIN, "src": clean[MAIN], "mods": {k: v for k, v in clean.items() if k != MAIN}, "exp": frames, "op": g.op,
            "depth": depth, "profile": sorted(prof), "features": sorted(g.features), "infrag": g.infrag, "weight": g.weight}
    if opts:
        case["opts"] = opts
    if cold:
        twin = {fn: (cold[fn].replace("\n", "\r\n") if crlf else cold[fn]) if fn in cold else clean[fn] for fn in clean}
        case["twin"] = {"file": MAIN, "src": twin[MAIN], "mods": {k: v for k, v in twin.items() if k != MAIN}}
    return case


# ------------------------------------------------------------------ observation -> record
# what each generated failing operation must be reported as (message classes of checks/c01.py)
OPKINDS = {"binop": {"binop"}, "pluschain": {"binop"}, "binop-ns": {"binop"}, "cmp": {"binop"}, "divzero": {"divzero"}, "unary": {"unop"},
           "index": {"index-range", "key", "index-type", "unhashable"}, "attr": {"attr"}, "notcallable": {"not-callable"}, "arity": {"args"},
           "recursion": {"recursion"}, "unpack-comp": {"unpack-count", "unpack-noniter"}, "unpack": {"unpack-count", "unpack-noniter"},
           "unpack-for": {"unpack-count", "unpack-noniter"}, "unbound-comp": {"unbound-local"}, "unbound-local": {"unbound-local"},
           "unbound-free": {"unbound-local"}, "unbound-global": {"unbound-global"}, "fail": {"fail"}, "boom": {"boom"},
           "builtin": {"builtin-type", "index-range", "builtin"}, "setindex": {"setindex-type", "index-range", "unhashable", "index-type"},
           "setfield": {"setfield"}, "augassign": {"binop", "divzero"}, "for-noniter": {"not-iterable"}}


LENIENT = {"builtin", "setindex"}


def kind_of(msg):
    if msg.startswith("fail: ") or msg == "fail":
        return "fail"
    if re.search(r"can't assign to \.\S+ field", msg):
        return "setfield"
    if re.match(r"^got \S+, want int$", msg):      # shift count of the wrong type
        return "binop"
    k = c01.kind_of(msg)
    if k is None and re.match(r"^(popitem|int|getattr|hash|index|range|tuple|unhashable)\b", msg):
        return "builtin"
    return k


BT_FRAME = re.compile(r"^  (.*): in (.*)$")


def parse_bt(bt):
    """Backtrace text -> list of frames {name, file, line, col} (the same shape as CallStack), or None"""
    lines = bt.split("\n")
    if not lines or lines[0] != "Traceback (most recent call last):":
        return None
    out = []
    k = 1
    while k < len(lines) and BT_FRAME.match(lines[k]):
        pos, name = BT_FRAME.match(lines[k]).groups()
        m = re.match(r"^(.*?)(?::(\d+))?(?::(\d+))?$", pos)
        out.append({"name": name, "file": m.group(1), "line": int(m.group(2) or 0), "col": int(m.group(3) or 0)})
        k += 1
    if k >= len(lines):
        return None
    m = re.match(r"^Error(?: in (\S+))?: ", lines[k])
    if not m:
        return None
    if m.group(1):
        out.append({"name": m.group(1), "file": "<builtin>", "line": 0, "col": 0})
    return out


def record(case, res, ast):
    """the record TLC validates; a string if the run cannot be judged (generator or machinery problem)"""
    if res.get("panic") or res["ser"].get("panic"):
        return "panic:" + (res.get("panic") or res["ser"].get("panic"))
    if res.get("static"):
        return "static:" + res.get("err", "")
    if res["ok"]:
        return "no-failure"
    k = kind_of(res["err"])
    if case["op"] in LENIENT:
        k = k or "other"           # any failure of the built-in / the element assignment: the frames are what matters
    elif k is None:
        return "unmapped:" + res["err"]
    elif k not in OPKINDS[case["op"]]:
        # the message is of another class than the laid-out failure: the frames decide (oracle (a) only).  If they are what the
        # layout says, the generator is wrong about the message (machinery failure, see run()); if not, the stack is wrong
        case["unexpected_kind"] = "unexpected-kind:%s for %s: %s" % (k, case["op"], res["err"])
        ast = None
    if c01.kind_of(res["err"]) != k:
        ast = None                 # not a kind RefSem knows: oracle (a) only
    bt = parse_bt(res.get("bt", ""))
    rec = {"id": case["id"], "kind": k, "exp": case["exp"], "obs": res["stack"], "twin": res.get("twin", res["stack"]), "ser": res["ser"].get("stack") or [],
           "serok": (not res["ser"]["ok"]) and not res["ser"].get("static") and res["ser"].get("err") == res["err"],
           "bt": bt if bt is not None else [], "btok": bt is not None, "hasast": ast is not None,
           "ast": ast if ast is not None else {"k": "none"},
           "opts": case.get("opts") or dict(Set=True, While=True, TopLevelControl=True, GlobalReassign=True, LoadBindsGlobally=False, Recursion=True)}
    return rec


def execute(ctx, cases, tag):
    fin, fout, fast = ctx.path(tag + ".in"), ctx.path(tag + ".out"), ctx.path(tag + ".ast")
    TW = 10 ** 7
    twins = [dict(c["twin"], id=c["id"] + TW, **({"opts": c["opts"]} if "opts" in c else {})) for c in cases if "twin" in c]
    vlib.write_ndjson(fin, [{k: c[k] for k in ("id", "file", "src", "mods", "opts") if k in c} for c in cases] + twins)
    ctx.vh(["c16-run", "-in", fin, "-out", fout])
    res = {r["id"]: r for r in vlib.read_ndjson(fout)}
    for c in cases:
        if "twin" in c:
            t = res.pop(c["id"] + TW)
            if t["ok"] or t.get("static") or t.get("err") != res[c["id"]].get("err"):
                raise vlib.MachineryError("twin of case %d does not fail the same way: %s / %s" % (c["id"], t.get("err"), res[c["id"]].get("err")))
            res[c["id"]]["twin"] = t["stack"]
    want = [c for c in cases if c.get("refsem")]
    asts = {}
    if want:
        vlib.write_ndjson(fin, [{"id": c["id"], "src": c["src"], "mode": "file"} for c in want])
        ctx.vh(["ast", "-in", fin, "-out", fast])
        for r in vlib.read_ndjson(fast):
            if r["ok"]:
                asts[r["id"]] = r["ast"]
    return res, asts


def validate(ctx, recs, tag):
    """TLC over the records: {id: reason} of rejected records, set of ids judged by RefSem"""
    bad, judged = {}, set()
    if not recs:
        return bad, judged
    files = []
    for k, sh in enumerate(vlib.shard(recs, len(recs) // 6000 + 1)):
        f = ctx.path("%s-recs%02d.ndjson" % (tag, k))
        vlib.write_ndjson(f, sh)
        files.append((f, len(sh)))
    for f, n in files:
        r = ctx.tlc("C16Trace", "C16Trace.cfg", env={"VERIF_RECS": f}, workers=vlib.NCPU, timeout=3000, heap="12g", tag="v-" + os.path.basename(f)[:-7])
        got = re.findall(r'<<"CHECKED", (\d+)>>', r["out"])
        if r["error"] or r["rc"] != 0 or not got or int(got[0]) != n:
            raise vlib.MachineryError("TLC failed on %s:\n%s" % (f, r["out"][-3000:]))
        ctx.states += r["states"]
        ctx.transitions += r["transitions"]
        found = re.findall(r'<<"BAD", (\d+), "([^"]*)">>', r["out"])
        vlib.expect_bad(r, len(found), "C16Trace")
        for i, why in found:
            bad.setdefault(int(i), why)
        for i in re.findall(r'<<"REFSEM", (\d+)>>', r["out"]):
            judged.add(int(i))
    return bad, judged


def describe(case, res):
    o = [(f["name"], f["file"], f["line"], f["col"]) for f in res.get("stack") or []]
    e = [(f["name"], f["file"], f["line"], f["col"], f["cmp"]) for f in case["exp"]]
    return "error %r; expected frames %s; observed frames %s" % (res.get("err"), e, o)


def design_check(ctx):
    cfgs = ["C16MCq.cfg", "C16MCRealq.cfg"] if ctx.quick else ["C16MC.cfg", "C16MCLookup.cfg", "C16MCReal.cfg", "C16MCRealWide.cfg"]
    n = {}
    for cfg in cfgs:
        r = ctx.tlc_ok("C16MC", cfg, workers=8, timeout=2400, heap="6g")
        n[cfg[:-4]] = r["states"]
        ctx.log("design check %s: %d tables, all invariants hold" % (cfg, r["states"]))
    return n


def run(ctx):
    rnd = random.Random(ctx.seed)
    # (C16_SKIP_DESIGN=1 skips the repository-independent design check: used by the sensitivity runs of tools/mutate.py only)
    mc = design_check(ctx) if not os.environ.get("C16_SKIP_DESIGN") else {}
    nprog = 2000 if ctx.quick else 24000
    max_refsem_weight = 400
    cases, heavy_refsem, nrefsem, refsem_cap = [], 0, 0, (10 ** 9 if ctx.quick else 7000)
    for i in range(nprog + len(COND_FAMILY)):
        c = make_case(rnd, i + 1, COND_FAMILY[i - nprog] if i >= nprog else None)
        # RefSem is evaluated on the programs that may be inside its fragment (a bounded number of them in the thorough tier,
        # and only a few of the programs with thousands of statements: TLC's evaluation depth grows with the program)
        c["refsem"] = c["infrag"] and nrefsem < refsem_cap and (c["weight"] <= max_refsem_weight or heavy_refsem < (3 if ctx.quick else 12))
        if c["refsem"]:
            nrefsem += 1
            if c["weight"] > max_refsem_weight:
                heavy_refsem += 1
        cases.append(c)
    ctx.log("generated %d programs (%.1f MB of source)" % (len(cases), sum(len(c["src"]) + sum(map(len, c["mods"].values())) for c in cases) / 1e6))
    res, asts = execute(ctx, cases, "p")
    for c in cases:
        if res[c["id"]].get("posscan"):
            ctx.violation("lookup:history-dependent", "program %d: %s" % (c["id"], res[c["id"]]["posscan"]),
                          {"case": {k: c[k] for k in ("id", "file", "src", "mods", "exp", "op", "depth", "profile", "features", "infrag", "weight", "refsem", "opts") if k in c}})
            break
    recs, unjudged = [], {}
    for c in cases:
        r = record(c, res[c["id"]], asts.get(c["id"]))
        if isinstance(r, str):
            unjudged.setdefault(r.split(":")[0], []).append((c, r))
        else:
            recs.append(r)
    if unjudged:
        c, r = next(iter(unjudged.values()))[0]
        raise vlib.MachineryError("%d generated programs did not fail as laid out (%s), e.g. %s\n%s" % (
            sum(len(v) for v in unjudged.values()), {k: len(v) for k, v in unjudged.items()}, r, c["src"][:1500]))
    bad, judged = validate(ctx, recs, "p")
    ctx.log("TLC validated %d records: %d also judged by RefSem, %d rejected" % (len(recs), len(judged), len(bad)))
    byid = {c["id"]: c for c in cases}
    odd = [c for c in cases if c.get("unexpected_kind") and c["id"] not in bad]
    if odd:
        raise vlib.MachineryError("%d generated programs failed with another kind of message than laid out although their stacks are as expected, e.g. %s\n%s" % (
            len(odd), odd[0]["unexpected_kind"], odd[0]["src"][:1500]))
    if bad:
        # re-execute the rejected cases once more from scratch before reporting them
        again = [byid[i] for i in sorted(bad)][:200]
        res2, asts2 = execute(ctx, again, "again")
        recs2 = [record(c, res2[c["id"]], asts2.get(c["id"])) for c in again]
        if any(isinstance(r, str) for r in recs2):
            raise vlib.MachineryError("re-execution changed the outcome: %s" % [r for r in recs2 if isinstance(r, str)][:3])
        bad2, _ = validate(ctx, recs2, "again")
        seen = set()
        for i in sorted(bad2):
            c = byid[i]
            sig = "stack:op=%s:oracle=%s" % (c["op"], bad2[i])
            if sig in seen and len(seen) > 12:
                continue
            seen.add(sig)
            src = c["src"] if len(c["src"]) < 1500 else c["src"][:700] + "\n...\n" + c["src"][-700:]
            ctx.violation(sig, "program %d (depth %d, %s): %s\nsource of %s:\n%s" % (i, c["depth"], ",".join(c["features"]), describe(c, res2[i]), MAIN, src),
                          {"case": {k: c[k] for k in ("id", "file", "src", "mods", "exp", "op", "depth", "profile", "features", "infrag", "weight", "refsem", "opts") if k in c}})
        if len(bad2) != len([i for i in bad if i in {c["id"] for c in again}]):
            ctx.notes.append("%d rejected records did not reproduce on re-execution" % (len(again) - len(bad2)))
    # coverage
    feats, ops, depths, maxcol, maxline, builtin_frames = {}, {}, {}, 0, 0, 0
    for c in cases:
        for f in c["features"]:
            feats[f] = feats.get(f, 0) + 1
        ops[c["op"]] = ops.get(c["op"], 0) + 1
        depths[str(c["depth"])] = depths.get(str(c["depth"]), 0) + 1
        for f in c["exp"]:
            maxcol, maxline = max(maxcol, f["col"]), max(maxline, f["line"])
            builtin_frames += f["cmp"] == "builtin"
    distinct = len({(c["op"], c["depth"], tuple(c["features"])) for c in cases})
    ctx.cov.update({"evaluations": len(cases), "records_validated": len(recs), "judged_by_refsem": len(judged), "distinct_nontrivial": distinct,
                    "traces_validated_against_impl": len(recs), "failing_operation_kinds": ops, "chain_depths": depths, "layout_features": feats,
                    "max_expected_column": maxcol, "max_expected_line": maxline, "builtin_frames_expected": builtin_frames,
                    "frames_compared": sum(len(c["exp"]) for c in cases), "serialized_runs_compared": len(recs), "design_check_tables": mc})
    c0 = cases[0]
    ctx.samples = [{"src": c0["src"][:600], "mods": {k: v[:300] for k, v in c0["mods"].items()}, "expected": c0["exp"], "observed": res[c0["id"]]["stack"]}]
    ctx.assumptions = [
        "expected positions are computed from the generated text: code point columns from 1, position of the operator token / '[' / '.' / '(' / identifier / '=' / 'for' (DESIGN B.1)",
        "for argument-binding and recursion failures the real stack has the callee's frame on top (position = the callee's code, not asserted); the failing call is the caller's frame",
        "built-in frames are compared by name and file '<builtin>' only",
        "programs using load, key= callbacks, fail and operators outside RefSem's fragment are judged by the generator's oracle only",
        "LineTab (the delta encoding) is model-checked as a design; it is not an oracle for the code"]
    return ctx.finish(rule="seeded random call chains of depth 1-8 (def / lambda frames placed at module level, nested, inline or in a loaded module; reached by call or "
                           "sorted/min/max key callbacks; call sites in 0-3 expression contexts incl. list/dict comprehensions and nested clauses, and in if/else/for/while "
                           "blocks) x %d failing operation kinds x layouts with column/line distances at, around and far beyond the encoding's saturation bounds (cols to 10^4, "
                           "line gaps to 10^5, up to 5000 preceding statements/elements); distinct = different (operation, depth, feature set)" % len(OPKINDS), exhaustive=False)


def replay(ctx, path):
    d = json.load(open(path))["replay"]
    c = d["case"]
    c = dict(c, id=(c["id"] // 4) * 4)       # (the position scan runs on ids divisible by 4)
    res, asts = execute(ctx, [c], "r")
    if res[c["id"]].get("posscan"):
        print("replay: position lookup depends on earlier lookups: %s" % res[c["id"]]["posscan"])
        return 1
    r = record(c, res[c["id"]], asts.get(c["id"]))
    if isinstance(r, str):
        print("replay: the program no longer fails as laid out: %s" % r)
        return 1
    bad, judged = validate(ctx, [r], "r")
    print("replay: %s: %s" % (describe(c, res[c["id"]]), ("REJECTED by oracle " + bad[c["id"]]) if bad else "accepted"))
    return 1 if bad else 0
