CONSTANTS
  Full = FALSE
INIT Init
NEXT Next
INVARIANTS RoundTripOK CanonicalOK Rejects
