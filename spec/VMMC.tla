--------------------------------- MODULE VMMC ---------------------------------
(***************************************************************************)
(* Abstract execution of real byte code: one initial state per function of *)
(* the corpus (dumped by `vh vm-dump` from the compiler of the build under *)
(* test), all paths explored with nondeterministic branch outcomes.        *)
(***************************************************************************)
EXTENDS VM, Json, IOUtils
Funcs == ndJsonDeserialize(IOEnv.VERIF_RECS)
VARIABLES fn, k, sp, it
Init == fn \in 1..Len(Funcs) /\ k = 1 /\ sp = 0 /\ it = 0
Next == /\ Funcs[fn].code # <<>>
        /\ \E s \in Succs(Funcs[fn], k, sp, it) : k' = s[1] /\ sp' = s[2] /\ it' = s[3]
        /\ fn' = fn
OK == Funcs[fn].code = <<>> \/
      (StackOKAt(Funcs[fn], k, sp) /\ IterOKAt(Funcs[fn], k, it) /\ TargetOKAt(Funcs[fn], k) /\ ReturnOKAt(Funcs[fn], k, sp))
Check == OK \/ PrintT(<<"BAD", Funcs[fn].id, k, sp, it>>)
Done == PrintT(<<"CHECKED", TLCGet("stats").distinct>>)
=============================================================================
