------------------------------ MODULE ReprSpec ------------------------------
(***************************************************************************)
(* What the printed form (repr) of a value must satisfy - property C15.     *)
(* Texts are sequences of byte values.  The reading direction is spec/      *)
(* Unquote.tla (string and number literals, written from doc/spec.md);      *)
(* numbers are judged with BitInt (digits) and Float64 (the decimal text    *)
(* must denote a rational whose nearest binary64 is the value).             *)
(*                                                                          *)
(*   IntText(i)            the decimal text of an integer                    *)
(*   TextClean(t)          t is well-formed UTF-8 without raw control        *)
(*                         characters (C0, DEL, C1, U+2028, U+2029)          *)
(*   StrReprOK(t, s, b)    t is one literal of kind b (bytes?) denoting s    *)
(*   FloatReprOK(t, f)     t is [-]float-literal whose value rounds to f     *)
(*   GraphRepr(g, n, {})   the text of a (possibly cyclic) object graph:     *)
(*                         a list / dict met again while it is being printed *)
(*                         prints as [...] / {...} (as in Python)            *)
(***************************************************************************)
EXTENDS Values
U == INSTANCE Unquote

DigitChars(ds) == [k \in 1..Len(ds) |-> 48 + ds[k]]
IntText(x) == (IF x.neg THEN <<45>> ELSE <<>>) \o DigitChars(ToDigits(x, 10))

(***************************************************************************)
(* UTF-8: decode a byte sequence into code points; -1 marks a malformed     *)
(* position (overlong forms, surrogates, values above 10FFFF, truncation).  *)
(***************************************************************************)
IsCont(b, k) == k <= Len(b) /\ b[k] >= 128 /\ b[k] < 192
RECURSIVE Utf8Points(_, _)
Utf8Points(b, k) ==
  IF k > Len(b) THEN <<>>
  ELSE LET c == b[k] IN
    IF c < 128 THEN <<c>> \o Utf8Points(b, k + 1)
    ELSE IF c >= 194 /\ c < 224 /\ IsCont(b, k + 1)
      THEN <<(c - 192) * 64 + (b[k + 1] - 128)>> \o Utf8Points(b, k + 2)
    ELSE IF c >= 224 /\ c < 240 /\ IsCont(b, k + 1) /\ IsCont(b, k + 2)
            /\ (c # 224 \/ b[k + 1] >= 160) /\ (c # 237 \/ b[k + 1] < 160)
      THEN <<(c - 224) * 4096 + (b[k + 1] - 128) * 64 + (b[k + 2] - 128)>> \o Utf8Points(b, k + 3)
    ELSE IF c >= 240 /\ c < 245 /\ IsCont(b, k + 1) /\ IsCont(b, k + 2) /\ IsCont(b, k + 3)
            /\ (c # 240 \/ b[k + 1] >= 144) /\ (c # 244 \/ b[k + 1] < 144)
      THEN <<(c - 240) * 262144 + (b[k + 1] - 128) * 4096 + (b[k + 2] - 128) * 64 + (b[k + 3] - 128)>>
           \o Utf8Points(b, k + 4)
    ELSE <<-1>> \o Utf8Points(b, k + 1)
ValidUtf8(b) == \A p \in {Utf8Points(b, 1)[k] : k \in 1..Len(Utf8Points(b, 1))} : p >= 0

\* characters that may never appear raw in printed text
RawForbidden(p) == p < 32 \/ (p >= 127 /\ p < 160) \/ p = 8232 \/ p = 8233
\* reference definition (quadratic: builds the code point sequence)
TextCleanRef(t) == LET ps == Utf8Points(t, 1) IN \A k \in 1..Len(ps) : ps[k] >= 0 /\ ~RawForbidden(ps[k])

\* the same, position by position (linear; C15MC checks the two definitions agree):
\* every byte is an allowed ASCII character, a lead byte of a well-formed sequence that does not
\* encode a forbidden character, or a continuation byte covered by such a lead byte
ContAt(t, k) == k >= 1 /\ k <= Len(t) /\ t[k] >= 128 /\ t[k] < 192
LeadLen(c) == IF c >= 194 /\ c < 224 THEN 2 ELSE IF c >= 224 /\ c < 240 THEN 3 ELSE IF c >= 240 /\ c < 245 THEN 4 ELSE 0
LeadOK(t, k) ==
  LET c == t[k]
      n == LeadLen(c)
  IN /\ n > 0 /\ \A j \in 1..(n - 1) : ContAt(t, k + j)
     /\ (c = 224 => t[k + 1] >= 160) /\ (c = 237 => t[k + 1] < 160)
     /\ (c = 240 => t[k + 1] >= 144) /\ (c = 244 => t[k + 1] < 144)
     /\ ~(c = 194 /\ t[k + 1] < 160)                               \* U+0080..U+009F
     /\ ~(c = 226 /\ t[k + 1] = 128 /\ t[k + 2] \in {168, 169})     \* U+2028 U+2029
ContOK(t, k) == \E j \in 1..3 : /\ k - j >= 1 /\ LeadLen(t[k - j]) > j
                                /\ \A d \in 1..(j - 1) : ContAt(t, k - d)
                                /\ LeadOK(t, k - j)
ByteClean(t, k) == LET c == t[k] IN
  IF c < 128 THEN c >= 32 /\ c # 127 ELSE IF c < 192 THEN ContOK(t, k) ELSE LeadOK(t, k)
TextClean(t) == \A k \in 1..Len(t) : ByteClean(t, k)

StrReprOK(t, s, isBytes) ==
  LET lit == U!StrLit(t) IN lit.ok /\ lit.bytes = isBytes /\ lit.v = s

(***************************************************************************)
(* Floats: [-] float literal; the rational it denotes rounds (to nearest,   *)
(* ties to even) to exactly f, sign included (-0.0 prints as -0.0).          *)
(***************************************************************************)
FloatReprOK(t, f) ==
  LET neg  == t # <<>> /\ t[1] = 45
      body == IF neg THEN Tail(t) ELSE t
      lit  == U!NumLit(body)
  IN /\ lit.ok /\ lit.kind = "float"
     /\ IsFinite(f)
     /\ IsNearestDec(f, neg, lit.digits, lit.e10)

\* the cheap part: [-] float literal with the sign of f
FloatSyntaxOK(t, f) ==
  LET neg  == t # <<>> /\ t[1] = 45
      lit  == U!NumLit(IF neg THEN Tail(t) ELSE t)
  IN lit.ok /\ lit.kind = "float" /\ IsFinite(f) /\ (f.s = 1) = neg

IntReprOK(t, x) == t = IntText(x)

(***************************************************************************)
(* Object graphs.  g is a sequence of nodes; a node is                       *)
(*   [k |-> "leaf", v |-> value]     None, bool, int or a plain ASCII string *)
(*   [k |-> "list" | "tuple", c |-> <<node numbers>>]                        *)
(*   [k |-> "dict", c |-> << <<key node, value node>>, ... >>]               *)
(* path = the lists and dicts being printed at the moment.                   *)
(***************************************************************************)
Txt(s) == s           \* (documentation only: s is a sequence of byte values)
LeafText(v) ==
  CASE v.t = "none" -> <<78, 111, 110, 101>>
    [] v.t = "bool" -> IF v.v THEN <<84, 114, 117, 101>> ELSE <<70, 97, 108, 115, 101>>
    [] v.t \in {"int", "big"} -> IntText(IntOf(v))
    [] v.t = "str" -> <<34>> \o v.v \o <<34>>             \* letters and digits only

RECURSIVE JoinTexts(_, _)
JoinTexts(ts, sep) == IF ts = <<>> THEN <<>> ELSE IF Len(ts) = 1 THEN ts[1] ELSE ts[1] \o sep \o JoinTexts(Tail(ts), sep)
CommaSp == <<44, 32>>

RECURSIVE GraphRepr(_, _, _)
GraphRepr(g, n, path) ==
  LET nd == g[n] IN
  CASE nd.k = "leaf" -> LeafText(nd.v)
    [] nd.k = "list" ->
         IF n \in path THEN <<91, 46, 46, 46, 93>>
         ELSE <<91>> \o JoinTexts([j \in 1..Len(nd.c) |-> GraphRepr(g, nd.c[j], path \cup {n})], CommaSp) \o <<93>>
    [] nd.k = "tuple" ->
         <<40>> \o JoinTexts([j \in 1..Len(nd.c) |-> GraphRepr(g, nd.c[j], path)], CommaSp)
                \o (IF Len(nd.c) = 1 THEN <<44>> ELSE <<>>) \o <<41>>
    [] nd.k = "dict" ->
         IF n \in path THEN <<123, 46, 46, 46, 125>>
         ELSE <<123>> \o JoinTexts([j \in 1..Len(nd.c) |->
                           GraphRepr(g, nd.c[j][1], path) \o <<58, 32>> \o GraphRepr(g, nd.c[j][2], path \cup {n})], CommaSp)
                     \o <<125>>
=============================================================================
