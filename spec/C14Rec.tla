------------------------------- MODULE C14Rec -------------------------------
(***************************************************************************)
(* C14 part (c): membership of token strings in the language of Grammar,   *)
(* decided by exploring the push-down recogniser as a TLC state graph: one *)
(* initial state per string; a string is a member iff an accepting         *)
(* configuration is reachable, in which case <<"ACC", id>> is printed.     *)
(* Records: {"id": n, "toks": [concrete tokens and layout pseudo tokens]}; *)
(* the terminal string is Grammar!Classify(toks).                          *)
(***************************************************************************)
EXTENDS Grammar, Json, IOUtils

Recs  == ndJsonDeserialize(IOEnv.VERIF_RECS)
Start == IOEnv.VERIF_START            \* "Expression" (ParseExpr) or "File"
Inputs == [i \in 1..Len(Recs) |-> Classify(Recs[i].toks)]

VARIABLES i, cfg

Init == i \in 1..Len(Recs) /\ cfg = RecInit(Start)
Next == /\ cfg' \in RecNext(Inputs[i], cfg)
        /\ i' = i
Acc  == ~RecAccepting(Inputs[i], cfg) \/ PrintT(<<"ACC", Recs[i].id>>)
Done == PrintT(<<"STRINGS", Len(Recs), TLCGet("stats").distinct>>)
=============================================================================
