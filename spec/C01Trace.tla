------------------------------ MODULE C01Trace ------------------------------
(***************************************************************************)
(* Record validation for C01 (code -> spec): every record is one program   *)
(* (the real parser's tree), an option vector, and the observation of its  *)
(* execution by the production pipeline (resolve, compile, interpret).     *)
(* The reference semantics RefSem!Run evaluates the tree; the observations *)
(* must agree: same host-visible effects with the same argument values,    *)
(* same final globals, same outcome (success, or failure of the same kind  *)
(* at the same operation with the same active calls).  Programs that leave *)
(* the modelled fragment (outcome "unsupported") are counted, not judged.  *)
(***************************************************************************)
EXTENDS RefSem, Json, IOUtils

Recs == ndJsonDeserialize(IOEnv.VERIF_RECS)
VARIABLE recno

RECURSIVE DEq(_, _)
DEq(a, b) ==
  \* a reference cycle is cut by both sides (at different depths): everything below the cut is not compared
  IF a.t = "deep" \/ b.t = "opaque:cycle" THEN TRUE
  ELSE /\ a.t = b.t
       /\ CASE a.t \in {"int", "bool", "str"} -> a.v = b.v
            [] a.t \in {"list", "tuple"} -> Len(a.e) = Len(b.e) /\ \A i \in 1..Len(a.e) : DEq(a.e[i], b.e[i])
            [] a.t = "dict" -> Len(a.e) = Len(b.e) /\ \A i \in 1..Len(a.e) : DEq(a.e[i][1], b.e[i][1]) /\ DEq(a.e[i][2], b.e[i][2])
            [] a.t = "obj" -> Len(a.e) = Len(b.e) /\ \A i \in 1..Len(a.e) : a.e[i][1] = b.e[i][1] /\ DEq(a.e[i][2], b.e[i][2])
            [] a.t \in {"fn", "builtin"} -> a.name = b.name
            [] a.t = "range" -> a.len = b.len
            [] OTHER -> TRUE

EffEq(x, y) ==
  /\ x.fn = y.fn
  /\ Len(x.args) = Len(y.args) /\ \A i \in 1..Len(x.args) : DEq(x.args[i], y.args[i])
  /\ Len(x.kw) = Len(y.kw) /\ \A i \in 1..Len(x.kw) : x.kw[i][1] = y.kw[i][1] /\ DEq(x.kw[i][2], y.kw[i][2])

Agrees(st, o) ==
  /\ Outcome(st) = o.outcome
  /\ Len(st.eff) = Len(o.effects) /\ \A i \in 1..Len(st.eff) : EffEq(st.eff[i], o.effects[i])
  /\ LET g == Globals(st) IN
     /\ Len(g) = Len(o.globals)
     /\ \A i \in 1..Len(g) : \E j \in 1..Len(o.globals) : g[i][1] = o.globals[j][1] /\ DEq(g[i][2], o.globals[j][2])
  /\ Failed(st) => /\ ErrPos(st) = o.pos
                   /\ ErrStack(st) = o.stack

Verdict(r) == LET st == Run(r.ast, r.opts) IN
              IF Outcome(st) = "unsupported" THEN "skip" ELSE IF Agrees(st, r.obs) THEN "ok" ELSE "bad"

Explain(r) == LET st == Run(r.ast, r.opts) IN
              PrintT(<<"SPEC", r.id, Outcome(st), ErrPos(st), ErrStack(st), st.eff, Globals(st)>>)
KK == 64
Init == recno \in 1..(IF Len(Recs) < KK THEN Len(Recs) ELSE KK)
Next == recno + KK <= Len(Recs) /\ recno' = recno + KK
Check == LET v == Verdict(Recs[recno]) IN
         \/ v = "ok"
         \/ (v = "skip" /\ PrintT(<<"SKIP", Recs[recno].id>>))
         \/ (PrintT(<<"BAD", Recs[recno].id>>) /\ ("VERIF_DEBUG" \in DOMAIN IOEnv => Explain(Recs[recno])))
Done == PrintT(<<"CHECKED", TLCGet("stats").distinct>>)
=============================================================================
