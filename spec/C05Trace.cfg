INIT Init
NEXT Next
POSTCONDITION Done
