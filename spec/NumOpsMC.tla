----------------------------- MODULE NumOpsMC -----------------------------
(***************************************************************************)
(* Design check of NumOps against TLC's native integers and against the    *)
(* CPython-validated Seqs!Slice / Seqs!Index:                              *)
(*  - floored division, right shift: native results on a boundary set and  *)
(*    q*b+r reconstruction on operands up to 2^400;                        *)
(*  - ParseInt/FormatInt: round trip in every base 2..36, native decimal   *)
(*    digits, prefixes, signs, invalid texts;                              *)
(*  - range: length, elements, indexing, membership and slicing equal the  *)
(*    explicitly enumerated sequence for all small (start, stop, step).    *)
(***************************************************************************)
EXTENDS NumOps, Seqs

CONSTANT Tier      \* 0: quick (smaller sets), 1: thorough
Around(c) == {c - 2, c - 1, c, c + 1, c + 2}
Pos == IF Tier = 0 THEN (0..9) \cup Around(32768) \cup {65535, 65536, 1000001, 32767 * 32768, 32768 * 32768 - 1}
       ELSE (0..20) \cup Around(32768) \cup Around(65536) \cup Around(1000000) \cup {32767 * 32768, 32768 * 32768 - 1}
S == Pos \cup {-p : p \in Pos}

Heavy == IF Tier = 0 THEN {-3, 32768} ELSE {-1000001, -32769, -3, 1, 7, 32768, 32767 * 32768}
VARIABLES x, y, z, k
Init == x = 0 /\ y = 0 /\ z = 0 /\ k = 0
\* k = 1: division pairs (x, y) ; k = 2: range (x = start, y = stop, z = step) ; k = 3: misc item x
Next == \/ /\ k = 0 /\ k' = -1 /\ x' \in S /\ y' = 0 /\ z' = 0
        \/ /\ k = -1 /\ k' = 1 /\ x' = x /\ y' \in S /\ z' = 0
        \/ /\ k = 0 /\ k' = -2 /\ x' \in (IF Tier = 0 THEN -2..2 ELSE -4..4) /\ y' = 0 /\ z' = 0
        \/ /\ k = -2 /\ k' = 2 /\ x' = x /\ y' \in (IF Tier = 0 THEN -3..4 ELSE -5..7)
           /\ z' \in (IF Tier = 0 THEN {-2, -1, 1, 3} ELSE {-3, -2, -1, 1, 2, 3})
        \/ /\ k = 0 /\ k' = 3 /\ x' \in 1..8 /\ y' = 0 /\ z' = 0

FD(a, b) == IF b > 0 THEN a \div b ELSE (-a) \div (-b)         \* native floored quotient
FM(a, b) == a - b * FD(a, b)
XB == FromInt(x)
YB == FromInt(y)

DivFacts ==
  /\ (y # 0) => /\ IFloorDivMod(XB, YB) = <<FromInt(FD(x, y)), FromInt(FM(x, y))>>
                /\ FloorDivModOK(XB, YB, IFloorDiv(XB, YB), IFloorMod(XB, YB))
  \* big operands: (q*b + r) divided by b gives back q and r, for |b| up to 2^200
  /\ (y \in Heavy) => \A e \in (IF Tier = 0 THEN {17, 130} ELSE {17, 100, 200}) :
        LET b == IAdd(Pow2(e + 31), YB)          \* positive (|y| < 2^31)
            q == IMul(XB, IAdd(Pow2(e + 13), One))
            r == IF IsZero(YB) THEN Zero ELSE Mk(FALSE, FromInt(y).m)     \* 0 <= r < b
            n == IAdd(IMul(q, b), r)
        IN /\ IFloorDivMod(n, b) = <<q, r>>
           /\ FloorDivModOK(INeg(n), INeg(b), IFloorDiv(INeg(n), INeg(b)), IFloorMod(INeg(n), INeg(b)))
           /\ FloorDivModOK(n, INeg(b), IFloorDiv(n, INeg(b)), IFloorMod(n, INeg(b)))
           /\ FloorDivModOK(INeg(n), b, IFloorDiv(INeg(n), b), IFloorMod(INeg(n), b))
  /\ (y >= 0 /\ y <= 40) => /\ RshOK(XB, y, IRsh(XB, y))
                            /\ IRsh(ILsh(XB, y), y) = XB
                            /\ RshOK(IAdd(ILsh(XB, 77), YB), y + 60, IRsh(IAdd(ILsh(XB, 77), YB), y + 60))
  \* formatting / parsing
  /\ (y \in Heavy) => \A base \in (IF Tier = 0 THEN {2, 10, 16, 36} ELSE {2, 3, 7, 8, 10, 16, 35, 36}) :
       /\ ParseInt(FormatInt(XB, base, FALSE), base) = [k |-> "ok", v |-> XB]
       /\ ParseInt(FormatInt(XB, base, TRUE), base) = [k |-> "ok", v |-> XB]
       /\ (base \in {7, 16, 36}) => LET big == IAdd(IMul(XB, Pow2(150)), YB) IN ParseInt(FormatInt(big, base, TRUE), base) = [k |-> "ok", v |-> big]
  /\ ParseInt(FormatInt(XB, 10, FALSE), 0) = [k |-> "ok", v |-> XB]

\* the explicit sequence of range(a, b, s) for small native parameters
RECURSIVE Elems(_, _, _)
Elems(a, b, s) == IF (s > 0 /\ a >= b) \/ (s < 0 /\ a <= b) THEN <<>> ELSE <<a>> \o Elems(a + s, b, s)
OptI(o) == IF o.some THEN [some |-> TRUE, v |-> FromInt(o.v)] ELSE [some |-> FALSE]
Opts(S1) == {None} \cup {Some(v) : v \in S1}
SliceIdx == IF Tier = 0 THEN -5..5 ELSE -7..7
SliceSteps == IF Tier = 0 THEN {-2, -1, 0, 1, 3} ELSE {-3, -2, -1, 0, 1, 2, 5}
RangeFacts ==
  LET E == Elems(x, y, z)
      n == Len(E)
      A == FromInt(x)
      Bb == FromInt(y)
      St == FromInt(z)
  IN /\ RLen(A, Bb, St) = FromInt(n)
     /\ \A i \in -9..9 :
          LET e == Index(E, i)
              r == RIndex(A, Bb, St, FromInt(i))
          IN r.ok = e.ok /\ (e.ok => r.v = FromInt(e.v))
     /\ \A v \in -9..12 : RHasInt(A, Bb, St, FromInt(v)) = (\E j \in 1..n : E[j] = v)
     /\ \A v \in -3..3 : RHasFloat(A, Bb, St, FloatOfInt(FromInt(v))) = (\E j \in 1..n : E[j] = v)
     /\ ~RHasFloat(A, Bb, St, FromDyadicExact(FALSE, <<3>>, -1)) /\ ~RHasFloat(A, Bb, St, PosInf) /\ ~RHasFloat(A, Bb, St, QNaN)
     /\ \A lo \in Opts(SliceIdx), hi \in Opts(SliceIdx), st \in Opts(SliceSteps) :
          LET e == Slice(E, lo, hi, st)
              r == RSlice(A, Bb, St, OptI(lo), OptI(hi), OptI(st))
          IN /\ r.ok = e.ok
             /\ e.ok => /\ r.len = FromInt(Len(e.v))
                        /\ (Len(e.v) > 0) => r.first = FromInt(e.v[1])
                        /\ (Len(e.v) > 1) => IAdd(r.first, r.step) = FromInt(e.v[2])

MiscFacts ==
  CASE x = 1 ->   \* prefixes and signs (doc/spec.md examples)
         /\ ParseInt(<<49, 49>>, 10).v = FromInt(11) /\ ParseInt(<<49, 49>>, 0).v = FromInt(11)
         /\ ParseInt(<<49, 49>>, 2).v = FromInt(3) /\ ParseInt(<<49, 49>>, 8).v = FromInt(9) /\ ParseInt(<<49, 49>>, 16).v = FromInt(17)
         /\ ParseInt(<<48, 120, 49, 49>>, 0).v = FromInt(17) /\ ParseInt(<<48, 120, 49, 49>>, 16).v = FromInt(17)
         /\ ParseInt(<<48, 98, 49>>, 16).v = FromInt(177) /\ ParseInt(<<48, 98, 49>>, 2).v = FromInt(1)
         /\ ParseInt(<<48, 98, 49>>, 0).v = FromInt(1) /\ ParseInt(<<48, 120, 49, 49>>, 10).k = "fail"
         /\ ParseInt(<<45, 48, 88, 49, 102>>, 16).v = FromInt(-31) /\ ParseInt(<<43, 48, 79, 49, 55>>, 0).v = FromInt(15)
         /\ ParseInt(<<48, 98, 49>>, 12).v = FromInt(133) /\ ParseInt(<<48, 120, 49>>, 36).v = FromInt(1189)
         /\ ParseInt(<<122>>, 36).v = FromInt(35) /\ ParseInt(<<90>>, 36).v = FromInt(35) /\ ParseInt(<<122>>, 35).k = "fail"
    [] x = 2 ->   \* invalid texts and bases
         /\ ParseInt(<<>>, 10).k = "fail" /\ ParseInt(<<45>>, 10).k = "fail" /\ ParseInt(<<43, 45, 49>>, 10).k = "fail"
         /\ ParseInt(<<48, 120>>, 16).k = "fail" /\ ParseInt(<<48, 120>>, 0).k = "fail" /\ ParseInt(<<48, 120, 45, 49>>, 16).k = "fail"
         /\ ParseInt(<<49, 32>>, 10).k = "fail" /\ ParseInt(<<32, 49>>, 10).k = "fail" /\ ParseInt(<<49, 95, 48>>, 10).k = "fail"
         /\ ParseInt(<<49>>, 1).k = "fail" /\ ParseInt(<<49>>, 37).k = "fail" /\ ParseInt(<<49>>, -2).k = "fail"
         /\ ParseInt(<<48, 98, 50>>, 2).k = "fail" /\ ParseInt(<<48, 111, 56>>, 0).k = "fail" /\ ParseInt(<<56>>, 8).k = "fail"
         /\ ParseInt(<<48, 49, 55>>, 0).k = "unspec" /\ ParseInt(<<48, 48>>, 0).k = "unspec" /\ ParseInt(<<48>>, 0).v = Zero
         /\ ParseInt(<<48, 49, 55>>, 10).v = FromInt(17) /\ ParseInt(<<45, 48>>, 10).v = Zero
    [] x = 3 ->   \* formatting: native decimal digits and known texts
         /\ FormatInt(FromInt(0), 10, FALSE) = <<48>> /\ FormatInt(FromInt(-8), 8, FALSE) = <<45, 49, 48>>
         /\ FormatInt(FromInt(255), 16, TRUE) = <<70, 70>> /\ FormatInt(FromInt(255), 16, FALSE) = <<102, 102>>
         /\ FormatInt(FromInt(1234567890), 10, FALSE) = <<49, 50, 51, 52, 53, 54, 55, 56, 57, 48>>
         /\ FormatInt(INeg(Pow2(100)), 16, FALSE) = <<45, 49>> \o [j \in 1..25 |-> 48]
         /\ FormatInt(Pow2(64), 10, FALSE) = <<49, 56, 52, 52, 54, 55, 52, 52, 48, 55, 51, 55, 48, 57, 53, 53, 49, 54, 49, 54>>
    [] x = 4 ->   \* huge range parameters (values checked by hand / Python)
         /\ RLen(INeg(Pow2(63)), ISub(Pow2(63), One), One) = ISub(Pow2(64), One)
         /\ RLen(Zero, Pow2(200), Pow2(100)) = Pow2(100)
         /\ RLen(Zero, IAdd(Pow2(200), One), Pow2(100)) = IAdd(Pow2(100), One)
         /\ RLen(Pow2(200), Zero, INeg(Pow2(100))) = Pow2(100)
         /\ RHasInt(Zero, Pow2(41), One, Pow2(40)) /\ ~RHasInt(Zero, Pow2(41), Two, IAdd(Pow2(40), One))
         /\ RIndex(Zero, Pow2(62), One, Pow2(61)) = [ok |-> TRUE, v |-> Pow2(61)]
         /\ RIndex(Zero, Pow2(62), One, MinusOne) = [ok |-> TRUE, v |-> ISub(Pow2(62), One)]
         /\ ~RIndex(Zero, Pow2(62), One, Pow2(62)).ok /\ ~RIndex(Zero, Pow2(62), One, INeg(IAdd(Pow2(62), One))).ok
         /\ LET r == RSlice(Pow2(62), ISub(Pow2(63), One), Pow2(61), [some |-> TRUE, v |-> Zero], [some |-> TRUE, v |-> Two], [some |-> FALSE])
            IN r.ok /\ r.len = Two /\ r.first = Pow2(62) /\ r.step = Pow2(61)
         /\ LET r == RSlice(Zero, Pow2(62), Pow2(60), [some |-> FALSE], [some |-> FALSE], [some |-> TRUE, v |-> FromInt(8)])
            IN r.ok /\ r.len = One /\ r.first = Zero
    [] x = 5 ->   \* exact float arithmetic: 0.1 + 0.2, 1/3, 3 * 0.1, big cancellation (bits from CPython)
         LET f01 == [s |-> 0, e |-> 1019, m |-> <<6554, 13107, 26214, 76>>]
             f02 == [s |-> 0, e |-> 1020, m |-> <<6554, 13107, 26214, 76>>]
             f03 == [s |-> 0, e |-> 1021, m |-> <<13108, 26214, 19660, 25>>]       \* 0.30000000000000004
             f3  == FloatOfInt(FromInt(3))
             f1  == FloatOfInt(One)
             third == [s |-> 0, e |-> 1021, m |-> <<21845, 10922, 21845, 42>>]    \* 0.3333333333333333
         IN /\ FloatArithOK("+", f01, f02, f03) /\ ~FloatArithOK("+", f01, f02, FPredMag(f03))
            /\ FloatArithOK("*", f3, f01, f03) /\ FloatArithOK("/", f1, f3, third) /\ ~FloatArithOK("/", f1, f3, FSuccMag(third))
            /\ FloatArithOK("-", f03, f03, PosZero) /\ FloatArithOK("-", f03, f03, NegZero) /\ ~FloatArithOK("-", f03, f02, PosZero)
            /\ FloatArithOK("-", f03, f02, [s |-> 0, e |-> 1019, m |-> <<6556, 13107, 26214, 76>>])   \* 0.10000000000000003
            /\ FloatArithOK("*", MaxFinite, FloatOfInt(Two), PosInf) /\ FloatArithOK("*", FNeg(MaxFinite), FloatOfInt(Two), NegInf)
            /\ FloatArithOK("/", MinSub, FloatOfInt(Two), PosZero) /\ FloatArithOK("/", FNeg(MinSub), FloatOfInt(Two), NegZero)
            /\ FloatArithOK("+", FloatOfInt(Pow2(53)), f1, FloatOfInt(Pow2(53)))
            /\ FloatArithOK("+", FloatOfInt(IAdd(Pow2(53), Two)), f1, FloatOfInt(IAdd(Pow2(53), FromInt(4))))
    [] OTHER -> TRUE

Facts == CASE k = 1 -> DivFacts [] k = 2 -> RangeFacts [] k = 3 -> MiscFacts [] OTHER -> TRUE
=============================================================================
