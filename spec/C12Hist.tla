------------------------------- MODULE C12Hist -------------------------------
(***************************************************************************)
(* Trace validation (code -> spec) of long operation histories recorded    *)
(* from the real dict: the abstract ordered map is stepped along the log;  *)
(* each event carries the operation, its result, the length and the first  *)
(* and last key afterwards, and every 256th event the complete order.      *)
(* ops: 0 reset (fresh dict) | 1 ins k v | 2 del k | 3 popitem | 4 clear | *)
(*      5 get k | 6 setdefault k v                                         *)
(* results: <<>> none/missing, <<v>>, <<k, v>>, <<-1>> error               *)
(***************************************************************************)
EXTENDS Hashtable, Json, IOUtils

Trace == ndJsonDeserialize(IOEnv.VERIF_RECS)
VARIABLES i, al

Apply(a, e) ==
  CASE e.op = 0 -> <<<<>>, <<>>>>
    [] e.op = 1 -> <<AIns(a, e.k, e.v), <<>>>>
    [] e.op = 2 -> <<ADel(a, e.k), IF AHas(a, e.k) THEN <<AGet(a, e.k)>> ELSE <<>>>>
    [] e.op = 3 -> IF a = <<>> THEN <<a, <<-1>>>> ELSE <<Tail(a), <<a[1][1], a[1][2]>>>>
    [] e.op = 4 -> <<<<>>, <<>>>>
    [] e.op = 5 -> <<a, IF AHas(a, e.k) THEN <<AGet(a, e.k)>> ELSE <<>>>>
    [] e.op = 6 -> IF AHas(a, e.k) THEN <<a, <<AGet(a, e.k)>>>> ELSE <<AIns(a, e.k, e.v), <<e.v>>>>

Matches(a2, res, e) ==
  /\ res = e.res
  /\ Len(a2) = e.len
  /\ ((a2 = <<>>) \/ (a2[1][1] = e.first /\ a2[Len(a2)][1] = e.last))
  /\ ("order" \in DOMAIN e) => AKeySeq(a2) = e.order

Init == i = 0 /\ al = <<>>
\* (no LET around the primed assignment: TLC would keep a lazy value in the successor state)
Next == /\ i < Len(Trace)
        /\ al' = Apply(al, Trace[i + 1])[1]
        /\ i' = i + 1
        /\ (Matches(al', Apply(al, Trace[i + 1])[2], Trace[i + 1]) \/ PrintT(<<"BAD", Trace[i + 1].n>>))
Done == PrintT(<<"CHECKED", TLCGet("stats").distinct - 1>>)
=============================================================================
