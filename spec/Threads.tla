------------------------------ MODULE Threads ------------------------------
(***************************************************************************)
(* Sharing of frozen values and of one compiled program between threads    *)
(* (doc/impl.md "Freezing": "It is this property that permits a Starlark   *)
(* module to be referenced by two Starlark threads running concurrently    *)
(* ... without the possibility of a data race"; "Fail-fast iterators": "If *)
(* the collection is actually frozen, the counter bookkeeping is           *)
(* unnecessary ... iterator bookkeeping is needed only while objects are   *)
(* still mutable, before they can have been published to another thread,   *)
(* and thus no synchronization is necessary").                             *)
(*                                                                         *)
(* A module thread (thread 0) builds a heap and freezes its globals with   *)
(* the flag-first traversal; completion of that is the PUBLICATION.  Then  *)
(* reader threads 1..NThreads each perform operations chosen from OpSet on *)
(* the published objects and on one shared compiled program P.  Every      *)
(* operation is a little program of atomic ACCESSES (read / write) to      *)
(* implementation-level LOCATIONS:                                         *)
(*     <<o, "frozen">>   the frozen flag of a list / hash table / struct / *)
(*                       closure cell                                      *)
(*     <<o, "count">>    the live-iterator counter of a list / hash table  *)
(*     <<o, "data">>     elements / table slots / fields / cell contents   *)
(*     <<"P", "code">>   byte code, constants, encoded line table (never   *)
(*                       written after compilation)                        *)
(*     <<"P", "lnt">>    the decoded line table, filled lazily under a     *)
(*                       once by the first failing execution that needs a  *)
(*                       source position                                   *)
(* Thread-local memory (a new container, a module's own globals, frames)   *)
(* is invisible to other threads and is not tracked.                       *)
(*                                                                         *)
(* Happens-before is computed with vector clocks (the classical DJIT+      *)
(* scheme): thread start (fork) is an edge from the module thread to the   *)
(* reader; completion of the once body is a release, a return from Do that *)
(* finds the once done is an acquire.  NoRace: any two accesses to one     *)
(* location by different threads, at least one of them a write, are        *)
(* ordered by happens-before.                                              *)
(*                                                                         *)
(* Guards is a record of BOOLEANs naming what the implementation documents *)
(* and what makes the design race free; switching one off gives the        *)
(* variants used as negative design checks:                                *)
(*   iter     iterators leave the counter alone when the object is frozen  *)
(*   freeze   Freeze tests the flag before storing it (and does not        *)
(*            descend into an object that is already frozen)               *)
(*   cell     the same for the flag of a closure cell                      *)
(*   decode   the line table is decoded under the once                     *)
(*   publish  reader threads start only after the module has finished      *)
(*            (the property's premise: values "frozen by a completed       *)
(*            module")                                                     *)
(***************************************************************************)
EXTENDS Integers, Sequences, FiniteSets, TLC

CONSTANTS NThreads,      \* number of reader threads
          MaxOps,        \* operations per reader thread
          OpSet,         \* the combinations [op, k] a reader may choose from (subset of AllCombos)
          Guards         \* [iter, freeze, cell, decode, publish : BOOLEAN]

Readers == 1..NThreads
Tids    == 0..NThreads            \* 0 = the module thread

(***************************************************************************)
(* The published heap: one object of every value kind, as built by         *)
(*     L = [1, 2, 3]; D = {"a": L}; S = set([1, 2]); T = (L, D)            *)
(*     R = struct(f = L)                                                   *)
(*     def mk():                                                           *)
(*         c = [10, 20]               # X, held in cell C                  *)
(*         def F(): ... c ...                                              *)
(*         return F                                                        *)
(*     F = mk(); M = L.append                                              *)
(***************************************************************************)
Objs == {"L", "D", "S", "T", "R", "F", "C", "X", "M"}
Kind == "L" :> "list" @@ "D" :> "dict" @@ "S" :> "set" @@ "T" :> "tuple" @@ "R" :> "struct" @@
        "F" :> "closure" @@ "C" :> "cell" @@ "X" :> "list" @@ "M" :> "bound"
Ch   == "L" :> <<>> @@ "D" :> <<"L">> @@ "S" :> <<>> @@ "T" :> <<"L", "D">> @@ "R" :> <<"L">> @@
        "F" :> <<"C">> @@ "C" :> <<"X">> @@ "X" :> <<>> @@ "M" :> <<"L">>
Globals == <<"L", "D", "S", "T", "R", "F", "M">>
ObjOf == "list" :> "L" @@ "dict" :> "D" @@ "set" :> "S" @@ "tuple" :> "T" @@ "struct" :> "R" @@
         "closure" :> "F" @@ "bound" :> "M"

HasFlag(o) == Kind[o] \in {"list", "dict", "set", "struct", "cell"}
Counted(o) == Kind[o] \in {"list", "dict", "set"}

frozen(o) == <<o, "frozen">>
count(o)  == <<o, "count">>
data(o)   == <<o, "data">>
CODE == <<"P", "code">>
LNT  == <<"P", "lnt">>
Locs == (Objs \X {"frozen", "count", "data"}) \cup {CODE, LNT}

(***************************************************************************)
(* The operation alphabet of the property and the kinds each applies to.   *)
(***************************************************************************)
ReadOps == {"index", "iterate", "compare", "hash", "print", "encode", "call", "callfail",
            "store", "mutate", "init", "initfail"}
ValueKinds == {"list", "dict", "set", "tuple", "struct", "closure", "bound"}
Applies(op, k) ==
  CASE op = "index"    -> k \in {"list", "dict", "set", "tuple", "struct"}
    [] op = "iterate"  -> k \in {"list", "dict", "set", "tuple"}
    [] op \in {"compare", "hash", "print", "encode", "store"} -> k \in ValueKinds
    [] op = "call"     -> k \in {"closure", "bound"}
    [] op = "callfail" -> k = "closure"
    [] op = "mutate"   -> k \in {"list", "dict", "set", "closure", "bound"}   \* closure: mutates its captured list; bound: L.append
    [] op \in {"init", "initfail"} -> k = "prog"
AllCombos == {c \in [op : ReadOps, k : ValueKinds \cup {"prog"}] : Applies(c.op, c.k)}

(***************************************************************************)
(* Micro-instructions.                                                     *)
(***************************************************************************)
Ins(i, l, v, n) == [i |-> i, l |-> l, v |-> v, n |-> n]
Nop         == Ins("nop", CODE, 0, 0)       \* thread-local work
Rd(l)       == Ins("rd", l, 0, 0)
Wr(l, v)    == Ins("wr", l, v, 0)
Add(l, d)   == Ins("add", l, d, 0)          \* x++ / x--: a read and a write
SkipIf(l, n)  == Ins("skipif", l, 0, n)     \* read l; if it holds TRUE skip the next n instructions
SkipPos(l, n) == Ins("skippos", l, 0, n)    \* read l; if it is > 0 skip the next n instructions
Once(n)     == Ins("once", LNT, 0, n)       \* once.Do: done => acquire and skip n; new => run the body; running => wait
OnceEnd     == Ins("onceend", LNT, 0, 0)    \* body finished: release

RECURSIVE Cat(_)
Cat(ss) == IF ss = <<>> THEN <<>> ELSE Head(ss) \o Cat(Tail(ss))

\* str / repr / == / ordering: read the object and everything below it
RECURSIVE DeepRead(_)
DeepRead(o) == <<Rd(data(o))>> \o Cat([i \in 1..Len(Ch[o]) |-> DeepRead(Ch[o][i])])

IterBegin(o) == IF ~Counted(o) THEN <<>>
                ELSE IF Guards.iter THEN <<SkipIf(frozen(o), 1), Add(count(o), 1)>> ELSE <<Add(count(o), 1)>>
IterDone(o)  == IF ~Counted(o) THEN <<>>
                ELSE IF Guards.iter THEN <<SkipIf(frozen(o), 1), Add(count(o), -1)>> ELSE <<Add(count(o), -1)>>
IterProg(o)  == IterBegin(o) \o <<Rd(data(o))>> \o IterDone(o)

\* json.encode: lists and sets through an iterator, dicts through a snapshot of the items,
\* tuples and structs directly; functions and methods are rejected
RECURSIVE EncodeProg(_)
EncodeProg(o) ==
  LET inner == <<Rd(data(o))>> \o Cat([i \in 1..Len(Ch[o]) |-> EncodeProg(Ch[o][i])])
  IN IF Kind[o] \in {"closure", "bound"} THEN <<Rd(data(o))>>
     ELSE IF Kind[o] \in {"list", "set"} THEN IterBegin(o) \o inner \o IterDone(o)
     ELSE inner

\* Freeze: flag first, then the children; objects without a flag pass it on
RECURSIVE FreezeProg(_)
FreezeProg(o) ==
  LET kids == Cat([i \in 1..Len(Ch[o]) |-> FreezeProg(Ch[o][i])])
      body == <<Wr(frozen(o), TRUE), Rd(data(o))>> \o kids
      guarded == IF Kind[o] = "cell" THEN Guards.cell ELSE Guards.freeze
  IN IF ~HasFlag(o) THEN <<Rd(data(o))>> \o kids
     ELSE IF guarded THEN <<SkipIf(frozen(o), Len(body))>> \o body
     ELSE body

\* a mutator: test the flag, then the counter, and only then write
MutProg(o) == <<SkipIf(frozen(o), 2), SkipPos(count(o), 1), Wr(data(o), "mutated")>>

\* source position of a pc: decode the line table once, then search it
PositionProg == IF Guards.decode THEN <<Once(2), Wr(LNT, TRUE), OnceEnd, Rd(LNT)>>
                ELSE <<SkipIf(LNT, 1), Wr(LNT, TRUE), Rd(LNT)>>

EnterF == <<Rd(data("F")), Rd(CODE), Rd(data("C"))>>     \* the function value, its code, the captured cell

HashProg(o) == IF Kind[o] \in {"list", "dict", "set"} THEN <<>> ELSE <<Rd(data(o))>>   \* unhashable: rejected at once

Prog(c) ==
  LET o == IF c.k = "prog" THEN "L" ELSE ObjOf[c.k] IN
  CASE c.op = "index"    -> <<Rd(data(o))>>
    [] c.op = "iterate"  -> IterProg(o)
    [] c.op = "compare"  -> DeepRead(o)
    [] c.op = "print"    -> DeepRead(o)
    [] c.op = "hash"     -> HashProg(o)
    [] c.op = "encode"   -> EncodeProg(o)
    [] c.op = "call"     -> IF c.k = "closure" THEN EnterF \o IterProg("X")
                            ELSE <<Rd(data("M")), Rd(data("L"))>>                  \* a reading bound method (L.index)
    [] c.op = "callfail" -> EnterF \o <<Rd(data("X"))>> \o PositionProg           \* index out of range inside F: backtrace
    [] c.op = "store"    -> <<Nop>> \o FreezeProg(o)                               \* n = [o]; n.Freeze()
    [] c.op = "mutate"   -> IF c.k = "closure" THEN EnterF \o MutProg("X") \o PositionProg
                            ELSE IF c.k = "bound" THEN <<Rd(data("M"))>> \o MutProg("L")
                            ELSE MutProg(o)
    [] c.op = "init"     -> <<Rd(CODE), Nop>>                                      \* new module from the shared program
    [] c.op = "initfail" -> <<Rd(CODE), Nop>> \o PositionProg                      \* ... whose top level fails
ProgTab == [c \in AllCombos |-> Prog(c)]

\* the module thread: fill every object -- mutating and iterating the still unfrozen list L on
\* the way, which takes the other branch of every guard -- then freeze the globals in order
ModuleCombo == [op |-> "module", k |-> "prog"]
ModuleProg == MutProg("L")
              \o [i \in 1..Len(Globals) |-> Wr(data(Globals[i]), "built")]
              \o <<Wr(data("C"), "built"), Wr(data("X"), "built")>>
              \o IterBegin("L") \o MutProg("L") \o <<Rd(data("L"))>> \o IterDone("L")   \* rejected: L is being iterated
              \o Cat([i \in 1..Len(Globals) |-> FreezeProg(Globals[i])])
None == [op |-> "none", k |-> "none"]

VARIABLES cur,        \* [Tids -> combo being executed or None]
          pc,         \* [Tids -> index of the next instruction of cur]
          hist,       \* [Readers -> sequence of finished combos]
          started,    \* set of reader threads that have been started (forked)
          mem,        \* [Locs -> value]
          acc,        \* set of accesses [t, l, k, vc] not yet ordered before everything to come
          clk,        \* [Tids -> [Tids -> Nat]] vector clocks
          once,       \* "new" | "run" | "done"
          oncevc,     \* vector clock released by the once
          published   \* the module has finished
vars == <<cur, pc, hist, started, mem, acc, clk, once, oncevc, published>>

Zero == [u \in Tids |-> 0]
Join(a, b) == [u \in Tids |-> IF a[u] >= b[u] THEN a[u] ELSE b[u]]

TInit ==
  /\ cur = [t \in Tids |-> IF t = 0 THEN ModuleCombo ELSE None]
  /\ pc = [t \in Tids |-> 1]
  /\ hist = [t \in Readers |-> <<>>]
  /\ started = {}
  /\ mem = [l \in Locs |-> IF l[2] = "frozen" THEN FALSE
                           ELSE IF l[2] = "count" THEN 0
                           ELSE IF l = LNT THEN FALSE
                           ELSE "unbuilt"]
  /\ acc = {}
  /\ clk = [t \in Tids |-> [Zero EXCEPT ![t] = 1]]
  /\ once = "new" /\ oncevc = Zero
  /\ published = FALSE

P(t) == IF t = 0 THEN ModuleProg ELSE ProgTab[cur[t]]
A(t, l, k) == [t |-> t, l |-> l, k |-> k, vc |-> clk[t]]
Advance(t, n) == pc' = [pc EXCEPT ![t] = @ + n]

\* a reader takes its next operation; its first one starts the thread (fork from the module thread)
CanStart(t) == /\ t \in Readers /\ cur[t] = None /\ Len(hist[t]) < MaxOps
               /\ (Guards.publish => published)
StartOp(t, c) ==
  /\ cur' = [cur EXCEPT ![t] = c] /\ pc' = [pc EXCEPT ![t] = 1]
  /\ IF t \in started THEN UNCHANGED <<started, clk>>
     ELSE /\ started' = started \cup {t}
          /\ clk' = [clk EXCEPT ![t] = Join(@, clk[0]), ![0] = [@ EXCEPT ![0] = @ + 1]]
  /\ UNCHANGED <<hist, mem, acc, once, oncevc, published>>

Step(t) ==
  /\ cur[t] # None /\ pc[t] <= Len(P(t))
  /\ LET ins == P(t)[pc[t]] IN
     CASE ins.i = "nop" ->
            Advance(t, 1) /\ UNCHANGED <<mem, acc, clk, once, oncevc>>
       [] ins.i = "rd" ->
            Advance(t, 1) /\ acc' = acc \cup {A(t, ins.l, "r")} /\ UNCHANGED <<mem, clk, once, oncevc>>
       [] ins.i = "wr" ->
            /\ Advance(t, 1) /\ acc' = acc \cup {A(t, ins.l, "w")}
            /\ mem' = [mem EXCEPT ![ins.l] = ins.v] /\ UNCHANGED <<clk, once, oncevc>>
       [] ins.i = "add" ->
            /\ Advance(t, 1) /\ acc' = acc \cup {A(t, ins.l, "r"), A(t, ins.l, "w")}
            /\ mem' = [mem EXCEPT ![ins.l] = @ + ins.v] /\ UNCHANGED <<clk, once, oncevc>>
       [] ins.i = "skipif" ->
            /\ Advance(t, IF mem[ins.l] = TRUE THEN 1 + ins.n ELSE 1)
            /\ acc' = acc \cup {A(t, ins.l, "r")} /\ UNCHANGED <<mem, clk, once, oncevc>>
       [] ins.i = "skippos" ->
            /\ Advance(t, IF mem[ins.l] > 0 THEN 1 + ins.n ELSE 1)
            /\ acc' = acc \cup {A(t, ins.l, "r")} /\ UNCHANGED <<mem, clk, once, oncevc>>
       [] ins.i = "once" ->
            /\ once # "run"                                    \* a second caller waits for the first
            /\ IF once = "done"
               THEN Advance(t, 1 + ins.n) /\ clk' = [clk EXCEPT ![t] = Join(@, oncevc)] /\ UNCHANGED once
               ELSE Advance(t, 1) /\ once' = "run" /\ UNCHANGED clk
            /\ UNCHANGED <<mem, acc, oncevc>>
       [] ins.i = "onceend" ->
            /\ Advance(t, 1) /\ once' = "done" /\ oncevc' = Join(oncevc, clk[t])
            /\ clk' = [clk EXCEPT ![t] = [@ EXCEPT ![t] = @ + 1]]
            /\ UNCHANGED <<mem, acc>>
  /\ UNCHANGED <<cur, hist, started, published>>

EndOp(t) ==
  /\ cur[t] # None /\ pc[t] > Len(P(t))
  /\ cur' = [cur EXCEPT ![t] = None]
  /\ IF t = 0
     THEN \* publication.  When readers are only forked afterwards, every access made so far
          \* happens before everything any reader will ever do: forget them.
          /\ published' = TRUE /\ acc' = (IF Guards.publish THEN {} ELSE acc) /\ UNCHANGED hist
     ELSE /\ hist' = [hist EXCEPT ![t] = Append(@, cur[t])] /\ UNCHANGED <<published, acc>>
  /\ UNCHANGED <<pc, started, mem, clk, once, oncevc>>

TNext == \E t \in Tids : Step(t) \/ EndOp(t) \/ (CanStart(t) /\ \E c \in OpSet : StartOp(t, c))

AllDone == published /\ \A t \in Readers : cur[t] = None /\ Len(hist[t]) = MaxOps

(***************************************************************************)
(* Properties.                                                             *)
(***************************************************************************)
HB(a, b) == a.vc[a.t] <= b.vc[a.t]
Conflict(a, b) == a.t # b.t /\ a.l = b.l /\ (a.k = "w" \/ b.k = "w")
\* (a conflict needs a write: quantify over the writes first -- equivalent, and cheap when there are few)
NoRace == \A a \in {x \in acc : x.k = "w"} : \A b \in acc : Conflict(a, b) => HB(a, b) \/ HB(b, a)

\* what every reader observes is what it observes alone: after publication the published
\* objects never change (flags stay set, counters stay 0, contents stay as built)
Immutable == published =>
  \A o \in Objs : /\ (HasFlag(o) => mem[frozen(o)] = TRUE)
                  /\ mem[count(o)] = 0
                  /\ mem[data(o)] = "built"

\* the once body runs at most once and every reader of the table sees it decoded
OnceOK == (once = "new" => mem[LNT] = FALSE) /\ (once = "done" => mem[LNT] = TRUE)

TypeOK == /\ \A t \in Tids : cur[t] = None \/ pc[t] \in 1..(Len(P(t)) + 1)
          /\ once \in {"new", "run", "done"}
=============================================================================
