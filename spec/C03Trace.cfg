CONSTANTS
  BucketSize = 8
  LoadNum = 13
  LoadDen = 2
INIT Init
NEXT Next
INVARIANT Check
POSTCONDITION Done
