\* default configuration: all ordered pairs of operations x kinds on two threads
\* (checks/c05.py generates the other configurations from this one)
CONSTANTS
  NThreads = 2
  MaxOps = 1
  OpSet <- PairOps
  Guards <- GuardsAll
INIT Init
NEXT Next
INVARIANTS TypeOK NoRace Immutable OnceOK Emit
