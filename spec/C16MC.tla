-------------------------------- MODULE C16MC --------------------------------
(***************************************************************************)
(* Design-level check of LineTab (P-E): TLC builds every table of up to    *)
(* MaxRows rows whose successive deltas are drawn from the sets DPc1,      *)
(* DLine1, DCol1 (first row; the encoding of a row depends only on its     *)
(* delta to the previous row, so one row covers the encoder exhaustively)  *)
(* and DPc2, DLine2, DCol2 (later rows: accumulation and lookup).  The     *)
(* sets are chosen so that every delta undershoots, equals and exceeds     *)
(* each saturation bound, in both signs, including exact multiples of the  *)
(* bounds.  Checked on each table:                                         *)
(*   RoundTrip   Decode(Encode(rows)) = rows                               *)
(*   WordsFit    every word is a legal PW+LW+CW+1 bit value and survives   *)
(*               packing                                                   *)
(*   Shape       a row is spread over several words only when a delta      *)
(*               saturates; every incomplete word has a saturated field;   *)
(*               the words of a row add up to the row's delta              *)
(*   GreedyEq    the closed form of the encoder equals the word-by-word    *)
(*               greedy definition (only when Greedy = TRUE: quadratic)    *)
(*   LookupOK    binary search = "last row with pc <= x" for every x from  *)
(*               the first row's pc to beyond the last, and the result     *)
(*               from the decoded table equals the result from the rows    *)
(* Configurations: C16MC (widths 2/3/3, every first-row delta in -9..9 x   *)
(* -9..9 x 0..10, two rows), C16MCLookup / C16MCq (2/3/3, 4 / 3 rows),     *)
(* C16MCReal / C16MCRealq (the real widths 4/5/6, deltas around the bounds *)
(* and their multiples, up to 1000), C16MCRealWide (4/5/6 with deltas of   *)
(* 10^4 columns, 10^5 lines and 2*10^4 code bytes).                        *)
(***************************************************************************)
EXTENDS LineTab, TLC

CONSTANTS MaxRows, DPc1, DLine1, DCol1, DPc2, DLine2, DCol2, Line0, Col0, Greedy
VARIABLES rows, prev

St == Start(Line0, Col0)

\* delta sets for the configurations (a .cfg file cannot contain negative numbers)
SmallD   == {-9, -8, -7, -5, -4, -3, -1, 0, 1, 2, 3, 4, 6, 7, 9}      \* bounds -4 / 3 and their multiples
LookupDL == {-5, 4}
LookupDC == {-4, 3}
RealDL2  == {-17, 16}
RealDC2  == {32}
RealDL   == {-1000, -33, -32, -31, -17, -16, -15, -1, 0, 1, 14, 15, 16, 29, 30, 31, 1000}    \* bounds -16 / 15
RealDC   == {-1000, -65, -64, -63, -33, -32, -31, -1, 0, 1, 30, 31, 32, 61, 62, 63, 1000}    \* bounds -32 / 31
QuickDL  == {-33, -32, -17, -16, 0, 15, 16, 31, 32, 1000}
QuickDC  == {-65, -64, -33, -32, 0, 31, 32, 63, 64, 1000}
WideDL   == {-100000, 0, 100000}
WideDC   == {-10000, 0, 10000}
WideDL2  == {-17, 100000}
WideDC2  == {-10000}

Init == rows = <<>> /\ prev = St
\* positions of instructions are positive; the first row may sit at pc 0, later rows are at larger pcs
Next == /\ Len(rows) < MaxRows
        /\ \E dp \in (IF rows = <<>> THEN DPc1 ELSE DPc2), dl \in (IF rows = <<>> THEN DLine1 ELSE DLine2),
              dc \in (IF rows = <<>> THEN DCol1 ELSE DCol2) :
              /\ prev.line + dl >= 1 /\ prev.col + dc >= 1
              /\ prev' = Row(prev.pc + dp, prev.line + dl, prev.col + dc)
              /\ rows' = Append(rows, prev')

LastFrom == IF Len(rows) <= 1 THEN St ELSE rows[Len(rows) - 1]

RoundTrip == Decode(St, Encode(St, rows)) = rows

\* the words of the newest row (earlier rows were checked in earlier states)
LastWords == IF rows = <<>> THEN <<>> ELSE EncRow(LastFrom, prev)
Sum(ws, f(_)) == LET RECURSIVE S(_, _)      \* balanced: logarithmic evaluation depth
                     S(lo, hi) == IF lo > hi THEN 0 ELSE IF lo = hi THEN f(ws[lo])
                                  ELSE S(lo, (lo + hi) \div 2) + S((lo + hi) \div 2 + 1, hi)
                 IN S(1, Len(ws))
WordsFit == LET ws == LastWords IN       \* (LET: evaluated once; a bare definition would be re-evaluated per word)
            \A i \in 1..Len(ws) :
              LET w == ws[i] IN WordOK(w) /\ Pack(w) >= 0 /\ Pack(w) < WordLim /\ Unpack(Pack(w)) = w
Saturated(w) == w.dpc = PcMax \/ w.dl \in {LineMin, LineMax} \/ w.dc \in {ColMin, ColMax}
Shape == rows # <<>> =>
  LET ws == LastWords n == Len(ws)
      LDpc(w) == w.dpc LDl(w) == w.dl LDc(w) == w.dc
  IN /\ n >= 1 /\ ws[n].more = 0
     /\ \A i \in 1..(n - 1) : ws[i].more = 1 /\ Saturated(ws[i])
     /\ Sum(ws, LDpc) = prev.pc - LastFrom.pc /\ Sum(ws, LDl) = prev.line - LastFrom.line /\ Sum(ws, LDc) = prev.col - LastFrom.col
     /\ (n = 1 <=> /\ prev.pc - LastFrom.pc <= PcMax
                   /\ prev.line - LastFrom.line \in LineMin..LineMax
                   /\ prev.col - LastFrom.col \in ColMin..ColMax)
GreedyEq == (Greedy /\ rows # <<>>) => EncRowGreedy(LastFrom, prev) = LastWords

LookupOK == rows # <<>> =>
  /\ Sorted(rows)
  /\ LET dec == Decode(St, Encode(St, rows)) IN
     \A x \in {rows[i].pc + d : i \in 1..Len(rows), d \in {-1, 0, 1}} \cup {prev.pc + 2} :
        x >= rows[1].pc => /\ BSearchIdx(rows, x) = LookupIdx(rows, x)
                           /\ Lookup(dec, x) = Lookup(rows, x)
                           /\ LookupIdx(rows, x) >= 1
\* before the first row there is no row to report
LookupNone == rows # <<>> /\ rows[1].pc > 0 => LookupIdx(rows, 0) = 0

\* coverage sanity (not vacuous): at least one explored table needs continuation words in every field and sign
Done == PrintT(<<"C16MC", "distinct", TLCGet("stats").distinct>>)
=============================================================================
