------------------------------ MODULE C02MCSrc ------------------------------
(***************************************************************************)
(* C02, domain 3: source texts.                                            *)
(*                                                                         *)
(* (a) Token sequences.  A state is a sentential form of the compact       *)
(* grammar CrashDomain!Prods; the action Expand replaces the LEFTMOST      *)
(* nonterminal by one of its productions (leftmost derivation: every       *)
(* program is built by construction actions).  The first production of a   *)
(* nonterminal is free, every other one costs one unit of Budget, so every *)
(* partial form can be completed.  A complete form (tokens only) is a      *)
(* VALID program of the grammar.  The action Mutate then damages it in one *)
(* place: delete / duplicate one token, swap two neighbours, insert one    *)
(* bracket or one indentation token (unbalanced brackets and dents).       *)
(* Every valid program and every mutant is emitted once with the vector(s) *)
(* of FileOptions it is to be run under: all 64 for the programs of cost   *)
(* <= 1, one vector derived from the text for the others.                  *)
(*                                                                         *)
(* (b) Stress shapes (CrashDomain 3b/3c): one initial state per            *)
(* (shape, depth): every depth 2^k and the largest depth that fits into    *)
(* 64 KiB, the counts around the 255/256 limits, deep run-time data.       *)
(*                                                                         *)
(* Expected outcome of every case: the pipeline returns (no error, a       *)
(* static error or a run-time error) having executed at most `steps`       *)
(* steps.                                                                  *)
(***************************************************************************)
EXTENDS CrashDomain, Json, IOUtils

CONSTANTS Budget,      \* derivation budget
          MutMod       \* mutate the programs whose text hash is 0 modulo MutMod (1 = all)
Tier == IOEnv.C02_TIER
Seed == atoi(IOEnv.C02_SEED) % 1000

VARIABLES ph,     \* "derive" | "valid" | "mutant" | "shape"
          form,   \* sentential form (sequence of symbols)
          b,      \* derive: budget left; valid: 1 = cheap program (all 64 option vectors)
          sh      \* the shape case (phase "shape"), NoShape otherwise
vars == <<ph, form, b, sh>>

(***************************************************************************)
(* (a) derivation and mutation                                             *)
(***************************************************************************)
IsNT(s) == s \in NonTerminals
HasNT(f) == \E i \in 1..Len(f) : IsNT(f[i])
Leftmost(f) == CHOOSE i \in 1..Len(f) : IsNT(f[i]) /\ \A j \in 1..(i - 1) : ~IsNT(f[j])
Replace(f, i, p) == SubSeq(f, 1, i - 1) \o p \o SubSeq(f, i + 1, Len(f))

Expand ==
  /\ ph = "derive" /\ HasNT(form)
  /\ LET i == Leftmost(form)
         ps == Prods(form[i])
     IN \E k \in 1..Len(ps) :
          /\ (k > 1 => b > 0)
          /\ form' = Replace(form, i, ps[k])
          /\ b' = IF k > 1 THEN b - 1 ELSE b
  /\ UNCHANGED <<ph, sh>>

Complete ==
  /\ ph = "derive" /\ ~HasNT(form)
  /\ ph' = "valid" /\ b' = (IF Budget - b <= 1 THEN 1 ELSE 0)
  /\ UNCHANGED <<form, sh>>

\* a cheap text hash (token lengths weighted by position)
RECURSIVE HashFrom(_, _)
HashFrom(f, i) == IF i > Len(f) THEN 0 ELSE (i * Len(f[i]) + 3 * HashFrom(f, i + 1)) % 4096
Hash(f) == HashFrom(f, 1)

Del(f, p)     == SubSeq(f, 1, p - 1) \o SubSeq(f, p + 1, Len(f))
Dup(f, p)     == SubSeq(f, 1, p) \o SubSeq(f, p, Len(f))
Swap(f, p)    == SubSeq(f, 1, p - 1) \o <<f[p + 1], f[p]>> \o SubSeq(f, p + 2, Len(f))
Ins(f, p, t)  == SubSeq(f, 1, p) \o <<t>> \o SubSeq(f, p + 1, Len(f))
Mutants(f) == {Del(f, p) : p \in 1..Len(f)} \cup {Dup(f, p) : p \in 1..Len(f)}
              \cup {Swap(f, p) : p \in 1..(Len(f) - 1)}
              \cup {Ins(f, p, InsertToks[t]) : p \in 0..Len(f), t \in 1..Len(InsertToks)}

Mutate ==
  /\ ph = "valid" /\ (Hash(form) + Seed) % MutMod = 0
  /\ \E m \in Mutants(form) : form' = m
  /\ ph' = "mutant" /\ b' = 0 /\ UNCHANGED sh

OptsOf == IF ph = "valid" /\ b = 1 THEN [i \in 1..64 |-> i - 1] ELSE <<(Hash(form) + Seed) % 64>>

(***************************************************************************)
(* (b) shapes                                                              *)
(***************************************************************************)
AllOpts == [i \in 1..64 |-> i - 1]
Exps == IF Tier = "quick" THEN {0, 3, 6, 9, 12} ELSE 0..16

ShapeCase(s, d, len, steps, opts, tmo) ==
  [s |-> s, d |-> d, len |-> len, steps |-> steps, opts |-> opts, tmo |-> tmo]
OptsFor(d, max) == IF d <= 8 THEN AllOpts ELSE IF d = max /\ Tier = "quick" THEN <<63>> ELSE <<63, 0>>

NestCases ==
  UNION {LET mx == NestMax(s) IN
         {ShapeCase(s, d, NestLen(s, d), 200000, OptsFor(d, mx), 120000) : d \in {Pow2(k) : k \in {k \in Exps : Pow2(k) <= mx}} \cup {mx}}
         : s \in NestShapes}
IndentCases ==
  UNION {LET mx == IndentMax(s) IN
         {ShapeCase(s, d, IndentLen(s, d), 200000, OptsFor(d, mx), 120000) : d \in {Pow2(k) : k \in {k \in Exps : Pow2(k) <= mx}} \cup {mx}}
         : s \in IndentShapes}
CountCases ==
  {ShapeCase(s, d, 0, 200000, <<63, 0>>, 120000) : s \in CountShapes, d \in Counts}

DeepExps == IF Tier = "quick" THEN {10, 14} ELSE {10, 14, 17, 20, 21}
DeepCases ==
  UNION {{ShapeCase(Shape("text", op[1], DeepText(op, Pow2(k)), "", "", "", ""), Pow2(k), Len(DeepText(op, Pow2(k))),
                    40 * Pow2(k) + 10000, <<63>>, 900000) : k \in {k \in DeepExps : k <= op[3] /\ (k >= 20 => k = op[3])}} : op \in DeepOps}

ShapeCases == NestCases \cup IndentCases \cup CountCases \cup DeepCases
NoShape == ShapeCase(Shape("none", "", "", "", "", "", ""), 0, 0, 0, <<>>, 0)

\* every declared text fits into 64 KiB and the largest depth is the largest that does
ASSUME \A s \in NestShapes : NestLen(s, NestMax(s)) <= MaxSrc /\ NestLen(s, NestMax(s) + 1) > MaxSrc
ASSUME \A s \in IndentShapes : IndentLen(s, IndentMax(s)) <= MaxSrc
ASSUME \A c \in DeepCases : c.len <= MaxSrc

(***************************************************************************)
Init == \/ /\ ph = "derive" /\ form = <<"FILE">> /\ b = Budget /\ sh = NoShape
        \/ /\ ph = "shape" /\ form = <<>> /\ b = 0 /\ sh \in ShapeCases
Next == Expand \/ Complete \/ Mutate

TypeOK == /\ ph \in {"derive", "valid", "mutant", "shape"} /\ b \in 0..Budget
          /\ (ph \in {"valid", "mutant"} => ~HasNT(form))
Emit == /\ ph \in {"valid", "mutant"} =>
             PrintT("T" \o ToJson([toks |-> form, opts |-> OptsOf, mut |-> IF ph = "mutant" THEN 1 ELSE 0]))
        /\ ph = "shape" =>
             PrintT("S" \o ToJson([kind |-> sh.s.kind, name |-> sh.s.name, head |-> sh.s.head, open |-> sh.s.open, mid |-> sh.s.mid,
                                   close |-> sh.s.close, tail |-> sh.s.tail, line |-> sh.s.line, body |-> sh.s.body,
                                   item |-> sh.s.item, sep |-> sh.s.sep, suf |-> sh.s.suf, num |-> sh.s.num,
                                   d |-> sh.d, len |-> sh.len, steps |-> sh.steps, opts |-> sh.opts, tmo |-> sh.tmo]))
Post == PrintT("META" \o ToJson([distinct |-> TLCGet("stats").distinct, shapes |-> Cardinality(ShapeCases),
                                 nest |-> Cardinality(NestCases), indent |-> Cardinality(IndentCases),
                                 count |-> Cardinality(CountCases), deep |-> Cardinality(DeepCases)]))
=============================================================================
