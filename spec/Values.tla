------------------------------- MODULE Values -------------------------------
(***************************************************************************)
(* The Starlark value universe as far as equality, ordering, hashability,   *)
(* sorting and printing need it (properties C11, C15).                      *)
(*                                                                          *)
(* A value is a tagged record; the tag field t is inspected before any      *)
(* other field.  The encodings are those the harness writes (enc.go), so     *)
(* recorded values can be used directly:                                    *)
(*   [t |-> "none"]                                                         *)
(*   [t |-> "bool",  v |-> BOOLEAN]                                         *)
(*   [t |-> "int",   v |-> n]                 |n| < 2^30 (TLC integer)      *)
(*   [t |-> "big",   neg |-> b, m |-> limbs]  BitInt magnitude, any size    *)
(*   [t |-> "float", s, e, m]                 binary64 fields (Float64)     *)
(*   [t |-> "str" | "bytes", v |-> <<byte, ...>>]                           *)
(*   [t |-> "list" | "tuple" | "set", v |-> <<value, ...>>]                 *)
(*   [t |-> "dict",   v |-> << <<key, value>>, ... >>]                      *)
(*   [t |-> "struct", v |-> << <<"name", value>>, ... >>]                   *)
(* and, described by the check that builds them (not by enc.go):            *)
(*   [t |-> "range", start, step, len]     the sequence start + k*step      *)
(*   [t |-> "fn" | "builtin", id |-> n]    a function object; id = identity *)
(*   [t |-> "time", sec |-> BitInt, ns |-> 0..999999999]  an instant        *)
(*   [t |-> "duration", ns |-> BitInt]                                      *)
(*                                                                          *)
(* Sources: doc/spec.md (Comparisons, Hashing, Membership, sorted/min/max), *)
(* the statement of property C11 (== is an equivalence on all values, NaN   *)
(* included; int and float compare by exact numeric value; one total order  *)
(* per ordered type) and Python 3 for lexicographic sequence order.  Where  *)
(* doc/spec.md describes IEEE comparisons for NaN, the property's wording   *)
(* (NaN equal to itself, greater than every other number) is the oracle.    *)
(***************************************************************************)
EXTENDS Float64, FiniteSets

IsIntV(x) == x.t \in {"int", "big"}
IsNumV(x) == x.t \in {"int", "big", "float"}
\* the BitInt of an integer value in either encoding
IntOf(x) == IF x.t = "int" THEN FromInt(x.v) ELSE [neg |-> x.neg, m |-> x.m]
\* the type a Starlark program sees
KindOf(x) == IF x.t = "big" THEN "int" ELSE x.t

MinOf(a, b) == IF a < b THEN a ELSE b
MaxOfSet(S) == IF S = {} THEN 0 ELSE CHOOSE a \in S : \A b \in S : b <= a
MinOfSet(S) == CHOOSE a \in S : \A b \in S : a <= b
SgnOf(n) == IF n < 0 THEN -1 ELSE IF n > 0 THEN 1 ELSE 0

(***************************************************************************)
(* Numbers: int and float form ONE ordered type, compared by exact value;  *)
(* -inf < every finite number < +inf < NaN, NaN = NaN, -0.0 = 0 = 0.0.      *)
(***************************************************************************)
NumCmp(x, y) ==
  IF x.t = "float"
  THEN (IF y.t = "float" THEN FCmp(x, y) ELSE CmpFloatInt(x, IntOf(y)))
  ELSE (IF y.t = "float" THEN CmpIntFloat(IntOf(x), y) ELSE ICmp(IntOf(x), IntOf(y)))

(***************************************************************************)
(* Strings and bytes: lexicographic order of the element (byte) sequences. *)
(***************************************************************************)
LexCmp(a, b) ==
  LET n == MinOf(Len(a), Len(b))
      D == {k \in 1..n : a[k] # b[k]}
  IN IF D = {} THEN SgnOf(Len(a) - Len(b))
     ELSE LET k == MinOfSet(D) IN IF a[k] < b[k] THEN -1 ELSE 1

RangeSeq(r) == [k \in 1..r.len |-> r.start + (k - 1) * r.step]

(***************************************************************************)
(* Equality: total, never an error (of the ideal, depth-unbounded          *)
(* comparison).  Values of different types are unequal except int/float.   *)
(* bool is not a number (True # 1).                                         *)
(***************************************************************************)
RECURSIVE Eq(_, _)
Eq(x, y) ==
  IF IsNumV(x) /\ IsNumV(y) THEN NumCmp(x, y) = 0
  ELSE IF KindOf(x) # KindOf(y) THEN FALSE
  ELSE CASE x.t = "none" -> TRUE
         [] x.t = "bool" -> x.v = y.v
         [] x.t \in {"str", "bytes"} -> x.v = y.v
         [] x.t \in {"list", "tuple"} ->
              /\ Len(x.v) = Len(y.v)
              /\ \A k \in 1..Len(x.v) : Eq(x.v[k], y.v[k])
         [] x.t = "set" ->                   \* equal contents (members are pairwise unequal)
              /\ Len(x.v) = Len(y.v)
              /\ \A k \in 1..Len(x.v) : \E j \in 1..Len(y.v) : Eq(x.v[k], y.v[j])
         [] x.t = "dict" ->                  \* equal contents, insertion order irrelevant
              /\ Len(x.v) = Len(y.v)
              /\ \A k \in 1..Len(x.v) : \E j \in 1..Len(y.v) :
                     Eq(x.v[k][1], y.v[j][1]) /\ Eq(x.v[k][2], y.v[j][2])
         [] x.t = "struct" ->                \* same field names with equal values (same constructor assumed)
              /\ Len(x.v) = Len(y.v)
              /\ \A k \in 1..Len(x.v) : \E j \in 1..Len(y.v) :
                     x.v[k][1] = y.v[j][1] /\ Eq(x.v[k][2], y.v[j][2])
         [] x.t = "range" -> RangeSeq(x) = RangeSeq(y)      \* denote the same sequence
         [] x.t \in {"fn", "builtin"} -> x.id = y.id           \* identity
         [] x.t = "time" -> IEq(x.sec, y.sec) /\ x.ns = y.ns   \* same instant, zone irrelevant
         [] x.t = "duration" -> IEq(x.ns, y.ns)
         [] OTHER -> FALSE

(***************************************************************************)
(* Three-way order: -1, 0, 1, or Unord (2) when `<` is not defined for the *)
(* pair.  Ordered types: int/float together, bool (False < True), string,  *)
(* bytes, tuple, list (lexicographic: the first unequal pair of elements    *)
(* decides, else the shorter is smaller), time and duration (library docs). *)
(* Unequal types other than int/float are unordered.  Sets are handled by  *)
(* OpExp (subset order).                                                    *)
(***************************************************************************)
Unord == 2
RECURSIVE Ord(_, _)
Ord(x, y) ==
  IF IsNumV(x) /\ IsNumV(y) THEN NumCmp(x, y)
  ELSE IF KindOf(x) # KindOf(y) THEN Unord
  ELSE CASE x.t = "bool" -> (IF x.v THEN 1 ELSE 0) - (IF y.v THEN 1 ELSE 0)
         [] x.t \in {"str", "bytes"} -> LexCmp(x.v, y.v)
         [] x.t \in {"list", "tuple"} ->
              LET n == MinOf(Len(x.v), Len(y.v))
                  D == {k \in 1..n : ~Eq(x.v[k], y.v[k])}
              IN IF D = {} THEN SgnOf(Len(x.v) - Len(y.v))
                 ELSE LET k == MinOfSet(D) IN Ord(x.v[k], y.v[k])
         [] x.t = "time" -> LET c == ICmp(x.sec, y.sec) IN IF c # 0 THEN c ELSE SgnOf(x.ns - y.ns)
         [] x.t = "duration" -> ICmp(x.ns, y.ns)
         [] OTHER -> Unord

Lt(x, y) == Ord(x, y) = -1          \* meaningful only where Ord(x, y) # Unord

SubsetEq(x, y) == \A k \in 1..Len(x.v) : \E j \in 1..Len(y.v) : Eq(x.v[k], y.v[j])

\* Expected outcome of a comparison operator: 0 (False), 1 (True), 2 (error: not defined)
B2C(b) == IF b THEN 1 ELSE 0
OpExp(op, x, y) ==
  IF op = "eq" THEN B2C(Eq(x, y))
  ELSE IF op = "ne" THEN B2C(~Eq(x, y))
  ELSE IF x.t = "set" /\ y.t = "set" THEN      \* doc/spec.md: subset / proper subset
    CASE op = "le" -> B2C(SubsetEq(x, y))
      [] op = "lt" -> B2C(SubsetEq(x, y) /\ Len(x.v) < Len(y.v))
      [] op = "ge" -> B2C(SubsetEq(y, x))
      [] op = "gt" -> B2C(SubsetEq(y, x) /\ Len(y.v) < Len(x.v))
  ELSE LET c == Ord(x, y) IN
    IF c = Unord THEN 2
    ELSE CASE op = "lt" -> B2C(c < 0) [] op = "le" -> B2C(c <= 0)
           [] op = "gt" -> B2C(c > 0) [] op = "ge" -> B2C(c >= 0)

(***************************************************************************)
(* Depth of the deepest pair of components an element-wise comparison of x *)
(* and y can reach (1 = the values themselves).  The implementation limits  *)
(* the recursion (starlark.CompareLimit, documented: "comparison of data    *)
(* structures deeper than this limit may fail"); a comparison may fail      *)
(* with an error only if PairDepth exceeds the limit.                        *)
(***************************************************************************)
RECURSIVE PairDepth(_, _)
PairDepth(x, y) ==
  IF x.t # y.t THEN 1
  ELSE CASE x.t \in {"list", "tuple"} ->
              1 + MaxOfSet({PairDepth(x.v[k], y.v[k]) : k \in 1..MinOf(Len(x.v), Len(y.v))})
         [] x.t = "dict" ->
              1 + MaxOfSet({PairDepth(x.v[k][2], y.v[j][2]) :
                              <<k, j>> \in {w \in (1..Len(x.v)) \X (1..Len(y.v)) : Eq(x.v[w[1]][1], y.v[w[2]][1])}})
         [] x.t = "struct" ->
              1 + MaxOfSet({PairDepth(x.v[k][2], y.v[j][2]) :
                              <<k, j>> \in {w \in (1..Len(x.v)) \X (1..Len(y.v)) : x.v[w[1]][1] = y.v[w[2]][1]}})
         [] OTHER -> 1

(***************************************************************************)
(* Hashability (doc/spec.md "Hashing").  HashSpecified: the documentation   *)
(* says whether the value is hashable; otherwise the check only requires    *)
(* consistency.                                                             *)
(***************************************************************************)
RECURSIVE Hashable(_)
Hashable(x) ==
  CASE x.t \in {"none", "bool", "int", "big", "float", "str", "bytes", "fn", "builtin", "time", "duration"} -> TRUE
    [] x.t = "tuple" -> \A k \in 1..Len(x.v) : Hashable(x.v[k])
    [] x.t = "struct" -> \A k \in 1..Len(x.v) : Hashable(x.v[k][2])
    [] OTHER -> FALSE            \* list dict set (and range: not specified)
RECURSIVE HashSpecified(_)
HashSpecified(x) ==
  CASE x.t \in {"none", "bool", "int", "big", "float", "str", "fn", "builtin", "list", "dict", "set"} -> TRUE
    [] x.t = "tuple" -> \A k \in 1..Len(x.v) : HashSpecified(x.v[k])
    [] OTHER -> FALSE

\* no set anywhere inside: `<` is a total order on the value's type
RECURSIVE TotalOrderType(_)
TotalOrderType(x) ==
  CASE x.t = "set" -> FALSE
    [] x.t \in {"list", "tuple"} -> \A k \in 1..Len(x.v) : TotalOrderType(x.v[k])
    [] OTHER -> TRUE

(***************************************************************************)
(* The hash built-in on strings (doc/spec.md "hash"): java.lang.String      *)
(* hashCode, s[0]*31^(n-1) + ... + s[n-1] over the UTF-16 transcoding, as a  *)
(* 32-bit value, here <<high 16 bits, low 16 bits>>.  b: valid UTF-8 bytes.  *)
(***************************************************************************)
RECURSIVE Utf8Decode(_)
Utf8Decode(b) ==
  IF b = <<>> THEN <<>>
  ELSE LET c == b[1] IN
    IF c < 128 THEN <<c>> \o Utf8Decode(SubSeq(b, 2, Len(b)))
    ELSE IF c < 224 THEN <<(c - 192) * 64 + (b[2] - 128)>> \o Utf8Decode(SubSeq(b, 3, Len(b)))
    ELSE IF c < 240 THEN <<(c - 224) * 4096 + (b[2] - 128) * 64 + (b[3] - 128)>> \o Utf8Decode(SubSeq(b, 4, Len(b)))
    ELSE <<(c - 240) * 262144 + (b[2] - 128) * 4096 + (b[3] - 128) * 64 + (b[4] - 128)>> \o Utf8Decode(SubSeq(b, 5, Len(b)))
RECURSIVE Utf16Units(_)
Utf16Units(cps) ==
  IF cps = <<>> THEN <<>>
  ELSE LET c == cps[1] IN
    (IF c < 65536 THEN <<c>> ELSE <<55296 + ((c - 65536) \div 1024), 56320 + ((c - 65536) % 1024)>>) \o Utf16Units(Tail(cps))
RECURSIVE Poly31(_, _)
Poly31(units, h) ==                  \* h = <<hi, lo>>;  h := h * 31 + unit  (mod 2^32)
  IF units = <<>> THEN h
  ELSE LET lo == h[2] * 31 + units[1]
           hi == h[1] * 31 + (lo \div 65536)
       IN Poly31(Tail(units), <<hi % 65536, lo % 65536>>)
JavaStringHash(b) == Poly31(Utf16Units(Utf8Decode(b)), <<0, 0>>)

(***************************************************************************)
(* Identity of representation (type-strict): 1 and 1.0 are Eq but not Same. *)
(***************************************************************************)
RECURSIVE Same(_, _)
Same(x, y) ==
  /\ KindOf(x) = KindOf(y)
  /\ CASE x.t \in {"int", "big"} -> IEq(IntOf(x), IntOf(y))
       [] x.t = "float" -> FSame(x, y)
       [] x.t = "none" -> TRUE
       [] x.t \in {"bool", "str", "bytes"} -> x.v = y.v
       [] x.t \in {"list", "tuple", "set"} ->
            Len(x.v) = Len(y.v) /\ \A k \in 1..Len(x.v) : Same(x.v[k], y.v[k])
       [] x.t = "dict" ->
            Len(x.v) = Len(y.v) /\ \A k \in 1..Len(x.v) : Same(x.v[k][1], y.v[k][1]) /\ Same(x.v[k][2], y.v[k][2])
       [] x.t = "struct" ->
            Len(x.v) = Len(y.v) /\ \A k \in 1..Len(x.v) : x.v[k][1] = y.v[k][1] /\ Same(x.v[k][2], y.v[k][2])
       [] OTHER -> Eq(x, y)

(***************************************************************************)
(* Sorting.  The elements are numbered 1..n and C(a, b) is the three-way   *)
(* order (Ord) of the sort keys of elements a and b.  The result is the    *)
(* permutation (sequence of indices into the input) a STABLE sort produces: *)
(* ascending by key, elements with equal keys in input order.  reverse      *)
(* sorts descending and - the sort being stable - still keeps elements with *)
(* equal keys in input order (Python; doc/spec.md: "The sort algorithm is   *)
(* stable").  Defined only if every two keys are ordered.                   *)
(***************************************************************************)
AllOrderedBy(n, C(_, _)) == \A a \in 1..n : \A b \in (a + 1)..n : C(a, b) # Unord

\* a goes strictly before b in the requested direction
BeforeBy(C(_, _), a, b, rev) == IF rev THEN C(b, a) = -1 ELSE C(a, b) = -1

RECURSIVE SortFromBy(_, _, _, _, _)
SortFromBy(C(_, _), n, rev, a, acc) ==       \* acc: sorted indices of elements 1..a-1; insert a after its ties
  IF a > n THEN acc
  ELSE LET p == Cardinality({k \in 1..Len(acc) : ~BeforeBy(C, a, acc[k], rev)})
       IN SortFromBy(C, n, rev, a + 1, SubSeq(acc, 1, p) \o <<a>> \o SubSeq(acc, p + 1, Len(acc)))
StableSortPermBy(n, C(_, _), rev) == SortFromBy(C, n, rev, 1, <<>>)

\* what makes a result of sorted() right, stated without an algorithm
IsStableSortedBy(n, C(_, _), rev, perm) ==
  /\ Len(perm) = n
  /\ {perm[k] : k \in 1..Len(perm)} = 1..n                                    \* a permutation
  /\ \A k \in 1..(Len(perm) - 1) :
        /\ ~BeforeBy(C, perm[k + 1], perm[k], rev)                            \* in order
        /\ (~BeforeBy(C, perm[k], perm[k + 1], rev) => perm[k] < perm[k + 1])  \* ties keep input order

\* extrema: index sets
MinIdxBy(n, C(_, _)) == {a \in 1..n : \A b \in 1..n : C(b, a) # -1}
MaxIdxBy(n, C(_, _)) == {a \in 1..n : \A b \in 1..n : C(b, a) # 1}

\* the same, given the sequence of sort keys
AllOrdered(keys) == AllOrderedBy(Len(keys), LAMBDA a, b : Ord(keys[a], keys[b]))
StableSortPerm(keys, rev) == StableSortPermBy(Len(keys), LAMBDA a, b : Ord(keys[a], keys[b]), rev)
IsStableSorted(keys, rev, perm) == IsStableSortedBy(Len(keys), LAMBDA a, b : Ord(keys[a], keys[b]), rev, perm)
MinIdx(keys) == MinIdxBy(Len(keys), LAMBDA a, b : Ord(keys[a], keys[b]))
MaxIdx(keys) == MaxIdxBy(Len(keys), LAMBDA a, b : Ord(keys[a], keys[b]))
=============================================================================
