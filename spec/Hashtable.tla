----------------------------- MODULE Hashtable -----------------------------
(***************************************************************************)
(* dict and set as insertion-ordered maps.                                 *)
(*                                                                         *)
(* ABSTRACT: an association list `al` (sequence of <<key, value>> without  *)
(* duplicate keys).  New keys go last, updating keeps the place, deleting  *)
(* and re-inserting moves to the end, popitem takes the first entry,       *)
(* derived collections list left-operand elements first (doc/spec.md).     *)
(*                                                                         *)
(* CONCRETE (implementation-shaped, used to generate histories that reach  *)
(* distinct internal layouts and to model-check the design, never as the   *)
(* oracle): a table of 2^k bucket chains, buckets of BucketSize slots,     *)
(* hash 0 stored as 1, lookup scans the whole chain, insert remembers the  *)
(* LAST empty slot seen, grows by doubling and re-inserting in order when  *)
(* len >= BucketSize and len * LoadDen >= LoadNum * #chains, delete clears *)
(* the slot, clear resets every chain but keeps the table size.            *)
(* `order` lists slot references in insertion order.                       *)
(***************************************************************************)
EXTENDS Integers, Sequences, FiniteSets, TLC

CONSTANTS BucketSize, LoadNum, LoadDen

Range(s) == {s[i] : i \in 1..Len(s)}

(***************************************************************************)
(* Abstract operations.                                                    *)
(***************************************************************************)
AKeys(al)    == {al[i][1] : i \in 1..Len(al)}
AHas(al, k)  == k \in AKeys(al)
AIdx(al, k)  == CHOOSE i \in 1..Len(al) : al[i][1] = k
AGet(al, k)  == al[AIdx(al, k)][2]
AIns(al, k, v) == IF AHas(al, k) THEN [al EXCEPT ![AIdx(al, k)] = <<k, v>>] ELSE Append(al, <<k, v>>)
ADel(al, k)  == SelectSeq(al, LAMBDA e : e[1] # k)
AKeySeq(al)  == [i \in 1..Len(al) |-> al[i][1]]
AValSeq(al)  == [i \in 1..Len(al) |-> al[i][2]]
RECURSIVE AInsAll(_, _)
AInsAll(al, pairs) == IF pairs = <<>> THEN al ELSE AInsAll(AIns(al, pairs[1][1], pairs[1][2]), Tail(pairs))
\* d | e : entries of d, then new keys of e; values of e win for common keys
AUnion(a, b) == AInsAll(a, b)

\* sets are key sequences without duplicates; the operand t of a method is any
\* sequence (an iterable, possibly with repeated elements)
RECURSIVE SAddAll(_, _)
SAddAll(s, t) == IF t = <<>> THEN s
                 ELSE SAddAll(IF Head(t) \in Range(s) THEN s ELSE Append(s, Head(t)), Tail(t))
SDedup(t)    == SAddAll(<<>>, t)
SUnion(s, t) == SAddAll(s, t)
SInter(s, t) == SelectSeq(s, LAMBDA x : x \in Range(t))          \* order of the left operand
SDiff(s, t)  == SelectSeq(s, LAMBDA x : x \notin Range(t))
SSym(s, t)   == SDiff(s, t) \o SDiff(SDedup(t), s)               \* S-only items, then y-only items
SSubset(s, t)   == Range(s) \subseteq Range(t)
SSuperset(s, t) == Range(t) \subseteq Range(s)

(***************************************************************************)
(* Concrete table.  slot = <<>> (empty) or <<h, k, v>>.                    *)
(***************************************************************************)
Hash(H, k) == IF H[k] = 0 THEN 1 ELSE H[k]
EmptyBucket == [j \in 1..BucketSize |-> <<>>]
EmptyTable(n) == [c \in 1..n |-> <<EmptyBucket>>]
Overloaded(elems, nchains) == elems >= BucketSize /\ elems * LoadDen >= LoadNum * nchains
ChainOf(table, h) == (h % Len(table)) + 1

\* all slot references <<chain, bucket, slot>> of chain c in scan order
ChainRefs(table, c) ==
  LET nb == Len(table[c]) IN
  [n \in 1..(nb * BucketSize) |-> <<c, ((n - 1) \div BucketSize) + 1, ((n - 1) % BucketSize) + 1>>]
SlotAt(table, r) == table[r[1]][r[2]][r[3]]

FindRef(table, H, k) ==          \* <<>> if absent
  LET h == Hash(H, k)
      refs == ChainRefs(table, ChainOf(table, h))
      hit == {n \in 1..Len(refs) : SlotAt(table, refs[n]) # <<>> /\ SlotAt(table, refs[n])[1] = h
                                   /\ SlotAt(table, refs[n])[2] = k}
  IN IF hit = {} THEN <<>> ELSE refs[CHOOSE n \in hit : \A m \in hit : n <= m]

CLookup(table, H, k) == LET r == FindRef(table, H, k) IN IF r = <<>> THEN <<>> ELSE <<SlotAt(table, r)[3]>>

\* insert without growth check: returns <<table', order'>>
RawInsert(table, order, H, k, v) ==
  LET h == Hash(H, k)
      c == ChainOf(table, h)
      r == FindRef(table, H, k)
  IN IF r # <<>>
     THEN <<[table EXCEPT ![r[1]][r[2]][r[3]] = <<h, k, v>>], order>>
     ELSE LET refs == ChainRefs(table, c)
              empt == {n \in 1..Len(refs) : SlotAt(table, refs[n]) = <<>>}
          IN IF empt # {}
             THEN LET t == refs[CHOOSE n \in empt : \A m \in empt : n >= m] IN      \* last empty slot wins
                  <<[table EXCEPT ![t[1]][t[2]][t[3]] = <<h, k, v>>], Append(order, t)>>
             ELSE LET nb == Len(table[c]) + 1
                      nbk == [EmptyBucket EXCEPT ![1] = <<h, k, v>>]
                  IN <<[table EXCEPT ![c] = Append(@, nbk)], Append(order, <<c, nb, 1>>)>>

RECURSIVE Reinsert(_, _, _, _, _)
Reinsert(table, order, H, entries, n) ==     \* entries: seq of <<k, v>>
  IF n > Len(entries) THEN <<table, order>>
  ELSE LET x == RawInsert(table, order, H, entries[n][1], entries[n][2])
       IN Reinsert(x[1], x[2], H, entries, n + 1)

CAbs(table, order) == [n \in 1..Len(order) |-> <<SlotAt(table, order[n])[2], SlotAt(table, order[n])[3]>>]

Grow(table, order, H) == Reinsert(EmptyTable(2 * Len(table)), <<>>, H, CAbs(table, order), 1)

RECURSIVE CInsert(_, _, _, _, _)
CInsert(table, order, H, k, v) ==
  IF FindRef(table, H, k) = <<>> /\ Overloaded(Len(order), Len(table))
  THEN LET g == Grow(table, order, H) IN CInsert(g[1], g[2], H, k, v)
  ELSE RawInsert(table, order, H, k, v)

CDelete(table, order, H, k) ==
  LET r == FindRef(table, H, k) IN
  IF r = <<>> THEN <<table, order>>
  ELSE <<[table EXCEPT ![r[1]][r[2]][r[3]] = <<>>], SelectSeq(order, LAMBDA x : x # r)>>

CClear(table) == EmptyTable(Len(table))

\* design invariants of the concrete table
LiveRefs(table) == {r \in UNION {Range(ChainRefs(table, c)) : c \in 1..Len(table)} : SlotAt(table, r) # <<>>}
ConcreteOK(table, order, H) ==
  /\ Range(order) = LiveRefs(table)
  /\ Len(order) = Cardinality(LiveRefs(table))                         \* no reference twice
  /\ \A r \in LiveRefs(table) : ChainOf(table, SlotAt(table, r)[1]) = r[1]  \* entry lives in its hash chain
  /\ \A r1, r2 \in LiveRefs(table) : SlotAt(table, r1)[2] = SlotAt(table, r2)[2] => r1 = r2   \* no duplicate key
=============================================================================
