---------------------------------- MODULE VM ----------------------------------
(***************************************************************************)
(* The byte-code machine of the interpreter, at the level the compiler and *)
(* the interpreter document it (internal/compile/compile.go: the "stack    *)
(* picture" of every opcode): a function is a sequence of instructions     *)
(* [pc, op, arg], executed with an operand stack of bounded depth and a    *)
(* stack of active iterators.  This module abstracts values away and keeps *)
(* the control state (instruction index, operand-stack depth, iterator-    *)
(* stack depth); branch outcomes are nondeterministic.                     *)
(*                                                                         *)
(* Design properties, checked by TLC on the byte code that the compiler of *)
(* the build under test emits for a corpus of functions (VMMC.tla):        *)
(*   StackOK   0 <= depth <= MaxStack on every path, and every instruction *)
(*             finds its operands;                                         *)
(*   IterOK    ITERPOP / ITERJMP always act on an active iterator;         *)
(*   TargetOK  every jump lands on an instruction boundary and execution   *)
(*             never runs off the end of the code;                         *)
(*   ReturnOK  RETURN finds exactly its operand on the stack.              *)
(***************************************************************************)
EXTENDS Integers, Sequences, FiniteSets, TLC

Binary == {"lt", "gt", "ge", "le", "eql", "neq", "plus", "minus", "star", "slash", "slashslash", "percent",
           "amp", "pipe", "circumflex", "ltlt", "gtgt", "in"}
Unary == {"uplus", "uminus", "tilde", "not"}
Push1 == {"none", "true", "false", "mandatory", "makedict", "constant", "local", "free", "freecell", "localcell",
          "global", "predeclared", "universal"}
Pop1 == {"pop", "setlocal", "setglobal", "setlocalcell", "cjmp", "iterpush", "return"}

\* <<operands consumed, results produced>> of an instruction (ITERJMP: the fall-through case)
Effect(op, arg) ==
  CASE op = "nop" -> <<0, 0>>
    [] op = "dup" -> <<1, 2>>
    [] op = "dup2" -> <<2, 4>>
    [] op = "exch" -> <<2, 2>>
    [] op \in Binary -> <<2, 1>>
    [] op \in Unary -> <<1, 1>>
    [] op \in Push1 -> <<0, 1>>
    [] op \in Pop1 -> <<1, 0>>
    [] op = "iterpop" -> <<0, 0>>
    [] op = "jmp" -> <<0, 0>>
    [] op = "iterjmp" -> <<0, 1>>
    [] op = "setindex" -> <<3, 0>>
    [] op = "index" -> <<2, 1>>
    [] op \in {"setdict", "setdictuniq"} -> <<3, 0>>
    [] op = "append" -> <<2, 0>>
    [] op = "slice" -> <<4, 1>>
    [] op \in {"inplace_add", "inplace_pipe"} -> <<2, 1>>
    [] op \in {"maketuple", "makelist"} -> <<arg, 1>>
    [] op = "makefunc" -> <<1, 1>>
    [] op = "load" -> <<arg + 1, arg>>
    [] op = "attr" -> <<1, 1>>
    [] op = "setfield" -> <<2, 0>>
    [] op = "unpack" -> <<1, arg>>
    [] op = "call" -> <<1 + (arg \div 256) + 2 * (arg % 256), 1>>
    [] op \in {"call_var", "call_kw "} -> <<2 + (arg \div 256) + 2 * (arg % 256), 1>>
    [] op = "call_var_kw" -> <<3 + (arg \div 256) + 2 * (arg % 256), 1>>

Known(op) == op \in Binary \cup Unary \cup Push1 \cup Pop1 \cup
  {"nop", "dup", "dup2", "exch", "iterpop", "jmp", "iterjmp", "setindex", "index", "setdict", "setdictuniq", "append", "slice",
   "inplace_add", "inplace_pipe", "maketuple", "makelist", "makefunc", "load", "attr", "setfield", "unpack", "call", "call_var",
   "call_kw ", "call_var_kw"}

\* index of the instruction at byte offset pc, 0 if pc is not an instruction boundary
IdxOf(code, pc) == IF \E k \in 1..Len(code) : code[k].pc = pc THEN CHOOSE k \in 1..Len(code) : code[k].pc = pc ELSE 0

\* successor control states of <<k, sp, it>> in function f = [code, maxstack]; "bad" marks a violated design property
Succs(f, k, sp, it) ==
  LET ins == f.code[k]
      e == Effect(ins.op, ins.arg)
      sp2 == sp - e[1] + e[2]
      next == k + 1
      tgt == IdxOf(f.code, ins.arg)
  IN CASE ins.op = "return" -> {}
       [] ins.op = "jmp" -> {<<tgt, sp2, it>>}
       [] ins.op = "cjmp" -> {<<tgt, sp2, it>>, <<next, sp2, it>>}
       [] ins.op = "iterjmp" -> {<<tgt, sp, it>>, <<next, sp + 1, it>>}
       [] ins.op = "iterpush" -> {<<next, sp2, it + 1>>}
       [] ins.op = "iterpop" -> {<<next, sp2, it - 1>>}
       [] OTHER -> {<<next, sp2, it>>}

StackOKAt(f, k, sp) ==
  LET ins == f.code[k] e == Effect(ins.op, ins.arg) IN
  /\ Known(ins.op)
  /\ sp >= e[1]                                \* the operands are there
  /\ sp - e[1] + e[2] <= f.maxstack            \* the results fit
  /\ sp >= 0 /\ sp <= f.maxstack
IterOKAt(f, k, it) == f.code[k].op \in {"iterpop", "iterjmp"} => it > 0
TargetOKAt(f, k) ==
  LET ins == f.code[k] IN
  /\ ins.op \in {"jmp", "cjmp", "iterjmp"} => IdxOf(f.code, ins.arg) # 0
  /\ (ins.op \notin {"jmp", "return"}) => k < Len(f.code)           \* something follows a fall-through
ReturnOKAt(f, k, sp) == f.code[k].op = "return" => sp = 1
=============================================================================
