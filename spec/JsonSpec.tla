------------------------------ MODULE JsonSpec ------------------------------
(***************************************************************************)
(* Oracle for C18: the JSON language of RFC 8259 as a recogniser and       *)
(* evaluator over byte sequences, written from the RFC (not from the       *)
(* decoder under test), and the relations "this JSON value denotes that    *)
(* Starlark value".                                                        *)
(*                                                                         *)
(*   JSON-text = ws value ws                      ws = *( %x20 %x09 %x0A %x0D ) *)
(*   value  = false / null / true / object / array / number / string       *)
(*   object = { [ member *( , member ) ] }        member = string : value  *)
(*   array  = [ [ value *( , value ) ] ]                                   *)
(*   number = [ - ] int [ frac ] [ exp ]          int = 0 / ( 1-9 *DIGIT ) *)
(*            frac = . 1*DIGIT                    exp = (e/E) [ -/+ ] 1*DIGIT *)
(*   string = " *char "     char = unescaped (%x20-21 / %x23-5B / %x5D-10FFFF) *)
(*            / \ ( " \ / b f n r t / uXXXX )     (surrogate pairs for > U+FFFF) *)
(* and the text is UTF-8 (section 8.1).                                    *)
(*                                                                         *)
(* JSON values:  [t |-> "null"] [t |-> "bool", b] [t |-> "int", n (BitInt)] *)
(*   [t |-> "dec", neg, digits, e10]  (a number with fraction or exponent: *)
(*   (-1)^neg * digits * 10^e10, kept exact)  [t |-> "str", v (UTF-8 bytes)]*)
(*   [t |-> "arr", v (sequence)]  [t |-> "obj", v (sequence of [k, v])].   *)
(* Starlark values are the records written by the harness (enc.go).        *)
(***************************************************************************)
EXTENDS Float64, FiniteSets

Fail == [ok |-> FALSE]
Ok(i, v, q) == [ok |-> TRUE, i |-> i, v |-> v, q |-> q]     \* q: contains an unpaired surrogate escape

IsWS(c)  == c = 32 \/ c = 9 \/ c = 10 \/ c = 13
IsDig(c) == c >= 48 /\ c <= 57
RECURSIVE SkipWS(_, _)
SkipWS(s, i) == IF i <= Len(s) /\ IsWS(s[i]) THEN SkipWS(s, i + 1) ELSE i
RECURSIVE DigitsEnd(_, _)
DigitsEnd(s, i) == IF i <= Len(s) /\ IsDig(s[i]) THEN DigitsEnd(s, i + 1) ELSE i
Digs(s, i, j) == [k \in 1..(j - i) |-> s[i + k - 1] - 48]
At(s, i, c) == i <= Len(s) /\ s[i] = c
HasLit(s, i, lit) == i + Len(lit) - 1 <= Len(s) /\ SubSeq(s, i, i + Len(lit) - 1) = lit

(***************************************************************************)
(* UTF-8 (RFC 3629): well-formedness of a byte sequence, encoding of a     *)
(* scalar value.                                                           *)
(***************************************************************************)
Cont(s, i) == i <= Len(s) /\ s[i] >= 128 /\ s[i] <= 191
RECURSIVE ValidUTF8From(_, _)
ValidUTF8From(s, i) ==
  IF i > Len(s) THEN TRUE
  ELSE LET c == s[i] IN
    IF c < 128 THEN ValidUTF8From(s, i + 1)
    ELSE IF c >= 194 /\ c <= 223 THEN Cont(s, i + 1) /\ ValidUTF8From(s, i + 2)
    ELSE IF c = 224 THEN Cont(s, i + 1) /\ s[i + 1] >= 160 /\ Cont(s, i + 2) /\ ValidUTF8From(s, i + 3)
    ELSE IF c = 237 THEN Cont(s, i + 1) /\ s[i + 1] <= 159 /\ Cont(s, i + 2) /\ ValidUTF8From(s, i + 3)
    ELSE IF c >= 225 /\ c <= 239 THEN Cont(s, i + 1) /\ Cont(s, i + 2) /\ ValidUTF8From(s, i + 3)
    ELSE IF c = 240 THEN Cont(s, i + 1) /\ s[i + 1] >= 144 /\ Cont(s, i + 2) /\ Cont(s, i + 3) /\ ValidUTF8From(s, i + 4)
    ELSE IF c = 244 THEN Cont(s, i + 1) /\ s[i + 1] <= 143 /\ Cont(s, i + 2) /\ Cont(s, i + 3) /\ ValidUTF8From(s, i + 4)
    ELSE IF c >= 241 /\ c <= 243 THEN Cont(s, i + 1) /\ Cont(s, i + 2) /\ Cont(s, i + 3) /\ ValidUTF8From(s, i + 4)
    ELSE FALSE
ValidUTF8(s) == ValidUTF8From(s, 1)

UTF8Enc(cp) ==
  IF cp < 128 THEN <<cp>>
  ELSE IF cp < 2048 THEN <<192 + (cp \div 64), 128 + (cp % 64)>>
  ELSE IF cp < 65536 THEN <<224 + (cp \div 4096), 128 + ((cp \div 64) % 64), 128 + (cp % 64)>>
  ELSE <<240 + (cp \div 262144), 128 + ((cp \div 4096) % 64), 128 + ((cp \div 64) % 64), 128 + (cp % 64)>>

(***************************************************************************)
(* Strings.                                                                *)
(***************************************************************************)
HexVal(c) == IF c >= 48 /\ c <= 57 THEN c - 48
             ELSE IF c >= 97 /\ c <= 102 THEN c - 87
             ELSE IF c >= 65 /\ c <= 70 THEN c - 55 ELSE -1
\* value of the four hex digits at s[i..i+3], or -1
Hex4(s, i) ==
  IF i + 3 > Len(s) THEN -1
  ELSE LET a == HexVal(s[i]) b == HexVal(s[i + 1]) c == HexVal(s[i + 2]) d == HexVal(s[i + 3])
       IN IF a < 0 \/ b < 0 \/ c < 0 \/ d < 0 THEN -1 ELSE ((a * 16 + b) * 16 + c) * 16 + d
ShortEsc(c) == CASE c = 34 -> 34 [] c = 92 -> 92 [] c = 47 -> 47 [] c = 98 -> 8 [] c = 102 -> 12
                 [] c = 110 -> 10 [] c = 114 -> 13 [] c = 116 -> 9 [] OTHER -> -1
\* body of a string from position i (after the opening quote); acc = bytes so far
RECURSIVE StrBody(_, _, _, _)
StrBody(s, i, acc, q) ==
  IF i > Len(s) THEN Fail
  ELSE LET c == s[i] IN
    IF c = 34 THEN Ok(i + 1, [t |-> "str", v |-> acc], q)
    ELSE IF c < 32 THEN Fail                                    \* control characters must be escaped
    ELSE IF c # 92 THEN StrBody(s, i + 1, Append(acc, c), q)
    ELSE IF i + 1 > Len(s) THEN Fail
    ELSE LET e == s[i + 1] IN
      IF e = 117 THEN
        LET u == Hex4(s, i + 2) IN
        IF u < 0 THEN Fail
        ELSE IF u >= 55296 /\ u <= 56319 THEN                   \* high surrogate: needs \uDC00..\uDFFF next
          LET lo == IF At(s, i + 6, 92) /\ At(s, i + 7, 117) THEN Hex4(s, i + 8) ELSE -1 IN
          IF lo >= 56320 /\ lo <= 57343
          THEN StrBody(s, i + 12, acc \o UTF8Enc(65536 + (u - 55296) * 1024 + (lo - 56320)), q)
          ELSE StrBody(s, i + 6, acc \o <<239, 191, 189>>, TRUE)       \* unpaired: meaning not defined by the RFC
        ELSE IF u >= 56320 /\ u <= 57343 THEN StrBody(s, i + 6, acc \o <<239, 191, 189>>, TRUE)
        ELSE StrBody(s, i + 6, acc \o UTF8Enc(u), q)
      ELSE LET v == ShortEsc(e) IN IF v < 0 THEN Fail ELSE StrBody(s, i + 2, Append(acc, v), q)
ParseString(s, i) == StrBody(s, i + 1, <<>>, FALSE)             \* s[i] = '"'

(***************************************************************************)
(* Numbers.                                                                *)
(***************************************************************************)
RECURSIVE SmallNat(_, _)
SmallNat(ds, acc) == IF ds = <<>> THEN acc ELSE SmallNat(Tail(ds), acc * 10 + Head(ds))
ExpVal(ds) == LET t == StripZeros(ds) IN IF Len(t) > 8 THEN 100000000 ELSE SmallNat(t, 0)   \* saturated
ParseNumber(s, i) ==
  LET neg == s[i] = 45
      a   == IF neg THEN i + 1 ELSE i
      ie  == IF At(s, a, 48) THEN a + 1 ELSE DigitsEnd(s, a)          \* int = 0 / 1-9 *DIGIT
  IN IF ie = a THEN Fail
     ELSE LET hasF == At(s, ie, 46)
              fe   == IF hasF THEN DigitsEnd(s, ie + 1) ELSE ie
          IN IF hasF /\ fe = ie + 1 THEN Fail                           \* frac needs a digit
             ELSE LET hasE == fe <= Len(s) /\ (s[fe] = 101 \/ s[fe] = 69)
                      sg   == hasE /\ fe + 1 <= Len(s) /\ (s[fe + 1] = 43 \/ s[fe + 1] = 45)
                      xs   == IF sg THEN fe + 2 ELSE fe + 1
                      xe   == IF hasE THEN DigitsEnd(s, xs) ELSE fe
                  IN IF hasE /\ xe = xs THEN Fail                       \* exp needs a digit
                     ELSE IF ~hasF /\ ~hasE THEN Ok(ie, [t |-> "int", n |-> FromDigits(neg, Digs(s, a, ie), 10)], FALSE)
                     ELSE LET frac == IF hasF THEN Digs(s, ie + 1, fe) ELSE <<>>
                              ex   == IF hasE THEN (IF sg /\ s[fe + 1] = 45 THEN -ExpVal(Digs(s, xs, xe)) ELSE ExpVal(Digs(s, xs, xe))) ELSE 0
                          IN Ok(xe, [t |-> "dec", neg |-> neg, digits |-> Digs(s, a, ie) \o frac, e10 |-> ex - Len(frac),
                                     point |-> hasF], FALSE)

(***************************************************************************)
(* Values.                                                                 *)
(***************************************************************************)
RECURSIVE ParseValue(_, _), ParseElems(_, _, _, _), ParseMembers(_, _, _, _)
ParseValue(s, i0) ==
  LET i == SkipWS(s, i0) IN
  IF i > Len(s) THEN Fail
  ELSE LET c == s[i] IN
    IF c = 34 THEN ParseString(s, i)
    ELSE IF c = 110 THEN (IF HasLit(s, i, <<110, 117, 108, 108>>) THEN Ok(i + 4, [t |-> "null"], FALSE) ELSE Fail)
    ELSE IF c = 116 THEN (IF HasLit(s, i, <<116, 114, 117, 101>>) THEN Ok(i + 4, [t |-> "bool", b |-> TRUE], FALSE) ELSE Fail)
    ELSE IF c = 102 THEN (IF HasLit(s, i, <<102, 97, 108, 115, 101>>) THEN Ok(i + 5, [t |-> "bool", b |-> FALSE], FALSE) ELSE Fail)
    ELSE IF c = 91 THEN
      LET j == SkipWS(s, i + 1) IN
      IF At(s, j, 93) THEN Ok(j + 1, [t |-> "arr", v |-> <<>>], FALSE) ELSE ParseElems(s, i + 1, <<>>, FALSE)
    ELSE IF c = 123 THEN
      LET j == SkipWS(s, i + 1) IN
      IF At(s, j, 125) THEN Ok(j + 1, [t |-> "obj", v |-> <<>>], FALSE) ELSE ParseMembers(s, i + 1, <<>>, FALSE)
    ELSE IF c = 45 \/ IsDig(c) THEN ParseNumber(s, i)
    ELSE Fail
ParseElems(s, i, acc, q) ==
  LET r == ParseValue(s, i) IN
  IF ~r.ok THEN Fail
  ELSE LET j == SkipWS(s, r.i) IN
    IF At(s, j, 44) THEN ParseElems(s, j + 1, Append(acc, r.v), q \/ r.q)
    ELSE IF At(s, j, 93) THEN Ok(j + 1, [t |-> "arr", v |-> Append(acc, r.v)], q \/ r.q)
    ELSE Fail
ParseMembers(s, i, acc, q) ==
  LET k == SkipWS(s, i) IN
  IF ~At(s, k, 34) THEN Fail
  ELSE LET ks == ParseString(s, k) IN
    IF ~ks.ok THEN Fail
    ELSE LET c == SkipWS(s, ks.i) IN
      IF ~At(s, c, 58) THEN Fail
      ELSE LET r == ParseValue(s, c + 1) IN
        IF ~r.ok THEN Fail
        ELSE LET j == SkipWS(s, r.i)
                 m == Append(acc, [k |-> ks.v.v, v |-> r.v])
                 qq == q \/ ks.q \/ r.q
             IN IF At(s, j, 44) THEN ParseMembers(s, j + 1, m, qq)
                ELSE IF At(s, j, 125) THEN Ok(j + 1, [t |-> "obj", v |-> m], qq)
                ELSE Fail

\* a whole document: [ok, v, q]
ParseDoc(s) ==
  LET r == ParseValue(s, 1) IN
  IF r.ok /\ SkipWS(s, r.i) > Len(s) THEN r ELSE Fail

(***************************************************************************)
(* Relations between JSON values and Starlark values (harness records).    *)
(***************************************************************************)
Big(v) == IF v.t = "int" THEN FromInt(v.v) ELSE [neg |-> v.neg, m |-> v.m]
IsIntV(v) == v.t = "int" \/ v.t = "big"
Keys(o) == {o.v[k].k : k \in 1..Len(o.v)}
LastIdx(o, key) == CHOOSE k \in 1..Len(o.v) : o.v[k].k = key /\ \A l \in (k + 1)..Len(o.v) : o.v[l].k # key
FirstIdx(o, key) == CHOOSE k \in 1..Len(o.v) : o.v[k].k = key /\ \A l \in 1..(k - 1) : o.v[l].k # key
HasDupKeys(o) == Cardinality(Keys(o)) # Len(o.v)

\* the decimal is so large that no finite binary64 is nearest
DecTooLarge(j) == LET ds == StripZeros(j.digits) IN
  ds # <<>> /\ (Len(ds) - 1 + j.e10 >= 310 \/
                (Len(ds) + j.e10 >= 300 /\ (IF j.e10 >= 0 THEN RoundsToInf(MMul(MFromDigits(ds, 10, <<>>), MPow10(j.e10)), <<1>>)
                                          ELSE RoundsToInf(MFromDigits(ds, 10, <<>>), MPow10(-j.e10)))))
RECURSIVE HasHugeNumber(_)
HasHugeNumber(j) ==
  CASE j.t = "dec" -> DecTooLarge(j)
    [] j.t = "arr" -> \E k \in 1..Len(j.v) : HasHugeNumber(j.v[k])
    [] j.t = "obj" -> \E k \in 1..Len(j.v) : HasHugeNumber(j.v[k].v)
    [] OTHER -> FALSE
RECURSIVE AnyDupKeys(_)
AnyDupKeys(j) ==
  CASE j.t = "arr" -> \E k \in 1..Len(j.v) : AnyDupKeys(j.v[k])
    [] j.t = "obj" -> HasDupKeys(j) \/ \E k \in 1..Len(j.v) : AnyDupKeys(j.v[k].v)
    [] OTHER -> FALSE

\* Decoded(j, x): x is the Starlark value json.decode documents for the JSON value j:
\* null/true/false -> None/True/False, numbers without fraction and exponent -> int (exact),
\* other numbers -> float (the nearest binary64), strings -> str, arrays -> list, objects -> dict
\* (for a repeated name the last member counts, the usual reading of RFC 8259 section 4).
RECURSIVE Decoded(_, _)
Decoded(j, x) ==
  CASE j.t = "null" -> x.t = "none"
    [] j.t = "bool" -> x.t = "bool" /\ x.v = j.b
    [] j.t = "int"  -> IsIntV(x) /\ IEq(Big(x), j.n)
    [] j.t = "dec"  -> \/ x.t = "float" /\ IsFinite(x) /\ IsNearestDec(x, j.neg, j.digits, j.e10)
                       \* "int or float depending on whether they contain a decimal point": an exponent
                       \* form without a point may also be read as the exact integer it denotes
                       \/ /\ ~j.point /\ j.e10 >= 0 /\ j.e10 <= 400 /\ IsIntV(x)
                          /\ IEq(Big(x), Mk(j.neg, MMul(MFromDigits(j.digits, 10, <<>>), MPow10(j.e10))))
    [] j.t = "str"  -> x.t = "str" /\ x.v = j.v
    [] j.t = "arr"  -> x.t = "list" /\ Len(x.v) = Len(j.v) /\ \A k \in 1..Len(j.v) : Decoded(j.v[k], x.v[k])
    [] j.t = "obj"  -> /\ x.t = "dict" /\ Len(x.v) = Cardinality(Keys(j))
                       /\ \A k \in 1..Len(x.v) :
                            /\ x.v[k][1].t = "str" /\ x.v[k][1].v \in Keys(j)
                            /\ Decoded(j.v[LastIdx(j, x.v[k][1].v)].v, x.v[k][2])
                            /\ \A l \in 1..(k - 1) : x.v[l][1].v # x.v[k][1].v

\* Denotes(j, x): the JSON value j denotes the same data as the Starlark value x handed to json.encode:
\* None/bool/int/float/str as above (ints exact at any size, the float reads back bit-identically,
\* strings byte for byte), list or tuple -> array, dict (string keys) or struct -> object with
\* exactly the keys / field names, each once.
RECURSIVE Denotes(_, _)
Denotes(j, x) ==
  CASE x.t = "none" -> j.t = "null"
    [] x.t = "bool" -> j.t = "bool" /\ j.b = x.v
    [] IsIntV(x)    -> j.t = "int" /\ IEq(j.n, Big(x))
    [] x.t = "float" -> j.t = "dec" /\ IsNearestDec(x, j.neg, j.digits, j.e10)
    [] x.t = "str"  -> j.t = "str" /\ j.v = x.v
    [] x.t \in {"list", "tuple"} -> j.t = "arr" /\ Len(j.v) = Len(x.v) /\ \A k \in 1..Len(x.v) : Denotes(j.v[k], x.v[k])
    [] x.t = "dict" -> /\ j.t = "obj" /\ Len(j.v) = Len(x.v) /\ ~HasDupKeys(j)
                       /\ \A k \in 1..Len(x.v) : /\ x.v[k][1].t = "str" /\ x.v[k][1].v \in Keys(j)
                                                 /\ Denotes(j.v[LastIdx(j, x.v[k][1].v)].v, x.v[k][2])
    [] x.t = "struct" -> /\ j.t = "obj" /\ Len(j.v) = Len(x.v) /\ ~HasDupKeys(j)
                         /\ \A k \in 1..Len(x.v) : /\ x.v[k][1] \in Keys(j)
                                                   /\ Denotes(j.v[LastIdx(j, x.v[k][1])].v, x.v[k][2])
    [] OTHER -> FALSE

\* x is representable in JSON: finite floats, well-formed UTF-8 strings, string keys
RECURSIVE Representable(_)
Representable(x) ==
  CASE x.t \in {"none", "bool", "int", "big"} -> TRUE
    [] x.t = "float" -> IsFinite(x)
    [] x.t = "str" -> ValidUTF8(x.v)
    [] x.t \in {"list", "tuple"} -> \A k \in 1..Len(x.v) : Representable(x.v[k])
    [] x.t = "dict" -> \A k \in 1..Len(x.v) : x.v[k][1].t = "str" /\ ValidUTF8(x.v[k][1].v) /\ Representable(x.v[k][2])
    [] x.t = "struct" -> \A k \in 1..Len(x.v) : Representable(x.v[k][2])
    [] OTHER -> FALSE

\* RoundTrip(x, y): y = json.decode(json.encode(x)) "equals x": same data with tuple -> list and
\* struct -> dict (field names become keys); floats bit-identical; dict equality ignores order
RECURSIVE RoundTrip(_, _)
RoundTrip(x, y) ==
  CASE x.t = "none" -> y.t = "none"
    [] x.t = "bool" -> y.t = "bool" /\ y.v = x.v
    [] IsIntV(x)    -> IsIntV(y) /\ IEq(Big(x), Big(y))
    [] x.t = "float" -> y.t = "float" /\ y.s = x.s /\ y.e = x.e /\ y.m = x.m
    [] x.t = "str"  -> y.t = "str" /\ y.v = x.v
    [] x.t \in {"list", "tuple"} -> y.t = "list" /\ Len(y.v) = Len(x.v) /\ \A k \in 1..Len(x.v) : RoundTrip(x.v[k], y.v[k])
    [] x.t = "dict" -> /\ y.t = "dict" /\ Len(y.v) = Len(x.v)
                       /\ \A k \in 1..Len(x.v) : \E l \in 1..Len(y.v) :
                             /\ y.v[l][1].t = "str" /\ x.v[k][1].t = "str" /\ y.v[l][1].v = x.v[k][1].v
                             /\ RoundTrip(x.v[k][2], y.v[l][2])
    [] x.t = "struct" -> /\ y.t = "dict" /\ Len(y.v) = Len(x.v)
                         /\ \A k \in 1..Len(x.v) : \E l \in 1..Len(y.v) :
                               /\ y.v[l][1].t = "str" /\ y.v[l][1].v = x.v[k][1]
                               /\ RoundTrip(x.v[k][2], y.v[l][2])
    [] OTHER -> FALSE
=============================================================================
