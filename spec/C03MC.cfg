CONSTANTS
  NK = 4
  HMax = 2
  MaxOps = 6
  BucketSize = 2
  LoadNum = 3
  LoadDen = 2
INIT Init
NEXT Next
INVARIANTS SeedIndependent Refines TablesOK
