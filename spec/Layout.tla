-------------------------------- MODULE Layout --------------------------------
(***************************************************************************)
(* Statement nesting from indentation (doc/spec.md "Lexical elements":     *)
(* INDENT / OUTDENT are derived from the indentation of logical lines as   *)
(* in Python).  A program skeleton is a sequence of lines                  *)
(*      [col, kind]   kind: "open"    a compound-statement header `if x:`  *)
(*                          "stmt"    a simple statement `pass`            *)
(*                          "blank"   an empty line                        *)
(*                          "comment" a comment-only line                  *)
(* col is the indentation column after tab expansion to multiples of 8.    *)
(* Blank and comment-only lines never affect the structure.                *)
(* Nest(lines) = [ok, n]: n is the nesting of the significant lines; ok is  *)
(* FALSE when the text is not a program:                                 *)
(*   - a line indented deeper than the enclosing block without a header    *)
(*     before it ("unexpected indent"), also at the start of the file;     *)
(*   - a header not followed by a deeper line (missing block), also at EOF;*)
(*   - a dedent to a column that is not an enclosing block's column.       *)
(* The result is a sequence of [kind, depth] in order: the depth of every  *)
(* significant line determines the tree.                                   *)
(***************************************************************************)
EXTENDS Integers, Sequences, TLC

Significant(lines) == SelectSeq(lines, LAMBDA l : l.kind \in {"open", "stmt"})

LErr == [ok |-> FALSE, n |-> <<>>]
RECURSIVE PopTo(_, _)
PopTo(stack, c) == IF Len(stack) > 1 /\ stack[Len(stack)] > c THEN PopTo(SubSeq(stack, 1, Len(stack) - 1), c) ELSE stack

\* walk the significant lines with the indentation stack; prevOpen: the previous line was a header
RECURSIVE Walk(_, _, _, _, _)
Walk(ls, i, stack, prevOpen, acc) ==
  IF i > Len(ls) THEN (IF prevOpen THEN LErr ELSE [ok |-> TRUE, n |-> acc])
  ELSE LET c == ls[i].col top == stack[Len(stack)] IN
       IF c > top
       THEN (IF prevOpen
             THEN Walk(ls, i + 1, Append(stack, c), ls[i].kind = "open", Append(acc, [kind |-> ls[i].kind, depth |-> Len(stack)]))
             ELSE LErr)
       ELSE IF prevOpen THEN LErr
       ELSE LET st == PopTo(stack, c) IN
            IF st[Len(st)] # c THEN LErr
            ELSE Walk(ls, i + 1, st, ls[i].kind = "open", Append(acc, [kind |-> ls[i].kind, depth |-> Len(st) - 1]))

Nest(lines) == Walk(Significant(lines), 1, <<0>>, FALSE, <<>>)
=============================================================================
