------------------------------- MODULE C14Gen -------------------------------
(***************************************************************************)
(* C14 part (a), spec -> code: TLC enumerates syntax trees and renders     *)
(* them with Grammar!Render.  A state is a partial tree; the only action   *)
(* replaces the leftmost hole by one of the forms the grammar admits at    *)
(* that place (leftmost derivation: every complete tree is reached exactly *)
(* once).  Every complete tree is printed once, as JSON                    *)
(* {"tree": ..., "toks": [...]}, by the invariant Emit.                    *)
(*                                                                         *)
(*   Mode     "expr": one expression (ParseExpr);  "file": a file          *)
(*   Budget   number of operator nodes / statements a tree may contain     *)
(*   MaxDepth nesting bound (only binding in simulation mode)              *)
(*   Alpha    "full" | "mid" | "small": the operator alphabet              *)
(*   Leaves   "id" | "all": leaves are identifiers only, or also literals  *)
(* Exhaustive runs: Budget 2 over the full alphabet = every ordered pair   *)
(* (parent form, child position, child form); Budget 3 = every triple in   *)
(* both shapes (chain, fork).  Deeper trees: -simulate with a large Budget.*)
(***************************************************************************)
EXTENDS Grammar, Json, IOUtils, SequencesExt

\* parameters of a run, taken from the environment (one .cfg serves every run)
Mode     == IOEnv.C14_MODE
Budget   == atoi(IOEnv.C14_BUDGET)
MaxDepth == atoi(IOEnv.C14_DEPTH)
Alpha    == IOEnv.C14_ALPHA
Leaves   == IOEnv.C14_LEAVES
\* 0: exhaustive enumeration.  N > 0: N pseudo-random derivations (for deep trees): derivation
\* k replaces the leftmost hole by the form number Rand(k, step) of the admissible ones
Traces   == atoi(IOEnv.C14_TRACES)
Seed     == atoi(IOEnv.C14_SEED)
VARIABLES t, b, tid, stp

H(ty, d) == [k |-> "hole", a |-> ty, c |-> <<>>, d |-> d]
Id0 == N("id", "?", <<>>)           \* renamed v1, v2, ... in source order by Lab

RECURSIVE HasHole(_)
HasHole(x) == x.k = "hole" \/ \E i \in 1..Len(x.c) : HasHole(x.c[i])

(***************************************************************************)
(* Forms.  Each is a pair <<tree with holes, cost>>.                       *)
(***************************************************************************)
UnSel  == IF Alpha = "small" THEN {"-", "not"} ELSE UnOps
BinSel == IF Alpha = "full" THEN BinOps
          ELSE IF Alpha = "mid" THEN {"or", "and", "==", "in", "not in", "|", "^", "&", "<<", "+", "*"}
          ELSE {"or", "==", "+", "*"}

LeafForms ==
  {Id0} \cup (IF Leaves = "all"
              THEN {N("int", "1", <<>>), N("float", "1.", <<>>), N("float", ".5", <<>>), N("str", "'s'", <<>>), N("bytes", "b's'", <<>>)}
              ELSE {})

P(n)       == N("p", n, <<>>)
Pdef(n, x) == N("pdef", n, <<x>>)
Pstar(n)   == N("pstar", n, <<>>)
Pstar0     == N("pstar0", "", <<>>)
Pkw(n)     == N("pkw", n, <<>>)

\* parameter lists (default values are expression holes e)
ParamLists(e) ==
  IF Alpha = "small" THEN {<<>>}
  ELSE IF Alpha = "mid" THEN {<<>>, <<P("p"), Pdef("q", e)>>}
  ELSE {<<>>, <<P("p")>>, <<P("p"), Pdef("q", e)>>, <<P("p"), Pstar("r"), Pkw("k")>>,
        <<P("p"), Pstar0, Pdef("q", e), P("u")>>, <<Pstar("r"), P("u")>>, <<Pkw("k")>>, <<Pdef("q", e), Pkw("k")>>}

ArgLists(e) ==
  IF Alpha = "small" THEN {<<e>>}
  ELSE IF Alpha = "mid" THEN {<<e>>, <<e, N("named", "n", <<e>>)>>, <<N("star", "", <<e>>), N("kw", "", <<e>>)>>}
  ELSE {<<>>, <<e>>, <<e, e>>, <<e, N("named", "n", <<e>>)>>, <<N("named", "n", <<e>>), N("named", "m", <<e>>)>>,
        <<N("star", "", <<e>>)>>, <<N("kw", "", <<e>>)>>, <<e, N("named", "n", <<e>>), N("star", "", <<e>>), N("kw", "", <<e>>)>>}

SliceForms(e) ==
  IF Alpha = "small" THEN {}
  ELSE IF Alpha = "mid" THEN {N("slice", "lh", <<e, e, e>>), N("slice", "s", <<e, e>>)}
  ELSE {N("slice", "", <<e>>), N("slice", "l", <<e, e>>), N("slice", "h", <<e, e>>), N("slice", "s", <<e, e>>),
        N("slice", "lh", <<e, e, e>>), N("slice", "ls", <<e, e, e>>), N("slice", "hs", <<e, e, e>>),
        N("slice", "lhs", <<e, e, e, e>>)}

DisplayForms(e) ==
  IF Alpha = "small" THEN {N("list", "", <<e>>)}
  ELSE IF Alpha = "mid" THEN {N("list", "", <<>>), N("list", "", <<e, e>>), N("tuple", "", <<e>>), N("tuple", "", <<e, e>>),
                              N("dict", "", <<N("entry", "", <<e, e>>)>>)}
  ELSE {N("list", "", <<>>), N("list", "", <<e>>), N("list", "", <<e, e>>),
        N("tuple", "", <<>>), N("tuple", "", <<e>>), N("tuple", "", <<e, e>>), N("tuple", "", <<e, e, e>>),
        N("dict", "", <<>>), N("dict", "", <<N("entry", "", <<e, e>>)>>),
        N("dict", "", <<N("entry", "", <<e, e>>), N("entry", "", <<e, e>>)>>)}

CompForms(e, v) ==
  IF Alpha = "small" THEN {}
  ELSE IF Alpha = "mid"
  THEN {N("comp", "[", <<e, N("forc", "", <<v, e>>), N("ifc", "", <<e>>)>>),
        N("comp", "{", <<N("entry", "", <<e, e>>), N("forc", "", <<v, e>>)>>)}
  ELSE {N("comp", "[", <<e, N("forc", "", <<v, e>>)>>),
        N("comp", "[", <<e, N("forc", "", <<v, e>>), N("ifc", "", <<e>>)>>),
        N("comp", "[", <<e, N("forc", "", <<v, e>>), N("forc", "", <<v, e>>)>>),
        N("comp", "[", <<e, N("forc", "", <<v, e>>), N("ifc", "", <<e>>), N("ifc", "", <<e>>), N("forc", "", <<v, e>>)>>),
        N("comp", "{", <<N("entry", "", <<e, e>>), N("forc", "", <<v, e>>)>>),
        N("comp", "{", <<N("entry", "", <<e, e>>), N("forc", "", <<v, e>>), N("ifc", "", <<e>>)>>)}

\* operator forms of an expression whose children are the holes e (expression) and v (loop variables)
OpForms(e, v) ==
       {N("un", op, <<e>>) : op \in UnSel}
  \cup {N("bin", op, <<e, e>>) : op \in BinSel}
  \cup {N("cond", "", <<e, e, e>>)}
  \cup {N("lambda", "", ps \o <<e>>) : ps \in ParamLists(e)}
  \cup {N("call", "", <<e>> \o as) : as \in ArgLists(e)}
  \cup {N("index", "", <<e, e>>), N("dot", "f", <<e>>)}
  \cup SliceForms(e) \cup DisplayForms(e) \cup CompForms(e, v)

\* loop variables / assignment targets
VarForms ==
  IF Alpha = "full"
  THEN {Id0, N("tuple", "", <<Id0, Id0>>), N("dot", "f", <<Id0>>), N("index", "", <<Id0, Id0>>),
        N("list", "", <<Id0, Id0>>), N("tuple", "", <<Id0, N("tuple", "", <<Id0, Id0>>)>>)}
  ELSE {Id0, N("tuple", "", <<Id0, Id0>>)}
AugTargets == {Id0, N("dot", "f", <<Id0>>), N("index", "", <<Id0, Id0>>)}

\* expressions inside statements: enough to exercise the Expression / Test contexts
StmtExprs ==
  IF Alpha = "full"
  THEN {Id0, N("tuple", "", <<Id0, Id0>>), N("bin", "+", <<Id0, Id0>>), N("call", "", <<Id0, Id0>>),
        N("cond", "", <<Id0, Id0, Id0>>), N("lambda", "", <<Id0>>), N("int", "1", <<>>), N("str", "'s'", <<>>)}
  ELSE {Id0}

Blk(ss) == N("block", "", ss)

SimpleForms(x, tg) ==
  IF Alpha = "small" THEN {N("exprstmt", "", <<x>>), N("assign", "=", <<tg, x>>), N("branch", "pass", <<>>)}
  ELSE
       {N("exprstmt", "", <<x>>), N("return", "", <<>>), N("return", "", <<x>>)}
  \cup {N("branch", w, <<>>) : w \in (IF Alpha = "full" THEN {"pass", "break", "continue"} ELSE {"pass", "break"})}
  \cup {N("assign", "=", <<tg, x>>)}
  \cup {N("assign", op, <<g, x>>) : op \in (IF Alpha = "full" THEN AugOps ELSE {"+=", "<<="}),
                                     g \in (IF Alpha = "full" THEN AugTargets ELSE {Id0})}
  \cup (IF Alpha = "full"
        THEN {N("load", "", <<N("str", "'m'", <<>>), N("item", "s", <<>>)>>),
              N("load", "", <<N("str", "'m'", <<>>), N("alias", "w", <<N("item", "s", <<>>)>>)>>),
              N("load", "", <<N("str", "\"d\"", <<>>), N("item", "s", <<>>), N("alias", "w", <<N("item", "d", <<>>)>>), N("item", "m", <<>>)>>)}
        ELSE {N("load", "", <<N("str", "'m'", <<>>), N("item", "s", <<>>), N("alias", "w", <<N("item", "s", <<>>)>>)>>)})

CompoundForms(x, v, bl) ==
       {N("def", "fn", ps \o <<bl>>) : ps \in ParamLists(x)}
  \cup {N("if", "", <<x, bl>>), N("if", "", <<x, bl, bl>>),
        N("if", "elif", <<x, bl, Blk(<<N("if", "", <<x, bl>>)>>)>>),
        N("if", "elif", <<x, bl, Blk(<<N("if", "", <<x, bl, bl>>)>>)>>),
        N("for", "", <<v, x, bl>>), N("while", "", <<x, bl>>)}
  \cup (IF Alpha = "full"
        THEN {N("if", "elif", <<x, bl, Blk(<<N("if", "elif", <<x, bl, Blk(<<N("if", "", <<x, bl, bl>>)>>)>>)>>)>>),
              N("if", "", <<x, bl, Blk(<<N("if", "", <<x, bl>>)>>)>>)}     \* else: if ... (not elif)
        ELSE {})

(***************************************************************************)
(* Forms(h, n): the pairs <<replacement, cost>> for hole h with n budget.  *)
(***************************************************************************)
Forms(h, n) ==
  LET d  == h.d
      e  == H("e", d - 1)
      v  == H("v", d - 1)
      x  == H("x", d - 1)
      tg == H("g", d - 1)
      s  == H("s", d - 1)
      bl == H("b", d - 1)
  IN CASE h.a = "e" -> {<<f, 0>> : f \in LeafForms}
                       \cup (IF n > 0 /\ d > 1 THEN {<<f, 1>> : f \in OpForms(e, v)} ELSE {})
       \* the plain identifier is free; any other form is paid for like an operator node
       [] h.a = "v" -> {<<f, IF f = Id0 THEN 0 ELSE 1>> : f \in (IF n > 0 THEN VarForms ELSE {Id0})}
       [] h.a = "g" -> {<<f, IF f = Id0 THEN 0 ELSE 1>> : f \in (IF n > 0 THEN VarForms ELSE {Id0})}
       [] h.a = "x" -> {<<f, IF f = Id0 THEN 0 ELSE 1>> : f \in (IF n > 0 THEN StmtExprs ELSE {Id0})}
       [] h.a = "s" -> (IF n > 0 THEN {<<f, 1>> : f \in SimpleForms(x, tg)} ELSE {})
                       \cup (IF n > 1 /\ d > 1 THEN {<<f, 1>> : f \in CompoundForms(x, v, bl)} ELSE {})
       [] h.a = "b" -> (IF n > 0 THEN {<<Blk(<<s>>), 0>>} ELSE {})
                       \cup (IF n > 1 THEN {<<Blk(<<s, s>>), 0>>} ELSE {})
       [] h.a = "f" -> {<<N("file", "", <<s>>), 0>>}
                       \cup (IF n > 1 THEN {<<N("file", "", <<s, s>>), 0>>} ELSE {})

(***************************************************************************)
(* The state holds the partial tree flattened in preorder: an item is      *)
(* [k, a, n] (n = number of children) or a hole [k |-> "hole", a, n |-> 0, *)
(* d].  The leftmost hole is then the first hole item, and replacing it is *)
(* a splice; the tree is rebuilt (Unflat) only when it is complete.        *)
(***************************************************************************)
RECURSIVE Flat(_), FlatKids(_)
FlatKids(cs) == IF cs = <<>> THEN <<>> ELSE Flat(Head(cs)) \o FlatKids(Tail(cs))
Flat(x) ==
  IF x.k = "hole" THEN <<[k |-> "hole", a |-> x.a, n |-> 0, d |-> x.d]>>
  ELSE <<[k |-> x.k, a |-> x.a, n |-> Len(x.c)]>> \o FlatKids(x.c)

\* <<tree, index after it>> of the subtree that starts at item i
RECURSIVE Build(_, _), BuildKids(_, _, _, _)
BuildKids(f, i, left, acc) ==           \* the next `left` subtrees starting at item i
  IF left = 0 THEN <<acc, i>>
  ELSE LET q == Build(f, i) IN BuildKids(f, q[2], left - 1, Append(acc, q[1]))
Build(f, i) == LET r == BuildKids(f, i + 1, f[i].n, <<>>) IN <<N(f[i].k, f[i].a, r[1]), r[2]>>
Unflat(f) == Build(f, 1)[1]

FHasHole(f) == \E i \in 1..Len(f) : f[i].k = "hole"
RECURSIVE FirstHole(_, _)
FirstHole(f, i) == IF f[i].k = "hole" THEN i ELSE FirstHole(f, i + 1)
\* number of statement holes that must still be filled (each needs budget 1): a form is
\* only chosen if the budget left covers the holes it creates
FNeed(f) == Cardinality({i \in 1..Len(f) : f[i].k = "hole" /\ f[i].a \in {"s", "b"}})

\* the forms that may replace the leftmost hole with m budget left, flattened
Admissible(f, m) ==
  LET h == f[FirstHole(f, 1)]
      rest == FNeed(f) - (IF h.a \in {"s", "b"} THEN 1 ELSE 0)
  IN {q \in {<<Flat(p[1]), p[2]>> : p \in Forms(h, m)} : FNeed(q[1]) + rest <= m - q[2]}
ReplaceLeft(f, u) == LET i == FirstHole(f, 1) IN SubSeq(f, 1, i - 1) \o u \o SubSeq(f, i + 1, Len(f))

\* rename the identifiers "?" to v1, v2, ... in source order: <<tree, next number>>
RECURSIVE Lab(_, _), LabKids(_, _, _)
LabKids(cs, n, acc) ==
  IF cs = <<>> THEN <<acc, n>>
  ELSE LET q == Lab(Head(cs), n) IN LabKids(Tail(cs), q[2], Append(acc, q[1]))
Lab(x, n) ==
  IF x.k = "id" /\ x.a = "?" THEN <<[x EXCEPT !.a = "v" \o ToString(n)], n + 1>>
  ELSE LET r == LabKids(x.c, n, <<>>) IN <<[x EXCEPT !.c = r[1]], r[2]>>

Root == IF Mode = "expr" THEN H("e", MaxDepth) ELSE H("f", MaxDepth)

\* a small pseudo-random mix of derivation number and step (all intermediate values < 2^31)
Rand(kk, nn) == LET x == ((kk % 32749) * 7919 + (Seed % 30011)) % 32749
                    y == (x * x + nn * 12347 + 101) % 32749
                IN (y * y + x) % 32749

Tree == Unflat(t)

Init == /\ t = Flat(Root) /\ b = Budget /\ stp = 0
        /\ tid \in (IF Traces = 0 THEN {0} ELSE 1..Traces)
Step(p) == /\ t' = ReplaceLeft(t, p[1])
           /\ b' = IF FHasHole(t') THEN b - p[2] ELSE 0
           /\ stp' = IF Traces = 0 THEN 0 ELSE stp + 1
           /\ tid' = tid
Next == /\ FHasHole(t)
        /\ IF Traces = 0 THEN \E p \in Admissible(t, b) : Step(p)
           ELSE LET S == SetToSeq(Admissible(t, b)) IN Step(S[1 + (Rand(tid, stp) % Len(S))])

Record(x) == [tree |-> x, toks |-> IF Mode = "expr" THEN RenderExpr(x) ELSE RenderFile(x)]
Emit == FHasHole(t) \/ PrintT(<<"TREE", ToJson(Record(Lab(Tree, 1)[1]))>>)
=============================================================================
