------------------------------ MODULE C13Trace ------------------------------
(***************************************************************************)
(* Record validation for C13 (code -> spec): every record is one call of   *)
(* the real implementation; Expected(r) is the value Seqs defines.         *)
(***************************************************************************)
EXTENDS Seqs, Enc, Fmt, Json, IOUtils

Recs == ndJsonDeserialize(IOEnv.VERIF_RECS)
VARIABLE i

\* wrap a raw sequence in the receiver's type (elements of list/tuple/range are ints)
Wrap(ty, s) == CASE ty = "str"   -> VStr(s)
                 [] ty = "bytes" -> VBytes(s)
                 [] ty = "list"  -> VList(MapSeq(VInt, s))
                 [] ty = "tuple" -> VTuple(MapSeq(VInt, s))
                 [] ty = "range" -> VList(MapSeq(VInt, s))   \* compared via list(...)
\* indexing a string or a bytes yields a 1-element string / bytes (value.go)
Elem(ty, c) == CASE ty = "str" -> VStr(<<c>>) [] ty = "bytes" -> VBytes(<<c>>) [] OTHER -> VInt(c)
StrList(ss)  == VList(MapSeq(VStr, ss))
OkIf(r, f(_)) == IF r.ok THEN Ok(f(r.v)) ELSE Fail

Expected(r) ==
  CASE r.op = "index" -> LET x == Index(r.s, r.i) IN IF x.ok THEN Ok(Elem(r.ty, x.v)) ELSE Fail
    [] r.op = "slice" -> LET x == Slice(r.s, r.lo, r.hi, r.st) IN IF x.ok THEN Ok(Wrap(r.ty, x.v)) ELSE Fail
    [] r.op = "find"   -> Ok(VInt(Find(r.s, r.sub, r.lo, r.hi, FALSE)))
    [] r.op = "rfind"  -> Ok(VInt(Find(r.s, r.sub, r.lo, r.hi, TRUE)))
    [] r.op = "index_" -> LET x == Find(r.s, r.sub, r.lo, r.hi, FALSE) IN IF x < 0 THEN Fail ELSE Ok(VInt(x))
    [] r.op = "rindex" -> LET x == Find(r.s, r.sub, r.lo, r.hi, TRUE) IN IF x < 0 THEN Fail ELSE Ok(VInt(x))
    [] r.op = "count"  -> Ok(VInt(Count(r.s, r.sub, r.lo, r.hi)))
    [] r.op = "startswith" -> Ok(VBool(StartsEnds(r.s, r.cands, r.lo, r.hi, FALSE)))
    [] r.op = "endswith"   -> Ok(VBool(StartsEnds(r.s, r.cands, r.lo, r.hi, TRUE)))
    [] r.op = "removeprefix" -> Ok(VStr(RemovePrefix(r.s, r.sub)))
    [] r.op = "removesuffix" -> Ok(VStr(RemoveSuffix(r.s, r.sub)))
    [] r.op = "split"  -> IF r.sep.some /\ r.sep.v = <<>> THEN Fail
                          ELSE IF r.sep.some THEN Ok(StrList(Split(r.s, r.sep.v, r.max)))
                          ELSE Ok(StrList(SplitSpace(r.s, r.max)))
    [] r.op = "rsplit" -> IF r.sep.some /\ r.sep.v = <<>> THEN Fail
                          ELSE IF r.sep.some THEN Ok(StrList(RSplit(r.s, r.sep.v, r.max)))
                          ELSE Ok(StrList(RSplitSpace(r.s, r.max)))
    [] r.op = "splitlines" -> Ok(StrList(SplitLines(r.s, r.keep)))
    [] r.op = "partition"  -> LET x == Partition(r.s, r.sub, FALSE) IN IF x.ok THEN Ok(VTuple(MapSeq(VStr, x.v))) ELSE Fail
    [] r.op = "rpartition" -> LET x == Partition(r.s, r.sub, TRUE) IN IF x.ok THEN Ok(VTuple(MapSeq(VStr, x.v))) ELSE Fail
    [] r.op = "strip"  -> Ok(VStr(StripC(r.s, r.sub)))
    [] r.op = "lstrip" -> Ok(VStr(LStripC(r.s, r.sub)))
    [] r.op = "rstrip" -> Ok(VStr(RStripC(r.s, r.sub)))
    [] r.op = "replace" -> Ok(VStr(Replace(r.s, r.sub, r.new, r.max)))
    [] r.op = "join"   -> Ok(VStr(Join(r.s, r.parts)))
    [] r.op = "lower"  -> Ok(VStr(Lower(r.s)))
    [] r.op = "upper"  -> Ok(VStr(Upper(r.s)))
    [] r.op = "title"  -> Ok(VStr(Title(r.s)))
    [] r.op = "capitalize" -> Ok(VStr(Capitalize(r.s)))
    [] r.op = "isalnum" -> Ok(VBool(IsAlnum(r.s)))
    [] r.op = "isalpha" -> Ok(VBool(IsAlpha(r.s)))
    [] r.op = "isdigit" -> Ok(VBool(IsDigit(r.s)))
    [] r.op = "isspace" -> Ok(VBool(IsSpaceS(r.s)))
    [] r.op = "islower" -> Ok(VBool(IsLower(r.s)))
    [] r.op = "isupper" -> Ok(VBool(IsUpper(r.s)))
    [] r.op = "istitle" -> Ok(VBool(IsTitle(r.s)))
    [] r.op = "concat"  -> Ok(Wrap(r.ty, r.s \o r.sub))
    [] r.op = "repeat"  -> Ok(Wrap(r.ty, Repeat(r.s, r.n)))
    [] r.op = "insert"  -> Ok(Wrap("list", Insert(r.s, r.i, r.x)))
    [] r.op = "pop"     -> LET x == Pop(r.s, r.io) IN
                           IF x.ok THEN Ok(VTuple(<<VInt(x.v[1]), Wrap("list", x.v[2])>>)) ELSE Fail
    [] r.op = "lindex"  -> LET x == ListIndex(r.s, r.x, r.lo, r.hi) IN IF x.ok THEN Ok(VInt(x.v)) ELSE Fail
    [] r.op = "remove"  -> LET x == Remove(r.s, r.x) IN IF x.ok THEN Ok(Wrap("list", x.v)) ELSE Fail
    [] r.op = "extend"  -> Ok(Wrap("list", r.s \o r.sub))
    [] r.op = "reversed" -> Ok(Wrap("list", Rev(r.s)))
    [] r.op = "sorted"  -> Ok(Wrap("list", Sorted(r.s)))
    [] r.op = "min"     -> IF r.s = <<>> THEN Fail ELSE Ok(VInt(SeqMin(r.s)))
    [] r.op = "max"     -> IF r.s = <<>> THEN Fail ELSE Ok(VInt(SeqMax(r.s)))
    [] r.op = "any"     -> Ok(VBool(\E k \in 1..Len(r.s) : r.s[k] # 0))
    [] r.op = "all"     -> Ok(VBool(\A k \in 1..Len(r.s) : r.s[k] # 0))
    [] r.op = "enumerate" -> Ok(VList([k \in 1..Len(r.s) |-> VTuple(<<VInt(r.n + k - 1), VInt(r.s[k])>>)]))
    [] r.op = "zip"     -> Ok(VList(MapSeq(LAMBDA row : VTuple(MapSeq(VInt, row)), Zip(r.ss))))
    [] r.op = "len"     -> Ok(VInt(Len(r.s)))
    [] r.op = "format"  -> LET x == Format(r.s, r.args, r.kw) IN IF x.ok THEN Ok(VStr(x.v)) ELSE Fail
    [] r.op = "interp"  -> LET x == Interp(r.s, r.x) IN IF x.ok THEN Ok(VStr(x.v)) ELSE Fail
    \* values are immutable / results are fresh: concatenating onto a slice must not disturb the value it was sliced from,
    \* nor the other operands of the same expression; extending one base twice must give independent results
    [] r.op = "slice_concat" -> Ok(VList(<<Wrap(r.ty, SubSeq(r.s, 1, r.k) \o r.x), Wrap(r.ty, r.s), Wrap(r.ty, SubSeq(r.s, r.k + 1, Len(r.s)))>>))
    [] r.op = "extend_twice" -> Ok(VList(<<Wrap(r.ty, r.s \o r.x \o r.y), Wrap(r.ty, r.s \o r.x \o r.z), Wrap(r.ty, r.s \o r.x), Wrap(r.ty, r.s)>>))
    [] r.op = "in"      -> Ok(VBool(Occ(r.s, r.sub) # {}))
    \* sorted / min / max with a key function that produces ties: the sort is stable also when reversed (elements with
    \* equal keys keep their original order), min and max return the first of several extreme elements.
    \* r.ks = the keys; element j is the pair (ks[j], j - 1)
    [] r.op = "sorted_kr" ->
         LET n == Len(r.ks)
             before(a, b) == (IF r.rev THEN r.ks[a] > r.ks[b] ELSE r.ks[a] < r.ks[b]) \/ (r.ks[a] = r.ks[b] /\ a < b)
             rank(b) == 1 + Cardinality({a \in 1..n : before(a, b)})
             at(q) == CHOOSE b \in 1..n : rank(b) = q
             pair(b) == VTuple(<<VInt(r.ks[b]), VInt(b - 1)>>)
             lo == CHOOSE b \in 1..n : \A a \in 1..n : r.ks[b] < r.ks[a] \/ (r.ks[b] = r.ks[a] /\ b <= a)
             hi == CHOOSE b \in 1..n : \A a \in 1..n : r.ks[b] > r.ks[a] \/ (r.ks[b] = r.ks[a] /\ b <= a)
         IN IF n = 0 THEN Ok(VList(<<VList(<<>>)>>))
            ELSE Ok(VList(<<VList([q \in 1..n |-> pair(at(q))]), pair(lo), pair(hi)>>))
    \* a slice of a range is a range: its elements, length, membership over a window around its bounds, indexing and truth
    [] r.op = "rslice"  -> LET x == Slice(r.s, r.lo, r.hi, r.st) IN
                           IF ~x.ok THEN Fail
                           ELSE LET e == x.v IN
                                Ok(VList(<<VList(MapSeq(VInt, e)), VInt(Len(e)),
                                           VList([k \in 1..(r.w1 - r.w0) |-> VBool(\E j \in 1..Len(e) : e[j] = r.w0 + k - 1)]),
                                           VList(MapSeq(VInt, e)), VBool(e # <<>>), VList(MapSeq(VInt, Rev(e)))>>))

Good(r) == ResEq(Expected(r), r.res)

K == 64
Init == i \in 1..(IF Len(Recs) < K THEN Len(Recs) ELSE K)
Next == i + K <= Len(Recs) /\ i' = i + K
Check == Good(Recs[i]) \/ PrintT(<<"BAD", Recs[i].id>>)
Done == PrintT(<<"CHECKED", TLCGet("stats").distinct>>)
=============================================================================
