--------------------------------- MODULE Fmt ---------------------------------
(***************************************************************************)
(* String formatting of Starlark (doc/spec.md "string·format" and "String  *)
(* interpolation"), over strings as sequences of codes and values in the   *)
(* typed encoding of Enc.tla (ints < 2^30, strings, None, bools, lists and *)
(* tuples of those).                                                       *)
(*   Format(f, args, kw)  -> [ok, v]   "f".format(args..., kw...)           *)
(*   Interp(f, x)         -> [ok, v]   "f" % x                             *)
(* Only the forms the language definition specifies are covered: {} {n}    *)
(* {name} with optional !r / !s, {{ }} escapes, an empty format spec;      *)
(* %s %r %d %i %x %X %o %c %%.                                             *)
(***************************************************************************)
EXTENDS Integers, Sequences, TLC

FOk(v) == [ok |-> TRUE, v |-> v]
FFail  == [ok |-> FALSE]

Chars(s) == s   \* strings are already sequences of codes

RECURSIVE NatDigits(_, _)
NatDigits(n, base) == IF n < base THEN <<n>> ELSE NatDigits(n \div base, base) \o <<n % base>>
DigitCode(d, upper) == IF d < 10 THEN 48 + d ELSE (IF upper THEN 55 ELSE 87) + d
IntText(n, base, upper) ==
  LET ds == NatDigits(IF n < 0 THEN -n ELSE n, base)
      body == [i \in 1..Len(ds) |-> DigitCode(ds[i], upper)]
  IN IF n < 0 THEN <<45>> \o body ELSE body

S(str) == str   \* a TLA+ string literal is not a sequence; literals below are code sequences
NoneTxt  == <<78, 111, 110, 101>>
TrueTxt  == <<84, 114, 117, 101>>
FalseTxt == <<70, 97, 108, 115, 101>>

\* repr of a string: double quotes; backslash, double quote and newline escaped (printable ASCII otherwise)
RECURSIVE QuoteBody(_)
QuoteBody(s) == IF s = <<>> THEN <<>>
                ELSE (CASE Head(s) = 34 -> <<92, 34>> [] Head(s) = 92 -> <<92, 92>> [] Head(s) = 10 -> <<92, 110>> [] OTHER -> <<Head(s)>>)
                     \o QuoteBody(Tail(s))
RECURSIVE ReprV(_), JoinRepr(_)
ReprV(v) ==
  CASE v.t = "int"  -> IntText(v.v, 10, FALSE)
    [] v.t = "str"  -> <<34>> \o QuoteBody(v.v) \o <<34>>
    [] v.t = "none" -> NoneTxt
    [] v.t = "bool" -> IF v.v THEN TrueTxt ELSE FalseTxt
    [] v.t = "list" -> <<91>> \o JoinRepr(v.v) \o <<93>>
    [] v.t = "tuple" -> <<40>> \o JoinRepr(v.v) \o (IF Len(v.v) = 1 THEN <<44>> ELSE <<>>) \o <<41>>
JoinRepr(vs) == IF vs = <<>> THEN <<>> ELSE IF Len(vs) = 1 THEN ReprV(vs[1]) ELSE ReprV(vs[1]) \o <<44, 32>> \o JoinRepr(Tail(vs))
StrV(v) == IF v.t = "str" THEN v.v ELSE ReprV(v)

IndexOf(s, c) == IF \E i \in 1..Len(s) : s[i] = c THEN CHOOSE i \in 1..Len(s) : s[i] = c /\ \A j \in 1..(i - 1) : s[j] # c ELSE 0
IsDecimal(s) == s # <<>> /\ \A i \in 1..Len(s) : s[i] \in 48..57
RECURSIVE DecVal(_)
DecVal(s) == IF s = <<>> THEN 0 ELSE DecVal(SubSeq(s, 1, Len(s) - 1)) * 10 + (s[Len(s)] - 48)
\* a field number with more than 8 significant digits exceeds any argument count (and TLC's integers)
RECURSIVE StripZeros(_)
StripZeros(s) == IF Len(s) > 1 /\ s[1] = 48 THEN StripZeros(Tail(s)) ELSE s
HugeDec(s) == Len(StripZeros(s)) > 8
KwIdx(kw, name) == IF \E i \in 1..Len(kw) : kw[i][1] = name THEN CHOOSE i \in 1..Len(kw) : kw[i][1] = name ELSE 0

(***************************************************************************)
(* "f".format(args..., kw...); kw is a sequence of <<name codes, value>>.   *)
(* mode: 0 none yet, 1 automatic numbering, 2 manual numbering.            *)
(***************************************************************************)
RECURSIVE FormatFrom(_, _, _, _, _, _)
FormatFrom(f, args, kw, next, mode, acc) ==
  IF f = <<>> THEN FOk(acc)
  ELSE IF Head(f) = 125 THEN      \* '}'
       (IF Len(f) >= 2 /\ f[2] = 125 THEN FormatFrom(SubSeq(f, 3, Len(f)), args, kw, next, mode, Append(acc, 125)) ELSE FFail)
  ELSE IF Head(f) # 123 THEN FormatFrom(Tail(f), args, kw, next, mode, Append(acc, Head(f)))
  ELSE IF Len(f) >= 2 /\ f[2] = 123 THEN FormatFrom(SubSeq(f, 3, Len(f)), args, kw, next, mode, Append(acc, 123))
  ELSE LET rest == Tail(f)
           close == IndexOf(rest, 125)
       IN IF close = 0 THEN FFail                                           \* unmatched '{'
          ELSE LET field == SubSeq(rest, 1, close - 1)
                   after == SubSeq(rest, close + 1, Len(rest))
                   bang == IndexOf(field, 33)
                   colon == IndexOf(field, 58)
                   name == IF bang # 0 THEN SubSeq(field, 1, bang - 1) ELSE IF colon # 0 THEN SubSeq(field, 1, colon - 1) ELSE field
                   tail == IF bang # 0 THEN SubSeq(field, bang + 1, Len(field)) ELSE <<>>
                   tcolon == IndexOf(tail, 58)
                   conv == IF bang = 0 THEN <<115>> ELSE IF tcolon # 0 THEN SubSeq(tail, 1, tcolon - 1) ELSE tail
                   spec == IF bang # 0 THEN (IF tcolon # 0 THEN SubSeq(tail, tcolon + 1, Len(tail)) ELSE <<>>)
                           ELSE IF colon # 0 THEN SubSeq(field, colon + 1, Len(field)) ELSE <<>>
                   render(v) == IF conv = <<114>> THEN ReprV(v) ELSE StrV(v)
                   go(v, nx, md) == IF spec # <<>> \/ conv \notin {<<115>>, <<114>>} THEN FFail
                                    ELSE FormatFrom(after, args, kw, nx, md, acc \o render(v))
               IN IF IndexOf(field, 123) # 0 THEN FFail                       \* nested '{' is not supported
                  ELSE IF name = <<>> THEN
                       (IF mode = 2 \/ next > Len(args) THEN FFail ELSE go(args[next], next + 1, 1))
                  ELSE IF IsDecimal(name) THEN
                       (IF mode = 1 \/ HugeDec(name) \/ DecVal(name) + 1 > Len(args) THEN FFail ELSE go(args[DecVal(name) + 1], next, 2))
                  ELSE (IF KwIdx(kw, name) = 0 THEN FFail ELSE go(kw[KwIdx(kw, name)][2], next, mode))
Format(f, args, kw) == FormatFrom(f, args, kw, 1, 0, <<>>)

(***************************************************************************)
(* "f" % x : x a tuple supplies one operand per conversion, any other      *)
(* value is the single operand.                                            *)
(***************************************************************************)
RECURSIVE InterpFrom(_, _, _)
InterpFrom(f, args, acc) ==
  IF f = <<>> THEN (IF args = <<>> THEN FOk(acc) ELSE FFail)               \* too many operands
  ELSE IF Head(f) # 37 THEN InterpFrom(Tail(f), args, Append(acc, Head(f)))
  ELSE IF Len(f) < 2 THEN FFail                                            \* incomplete conversion
  ELSE LET c == f[2] rest == SubSeq(f, 3, Len(f)) IN
       IF c = 37 THEN InterpFrom(rest, args, Append(acc, 37))
       ELSE IF c \notin {115, 114, 100, 105, 120, 88, 111, 99} THEN FFail   \* unknown conversion
       ELSE IF args = <<>> THEN FFail                                       \* not enough operands
       ELSE LET v == Head(args) more == Tail(args) IN
            CASE c = 115 -> InterpFrom(rest, more, acc \o StrV(v))
              [] c = 114 -> InterpFrom(rest, more, acc \o ReprV(v))
              [] c \in {100, 105} -> IF v.t = "int" THEN InterpFrom(rest, more, acc \o IntText(v.v, 10, FALSE)) ELSE FFail
              [] c = 120 -> IF v.t = "int" THEN InterpFrom(rest, more, acc \o IntText(v.v, 16, FALSE)) ELSE FFail
              [] c = 88  -> IF v.t = "int" THEN InterpFrom(rest, more, acc \o IntText(v.v, 16, TRUE)) ELSE FFail
              [] c = 111 -> IF v.t = "int" THEN InterpFrom(rest, more, acc \o IntText(v.v, 8, FALSE)) ELSE FFail
              [] c = 99  -> IF v.t = "int" /\ v.v >= 0 /\ v.v < 128 THEN InterpFrom(rest, more, Append(acc, v.v))
                            ELSE IF v.t = "str" /\ Len(v.v) = 1 THEN InterpFrom(rest, more, acc \o v.v)
                            ELSE FFail
Interp(f, x) == InterpFrom(f, IF x.t = "tuple" THEN x.v ELSE <<x>>, <<>>)
=============================================================================
