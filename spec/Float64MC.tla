----------------------------- MODULE Float64MC -----------------------------
(***************************************************************************)
(* Design check of Float64 against facts that can be stated with TLC's     *)
(* native integers (small values, powers of two, halves and quarters,      *)
(* rounding at 2^53 and 2^54, the overflow threshold, subnormal ties) and  *)
(* against a table of decimal literals whose binary64 bits were produced   *)
(* by CPython's correctly rounded float() (tools: /verif/tools/c10_gentab.py).*)
(***************************************************************************)
EXTENDS Float64, TLC

Around(c) == {c - 2, c - 1, c, c + 1, c + 2}
Pos == (0..40) \cup Around(127) \cup Around(32768) \cup Around(65536) \cup Around(1000000)
         \cup Around(2 ^ 24) \cup {2 ^ 28 - 1, 2 ^ 28, 2 ^ 28 + 1, 268435455 - 7}
S == Pos \cup {-p : p \in Pos}

DecTab == <<
  <<[s |-> 0, e |-> 1023, m |-> <<0, 0, 0, 0>>], FALSE, <<1>>, 0>>,
  <<[s |-> 1, e |-> 1023, m |-> <<0, 0, 0, 0>>], TRUE, <<1>>, 0>>,
  <<[s |-> 0, e |-> 1019, m |-> <<6554, 13107, 26214, 76>>], FALSE, <<1>>, -1>>,
  <<[s |-> 1, e |-> 1019, m |-> <<6554, 13107, 26214, 76>>], TRUE, <<1>>, -1>>,
  <<[s |-> 0, e |-> 1020, m |-> <<6554, 13107, 26214, 76>>], FALSE, <<2>>, -1>>,
  <<[s |-> 1, e |-> 1020, m |-> <<6554, 13107, 26214, 76>>], TRUE, <<2>>, -1>>,
  <<[s |-> 0, e |-> 1021, m |-> <<13107, 26214, 19660, 25>>], FALSE, <<3>>, -1>>,
  <<[s |-> 1, e |-> 1021, m |-> <<13107, 26214, 19660, 25>>], TRUE, <<3>>, -1>>,
  <<[s |-> 0, e |-> 1096, m |-> <<21906, 3227, 17212, 7>>], FALSE, <<1>>, 22>>,
  <<[s |-> 1, e |-> 1096, m |-> <<21906, 3227, 17212, 7>>], TRUE, <<1>>, 22>>,
  <<[s |-> 0, e |-> 1099, m |-> <<19190, 4034, 13323, 41>>], FALSE, <<1>>, 23>>,
  <<[s |-> 1, e |-> 1099, m |-> <<19190, 4034, 13323, 41>>], TRUE, <<1>>, 23>>,
  <<[s |-> 0, e |-> 1099, m |-> <<4164, 20015, 15267, 24>>], FALSE, <<8, 9, 9, 9, 9, 9, 9, 9, 9, 9, 9, 9, 9, 9, 9, 9, 1, 6, 1, 1, 3, 9, 2>>, 0>>,
  <<[s |-> 1, e |-> 1099, m |-> <<4164, 20015, 15267, 24>>], TRUE, <<8, 9, 9, 9, 9, 9, 9, 9, 9, 9, 9, 9, 9, 9, 9, 9, 1, 6, 1, 1, 3, 9, 2>>, 0>>,
  <<[s |-> 0, e |-> 0, m |-> <<1, 0, 0, 0>>], FALSE, <<5>>, -324>>,
  <<[s |-> 1, e |-> 0, m |-> <<1, 0, 0, 0>>], TRUE, <<5>>, -324>>,
  <<[s |-> 0, e |-> 0, m |-> <<1, 0, 0, 0>>], FALSE, <<4, 9>>, -325>>,
  <<[s |-> 1, e |-> 0, m |-> <<1, 0, 0, 0>>], TRUE, <<4, 9>>, -325>>,
  <<[s |-> 0, e |-> 0, m |-> <<0, 0, 0, 0>>], FALSE, <<2, 4, 7, 0, 3, 2, 8, 2, 2, 9, 2, 0, 6, 2, 3, 2, 7, 2, 0, 8>>, -343>>,
  <<[s |-> 1, e |-> 0, m |-> <<0, 0, 0, 0>>], TRUE, <<2, 4, 7, 0, 3, 2, 8, 2, 2, 9, 2, 0, 6, 2, 3, 2, 7, 2, 0, 8>>, -343>>,
  <<[s |-> 0, e |-> 0, m |-> <<1, 0, 0, 0>>], FALSE, <<2, 4, 7, 0, 3, 2, 8, 2, 2, 9, 2, 0, 6, 2, 3, 2, 7, 2, 0, 9>>, -343>>,
  <<[s |-> 1, e |-> 0, m |-> <<1, 0, 0, 0>>], TRUE, <<2, 4, 7, 0, 3, 2, 8, 2, 2, 9, 2, 0, 6, 2, 3, 2, 7, 2, 0, 9>>, -343>>,
  <<[s |-> 0, e |-> 0, m |-> <<0, 0, 0, 0>>], FALSE, <<2, 4, 7, 0, 3, 2, 8, 2, 2, 9, 2, 0, 6, 2, 3, 2, 7, 2, 0>>, -342>>,
  <<[s |-> 1, e |-> 0, m |-> <<0, 0, 0, 0>>], TRUE, <<2, 4, 7, 0, 3, 2, 8, 2, 2, 9, 2, 0, 6, 2, 3, 2, 7, 2, 0>>, -342>>,
  <<[s |-> 0, e |-> 1, m |-> <<0, 0, 0, 0>>], FALSE, <<2, 2, 2, 5, 0, 7, 3, 8, 5, 8, 5, 0, 7, 2, 0, 1, 4>>, -324>>,
  <<[s |-> 1, e |-> 1, m |-> <<0, 0, 0, 0>>], TRUE, <<2, 2, 2, 5, 0, 7, 3, 8, 5, 8, 5, 0, 7, 2, 0, 1, 4>>, -324>>,
  <<[s |-> 0, e |-> 0, m |-> <<32767, 32767, 32767, 127>>], FALSE, <<2, 2, 2, 5, 0, 7, 3, 8, 5, 8, 5, 0, 7, 2, 0, 1, 1>>, -324>>,
  <<[s |-> 1, e |-> 0, m |-> <<32767, 32767, 32767, 127>>], TRUE, <<2, 2, 2, 5, 0, 7, 3, 8, 5, 8, 5, 0, 7, 2, 0, 1, 1>>, -324>>,
  <<[s |-> 0, e |-> 2046, m |-> <<32767, 32767, 32767, 127>>], FALSE, <<1, 7, 9, 7, 6, 9, 3, 1, 3, 4, 8, 6, 2, 3, 1, 5, 7>>, 292>>,
  <<[s |-> 1, e |-> 2046, m |-> <<32767, 32767, 32767, 127>>], TRUE, <<1, 7, 9, 7, 6, 9, 3, 1, 3, 4, 8, 6, 2, 3, 1, 5, 7>>, 292>>,
  <<[s |-> 0, e |-> 2046, m |-> <<32767, 32767, 32767, 127>>], FALSE, <<1, 7, 9, 7, 6, 9, 3, 1, 3, 4, 8, 6, 2, 3, 1, 5, 8>>, 292>>,
  <<[s |-> 1, e |-> 2046, m |-> <<32767, 32767, 32767, 127>>], TRUE, <<1, 7, 9, 7, 6, 9, 3, 1, 3, 4, 8, 6, 2, 3, 1, 5, 8>>, 292>>,
  <<[s |-> 0, e |-> 2046, m |-> <<32767, 32767, 32767, 127>>], FALSE, <<1, 7, 9, 7, 6, 9, 3, 1, 3, 4, 8, 6, 2, 3, 1, 5, 8, 0, 7, 9, 3>>, 288>>,
  <<[s |-> 1, e |-> 2046, m |-> <<32767, 32767, 32767, 127>>], TRUE, <<1, 7, 9, 7, 6, 9, 3, 1, 3, 4, 8, 6, 2, 3, 1, 5, 8, 0, 7, 9, 3>>, 288>>,
  <<[s |-> 0, e |-> 2047, m |-> <<0, 0, 0, 0>>], FALSE, <<1, 7, 9, 7, 6, 9, 3, 1, 3, 4, 8, 6, 2, 3, 1, 5, 8, 0, 7, 9, 4>>, 288>>,
  <<[s |-> 1, e |-> 2047, m |-> <<0, 0, 0, 0>>], TRUE, <<1, 7, 9, 7, 6, 9, 3, 1, 3, 4, 8, 6, 2, 3, 1, 5, 8, 0, 7, 9, 4>>, 288>>,
  <<[s |-> 0, e |-> 2047, m |-> <<0, 0, 0, 0>>], FALSE, <<1, 7, 9, 7, 6, 9, 3, 1, 3, 4, 8, 6, 2, 3, 1, 5, 9>>, 292>>,
  <<[s |-> 1, e |-> 2047, m |-> <<0, 0, 0, 0>>], TRUE, <<1, 7, 9, 7, 6, 9, 3, 1, 3, 4, 8, 6, 2, 3, 1, 5, 9>>, 292>>,
  <<[s |-> 0, e |-> 2047, m |-> <<0, 0, 0, 0>>], FALSE, <<1>>, 309>>,
  <<[s |-> 1, e |-> 2047, m |-> <<0, 0, 0, 0>>], TRUE, <<1>>, 309>>,
  <<[s |-> 0, e |-> 2046, m |-> <<18592, 3031, 13262, 14>>], FALSE, <<1>>, 308>>,
  <<[s |-> 1, e |-> 2046, m |-> <<18592, 3031, 13262, 14>>], TRUE, <<1>>, 308>>,
  <<[s |-> 0, e |-> 2047, m |-> <<0, 0, 0, 0>>], FALSE, <<1>>, 400>>,
  <<[s |-> 1, e |-> 2047, m |-> <<0, 0, 0, 0>>], TRUE, <<1>>, 400>>,
  <<[s |-> 0, e |-> 0, m |-> <<0, 0, 0, 0>>], FALSE, <<1>>, -400>>,
  <<[s |-> 1, e |-> 0, m |-> <<0, 0, 0, 0>>], TRUE, <<1>>, -400>>,
  <<[s |-> 0, e |-> 0, m |-> <<0, 0, 0, 0>>], FALSE, <<0>>, 5>>,
  <<[s |-> 1, e |-> 0, m |-> <<0, 0, 0, 0>>], TRUE, <<0>>, 5>>,
  <<[s |-> 0, e |-> 0, m |-> <<0, 0, 0, 0>>], FALSE, <<0, 0, 0>>, -5>>,
  <<[s |-> 1, e |-> 0, m |-> <<0, 0, 0, 0>>], TRUE, <<0, 0, 0>>, -5>>,
  <<[s |-> 0, e |-> 1076, m |-> <<0, 0, 0, 0>>], FALSE, <<9, 0, 0, 7, 1, 9, 9, 2, 5, 4, 7, 4, 0, 9, 9, 3>>, 0>>,
  <<[s |-> 1, e |-> 1076, m |-> <<0, 0, 0, 0>>], TRUE, <<9, 0, 0, 7, 1, 9, 9, 2, 5, 4, 7, 4, 0, 9, 9, 3>>, 0>>,
  <<[s |-> 0, e |-> 1076, m |-> <<0, 0, 0, 0>>], FALSE, <<9, 0, 0, 7, 1, 9, 9, 2, 5, 4, 7, 4, 0, 9, 9, 2>>, 0>>,
  <<[s |-> 1, e |-> 1076, m |-> <<0, 0, 0, 0>>], TRUE, <<9, 0, 0, 7, 1, 9, 9, 2, 5, 4, 7, 4, 0, 9, 9, 2>>, 0>>,
  <<[s |-> 0, e |-> 1076, m |-> <<2, 0, 0, 0>>], FALSE, <<9, 0, 0, 7, 1, 9, 9, 2, 5, 4, 7, 4, 0, 9, 9, 5>>, 0>>,
  <<[s |-> 1, e |-> 1076, m |-> <<2, 0, 0, 0>>], TRUE, <<9, 0, 0, 7, 1, 9, 9, 2, 5, 4, 7, 4, 0, 9, 9, 5>>, 0>>,
  <<[s |-> 0, e |-> 1076, m |-> <<0, 0, 0, 0>>], FALSE, <<9, 0, 0, 7, 1, 9, 9, 2, 5, 4, 7, 4, 0, 9, 9, 2, 5>>, -1>>,
  <<[s |-> 1, e |-> 1076, m |-> <<0, 0, 0, 0>>], TRUE, <<9, 0, 0, 7, 1, 9, 9, 2, 5, 4, 7, 4, 0, 9, 9, 2, 5>>, -1>>,
  <<[s |-> 0, e |-> 1076, m |-> <<1, 0, 0, 0>>], FALSE, <<9, 0, 0, 7, 1, 9, 9, 2, 5, 4, 7, 4, 0, 9, 9, 3, 5, 0, 0, 0, 0, 0, 0, 0, 0, 0, 0, 0, 0, 0, 0, 0, 1>>, -17>>,
  <<[s |-> 1, e |-> 1076, m |-> <<1, 0, 0, 0>>], TRUE, <<9, 0, 0, 7, 1, 9, 9, 2, 5, 4, 7, 4, 0, 9, 9, 3, 5, 0, 0, 0, 0, 0, 0, 0, 0, 0, 0, 0, 0, 0, 0, 0, 1>>, -17>>,
  <<[s |-> 0, e |-> 1119, m |-> <<14142, 32472, 14915, 71>>], FALSE, <<1, 2, 3, 4, 5, 6, 7, 8, 9, 0, 1, 2, 3, 4, 5, 6, 7, 8, 9, 0, 1, 2, 3, 4, 5, 6, 7, 8, 9, 0>>, 0>>,
  <<[s |-> 1, e |-> 1119, m |-> <<14142, 32472, 14915, 71>>], TRUE, <<1, 2, 3, 4, 5, 6, 7, 8, 9, 0, 1, 2, 3, 4, 5, 6, 7, 8, 9, 0, 1, 2, 3, 4, 5, 6, 7, 8, 9, 0>>, 0>>,
  <<[s |-> 0, e |-> 986, m |-> <<27666, 11373, 6143, 89>>], FALSE, <<1, 2, 3, 4, 5, 6, 7, 8, 9, 0, 1, 2, 3, 4, 5, 6, 7, 8, 9, 0, 1, 2, 3, 4, 5, 6, 7, 8, 9, 0>>, -40>>,
  <<[s |-> 1, e |-> 986, m |-> <<27666, 11373, 6143, 89>>], TRUE, <<1, 2, 3, 4, 5, 6, 7, 8, 9, 0, 1, 2, 3, 4, 5, 6, 7, 8, 9, 0, 1, 2, 3, 4, 5, 6, 7, 8, 9, 0>>, -40>>,
  <<[s |-> 0, e |-> 1024, m |-> <<11544, 10376, 2029, 73>>], FALSE, <<3, 1, 4, 1, 5, 9, 2, 6, 5, 3, 5, 8, 9, 7, 9, 3, 2, 3, 8, 4, 6, 2, 6, 4, 3, 3, 8, 3, 2, 7, 9, 5, 0, 2, 8, 8>>, -35>>,
  <<[s |-> 1, e |-> 1024, m |-> <<11544, 10376, 2029, 73>>], TRUE, <<3, 1, 4, 1, 5, 9, 2, 6, 5, 3, 5, 8, 9, 7, 9, 3, 2, 3, 8, 4, 6, 2, 6, 4, 3, 3, 8, 3, 2, 7, 9, 5, 0, 2, 8, 8>>, -35>>,
  <<[s |-> 0, e |-> 1024, m |-> <<22377, 5672, 31786, 45>>], FALSE, <<2, 7, 1, 8, 2, 8, 1, 8, 2, 8, 4, 5, 9, 0, 4, 5>>, -15>>,
  <<[s |-> 1, e |-> 1024, m |-> <<22377, 5672, 31786, 45>>], TRUE, <<2, 7, 1, 8, 2, 8, 1, 8, 2, 8, 4, 5, 9, 0, 4, 5>>, -15>>,
  <<[s |-> 0, e |-> 1101, m |-> <<28786, 22435, 3600, 126>>], FALSE, <<6>>, 23>>,
  <<[s |-> 1, e |-> 1101, m |-> <<28786, 22435, 3600, 126>>], TRUE, <<6>>, 23>>,
  <<[s |-> 0, e |-> 999, m |-> <<12104, 13689, 24522, 86>>], FALSE, <<1>>, -7>>,
  <<[s |-> 1, e |-> 999, m |-> <<12104, 13689, 24522, 86>>], TRUE, <<1>>, -7>>,
  <<[s |-> 0, e |-> 0, m |-> <<5809, 32381, 24811, 70>>], FALSE, <<1, 2, 3>>, -310>>,
  <<[s |-> 1, e |-> 0, m |-> <<5809, 32381, 24811, 70>>], TRUE, <<1, 2, 3>>, -310>>,
  <<[s |-> 0, e |-> 0, m |-> <<14168, 0, 0, 0>>], FALSE, <<7>>, -320>>,
  <<[s |-> 1, e |-> 0, m |-> <<14168, 0, 0, 0>>], TRUE, <<7>>, -320>>,
  <<[s |-> 0, e |-> 0, m |-> <<1, 0, 0, 0>>], FALSE, <<4>>, -324>>,
  <<[s |-> 1, e |-> 0, m |-> <<1, 0, 0, 0>>], TRUE, <<4>>, -324>>,
  <<[s |-> 0, e |-> 0, m |-> <<0, 0, 0, 0>>], FALSE, <<2>>, -324>>,
  <<[s |-> 1, e |-> 0, m |-> <<0, 0, 0, 0>>], TRUE, <<2>>, -324>>,
  <<[s |-> 0, e |-> 0, m |-> <<1, 0, 0, 0>>], FALSE, <<3>>, -324>>,
  <<[s |-> 1, e |-> 0, m |-> <<1, 0, 0, 0>>], TRUE, <<3>>, -324>>,
  <<[s |-> 0, e |-> 0, m |-> <<1, 0, 0, 0>>], FALSE, <<2, 5>>, -325>>,
  <<[s |-> 1, e |-> 0, m |-> <<1, 0, 0, 0>>], TRUE, <<2, 5>>, -325>>,
  <<[s |-> 0, e |-> 0, m |-> <<0, 0, 0, 0>>], FALSE, <<2, 4>>, -325>>,
  <<[s |-> 1, e |-> 0, m |-> <<0, 0, 0, 0>>], TRUE, <<2, 4>>, -325>>,
  <<[s |-> 0, e |-> 229, m |-> <<12282, 30760, 11805, 5>>], FALSE, <<1, 0, 0, 0, 0, 0, 0, 0, 0, 0, 0, 0, 0, 0, 0, 0, 0, 0, 0, 0, 0, 0, 0, 0, 0, 0, 0, 0, 0, 0, 0, 0, 0, 0, 0, 0, 0, 0, 0, 0, 0, 0, 0, 0, 0, 0, 0, 0, 0, 0, 0, 0, 0, 0, 0, 0, 0, 0, 0, 0, 0, 1>>, -300>>,
  <<[s |-> 1, e |-> 229, m |-> <<12282, 30760, 11805, 5>>], TRUE, <<1, 0, 0, 0, 0, 0, 0, 0, 0, 0, 0, 0, 0, 0, 0, 0, 0, 0, 0, 0, 0, 0, 0, 0, 0, 0, 0, 0, 0, 0, 0, 0, 0, 0, 0, 0, 0, 0, 0, 0, 0, 0, 0, 0, 0, 0, 0, 0, 0, 0, 0, 0, 0, 0, 0, 0, 0, 0, 0, 0, 0, 1>>, -300>>,
  <<[s |-> 0, e |-> 1075, m |-> <<0, 19560, 12244, 99>>], FALSE, <<8>>, 15>>,
  <<[s |-> 1, e |-> 1075, m |-> <<0, 19560, 12244, 99>>], TRUE, <<8>>, 15>>,
  <<[s |-> 0, e |-> 1026, m |-> <<0, 0, 0, 112>>], FALSE, <<1, 5>>, 0>>,
  <<[s |-> 1, e |-> 1026, m |-> <<0, 0, 0, 112>>], TRUE, <<1, 5>>, 0>>,
  <<[s |-> 0, e |-> 1024, m |-> <<26214, 19660, 6553, 35>>], FALSE, <<2, 5, 5>>, -2>>,
  <<[s |-> 1, e |-> 1024, m |-> <<26214, 19660, 6553, 35>>], TRUE, <<2, 5, 5>>, -2>>,
  <<[s |-> 0, e |-> 1023, m |-> <<0, 0, 0, 0>>], FALSE, <<1, 0, 0>>, -2>>,
  <<[s |-> 1, e |-> 1023, m |-> <<0, 0, 0, 0>>], TRUE, <<1, 0, 0>>, -2>>,
  <<[s |-> 0, e |-> 1023, m |-> <<0, 0, 0, 0>>], FALSE, <<1, 0, 0, 0, 0, 0, 0>>, -6>>,
  <<[s |-> 1, e |-> 1023, m |-> <<0, 0, 0, 0>>], TRUE, <<1, 0, 0, 0, 0, 0, 0>>, -6>>,
  <<[s |-> 0, e |-> 1091, m |-> <<0, 0, 0, 0>>], FALSE, <<2, 9, 5, 1, 4, 7, 9, 0, 5, 1, 7, 9, 3, 5, 2, 8, 2, 5, 8, 5, 6>>, 0>>,
  <<[s |-> 1, e |-> 1091, m |-> <<0, 0, 0, 0>>], TRUE, <<2, 9, 5, 1, 4, 7, 9, 0, 5, 1, 7, 9, 3, 5, 2, 8, 2, 5, 8, 5, 6>>, 0>>,
  <<[s |-> 0, e |-> 1087, m |-> <<0, 0, 0, 0>>], FALSE, <<1, 8, 4, 4, 6, 7, 4, 4, 0, 7, 3, 7, 0, 9, 5, 5, 1, 6, 1, 6>>, 0>>,
  <<[s |-> 1, e |-> 1087, m |-> <<0, 0, 0, 0>>], TRUE, <<1, 8, 4, 4, 6, 7, 4, 4, 0, 7, 3, 7, 0, 9, 5, 5, 1, 6, 1, 6>>, 0>>,
  <<[s |-> 0, e |-> 1087, m |-> <<0, 0, 0, 0>>], FALSE, <<1, 8, 4, 4, 6, 7, 4, 4, 0, 7, 3, 7, 0, 9, 5, 5, 1, 6, 1, 5>>, 0>>,
  <<[s |-> 1, e |-> 1087, m |-> <<0, 0, 0, 0>>], TRUE, <<1, 8, 4, 4, 6, 7, 4, 4, 0, 7, 3, 7, 0, 9, 5, 5, 1, 6, 1, 5>>, 0>>,
  <<[s |-> 0, e |-> 1086, m |-> <<0, 0, 0, 0>>], FALSE, <<9, 2, 2, 3, 3, 7, 2, 0, 3, 6, 8, 5, 4, 7, 7, 5, 8, 0, 7>>, 0>>,
  <<[s |-> 1, e |-> 1086, m |-> <<0, 0, 0, 0>>], TRUE, <<9, 2, 2, 3, 3, 7, 2, 0, 3, 6, 8, 5, 4, 7, 7, 5, 8, 0, 7>>, 0>>
>>

NTab == Len(DecTab)
NMisc == 12

VARIABLES x, y, k
\* enumerated in Next (not Init): initial states are evaluated on TLC's small main-thread stack
Init == x = 0 /\ y = 0 /\ k = 0
\* two levels (k = -1: x chosen, y pending) so that several workers share the pairs
Next == \/ /\ x = 0 /\ y = 0 /\ k = 0
           /\ \/ x' \in S /\ y' = 0 /\ k' = -1
              \/ x' = 0 /\ y' = 0 /\ k' \in 1..(NTab + NMisc)
        \/ /\ k = -1 /\ x' = x /\ y' \in S /\ k' = -2

Sgn(n) == IF n < 0 THEN -1 ELSE IF n > 0 THEN 1 ELSE 0
RECURSIVE NatBitLen(_)
NatBitLen(n) == IF n = 0 THEN 0 ELSE 1 + NatBitLen(n \div 2)
Abs(n) == IF n < 0 THEN -n ELSE n
F(a) == FloatOfInt(FromInt(a))
\* (2a+1)/2 and (4a+1)/4 as floats
Half(a)    == FromDyadicExact(2 * a + 1 < 0, FromInt(Abs(2 * a + 1)).m, -1)
Quarter(a) == FromDyadicExact(4 * a + 1 < 0, FromInt(Abs(4 * a + 1)).m, -2)
FloorDiv(a, b) == a \div b      \* b > 0: TLA+ \div is floored

PairFacts ==
  LET XB == FromInt(x)
      YB == FromInt(y)
      fx == F(x)
      fy == F(y)
      hx == Half(x)
      qx == Quarter(x)
  IN
  \* integers up to 2^30 convert exactly, with the expected fields
  /\ WellFormed(fx) /\ IsFinite(fx)
  /\ (x = 0) => FSame(fx, PosZero)
  /\ (x # 0) => (fx.e = 1023 + NatBitLen(Abs(x)) - 1 /\ fx.s = (IF x < 0 THEN 1 ELSE 0) /\ IsNormal(fx))
  /\ FTrunc(fx) = XB /\ FFloor(fx) = XB /\ FCeil(fx) = XB /\ FRoundHalfAway(fx) = XB /\ FRoundHalfEven(fx) = XB
  /\ FIsInt(fx) /\ IntEqFloat(XB, fx) /\ FloatIsInt(fx, XB)
  /\ IsFloatOfInt(fx, XB) /\ ~IntTooLarge(XB)
  /\ (x # y) => (~IsFloatOfInt(fx, YB) /\ ~IntEqFloat(YB, fx))
  \* the neighbours of the exact float are not nearest
  /\ ~IsNearest(FSuccMag(fx), XB, One)
  /\ (x # 0) => ~IsNearest(FPredMag(fx), XB, One)
  \* comparison agrees with native comparison
  /\ FCmp(fx, fy) = Sgn(x - y)
  /\ CmpIntFloat(XB, fy) = Sgn(x - y) /\ CmpFloatInt(fx, YB) = Sgn(x - y)
  /\ FLtIEEE(fx, fy) = (x < y) /\ FEqIEEE(fx, fy) = (x = y)
  \* halves: (2x+1)/2
  /\ WellFormed(hx) /\ ~FIsInt(hx)
  /\ FFloor(hx) = XB /\ FCeil(hx) = FromInt(x + 1)
  /\ FTrunc(hx) = FromInt(IF 2 * x + 1 > 0 THEN x ELSE x + 1)
  /\ FRoundHalfAway(hx) = FromInt(IF 2 * x + 1 > 0 THEN x + 1 ELSE x)
  /\ FRoundHalfEven(hx) = FromInt(IF x % 2 = 0 THEN x ELSE x + 1)
  /\ CmpIntFloat(YB, hx) = Sgn(2 * y - (2 * x + 1))
  /\ FCmp(hx, fy) = Sgn((2 * x + 1) - 2 * y)
  /\ FCmp(hx, Half(y)) = Sgn(x - y)
  /\ ~IntEqFloat(YB, hx)
  /\ IsNearest(hx, FromInt(2 * x + 1), FromInt(2))
  /\ IsNearest(hx, FromInt(6 * x + 3), FromInt(6))
  \* quarters: (4x+1)/4 = x + 1/4
  /\ FFloor(qx) = XB /\ FCeil(qx) = FromInt(x + 1) /\ FRoundHalfAway(qx) = XB /\ FRoundHalfEven(qx) = XB
  /\ FTrunc(qx) = FromInt(IF 4 * x + 1 > 0 THEN x ELSE x + 1)
  /\ FCmp(qx, hx) = -1 /\ CmpIntFloat(XB, qx) = -1 /\ CmpIntFloat(FromInt(x + 1), qx) = 1
  \* rationals x / y (y > 0) that are small integers or halves
  /\ (y > 0 /\ x % y = 0) => IsNearest(F(FloorDiv(x, y)), XB, YB)
  /\ (y > 0 /\ x % y # 0) => ~IsNearest(F(FloorDiv(x, y)), XB, YB)
  \* special values against finite ones
  /\ FCmp(PosInf, fx) = 1 /\ FCmp(NegInf, fx) = -1 /\ FCmp(QNaN, fx) = 1 /\ FCmp(fx, QNaN) = -1
  /\ CmpIntFloat(XB, PosInf) = -1 /\ CmpIntFloat(XB, NegInf) = 1 /\ CmpIntFloat(XB, QNaN) = -1
  /\ ~IntEqFloat(XB, PosInf) /\ ~IntEqFloat(XB, QNaN)
  /\ ~FLtIEEE(fx, QNaN) /\ ~FLtIEEE(QNaN, fx) /\ ~FEqIEEE(QNaN, fx)
  /\ CmpIntFloat(XB, MinSub) = (IF x <= 0 THEN -1 ELSE 1)
  /\ CmpIntFloat(XB, FNeg(MinSub)) = (IF x < 0 THEN -1 ELSE 1)
  /\ CmpIntFloat(XB, NegZero) = Sgn(x)
  \* powers of two 2^y, 0 <= y <= 40 (and 2^-y): explicit fields
  /\ (y >= 0 /\ y <= 40) =>
       /\ FSame(FloatOfInt(Pow2(y)), [s |-> 0, e |-> 1023 + y, m |-> <<0, 0, 0, 0>>])
       /\ FSame(FromDyadicExact(FALSE, <<1>>, -y), [s |-> 0, e |-> 1023 - y, m |-> <<0, 0, 0, 0>>])
       /\ FTrunc([s |-> 1, e |-> 1023 + y, m |-> <<0, 0, 0, 0>>]) = INeg(Pow2(y))
       /\ CmpIntFloat(Pow2(y), [s |-> 0, e |-> 1023 + y, m |-> <<0, 0, 0, 0>>]) = 0
       /\ CmpIntFloat(IAdd(Pow2(y), One), [s |-> 0, e |-> 1023 + y, m |-> <<0, 0, 0, 0>>]) = 1
       /\ CmpIntFloat(ISub(Pow2(y), One), [s |-> 0, e |-> 1023 + y, m |-> <<0, 0, 0, 0>>]) = -1

\* round-half-even of 2^53 + d (spacing 2) and 2^54 + d (spacing 4), d natively
Even2(d) == IF d % 2 = 0 THEN d ELSE IF ((d - 1) \div 2) % 2 = 0 THEN d - 1 ELSE d + 1
Even4(d) == LET q == d \div 4
                r == d % 4
            IN IF r < 2 THEN 4 * q ELSE IF r > 2 THEN 4 * q + 4 ELSE IF q % 2 = 0 THEN 4 * q ELSE 4 * q + 4
P53 == Pow2(53)
P54 == Pow2(54)
Big53(d) == IAdd(P53, FromInt(d))
Big54(d) == IAdd(P54, FromInt(d))
\* 2^53 + d for even d as explicit fields: fraction = d/2
F53(d) == [s |-> 0, e |-> 1023 + 53, m |-> <<d \div 2, 0, 0, 0>>]
F54(d) == [s |-> 0, e |-> 1023 + 54, m |-> <<d \div 4, 0, 0, 0>>]

MiscFacts(j) ==
  CASE j = 1 ->   \* rounding at 2^53 (ties to even), both by law and constructively
         \A d \in 0..40 :
           /\ FSame(FloatOfInt(Big53(d)), F53(Even2(d)))
           /\ IsFloatOfInt(F53(Even2(d)), Big53(d))
           /\ FSame(FloatOfInt(INeg(Big53(d))), FNeg(F53(Even2(d))))
           /\ IsFloatOfInt(FNeg(F53(Even2(d))), INeg(Big53(d)))
           /\ (d % 2 = 1) => ~IsFloatOfInt(F53(2 * d - Even2(d)), Big53(d))   \* the other neighbour
           /\ FTrunc(F53(Even2(d))) = Big53(Even2(d))
           /\ CmpIntFloat(Big53(d), F53(Even2(d))) = Sgn(d - Even2(d))
    [] j = 2 ->   \* below 2^53 every integer is exact
         \A d \in 1..40 :
           LET i == ISub(P53, FromInt(d)) IN
           /\ IsFloatOfInt(FloatOfInt(i), i) /\ FTrunc(FloatOfInt(i)) = i /\ IntEqFloat(i, FloatOfInt(i))
           /\ FloatOfInt(i).e = 1023 + 52
    [] j = 3 ->   \* rounding at 2^54 (spacing 4)
         \A d \in 0..40 :
           /\ FSame(FloatOfInt(Big54(d)), F54(Even4(d)))
           /\ IsFloatOfInt(F54(Even4(d)), Big54(d))
           /\ (d % 4 # 0) => ~IsFloatOfInt(F54(IF Even4(d) > d THEN Even4(d) - 4 ELSE Even4(d) + 4), Big54(d))
    [] j = 4 ->   \* overflow threshold 2^1024 - 2^970
         LET T == ISub(Pow2(1024), Pow2(970)) IN
         /\ IntTooLarge(T) /\ IntTooLarge(Pow2(1024)) /\ IntTooLarge(Pow2(3000)) /\ IntTooLarge(INeg(T))
         /\ ~IntTooLarge(ISub(T, One))
         /\ IsFloatOfInt(MaxFinite, ISub(T, One)) /\ FSame(FloatOfInt(ISub(T, One)), MaxFinite)
         /\ FSame(FloatOfInt(T), PosInf) /\ FSame(FloatOfInt(INeg(T)), NegInf)
         /\ FTrunc(MaxFinite) = ISub(Pow2(1024), Pow2(971))
         /\ CmpIntFloat(Pow2(1024), MaxFinite) = 1 /\ CmpIntFloat(Pow2(1024), PosInf) = -1
         /\ FSame(FSuccMag(MaxFinite), PosInf) /\ FSame(FPredMag(PosInf), MaxFinite)
    [] j = 5 ->   \* subnormals: MinSub = 2^-1074; ties at odd multiples of 2^-1075
         /\ Class(MinSub) = "subnormal" /\ Class(MinNormal) = "normal" /\ Class(PosZero) = "zero"
         /\ Class(NegInf) = "inf" /\ Class(QNaN) = "nan"
         /\ IsNearest(MinSub, One, Pow2(1074))
         /\ IsNearest(PosZero, One, Pow2(1075)) /\ ~IsNearest(MinSub, One, Pow2(1075))
         /\ IsNearest(MkFloat(0, 0, <<2>>), FromInt(3), Pow2(1075)) /\ ~IsNearest(MinSub, FromInt(3), Pow2(1075))
         /\ IsNearest(MkFloat(0, 0, <<2>>), FromInt(5), Pow2(1075)) /\ ~IsNearest(MkFloat(0, 0, <<3>>), FromInt(5), Pow2(1075))
         /\ IsNearest(MinSub, IAdd(Pow2(40), One), Pow2(1115))
         /\ IsNearestSigned(NegZero, TRUE, <<1>>, Pow2(1076).m)
         /\ FSame(FromDyadicExact(FALSE, <<1>>, -1074), MinSub)
         /\ FSame(FromDyadicExact(FALSE, <<1>>, -1022), MinNormal)
         /\ FSame(FPredMag(MinNormal), [s |-> 0, e |-> 0, m |-> AllOnes])
         /\ FSame(FSuccMag([s |-> 0, e |-> 0, m |-> AllOnes]), MinNormal)
         /\ FSame(FPredMag(MinSub), PosZero) /\ FSame(FSuccMag(NegZero), FNeg(MinSub))
         /\ FCmp(MinSub, PosZero) = 1 /\ FCmp(FNeg(MinSub), NegZero) = -1 /\ FCmp(MinSub, MinNormal) = -1
         /\ FTrunc(MinSub) = Zero /\ FFloor(FNeg(MinSub)) = FromInt(-1) /\ FCeil(MinSub) = One
         /\ FRoundHalfAway(MinSub) = Zero /\ FCeil(FNeg(MinSub)) = Zero
         \* 2^-1022 - 2^-1074: largest subnormal is nearest to (2^52 - 1) / 2^1074
         /\ IsNearest([s |-> 0, e |-> 0, m |-> AllOnes], ISub(Pow2(52), One), Pow2(1074))
         /\ IsNearest(MinNormal, ISub(Pow2(53), One), Pow2(1075))       \* tie -> even (MinNormal)
    [] j = 6 ->   \* total order on special values
         /\ FCmp(QNaN, QNaN) = 0 /\ FCmp(QNaN, PosInf) = 1 /\ FCmp(NegInf, QNaN) = -1
         /\ FCmp([s |-> 1, e |-> 2047, m |-> <<1, 0, 0, 0>>], QNaN) = 0
         /\ FCmp(NegZero, PosZero) = 0 /\ FCmp(PosInf, PosInf) = 0 /\ FCmp(NegInf, PosInf) = -1
         /\ FCmp(PosInf, MaxFinite) = 1 /\ FCmp(NegInf, FNeg(MaxFinite)) = -1
         /\ ~FEqIEEE(QNaN, QNaN) /\ FEqIEEE(NegZero, PosZero) /\ FLeIEEE(NegInf, PosInf)
         /\ CmpOp("<=", 0) /\ ~CmpOp("<", 0) /\ CmpOp("!=", 1) /\ CmpOp(">=", 1) /\ ~CmpOp(">", -1) /\ CmpOp("==", 0)
         /\ IntEqFloat(Zero, NegZero) /\ IntEqFloat(Zero, PosZero)
    [] j = 7 ->   \* monotone neighbours across exponent boundaries
         \A e \in {1, 2, 1022, 1023, 1024, 1075, 1076, 2045} :
           LET a == [s |-> 0, e |-> e, m |-> AllOnes]
               b == [s |-> 0, e |-> e + 1, m |-> <<0, 0, 0, 0>>]
           IN FSame(FSuccMag(a), b) /\ FSame(FPredMag(b), a) /\ FCmp(a, b) = -1 /\ FCmp(FNeg(a), FNeg(b)) = 1
              /\ FCmp(FPredMag(a), a) = -1
    [] j = 8 ->   \* large exact integers 2^k + 2^(k-52) (two bits set, 53 bits wide) are exact for every k
         \A kk \in {52, 53, 60, 63, 64, 100, 200, 1000, 1023} :
           LET i == IAdd(Pow2(kk), Pow2(kk - 52))
               f == [s |-> 0, e |-> 1023 + kk, m |-> <<1, 0, 0, 0>>]
           IN FSame(FloatOfInt(i), f) /\ IsFloatOfInt(f, i) /\ FTrunc(f) = i /\ IntEqFloat(i, f) /\ FIsInt(f)
              /\ CmpIntFloat(IAdd(i, One), f) = 1 /\ CmpIntFloat(ISub(i, One), f) = -1
              /\ (kk >= 60) => IsFloatOfInt(f, IAdd(i, One))
    [] j = 9 ->   \* halves near 2^52: 2^52 - 1/2 is a float, 2^52 + 1/2 is not
         LET h == FromDyadicExact(FALSE, ISub(Pow2(53), One).m, -1) IN
         /\ h.e = 1023 + 51 /\ h.m = AllOnes
         /\ FFloor(h) = ISub(Pow2(52), One) /\ FCeil(h) = Pow2(52) /\ FRoundHalfAway(h) = Pow2(52)
         /\ FRoundHalfEven(h) = Pow2(52)
         /\ IsNearest(FloatOfInt(Pow2(52)), IAdd(Pow2(53), One), FromInt(2))         \* 2^52 + 1/2 -> 2^52 (even)
         /\ IsNearest(FloatOfInt(IAdd(Pow2(52), FromInt(2))), IAdd(Pow2(53), FromInt(3)), FromInt(2))  \* 2^52+1.5 -> 2^52+2
    [] j = 10 ->  \* helper operators
         /\ \A n \in 0..70 : MBitLen(Pow2(n).m) = n + 1 /\ MShl(<<1>>, n) = Pow2(n).m /\ MShr(Pow2(n).m, n) = <<1>>
                             /\ MShr(Pow2(n).m, n + 1) = <<>> /\ MLowZero(Pow2(n).m, n) /\ ~MLowZero(Pow2(n).m, n + 1)
                             /\ MBitLen(Pow2(n).m) = BitLen(Pow2(n))
         /\ \A n \in 0..30 : MPow10(n) = FromDigits(FALSE, <<1>> \o [q \in 1..n |-> 0], 10).m
         /\ MBitLen(<<>>) = 0 /\ MShl(<<>>, 7) = <<>> /\ MShr(<<5>>, 100) = <<>>
    [] j = 11 ->  \* RatDyCmp / DCmp on far apart magnitudes (quick paths)
         /\ RatDyCmp(Pow2(2000).m, <<1>>, <<1>>, 1999) = 1 /\ RatDyCmp(Pow2(2000).m, <<1>>, <<1>>, 2000) = 0
         /\ RatDyCmp(Pow2(2000).m, <<1>>, <<1>>, 2001) = -1 /\ RatDyCmp(<<1>>, Pow2(2000).m, <<1>>, -2000) = 0
         /\ RatDyCmp(<<3>>, <<2>>, <<3>>, -1) = 0 /\ RatDyCmp(<<3>>, <<2>>, <<1>>, 0) = 1 /\ RatDyCmp(<<3>>, <<2>>, <<1>>, 1) = -1
         /\ DCmp(DyInt(Pow2(200)), FVal(MinSub)) = 1 /\ DCmp(DyInt(INeg(Pow2(200))), FVal(MinSub)) = -1
         /\ DCmp(FVal(MinSub), FVal(MaxFinite)) = -1
    [] OTHER -> TRUE

TabFacts(j) ==
  LET row == DecTab[j]
      f   == row[1]
  IN /\ WellFormed(f)
     /\ IsNearestDec(f, row[2], row[3], row[4])
     /\ IsInf(f) \/ ~IsNearestDec(FSuccMag(f), row[2], row[3], row[4])
     /\ IsFZero(f) \/ ~IsNearestDec(FPredMag(f), row[2], row[3], row[4])
     /\ ~IsNearestDec(FNeg(f), row[2], row[3], row[4])

Facts == IF k \in {0, -1} THEN TRUE
         ELSE IF k = -2 THEN PairFacts
         ELSE IF k <= NTab THEN TabFacts(k)
         ELSE MiscFacts(k - NTab)
=============================================================================
