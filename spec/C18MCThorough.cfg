INIT Init
NEXT Next
INVARIANT Inv
CONSTANTS NumLen = 6 StructLen = 6
