------------------------------- MODULE C15MC -------------------------------
(***************************************************************************)
(* Design-level check of spec/ReprSpec.tla (pattern P-E): known vectors and *)
(* small exhaustive domains on which the oracle itself must be right.        *)
(*   - IntText / Unquote!NumLit / BitInt.FromDigits are inverse on a range   *)
(*   - every code point class: Utf8Points(U!Utf8(p)) = <<p>>; malformed      *)
(*     sequences are rejected                                                *)
(*   - FloatReprOK accepts the shortest and the 17-digit text of a value and *)
(*     rejects the neighbouring float's text                                 *)
(*   - GraphRepr on the classic cyclic graphs                                *)
(***************************************************************************)
EXTENDS ReprSpec, TLC
VARIABLE step

A(str) == str     \* byte sequences are written as tuples of codes below

IntLaw ==
  \A n \in (-1100..1100) \cup {32767, 32768, -32768, 1073741823, -1073741823} :
     LET t == IntText(FromInt(n))
         body == IF n < 0 THEN Tail(t) ELSE t
         lit == U!NumLit(body)
     IN /\ lit.ok /\ lit.kind = "int" /\ lit.base = 10
        /\ IEq(FromDigits(n < 0, lit.digits, 10), FromInt(n))
        /\ (t[1] = 45) = (n < 0)
BigIntVectors ==
  /\ IntText(Pow2(64)) = <<49,56,52,52,54,55,52,52,48,55,51,55,48,57,53,53,49,54,49,54>>        \* 18446744073709551616
  /\ IntText(INeg(Pow2(100))) = <<45,49,50,54,55,54,53,48,54,48,48,50,50,56,50,50,57,52,48,49,52,57,54,55,48,51,50,48,53,51,55,54>>
  /\ IntText(Zero) = <<48>>

Utf8Law ==
  /\ \A p \in (0..2100) \cup (55200..55295) \cup (57344..57400) \cup (65500..65600) \cup (1114000..1114111) \cup {8232, 8233, 65533, 128512} :
        Utf8Points(U!Utf8(p), 1) = <<p>>
  /\ Utf8Points(<<237, 160, 128>>, 1)[1] = -1            \* a surrogate
  /\ Utf8Points(<<192, 128>>, 1)[1] = -1                 \* overlong
  /\ Utf8Points(<<224, 128, 128>>, 1)[1] = -1            \* overlong
  /\ Utf8Points(<<244, 144, 128, 128>>, 1)[1] = -1       \* above 10FFFF
  /\ Utf8Points(<<195>>, 1) = <<-1>>                     \* truncated
  /\ Utf8Points(<<128>>, 1) = <<-1>>
  /\ TextClean(<<34, 195, 169, 92, 110, 34>>) /\ ~TextClean(<<34, 10, 34>>) /\ ~TextClean(<<34, 127, 34>>)
  /\ ~TextClean(<<34, 194, 133, 34>>) /\ ~TextClean(<<34, 226, 128, 168, 34>>) /\ ~TextClean(<<34, 255, 34>>)

Alphabet == {65, 10, 127, 128, 159, 160, 168, 191, 192, 194, 195, 224, 226, 237, 240, 244, 245}
CleanAgree ==
  /\ \A n \in 0..3 : \A t \in [1..n -> Alphabet] : TextClean(t) = TextCleanRef(t)
  /\ \A a \in {226, 240, 244, 237}, b \in {128, 143, 144, 159, 160}, c \in {128, 168, 169}, d \in {65, 128} :
        TextClean(<<a, b, c, d>>) = TextCleanRef(<<a, b, c, d>>)

StrVectors ==
  /\ StrReprOK(<<34, 97, 92, 110, 92, 34, 34>>, <<97, 10, 34>>, FALSE)                  \* "a\n\""
  /\ StrReprOK(<<98, 34, 92, 120, 102, 102, 34>>, <<255>>, TRUE)                          \* b"\xff"
  /\ ~StrReprOK(<<34, 92, 120, 102, 102, 34>>, <<255>>, FALSE)                            \* "\xff" is not a text literal
  /\ StrReprOK(<<34, 92, 117, 50, 48, 50, 56, 34>>, <<226, 128, 168>>, FALSE)            \* " "
  /\ ~StrReprOK(<<34, 97, 34, 34>>, <<97, 34>>, FALSE)                                    \* "a"" is not one literal
  /\ ~StrReprOK(<<34, 97, 34>>, <<97>>, TRUE)

F(s, e, m) == [s |-> s, e |-> e, m |-> m]
Tenth == F(0, 1019, <<6554, 13107, 26214, 76>>)        \* 0.1 = 0x3FB999999999999A
FloatVectors ==
  /\ FloatReprOK(<<48, 46, 49>>, Tenth)                                                   \* 0.1
  /\ FloatReprOK(<<49, 101, 45, 48, 49>>, Tenth)                                          \* 1e-01
  /\ FloatReprOK(<<48, 46, 49, 48, 48, 48, 48, 48, 48, 48, 48, 48, 48, 48, 48, 48, 48, 48, 48, 53, 53, 53, 49, 49>>, Tenth)   \* 0.1000000000000000055511
  /\ ~FloatReprOK(<<48, 46, 49>>, F(0, 1019, <<6555, 13107, 26214, 76>>))                \* the next float is not 0.1
  /\ ~FloatReprOK(<<48, 46, 49>>, F(1, 1019, <<6554, 13107, 26214, 76>>))
  /\ FloatReprOK(<<45, 48, 46, 48>>, NegZero) /\ ~FloatReprOK(<<48, 46, 48>>, NegZero) /\ FloatReprOK(<<48, 46, 48>>, PosZero)
  /\ FloatReprOK(<<53, 101, 45, 51, 50, 52>>, MinSub)                                     \* 5e-324
  /\ FloatReprOK(<<49, 46, 55, 57, 55, 54, 57, 51, 49, 51, 52, 56, 54, 50, 51, 49, 53, 55, 101, 43, 51, 48, 56>>, MaxFinite)   \* 1.7976931348623157e+308
  /\ ~FloatReprOK(<<49>>, F(0, 1023, <<0, 0, 0, 0>>))                                     \* "1" is an int literal
  /\ ~FloatReprOK(<<43, 105, 110, 102>>, PosInf)                                          \* +inf is not source text
  /\ FloatReprOK(<<49, 46, 48>>, F(0, 1023, <<0, 0, 0, 0>>))

L(c) == [k |-> "list", c |-> c]
Dd(c) == [k |-> "dict", c |-> c]
Tp(c) == [k |-> "tuple", c |-> c]
Lf(v) == [k |-> "leaf", v |-> v]
GraphVectors ==
  /\ GraphRepr(<<L(<<1>>)>>, 1, {}) = <<91, 91, 46, 46, 46, 93, 93>>                                  \* [[...]]
  /\ GraphRepr(<<Dd(<< <<2, 1>> >>), Lf([t |-> "int", v |-> 1])>>, 1, {}) = <<123, 49, 58, 32, 123, 46, 46, 46, 125, 125>>   \* {1: {...}}
  /\ GraphRepr(<<L(<<2>>), Tp(<<1>>)>>, 1, {}) = <<91, 40, 91, 46, 46, 46, 93, 44, 41, 93>>          \* [([...],)]
  /\ GraphRepr(<<L(<<2, 2>>), L(<<>>)>>, 1, {}) = <<91, 91, 93, 44, 32, 91, 93, 93>>                  \* [[], []]  shared, not cyclic
  /\ GraphRepr(<<Tp(<<>>)>>, 1, {}) = <<40, 41>>
  /\ GraphRepr(<<L(<<2, 3, 4>>), Lf([t |-> "none"]), Lf([t |-> "bool", v |-> TRUE]), Lf([t |-> "str", v |-> <<97>>])>>, 1, {})
        = <<91, 78, 111, 110, 101, 44, 32, 84, 114, 117, 101, 44, 32, 34, 97, 34, 93>>

Laws == <<IntLaw, BigIntVectors, Utf8Law, CleanAgree, StrVectors, FloatVectors, GraphVectors>>
NLaws == 7
Init == step = 0
Next == step < NLaws /\ step' = step + 1
LawHolds == step = 0 \/ Laws[step]
=============================================================================
