------------------------------- MODULE C12MC -------------------------------
(***************************************************************************)
(* Product of the abstract ordered map and the concrete hash table over a  *)
(* small key universe.  Used for                                           *)
(*  (1) the design check: ConcreteOK and the refinement CAbs = al hold in  *)
(*      every reachable state (scaled-down constants make chain overflow   *)
(*      and growth reachable);                                             *)
(*  (2) transition cover (spec -> code): with VIEW hiding the history,     *)
(*      ACTION_CONSTRAINT Emit prints every transition once with a         *)
(*      shortest path to its source state; the harness replays each path   *)
(*      on the real dict / set and compares result and state.              *)
(***************************************************************************)
EXTENDS Hashtable, Json

CONSTANTS Mode,       \* "dict" | "set"
          NK,         \* keys are 1..NK
          HSel        \* which hash assignment

\* three keys share one hash; one key has hash 0 (stored as 1)
H == IF HSel = 1 THEN <<7, 7, 7, 3, 0, 1>> ELSE <<4, 4, 4, 6, 0, 2>>
Keys == 1..NK
Vals == IF Mode = "dict" THEN {1, 2} ELSE {0}

\* operands of update / | / set algebra (sequences; pairs for dicts)
SetOperandSeq  == << <<>>, <<1>>, <<2, 1>>, <<4, 4>>, <<3, NK, 1>>, <<4, 3, 2, 1>> >>
DictOperandSeq == << <<>>, <<<<2, 2>>>>, <<<<3, 1>>, <<1, 2>>>>, <<<<NK, 1>>, <<NK, 2>>, <<2, 1>>>> >>
SetOperands  == 1..Len(SetOperandSeq)
DictOperands == 1..Len(DictOperandSeq)
SO(n) == SetOperandSeq[n]
DO(n) == DictOperandSeq[n]

VARIABLES al, table, order, hist, res
vars == <<al, table, order, hist, res>>
View == <<al, table, order>>

R(ok, a, b) == <<IF ok THEN 1 ELSE 0, a, b>>
Step(op, al2, c2, r) ==
  /\ al' = al2 /\ table' = c2[1] /\ order' = c2[2]
  /\ hist' = Append(hist, op) /\ res' = r
Same == <<table, order>>
RECURSIVE CInsAll(_, _, _)
CInsAll(t, o, pairs) == IF pairs = <<>> THEN <<t, o>>
                        ELSE LET x == CInsert(t, o, H, pairs[1][1], pairs[1][2]) IN CInsAll(x[1], x[2], Tail(pairs))
Pairs0(t) == [n \in 1..Len(t) |-> <<t[n], 0>>]

Init == al = <<>> /\ table = EmptyTable(1) /\ order = <<>> /\ hist = <<>> /\ res = R(TRUE, <<>>, <<>>)

DictNext ==
  \/ \E k \in Keys, v \in Vals : Step(<<1, k, v>>, AIns(al, k, v), CInsert(table, order, H, k, v), R(TRUE, <<>>, <<>>))
  \/ \E k \in Keys : IF AHas(al, k)
       THEN Step(<<2, k>>, ADel(al, k), CDelete(table, order, H, k), R(TRUE, <<AGet(al, k)>>, <<>>))
       ELSE Step(<<2, k>>, al, Same, R(FALSE, <<>>, <<>>))
  \/ \E k \in Keys : Step(<<3, k>>, ADel(al, k), CDelete(table, order, H, k),
                          R(TRUE, <<IF AHas(al, k) THEN AGet(al, k) ELSE 9>>, <<>>))
  \/ IF al = <<>> THEN Step(<<4>>, al, Same, R(FALSE, <<>>, <<>>))
     ELSE Step(<<4>>, Tail(al), CDelete(table, order, H, al[1][1]), R(TRUE, <<al[1][1]>>, <<al[1][2]>>))
  \/ \E k \in Keys, v \in Vals :
       IF AHas(al, k) THEN Step(<<5, k, v>>, al, Same, R(TRUE, <<AGet(al, k)>>, <<>>))
       ELSE Step(<<5, k, v>>, AIns(al, k, v), CInsert(table, order, H, k, v), R(TRUE, <<v>>, <<>>))
  \/ \E p \in DictOperands : Step(<<6, p>>, AInsAll(al, DO(p)), CInsAll(table, order, DO(p)), R(TRUE, <<>>, <<>>))
  \/ Step(<<7>>, <<>>, <<CClear(table), <<>>>>, R(TRUE, <<>>, <<>>))
  \* probes (no state change)
  \/ \E k \in Keys : Step(<<8, k>>, al, Same, R(TRUE, IF AHas(al, k) THEN <<AGet(al, k)>> ELSE <<>>, <<>>))
  \/ \E p \in DictOperands : Step(<<9, p>>, al, Same, R(TRUE, AKeySeq(AUnion(al, DO(p))), AValSeq(AUnion(al, DO(p)))))

S == AKeySeq(al)
SetNext ==
  \/ \E k \in Keys : Step(<<11, k>>, AIns(al, k, 0), CInsert(table, order, H, k, 0), R(TRUE, <<>>, <<>>))
  \/ \E k \in Keys : Step(<<12, k>>, ADel(al, k), CDelete(table, order, H, k), R(TRUE, <<>>, <<>>))
  \/ \E k \in Keys : IF AHas(al, k)
       THEN Step(<<13, k>>, ADel(al, k), CDelete(table, order, H, k), R(TRUE, <<>>, <<>>))
       ELSE Step(<<13, k>>, al, Same, R(FALSE, <<>>, <<>>))
  \/ IF al = <<>> THEN Step(<<14>>, al, Same, R(FALSE, <<>>, <<>>))
     ELSE Step(<<14>>, Tail(al), CDelete(table, order, H, al[1][1]), R(TRUE, <<al[1][1]>>, <<>>))
  \/ \E t \in SetOperands : Step(<<15, t>>, AInsAll(al, Pairs0(SO(t))), CInsAll(table, order, Pairs0(SO(t))), R(TRUE, <<>>, <<>>))
  \/ Step(<<7>>, <<>>, <<CClear(table), <<>>>>, R(TRUE, <<>>, <<>>))
  \* probes
  \/ \E k \in Keys : Step(<<16, k>>, al, Same, R(TRUE, <<IF AHas(al, k) THEN 1 ELSE 0>>, <<>>))
  \/ \E t \in SetOperands :
       \/ Step(<<17, t>>, al, Same, R(TRUE, SUnion(S, SO(t)), <<>>))
       \/ Step(<<18, t>>, al, Same, R(TRUE, SInter(S, SO(t)), <<>>))
       \/ Step(<<19, t>>, al, Same, R(TRUE, SDiff(S, SO(t)), <<>>))
       \/ Step(<<20, t>>, al, Same, R(TRUE, SSym(S, SO(t)), <<>>))
       \/ Step(<<21, t>>, al, Same, R(TRUE, <<IF SSubset(S, SO(t)) THEN 1 ELSE 0>>, <<>>))
       \/ Step(<<22, t>>, al, Same, R(TRUE, <<IF SSuperset(S, SO(t)) THEN 1 ELSE 0>>, <<>>))

Next == IF Mode = "dict" THEN DictNext ELSE SetNext

\* design invariants
Refines == CAbs(table, order) = al
TableOK == ConcreteOK(table, order, H)
NoDupKeys == Cardinality(AKeys(al)) = Len(al)

\* op codes: 1 ins k v | 2 pop k | 3 pop k dflt(9) | 4 popitem | 5 setdefault k v | 6 update operand# | 7 clear |
\* 8 get k | 9 union operand# | 11 add | 12 discard | 13 remove | 14 pop | 15 update operand# | 16 has |
\* 17 union 18 intersection 19 difference 20 symmetric_difference 21 issubset 22 issuperset (operand#)
Emit == PrintT("E" \o ToJson(<<hist', al', res'>>))
\* the operand tables, printed once so that the harness uses the specification's own operands
ASSUME PrintT("OPERANDS" \o ToJson(<<SetOperandSeq, DictOperandSeq, SubSeq(H, 1, NK)>>))
=============================================================================
