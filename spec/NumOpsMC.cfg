CONSTANT Tier = 1
INIT Init
NEXT Next
INVARIANT Facts
