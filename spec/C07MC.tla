------------------------------- MODULE C07MC -------------------------------
(***************************************************************************)
(* All interleavings of one thread executing a K-instruction program up to *)
(* MaxExec times with host cancellations (two reasons), Uncancel and a     *)
(* step limit.  Safety properties are checked on every state; every        *)
(* finished history is emitted for replay on the real interpreter.         *)
(***************************************************************************)
EXTENDS Steps, Json

CONSTANTS K, MaxExec, Limit, MaxCancels, Relimits
VARIABLES hist, ncancel
vars == <<steps, max, cancel, phase, pc, execs, hist, ncancel>>

Init == SInit(Limit) /\ hist = <<>> /\ ncancel = 0

Log(a) == hist' = Append(hist, a)
HeadAct == LoopHead(K) /\ Log(<<"head", 0>>) /\ UNCHANGED ncancel
ExecAct == Exec(K) /\ Log(<<"exec", 0>>) /\ UNCHANGED ncancel
Next ==
  \/ (Len(execs) < MaxExec /\ Start /\ Log(<<"start", 0>>) /\ UNCHANGED ncancel)
  \/ HeadAct
  \/ ExecAct
  \* a host cancellation while an instruction (or a built-in call) is in flight ...
  \/ \E r \in {1, 2} : ncancel < MaxCancels /\ phase = "exec" /\ ExtCancel(r) /\ Log(<<"cancel", r>>) /\ ncancel' = ncancel + 1
  \* ... or between executions
  \/ \E r \in {1, 2} : ncancel < MaxCancels /\ phase = "idle" /\ ExtCancel(r) /\ Log(<<"icancel", r>>) /\ ncancel' = ncancel + 1
  \/ (Uncancel /\ cancel # 0 /\ Len(execs) < MaxExec /\ Log(<<"uncancel", 0>>) /\ UNCHANGED ncancel)
  \* the host sets another limit between two executions (at most once per history)
  \/ \E n \in Relimits : /\ Len(execs) >= 1 /\ Len(execs) < MaxExec /\ \A j \in 1..Len(hist) : hist[j][1] # "setlimit"
                           /\ SetLimit(n) /\ Log(<<"setlimit", n>>) /\ UNCHANGED ncancel

\* with limit N fewer than N instructions ever execute on the thread
Executed == LET RECURSIVE Sum(_) Sum(s) == IF s = <<>> THEN 0 ELSE s[1][1] + Sum(Tail(s)) IN Sum(execs) + pc
NoRelimit == \A j \in 1..Len(hist) : hist[j][1] # "setlimit"
UnderLimit == /\ (Limit > 0 /\ NoRelimit) => Executed < Limit
              /\ (max > 0 /\ phase = "exec") => steps < max        \* an instruction executes only below the current limit
\* first reason wins; a reason only disappears through Uncancel
FirstWins == [][cancel # 0 => cancel' \in {cancel, 0}]_vars
\* once cancelled, at most the instruction already past the test executes
NoRunAfterCancel == [][(cancel # 0 /\ phase = "head") => (phase' = "idle" /\ pc' = 0)]_vars
\* a cancelled thread eventually stops (checked with fairness on the thread's own steps)
Fair == WF_vars(HeadAct) /\ WF_vars(ExecAct)
Spec == Init /\ [][Next]_vars /\ Fair
Stops == (cancel # 0 /\ phase # "idle") ~> (phase = "idle")

Emit == (phase = "idle" /\ Len(execs) >= 1) => PrintT("H" \o ToJson([hist |-> hist, execs |-> execs, cancel |-> cancel, steps |-> steps]))
=============================================================================
