INIT Init
NEXT Next
INVARIANT Acc
POSTCONDITION Done
