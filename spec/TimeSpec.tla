------------------------------ MODULE TimeSpec ------------------------------
(***************************************************************************)
(* Oracle for C19 "time and duration arithmetic is consistent".            *)
(*                                                                         *)
(* Written from the documentation of the module (the doc comment of        *)
(* lib/time: function list and operator table), doc/spec.md (comparisons   *)
(* of unequal types, meaning of the operators) and the calendar, NOT from  *)
(* the Go code.                                                            *)
(*                                                                         *)
(*   * an instant is an exact integer: nanoseconds since 1970-01-01T00:00Z *)
(*     (BitInt); its time zone is a label (field z) that no operator of    *)
(*     this module reads, so ==, <, hashing and arithmetic are zone        *)
(*     independent by construction;                                        *)
(*   * a duration is an exact integer number of nanoseconds; the values    *)
(*     the type can hold are the signed 64-bit range (+-292.47 years);     *)
(*   * Table(kindL, op, kindR) is the documented operator table over       *)
(*     ORDERED operand kinds: the result kind, or "reject";                *)
(*   * Judge(L, op, R, observed) classifies an observed outcome of the     *)
(*     implementation: "ok", "bad", or a named note for outcomes on which  *)
(*     the documentation is silent (results that do not fit the duration   *)
(*     type, rounding direction of inexact quotients).                     *)
(*   * Civil dates: proleptic Gregorian calendar (DaysFromCivil), used for *)
(*     the component attributes, time(...) and RFC 3339 texts with numeric *)
(*     offsets;  duration texts: the grammar "[+-] (number unit)+".        *)
(***************************************************************************)
EXTENDS BitInt

I(n) == FromInt(n)

TD      == {"time", "duration"}
Kinds   == {"time", "duration", "int", "float", "other"}
ArithOps == {"+", "-", "*", "/", "//", "%"}
OrdOps  == {"<", "<=", ">", ">="}
EqOps   == {"==", "!="}
Ops     == ArithOps \cup OrdOps \cup EqOps
\* the declared domain of the operator table: at least one operand is a time or a duration
Declared == {e \in Kinds \X Ops \X Kinds : e[1] \in TD \/ e[3] \in TD}

(***************************************************************************)
(* The operator table (ordered operand kinds).                             *)
(*   duration + duration = duration      time + duration = time            *)
(*   duration + time     = time          time - duration = time            *)
(*   duration - duration = duration      time - time     = duration        *)
(*   duration / duration = float         duration * int  = duration        *)
(*   duration / int      = duration      int * duration  = duration        *)
(*   duration / float    = duration      duration // duration = int        *)
(* ordered comparisons within one kind; == and != are defined for all      *)
(* operands (values of different kinds are unequal); everything else is    *)
(* rejected - in particular duration - time, int / duration,               *)
(* float / duration, int - duration.                                       *)
(***************************************************************************)
Table(a, op, b) ==
  CASE op = "+"  /\ a = "duration" /\ b = "duration" -> "duration"
    [] op = "+"  /\ a = "duration" /\ b = "time"     -> "time"
    [] op = "+"  /\ a = "time"     /\ b = "duration" -> "time"
    [] op = "-"  /\ a = "duration" /\ b = "duration" -> "duration"
    [] op = "-"  /\ a = "time"     /\ b = "duration" -> "time"
    [] op = "-"  /\ a = "time"     /\ b = "time"     -> "duration"
    [] op = "/"  /\ a = "duration" /\ b = "duration" -> "float"
    [] op = "/"  /\ a = "duration" /\ b = "int"      -> "duration"
    [] op = "/"  /\ a = "duration" /\ b = "float"    -> "duration"
    [] op = "//" /\ a = "duration" /\ b = "duration" -> "int"
    [] op = "*"  /\ a = "duration" /\ b = "int"      -> "duration"
    [] op = "*"  /\ a = "int"      /\ b = "duration" -> "duration"
    [] op \in OrdOps /\ a = b /\ a \in TD            -> "bool"
    [] op \in EqOps                                  -> "bool"
    [] OTHER                                         -> "reject"

Accepted == {e \in Declared : Table(e[1], e[2], e[3]) # "reject"}

(***************************************************************************)
(* Values.  An operand is [k |-> kind, n |-> BitInt, p |-> Int, q |-> Int, *)
(* z |-> label]:  n is the instant / the duration in ns / the int value;   *)
(* a float operand is the exact rational p/q (q > 0, small).               *)
(***************************************************************************)
E9     == I(1000000000)
P52    == Pow2(52)
P63    == Pow2(63)
P64    == Pow2(64)
MaxI64 == ISub(P63, I(1))
MinI64 == INeg(P63)
Mask64 == ISub(P64, I(1))
InI64(x)   == ILe(MinI64, x) /\ ILe(x, MaxI64)
Cong64(a, b) == IEq(IAnd(a, Mask64), IAnd(b, Mask64))      \* a = b (mod 2^64)
Clamp64(x) == IF ILt(x, MinI64) THEN MinI64 ELSE IF ILt(MaxI64, x) THEN MaxI64 ELSE x
\* float -> int64 conversion is only meaningful well inside the range
NearMax == ISub(P63, I(4096))

\* instant denoted by from_timestamp(sec, nsec): seconds and nanoseconds since the epoch
Instant(sec, nsec) == IAdd(IMul(sec, E9), nsec)

CmpVal(L, op, R) ==
  IF L.k # R.k THEN op = "!="                 \* only == and != are defined across kinds
  ELSE LET c == ICmp(L.n, R.n) IN
       CASE op = "<"  -> c < 0  [] op = "<=" -> c <= 0
         [] op = ">"  -> c > 0  [] op = ">=" -> c >= 0
         [] op = "==" -> c = 0  [] op = "!=" -> c # 0

\* exact integer result of the entries + - *
Exact(L, op, R) ==
  CASE op = "+" -> IAdd(L.n, R.n)
    [] op = "-" -> ISub(L.n, R.n)
    [] op = "*" -> IMul(L.n, R.n)

\* q is a quotient of x by y up to rounding: |x - q*y| < |y|
DivLaw(x, y, q) == ~IsZero(y) /\ MCmp(ISub(x, IMul(q, y)).m, y.m) < 0
IsFloorQ(x, y, q) == FloorDivModOK(x, y, q, ISub(x, IMul(q, y)))

(***************************************************************************)
(* Observed outcomes:  [k |-> "reject"]  |  [k |-> "time"|"duration"|"int", *)
(* n |-> BitInt]  |  [k |-> "bool", b]  |  [k |-> "float", neg, zero, fin]   *)
(* | [k |-> "other"].                                                      *)
(* Verdicts: "ok"; "bad"; notes (not violations, counted in the evidence): *)
(*  "ovf-reject"  the exact result does not fit the type and the operation *)
(*                was rejected                                             *)
(*  "wrap"        ... and the result is the exact one modulo 2^64          *)
(*  "sat"         ... and the result is the exact one clamped to int64     *)
(*  "bigint-reject" an int operand outside int64 was rejected              *)
(*  "float-range" quotient by a float outside the convertible range        *)
(*  "ok-notfloor" inexact quotient rounded, but not towards -infinity      *)
(***************************************************************************)
JudgeExact(want, ex, bigop, o) ==
  IF InI64(ex) /\ ~bigop
  THEN (IF o.k = want /\ IEq(o.n, ex) THEN "ok" ELSE "bad")
  ELSE IF o.k = "reject" THEN (IF bigop THEN "bigint-reject" ELSE "ovf-reject")
  ELSE IF o.k # want THEN "bad"
  ELSE IF IEq(o.n, ex) THEN "ok"
  ELSE IF bigop THEN "bad"
  ELSE IF Cong64(o.n, ex) THEN "wrap"
  ELSE IF IEq(o.n, Clamp64(ex)) THEN "sat"
  ELSE "bad"

JudgeDiv(want, x, y, bigop, o) ==
  IF IsZero(y) THEN (IF o.k = "reject" THEN "ok" ELSE "bad")
  ELSE IF bigop /\ o.k = "reject" THEN "bigint-reject"
  ELSE IF o.k # want THEN "bad"
  ELSE IF DivLaw(x, y, o.n) THEN (IF IsFloorQ(x, y, o.n) THEN "ok" ELSE "ok-notfloor")
  ELSE IF IEq(x, MinI64) /\ IEq(y, I(-1)) /\ Cong64(o.n, P63) THEN "wrap"
  ELSE "bad"

\* duration / float (f = p/q exactly, q > 0) -> duration: acceptance, kind, sign;
\* where binary64 represents everything involved exactly enough, also |r - d/f| < 2
JudgeDivFloat(d, p, q, o) ==
  IF p = 0 THEN (IF o.k = "reject" THEN "ok" ELSE "bad")
  ELSE IF o.k # "duration" THEN "bad"
  ELSE LET num == IMul(d, I(q))                        \* exact quotient is num / p
           ap  == I(IF p < 0 THEN -p ELSE p)
           sg  == ISign(d) * (IF p < 0 THEN -1 ELSE 1)
       IN IF MCmp(num.m, IMul(ap, NearMax).m) >= 0 THEN "float-range"
          ELSE IF ~InI64(o.n) THEN "bad"
          ELSE IF ISign(o.n) # 0 /\ ISign(o.n) # sg THEN "bad"
          ELSE IF IsZero(o.n) /\ MCmp(num.m, IMul(ap, I(2)).m) >= 0 THEN "bad"
          ELSE IF /\ MCmp(d.m, P52.m) < 0
                  /\ MCmp(num.m, IMul(ap, P52).m) < 0
                  /\ MCmp(ISub(IMul(o.n, I(p)), num).m, IMul(ap, I(2)).m) >= 0 THEN "bad"
          ELSE "ok"

\* duration / duration -> float: acceptance, kind, finiteness, zero-ness and sign
JudgeDivDD(x, y, o) ==
  IF IsZero(y) THEN (IF o.k = "reject" THEN "ok" ELSE "bad")
  ELSE IF /\ o.k = "float" /\ o.fin
          /\ (o.zero <=> IsZero(x))
          /\ (~o.zero => (o.neg <=> (x.neg # y.neg)))
       THEN "ok" ELSE "bad"

IsBigOp(X) == X.k = "int" /\ ~InI64(X.n)

Judge(L, op, R, o) ==
  LET want == Table(L.k, op, R.k) IN
  IF want = "reject" THEN (IF o.k = "reject" THEN "ok" ELSE "bad")
  ELSE IF want = "bool" THEN (IF o.k = "bool" /\ o.b = CmpVal(L, op, R) THEN "ok" ELSE "bad")
  ELSE IF op \in {"+", "-", "*"} THEN JudgeExact(want, Exact(L, op, R), IsBigOp(L) \/ IsBigOp(R), o)
  ELSE IF op = "//" THEN JudgeDiv("int", L.n, R.n, FALSE, o)
  ELSE IF R.k = "int" THEN JudgeDiv("duration", L.n, R.n, IsBigOp(R), o)
  ELSE IF R.k = "float" THEN JudgeDivFloat(L.n, R.p, R.q, o)
  ELSE JudgeDivDD(L.n, R.n, o)

(***************************************************************************)
(* Civil calendar (proleptic Gregorian).  TLA+ \div and % are floored.     *)
(***************************************************************************)
IsLeap(y) == (y % 4 = 0 /\ y % 100 # 0) \/ y % 400 = 0
DaysInMonth(y, m) ==
  CASE m \in {1, 3, 5, 7, 8, 10, 12} -> 31
    [] m \in {4, 6, 9, 11} -> 30
    [] m = 2 -> IF IsLeap(y) THEN 29 ELSE 28
\* days from 1970-01-01 to y-m-d (m in 1..12, d in 1..31)
DaysFromCivil(y, m, d) ==
  LET yy  == IF m <= 2 THEN y - 1 ELSE y
      era == yy \div 400
      yoe == yy % 400
      mp  == (m + 9) % 12                       \* March = 0
      doy == (153 * mp + 2) \div 5 + d - 1
      doe == yoe * 365 + yoe \div 4 - yoe \div 100 + doy
  IN era * 146097 + doe - 719468

\* c = <<year, month, day, hour, minute, second, nanosecond>>
ValidCivil(c) ==
  /\ c[2] \in 1..12 /\ c[3] >= 1 /\ c[3] <= DaysInMonth(c[1], c[2])
  /\ c[4] \in 0..23 /\ c[5] \in 0..59 /\ c[6] \in 0..59
  /\ c[7] >= 0 /\ c[7] <= 999999999
\* the instant with wall clock c in a zone `off` seconds east of UTC
CivilInstant(c, off) ==
  LET secs == IAdd(IMul(I(DaysFromCivil(c[1], c[2], c[3])), I(86400)),
                   I(c[4] * 3600 + c[5] * 60 + c[6] - off))
  IN IAdd(IMul(secs, E9), I(c[7]))
\* c is the wall clock of instant ns in that zone (unique when valid)
CivilOK(ns, off, c) == ValidCivil(c) /\ IEq(CivilInstant(c, off), ns)

(***************************************************************************)
(* Duration texts: "a possibly signed sequence of decimal numbers, each    *)
(* with optional fraction and a unit suffix"; units ns us µs ms s m h.     *)
(* s is a sequence of bytes.  DurEval(s) = [ok, exact, n]: ok = the text is *)
(* in the language; exact = every term is a whole number of ns; n = value. *)
(***************************************************************************)
IsDig(c) == c >= 48 /\ c <= 57
RECURSIVE DigitsEnd(_, _)
DigitsEnd(s, i) == IF i <= Len(s) /\ IsDig(s[i]) THEN DigitsEnd(s, i + 1) ELSE i
RECURSIVE UnitEnd(_, _)
UnitEnd(s, i) == IF i <= Len(s) /\ ~IsDig(s[i]) /\ s[i] # 46 THEN UnitEnd(s, i + 1) ELSE i
Digs(s, i, j) == [k \in 1..(j - i) |-> s[i + k - 1] - 48]            \* s[i..j-1] as digit values
UnitScale(u) ==                                                     \* ns per unit, Zero = unknown unit
  CASE u = <<110, 115>> -> I(1)                                     \* ns
    [] u = <<117, 115>> -> I(1000)                                  \* us
    [] u = <<194, 181, 115>> -> I(1000)                             \* µs (U+00B5)
    [] u = <<206, 188, 115>> -> I(1000)                             \* μs (U+03BC)
    [] u = <<109, 115>> -> I(1000000)                               \* ms
    [] u = <<115>> -> E9                                            \* s
    [] u = <<109>> -> IMul(I(60), E9)                               \* m
    [] u = <<104>> -> IMul(I(3600), E9)                             \* h
    [] OTHER -> Zero
\* divide a magnitude k times by ten: <<quotient magnitude, all remainders zero>>
RECURSIVE DivTen(_, _)
DivTen(m, k) == IF k = 0 THEN <<m, TRUE>>
                ELSE LET qr == MDivSmall(m, 10) r == DivTen(qr[1], k - 1) IN <<r[1], r[2] /\ qr[2] = 0>>
RECURSIVE DurTerms(_, _)
DurTerms(s, i) ==                                   \* terms from position i: [ok, exact, n] (n >= 0)
  IF i > Len(s) THEN [ok |-> TRUE, exact |-> TRUE, n |-> Zero]
  ELSE LET i1 == DigitsEnd(s, i)
           dot == i1 <= Len(s) /\ s[i1] = 46
           i2 == IF dot THEN DigitsEnd(s, i1 + 1) ELSE i1
           nfrac == IF dot THEN i2 - i1 - 1 ELSE 0
           j  == UnitEnd(s, i2)
           sc == UnitScale(SubSeq(s, i2, j - 1))
       IN IF (i1 = i /\ nfrac = 0) \/ j = i2 \/ IsZero(sc) THEN [ok |-> FALSE]
          ELSE LET all == FromDigits(FALSE, Digs(s, i, i1) \o (IF dot THEN Digs(s, i1 + 1, i2) ELSE <<>>), 10)
                   qt  == DivTen(IMul(all, sc).m, nfrac)
                   rest == DurTerms(s, j)
               IN IF ~rest.ok THEN [ok |-> FALSE]
                  ELSE [ok |-> TRUE, exact |-> rest.exact /\ qt[2], n |-> IAdd(Mk(FALSE, qt[1]), rest.n)]
DurEval(s) ==
  LET signed == s # <<>> /\ s[1] \in {43, 45}
      body == IF signed THEN Tail(s) ELSE s
  IN IF body = <<>> THEN [ok |-> FALSE]
     ELSE LET t == DurTerms(body, 1) IN
          IF ~t.ok THEN t
          ELSE [ok |-> TRUE, exact |-> t.exact, n |-> IF s[1] = 45 THEN INeg(t.n) ELSE t.n]
=============================================================================
