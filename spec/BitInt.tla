------------------------------- MODULE BitInt -------------------------------
(***************************************************************************)
(* Arbitrary-precision integers for TLC (whose native integers are 32-bit). *)
(* A value is a record [neg |-> BOOLEAN, m |-> magnitude] where the         *)
(* magnitude is a little-endian sequence of limbs base B = 2^15 without     *)
(* leading (most significant) zero limbs; zero is [neg |-> FALSE, m |-> <<>>].*)
(* Limb products (< 2^30) and carries fit TLC's integers.                   *)
(* The JSON encoding produced by the harness (enc.go: encBig) is exactly    *)
(* this record, so recorded big integers can be used without conversion.    *)
(***************************************************************************)
EXTENDS Integers, Sequences

B == 32768

Zero == [neg |-> FALSE, m |-> <<>>]
IsZero(x) == x.m = <<>>

RECURSIVE Trim(_)
Trim(m) == IF m # <<>> /\ m[Len(m)] = 0 THEN Trim(SubSeq(m, 1, Len(m) - 1)) ELSE m
Mk(neg, m) == LET t == Trim(m) IN [neg |-> (neg /\ t # <<>>), m |-> t]

\* conversion from / to a TLC integer (|n| < 2^31)
RECURSIVE MagOfNat(_)
MagOfNat(n) == IF n = 0 THEN <<>> ELSE <<n % B>> \o MagOfNat(n \div B)
FromInt(n) == IF n < 0 THEN [neg |-> TRUE, m |-> MagOfNat(-n)] ELSE [neg |-> FALSE, m |-> MagOfNat(n)]
RECURSIVE NatOfMag(_)
NatOfMag(m) == IF m = <<>> THEN 0 ELSE m[1] + B * NatOfMag(Tail(m))
ToInt(x) == IF x.neg THEN -NatOfMag(x.m) ELSE NatOfMag(x.m)     \* only when it fits
FitsInt(x) == Len(x.m) <= 2                                    \* |x| < 2^30

Limb(m, i) == IF i <= Len(m) THEN m[i] ELSE 0
MaxLen(a, b) == IF Len(a) > Len(b) THEN Len(a) ELSE Len(b)

(***************************************************************************)
(* Magnitude arithmetic.                                                   *)
(***************************************************************************)
RECURSIVE MCmpFrom(_, _, _)
MCmpFrom(a, b, i) ==             \* compare limbs i, i-1, ..., 1 (equal lengths assumed above i)
  IF i = 0 THEN 0
  ELSE IF a[i] < b[i] THEN -1 ELSE IF a[i] > b[i] THEN 1 ELSE MCmpFrom(a, b, i - 1)
MCmp(a, b) == IF Len(a) < Len(b) THEN -1 ELSE IF Len(a) > Len(b) THEN 1 ELSE MCmpFrom(a, b, Len(a))

RECURSIVE AddC(_, _, _, _, _)
AddC(a, b, i, n, c) ==
  IF i > n THEN (IF c = 0 THEN <<>> ELSE <<c>>)
  ELSE LET s == Limb(a, i) + Limb(b, i) + c IN <<s % B>> \o AddC(a, b, i + 1, n, s \div B)
MAdd(a, b) == AddC(a, b, 1, MaxLen(a, b), 0)

RECURSIVE SubC(_, _, _, _, _)
SubC(a, b, i, n, br) ==          \* a >= b
  IF i > n THEN <<>>
  ELSE LET d == Limb(a, i) - Limb(b, i) - br IN
       IF d < 0 THEN <<d + B>> \o SubC(a, b, i + 1, n, 1) ELSE <<d>> \o SubC(a, b, i + 1, n, 0)
MSub(a, b) == Trim(SubC(a, b, 1, Len(a), 0))

RECURSIVE MulLimbC(_, _, _, _)
MulLimbC(a, d, i, c) ==
  IF i > Len(a) THEN (IF c = 0 THEN <<>> ELSE <<c>>)
  ELSE LET p == a[i] * d + c IN <<p % B>> \o MulLimbC(a, d, i + 1, p \div B)
MMulLimb(a, d) == IF d = 0 THEN <<>> ELSE MulLimbC(a, d, 1, 0)

RECURSIVE MMulFrom(_, _, _)
MMulFrom(a, b, j) ==             \* sum over limbs j.. of b of a * b[j] shifted
  IF j > Len(b) THEN <<>>
  ELSE MAdd(MMulLimb(a, b[j]), <<0>> \o MMulFrom(a, b, j + 1))
MMul(a, b) == IF a = <<>> \/ b = <<>> THEN <<>> ELSE Trim(MMulFrom(a, b, 1))

\* divide a magnitude by a small number d (0 < d < B): <<quotient, remainder>>
RECURSIVE DivSmallFrom(_, _, _, _)
DivSmallFrom(a, d, i, r) ==      \* processes limbs i, i-1, ..., 1; returns <<quotient limbs (little endian), rem>>
  IF i = 0 THEN <<<<>>, r>>
  ELSE LET cur == r * B + a[i]
           q   == cur \div d
           rest == DivSmallFrom(a, d, i - 1, cur % d)
       IN <<rest[1] \o <<q>>, rest[2]>>
MDivSmall(a, d) == LET x == DivSmallFrom(a, d, Len(a), 0) IN <<Trim(x[1]), x[2]>>

(***************************************************************************)
(* Signed arithmetic.                                                      *)
(***************************************************************************)
INeg(x) == Mk(~x.neg, x.m)
IAbs(x) == [neg |-> FALSE, m |-> x.m]
ISign(x) == IF x.m = <<>> THEN 0 ELSE IF x.neg THEN -1 ELSE 1
ICmp(x, y) ==
  IF x.neg # y.neg THEN (IF x.neg THEN -1 ELSE 1)
  ELSE IF x.neg THEN MCmp(y.m, x.m) ELSE MCmp(x.m, y.m)
IEq(x, y) == x.neg = y.neg /\ x.m = y.m
ILt(x, y) == ICmp(x, y) < 0
ILe(x, y) == ICmp(x, y) <= 0
IAdd(x, y) ==
  IF x.neg = y.neg THEN Mk(x.neg, MAdd(x.m, y.m))
  ELSE IF MCmp(x.m, y.m) >= 0 THEN Mk(x.neg, MSub(x.m, y.m)) ELSE Mk(y.neg, MSub(y.m, x.m))
ISub(x, y) == IAdd(x, INeg(y))
IMul(x, y) == Mk(x.neg # y.neg, MMul(x.m, y.m))

\* floored division law (the quotient/remainder are checked, not recomputed):
\* x = q*y + r, r = 0 or sign(r) = sign(y), |r| < |y|
FloorDivModOK(x, y, q, r) ==
  /\ ~IsZero(y)
  /\ IEq(IAdd(IMul(q, y), r), x)
  /\ (IsZero(r) \/ r.neg = y.neg)
  /\ MCmp(r.m, y.m) < 0
\* truncated division law: x = q*y + r, r = 0 or sign(r) = sign(x), |r| < |y|
TruncDivModOK(x, y, q, r) ==
  /\ ~IsZero(y)
  /\ IEq(IAdd(IMul(q, y), r), x)
  /\ (IsZero(r) \/ r.neg = x.neg)
  /\ MCmp(r.m, y.m) < 0

\* powers of two and shifts
RECURSIVE Pow2(_)
Pow2(k) == IF k < 15 THEN FromInt(2 ^ k) ELSE Mk(FALSE, <<0>> \o Pow2(k - 15).m)
ILsh(x, k) == IMul(x, Pow2(k))
\* arithmetic right shift = floor(x / 2^k): law-checked
RshOK(x, k, q) == \E dummy \in {0} :
  LET p == Pow2(k) r == ISub(x, IMul(q, p)) IN ~r.neg /\ MCmp(r.m, p.m) < 0

(***************************************************************************)
(* Digits.  A digit string is a sequence of digit values (most significant *)
(* first) in a base 2..36.                                                 *)
(***************************************************************************)
RECURSIVE MFromDigits(_, _, _)
MFromDigits(ds, base, acc) ==
  IF ds = <<>> THEN acc
  ELSE MFromDigits(Tail(ds), base, MAdd(MMulLimb(acc, base), MagOfNat(Head(ds))))
FromDigits(neg, ds, base) == Mk(neg, MFromDigits(ds, base, <<>>))

RECURSIVE MToDigits(_, _)
MToDigits(m, base) ==            \* most significant first; <<>> for zero
  IF m = <<>> THEN <<>>
  ELSE LET qr == MDivSmall(m, base) IN MToDigits(qr[1], base) \o <<qr[2]>>
ToDigits(x, base) == IF x.m = <<>> THEN <<0>> ELSE MToDigits(x.m, base)

\* bits of a magnitude, least significant first
RECURSIVE LimbBits(_, _)
LimbBits(v, k) == IF k = 0 THEN <<>> ELSE <<v % 2>> \o LimbBits(v \div 2, k - 1)
RECURSIVE MBits(_)
MBits(m) == IF m = <<>> THEN <<>> ELSE LimbBits(m[1], 15) \o MBits(Tail(m))
RECURSIVE TrimBits(_)
TrimBits(b) == IF b # <<>> /\ b[Len(b)] = 0 THEN TrimBits(SubSeq(b, 1, Len(b) - 1)) ELSE b
BitLen(x) == Len(TrimBits(MBits(x.m)))

(***************************************************************************)
(* Two's-complement bitwise operations on signed values, computed limb-wise *)
(* on width W = max length + 1 limbs:  -x  ==  ~(x - 1).                    *)
(***************************************************************************)
BitAnd2(a, b) == IF a = 1 /\ b = 1 THEN 1 ELSE 0
BitOr2(a, b)  == IF a = 1 \/ b = 1 THEN 1 ELSE 0
BitXor2(a, b) == IF a # b THEN 1 ELSE 0
RECURSIVE LimbOp(_, _, _, _)
LimbOp(Op(_, _), a, b, k) ==
  IF k = 0 THEN 0 ELSE Op(a % 2, b % 2) + 2 * LimbOp(Op, a \div 2, b \div 2, k - 1)
\* limbs of the infinite two's complement representation, W limbs
TwosLimbs(x, W) ==
  IF ~x.neg THEN [i \in 1..W |-> Limb(x.m, i)]
  ELSE LET y == MSub(x.m, <<1>>) IN [i \in 1..W |-> (B - 1) - Limb(y, i)]
FromTwos(l, W) ==                \* l has W limbs; sign = top bit of limb W
  IF l[W] < B \div 2 THEN Mk(FALSE, l)
  ELSE Mk(TRUE, MAdd(Trim([i \in 1..W |-> (B - 1) - l[i]]), <<1>>))
BitOp(Op(_, _), x, y) ==
  LET W == MaxLen(x.m, y.m) + 1
      a == TwosLimbs(x, W)
      b == TwosLimbs(y, W)
  IN FromTwos([i \in 1..W |-> LimbOp(Op, a[i], b[i], 15)], W)
IAnd(x, y) == BitOp(BitAnd2, x, y)
IOr(x, y)  == BitOp(BitOr2, x, y)
IXor(x, y) == BitOp(BitXor2, x, y)
INot(x)    == ISub(INeg(x), FromInt(1))
=============================================================================
