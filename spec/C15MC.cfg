INIT Init
NEXT Next
INVARIANT LawHolds
