CONSTANTS
  PW = 4
  LW = 5
  CW = 6
  MaxRows = 1
  DPc1 = {0, 1, 15, 16, 31, 500}
  DLine1 <- QuickDL
  DCol1 <- QuickDC
  DPc2 = {16}
  DLine2 <- RealDL2
  DCol2 <- RealDC2
  Line0 = 1050
  Col0 = 1070
  Greedy = TRUE
INIT Init
NEXT Next
INVARIANTS RoundTrip WordsFit Shape GreedyEq LookupOK LookupNone
POSTCONDITION Done
