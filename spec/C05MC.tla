------------------------------- MODULE C05MC -------------------------------
(***************************************************************************)
(* Design-level model checking of spec/Threads.tla for property C05 and    *)
(* enumeration of the operation combinations that the race harness runs    *)
(* against the real code (spec -> code).                                   *)
(*                                                                         *)
(*   pairs    NThreads = 2, one operation each, OpSet = every applicable   *)
(*            operation x value kind (plus the shared program): all        *)
(*            interleavings of all ordered pairs                           *)
(*   triples  NThreads = 3 on the reduced set TripleOps                    *)
(*   program  NThreads = 2, two operations each, on the operations that    *)
(*            decode positions: a second failing execution finds the once  *)
(*            done / running / new in every order                          *)
(* The check generates the .cfg texts (CONSTANTS ... <- definitions below) *)
(* and also runs the variants with one guard removed, which must violate   *)
(* NoRace (the invariant is not vacuous).                                  *)
(* Every terminal state prints the combination it executed ("P{...}").     *)
(***************************************************************************)
EXTENDS Threads, Json

GuardsAll     == [iter |-> TRUE, freeze |-> TRUE, cell |-> TRUE, decode |-> TRUE, publish |-> TRUE]
NoIterGuard   == [GuardsAll EXCEPT !.iter = FALSE]      \* iterators count on frozen objects too
NoFreezeGuard == [GuardsAll EXCEPT !.freeze = FALSE]    \* Freeze re-stores the flag unconditionally
NoCellGuard   == [GuardsAll EXCEPT !.cell = FALSE]      \* ... for closure cells
NoOnceGuard   == [GuardsAll EXCEPT !.decode = FALSE]      \* line table decoded on demand without the once
NoPublish     == [GuardsAll EXCEPT !.publish = FALSE]   \* readers start while the module is still running

PairOps == AllCombos
C(op, k) == [op |-> op, k |-> k]
TripleOpsQuick == {C("iterate", "list"), C("store", "dict"), C("initfail", "prog")}
TripleOps == TripleOpsQuick \cup {C("mutate", "closure"), C("encode", "set"), C("store", "closure"), C("callfail", "closure"), C("mutate", "list")}
ProgramOpsQuick == {C("init", "prog"), C("initfail", "prog"), C("callfail", "closure")}
ProgramOps == ProgramOpsQuick \cup {C("mutate", "closure"), C("call", "closure")}

\* a small set that contains a witness for every guard (negative design checks)
NegOps == {C("iterate", "list"), C("store", "dict"), C("store", "closure"), C("initfail", "prog"), C("index", "list"), C("mutate", "set")}

Init == TInit
Next == TNext

Emit == AllDone => PrintT("P" \o ToJson([ops |-> hist]))
=============================================================================
