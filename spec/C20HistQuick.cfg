CONSTANTS
  MaxRoots = 2
  MaxViews = 1
  MaxLen = 2
  Depth = 4
  Flags = FALSE
  Rich = FALSE
INIT Init
NEXT Next
VIEW HView
ACTION_CONSTRAINT Emit
INVARIANT TypeOK
INVARIANT Acyclic
INVARIANT FrozenStable
INVARIANT FrozenClosed
