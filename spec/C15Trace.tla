------------------------------ MODULE C15Trace ------------------------------
(***************************************************************************)
(* C15  Printed values read back as the same values (code -> spec).         *)
(* Every record is one value built through the Go API, its repr and str     *)
(* texts, and the value obtained by evaluating the repr text with the real   *)
(* scanner, parser and interpreter.  Checked per record:                     *)
(*   - Eval(repr(v)) = v with the same type at every level (Values.Same);    *)
(*   - str(s) = s for strings;                                               *)
(*   - independently of the implementation's scanner: the repr of a string / *)
(*     bytes is ONE literal that spec/Unquote.tla decodes to the value, and  *)
(*     is clean text (well-formed UTF-8, no raw control characters);         *)
(*     repr(int) is the decimal text BitInt.ToDigits gives; the decimal text *)
(*     of a float denotes a rational whose nearest binary64 is the value;    *)
(*   - shared and cyclic structure: printing terminates (res.done); the text *)
(*     predicted by ReprSpec.GraphRepr is compared and a difference NOTED.   *)
(***************************************************************************)
EXTENDS ReprSpec, Json, IOUtils, TLC

Recs == ndJsonDeserialize(IOEnv.VERIF_RECS)
\* not `i`: see C11Trace (a variable named like an operator parameter of an extended module disables constant caching)
VARIABLE recno

Bad(r, why, k) == PrintT(<<"BAD", r.id, why, k>>)      \* TRUE
\* report the first failing element of a block
Blk(r, why, S) == S = {} \/ Bad(r, why, CHOOSE a \in S : \A b \in S : a <= b)

StrChecks(v, repr, back, str) ==
  <<back.ok /\ back.v.t = "str" /\ back.v.v = v,       \* 1 round trip through the real evaluator
    str = v,                                           \* 2 str(s) = s
    StrReprOK(repr, v, FALSE),                         \* 3 one literal denoting s (independent decoder)
    TextClean(repr)>>                                  \* 4 printable
BytesChecks(v, repr, back) ==
  <<back.ok /\ back.v.t = "bytes" /\ back.v.v = v,
    TRUE,
    StrReprOK(repr, v, TRUE),
    TextClean(repr)>>
Names == <<"roundtrip", "str-identity", "literal-decodes", "clean-text">>
FirstFalse(cs) == IF \E k \in 1..Len(cs) : ~cs[k] THEN CHOOSE k \in 1..Len(cs) : ~cs[k] /\ \A j \in 1..(k - 1) : cs[j] ELSE 0

Good(r) ==
  CASE r.op = "cps" ->          \* strings of one code point r.lo + k - 1
         LET F == [k \in 1..r.n |-> FirstFalse(StrChecks(U!Utf8(r.lo + k - 1), r.reprs[k], r.backs[k], r.strs[k]))]
             FailK == {k \in 1..r.n : F[k] # 0}
         IN \A law \in 1..4 : Blk(r, "str/" \o Names[law], {r.lo + k - 1 : k \in {k \in FailK : F[k] = law}})
    [] r.op = "bb" ->           \* bytes <<hi, b>> or <<b>>
         LET F == [k \in 1..256 |-> FirstFalse(BytesChecks(IF r.hi < 0 THEN <<k - 1>> ELSE <<r.hi, k - 1>>, r.reprs[k], r.backs[k]))]
             FailK == {k \in 1..256 : F[k] # 0}
         IN \A law \in {1, 3, 4} : Blk(r, "bytes/" \o Names[law], {k - 1 : k \in {k \in FailK : F[k] = law}})
    [] r.op = "str" ->
         LET f == FirstFalse(StrChecks(r.v, r.repr, r.back, r.str)) IN f = 0 \/ Bad(r, "str/" \o Names[f], 0)
    [] r.op = "bytes" ->
         LET f == FirstFalse(BytesChecks(r.v, r.repr, r.back)) IN f = 0 \/ Bad(r, "bytes/" \o Names[f], 0)
    [] r.op = "int" ->
         /\ (r.back.ok /\ Same(r.back.v, r.v)) \/ Bad(r, "int/roundtrip", 0)
         /\ IntReprOK(r.repr, IntOf(r.v)) \/ Bad(r, "int/digits", 0)
         /\ r.str = r.repr \/ Bad(r, "int/str", 0)
    [] r.op = "float" ->
         /\ (r.back.ok /\ r.back.v.t = "float" /\ FSame(r.back.v, r.v)) \/ Bad(r, "float/roundtrip", 0)
         \* r.dec: judged by the exact decimal oracle; otherwise the text must at least be a float literal
         /\ (IF r.dec THEN FloatReprOK(r.repr, r.v) ELSE FloatSyntaxOK(r.repr, r.v)) \/ Bad(r, "float/decimal-denotes-value", 0)
         /\ r.str = r.repr \/ Bad(r, "float/str", 0)
    [] r.op = "tree" ->
         /\ (r.back.ok /\ Same(r.back.v, r.v)) \/ Bad(r, "tree/roundtrip", 0)
         /\ TextClean(r.repr) \/ Bad(r, "tree/clean-text", 0)
    [] r.op = "graph" ->
         /\ r.res.done \/ Bad(r, "graph/print-does-not-terminate", 0)
         /\ r.res.done =>
              /\ (r.cyclic \/ (r.back.ok /\ Same(r.back.v, r.v))) \/ Bad(r, "graph/roundtrip", 0)
              /\ ~r.predict \/ (r.res.repr = GraphRepr(r.nodes, r.root, {}) /\ r.res.str = r.res.repr)
                            \/ PrintT(<<"NOTE", r.id, "graph-text-differs">>)

K == 64
Init == recno = 0
Next == IF recno = 0 THEN recno' \in 1..(IF Len(Recs) < K THEN Len(Recs) ELSE K)
        ELSE recno + K <= Len(Recs) /\ recno' = recno + K
Check == recno = 0 \/ Good(Recs[recno])
Done == PrintT(<<"CHECKED", TLCGet("stats").distinct - 1>>)
=============================================================================
