CONSTANTS
  MaxRoots = 3
  MaxViews = 2
  MaxElems = 3
  Depth = 8
  Flags = FALSE
  Rich = TRUE
INIT Init
NEXT Next
VIEW HView
ACTION_CONSTRAINT Emit
INVARIANT TypeOK
INVARIANT Acyclic
INVARIANT FrozenStable
INVARIANT FrozenClosed
