CONSTANTS
  K = 3
  MaxExec = 2
  Limit = 0
  MaxCancels = 2
SPECIFICATION Spec
INVARIANTS UnderLimit Emit
PROPERTIES FirstWins NoRunAfterCancel Stops
