----------------------------- MODULE Mutability -----------------------------
(***************************************************************************)
(* The mutability protocol of Starlark's mutable collections (list, dict,  *)
(* set): every object carries a `frozen` flag and a count `iters` of live  *)
(* iterators; a mutation is permitted iff the object is neither frozen nor *)
(* being iterated; iterating constructs begin and end iterators; frames of *)
(* the call stack own the iterators of their loops and comprehensions and  *)
(* release them however the frame is left.  (doc/spec.md "Identity and     *)
(* mutation", "Freezing a value"; doc/impl.md "Iteration".)                *)
(*                                                                         *)
(* This module is shared by C04 (freezing), C05 (publication), C06         *)
(* (iteration) and by the trace specs that validate hook traces.           *)
(***************************************************************************)
EXTENDS Integers, Sequences, FiniteSets, TLC

CONSTANT Objs                       \* identities of mutable collections

VARIABLES frozen,                   \* [Objs -> BOOLEAN]
          iters,                    \* [Objs -> Nat]   live iterators (not counted on frozen objects)
          frames                    \* sequence of frames; a frame is the sequence of objects it iterates (innermost last)

mvars == <<frozen, iters, frames>>

MInit == /\ frozen = [o \in Objs |-> FALSE]
         /\ iters = [o \in Objs |-> 0]
         /\ frames = <<>>

Depth == Len(frames)
Mutable(o) == ~frozen[o] /\ iters[o] = 0

\* number of iterators over o that the frames own
RECURSIVE CountIn(_, _)
CountIn(s, o) == IF s = <<>> THEN 0 ELSE (IF Head(s) = o THEN 1 ELSE 0) + CountIn(Tail(s), o)
RECURSIVE Owned(_, _)
Owned(fs, o) == IF fs = <<>> THEN 0 ELSE CountIn(Head(fs), o) + Owned(Tail(fs), o)

Dec(it, o)  == IF frozen[o] THEN it ELSE [it EXCEPT ![o] = @ - 1]
RECURSIVE Release(_, _)
Release(it, s) == IF s = <<>> THEN it ELSE Release(Dec(it, s[Len(s)]), SubSeq(s, 1, Len(s) - 1))
RECURSIVE ReleaseAll(_, _)
ReleaseAll(it, fs) == IF fs = <<>> THEN it ELSE ReleaseAll(Release(it, fs[Len(fs)]), SubSeq(fs, 1, Len(fs) - 1))

FramePush == frames' = Append(frames, <<>>) /\ UNCHANGED <<frozen, iters>>

\* an iterating construct of the current frame starts iterating o
IterBegin(o) ==
  /\ frames # <<>>
  /\ iters' = IF frozen[o] THEN iters ELSE [iters EXCEPT ![o] = @ + 1]
  /\ frames' = [frames EXCEPT ![Len(frames)] = Append(@, o)]
  /\ UNCHANGED frozen

\* the innermost iteration of the current frame ends (exhaustion or break)
IterEnd ==
  /\ frames # <<>> /\ frames[Len(frames)] # <<>>
  /\ LET f == frames[Len(frames)] IN
     /\ iters' = Dec(iters, f[Len(f)])
     /\ frames' = [frames EXCEPT ![Len(frames)] = SubSeq(f, 1, Len(f) - 1)]
  /\ UNCHANGED frozen

\* the current frame is left (return, or an error / panic / cancellation passing through):
\* every iterator it still owns is released
FramePop ==
  /\ frames # <<>>
  /\ iters' = Release(iters, frames[Len(frames)])
  /\ frames' = SubSeq(frames, 1, Len(frames) - 1)
  /\ UNCHANGED frozen

\* an error, host panic or cancellation unwinds the whole stack
Unwind ==
  /\ iters' = ReleaseAll(iters, frames)
  /\ frames' = <<>>
  /\ UNCHANGED frozen

Freeze(o) == frozen' = [frozen EXCEPT ![o] = TRUE] /\ UNCHANGED <<iters, frames>>

\* a mutation attempt: succeeds iff Mutable(o); never changes the protocol state
MutationFails(o) == ~Mutable(o)

(***************************************************************************)
(* Invariants.                                                             *)
(***************************************************************************)
CountsExact == \A o \in Objs : ~frozen[o] => iters[o] = Owned(frames, o)
NonNegative == \A o \in Objs : iters[o] >= 0
Quiescent   == frames = <<>> => \A o \in Objs : frozen[o] \/ iters[o] = 0
=============================================================================
