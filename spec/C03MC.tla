------------------------------- MODULE C03MC -------------------------------
(***************************************************************************)
(* Design-level check of C03's central mechanism by SELF-COMPOSITION.      *)
(*                                                                         *)
(* Determinism across processes is a 2-safety property: two executions of  *)
(* the same operation history that differ only in the hash assignment      *)
(* (the per-process seed of hashString) must expose the same iteration     *)
(* order.  Two copies of the concrete table of Hashtable.tla (buckets,     *)
(* chains, "last empty slot wins", growth by re-insertion) run in lock     *)
(* step under hash assignments H1 and H2 chosen arbitrarily at Init;       *)
(* SeedIndependent says that what they iterate is equal in every reachable *)
(* state, Refines that it is the abstract insertion order.  Scaled-down    *)
(* constants make chain overflow and growth reachable within MaxOps steps. *)
(***************************************************************************)
EXTENDS Hashtable

CONSTANTS NK,      \* keys 1..NK
          HMax,    \* hash values 0..HMax (0 is stored as 1)
          MaxOps,  \* length of the operation history
          Full     \* TRUE: H1 ranges over every assignment; FALSE: over two representatives
                   \* (everything collides / all hashes distinct) while H2 still ranges over all

Keys == 1..NK
VARIABLES H1, H2, t1, o1, t2, o2, al, nops
vars == <<H1, H2, t1, o1, t2, o2, al, nops>>

H1Set == IF Full THEN [Keys -> 0..HMax] ELSE {[k \in Keys |-> 1], [k \in Keys |-> k]}
Init == /\ H1 \in H1Set /\ H2 \in [Keys -> 0..HMax]
        /\ t1 = EmptyTable(1) /\ o1 = <<>> /\ t2 = EmptyTable(1) /\ o2 = <<>>
        /\ al = <<>> /\ nops = 0

Ins(k) == /\ t1' = CInsert(t1, o1, H1, k, nops)[1] /\ o1' = CInsert(t1, o1, H1, k, nops)[2]
          /\ t2' = CInsert(t2, o2, H2, k, nops)[1] /\ o2' = CInsert(t2, o2, H2, k, nops)[2]
          /\ al' = AIns(al, k, nops)
Del(k) == /\ t1' = CDelete(t1, o1, H1, k)[1] /\ o1' = CDelete(t1, o1, H1, k)[2]
          /\ t2' = CDelete(t2, o2, H2, k)[1] /\ o2' = CDelete(t2, o2, H2, k)[2]
          /\ al' = ADel(al, k)
Clear  == /\ t1' = CClear(t1) /\ o1' = <<>> /\ t2' = CClear(t2) /\ o2' = <<>> /\ al' = <<>>

Next == /\ nops < MaxOps /\ nops' = nops + 1 /\ UNCHANGED <<H1, H2>>
        /\ \/ \E k \in Keys : Ins(k)
           \/ \E k \in Keys : Del(k)
           \/ Clear

\* the 2-safety property on the model: iteration does not depend on the seed
SeedIndependent == CAbs(t1, o1) = CAbs(t2, o2)
Refines         == CAbs(t1, o1) = al
TablesOK        == ConcreteOK(t1, o1, H1) /\ ConcreteOK(t2, o2, H2)
\* non-vacuity: the two copies do reach different layouts (reported by the coverage run, not an invariant)
LayoutsDiffer   == t1 # t2
=============================================================================
