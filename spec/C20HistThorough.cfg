CONSTANTS
  MaxRoots = 3
  MaxViews = 1
  MaxElems = 2
  Depth = 5
  Flags = FALSE
  Rich = TRUE
INIT Init
NEXT Next
VIEW HView
ACTION_CONSTRAINT Emit
INVARIANT TypeOK
INVARIANT Acyclic
INVARIANT FrozenStable
INVARIANT FrozenClosed
