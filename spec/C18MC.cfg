INIT Init
NEXT Next
INVARIANT Inv
CONSTANTS NumLen = 5 StructLen = 5
