------------------------------- MODULE Unquote -------------------------------
(***************************************************************************)
(* Literal tokens of Starlark and the values they denote, written from     *)
(* doc/spec.md "Lexical elements" / "String literals" / "String escapes".  *)
(* A literal text is a sequence of byte values (the UTF-8 source text).    *)
(*                                                                         *)
(*   StrLit(text)  -> [ok |-> TRUE, bytes |-> BOOLEAN, v |-> byte sequence]*)
(*                    | [ok |-> FALSE]     (text is not one string literal)*)
(*   NumLit(text)  -> [ok |-> TRUE, kind |-> "int", base, digits]          *)
(*                    | [ok |-> TRUE, kind |-> "float", digits, e10]       *)
(*                    | [ok |-> FALSE]                                     *)
(*                                                                         *)
(* Points where doc/spec.md is silent and the Starlark language spec       *)
(* (bazelbuild/starlark) is followed instead -- each is listed in the      *)
(* check's assumptions:                                                    *)
(*   - bytes literals b"..." / rb"..." and the escapes \uXXXX \UXXXXXXXX   *)
(*     (UTF-8 encoding of the code point; surrogates and values above      *)
(*     10FFFF are errors);                                                 *)
(*   - in a text string an octal or hex escape above 7F is an error        *)
(*     (doc/spec.md still describes the older rule "a single byte");       *)
(*   - CR LF and a lone CR are line endings like LF, everywhere.           *)
(***************************************************************************)
EXTENDS Integers, Sequences

QUOTE1 == 39      \* '
QUOTE2 == 34      \* "
BSLASH == 92
LF == 10
CR == 13

IsDec(c) == c >= 48 /\ c <= 57
IsOct(c) == c >= 48 /\ c <= 55
IsBin(c) == c = 48 \/ c = 49
IsHex(c) == IsDec(c) \/ (c >= 65 /\ c <= 70) \/ (c >= 97 /\ c <= 102)
HexVal(c) == IF IsDec(c) THEN c - 48 ELSE IF c >= 97 THEN c - 87 ELSE c - 55

Fail == [ok |-> FALSE]

\* line endings: CR LF and CR become LF
RECURSIVE NormNL(_)
NormNL(s) ==
  IF s = <<>> THEN <<>>
  ELSE IF s[1] = CR THEN
         IF Len(s) >= 2 /\ s[2] = LF THEN <<LF>> \o NormNL(SubSeq(s, 3, Len(s)))
         ELSE <<LF>> \o NormNL(Tail(s))
  ELSE <<s[1]>> \o NormNL(Tail(s))

\* UTF-8 encoding of a code point 0..10FFFF
Utf8(n) ==
  IF n < 128 THEN <<n>>
  ELSE IF n < 2048 THEN <<192 + (n \div 64), 128 + (n % 64)>>
  ELSE IF n < 65536 THEN <<224 + (n \div 4096), 128 + ((n \div 64) % 64), 128 + (n % 64)>>
  ELSE <<240 + (n \div 262144), 128 + ((n \div 4096) % 64), 128 + ((n \div 64) % 64), 128 + (n % 64)>>

RECURSIVE HexNum(_, _)
HexNum(ds, acc) == IF ds = <<>> THEN acc ELSE HexNum(Tail(ds), acc * 16 + HexVal(Head(ds)))
AllHex(ds) == \A i \in 1..Len(ds) : IsHex(ds[i])

SimpleEsc(c) ==      \* the one-character escapes; -1 if c is not one
  CASE c = 97 -> 7 [] c = 98 -> 8 [] c = 102 -> 12 [] c = 110 -> 10 [] c = 114 -> 13
    [] c = 116 -> 9 [] c = 118 -> 11 [] c = BSLASH -> BSLASH [] c = QUOTE1 -> QUOTE1 [] c = QUOTE2 -> QUOTE2
    [] OTHER -> -1

(***************************************************************************)
(* Decode the body (the text between the quotation marks) of a non-raw     *)
(* literal.  Result [ok, v].                                               *)
(***************************************************************************)
RECURSIVE Decode(_, _, _)
Decode(s, isBytes, acc) ==
  IF s = <<>> THEN [ok |-> TRUE, v |-> acc]
  ELSE IF s[1] # BSLASH THEN Decode(Tail(s), isBytes, Append(acc, s[1]))
  ELSE IF Len(s) < 2 THEN Fail
  ELSE LET c == s[2] IN
    IF c = LF THEN Decode(SubSeq(s, 3, Len(s)), isBytes, acc)            \* escaped newline: ignored
    ELSE IF SimpleEsc(c) >= 0 THEN Decode(SubSeq(s, 3, Len(s)), isBytes, Append(acc, SimpleEsc(c)))
    ELSE IF IsOct(c) THEN
      \* one, two or three octal digits
      LET k == IF Len(s) >= 3 /\ IsOct(s[3]) THEN (IF Len(s) >= 4 /\ IsOct(s[4]) THEN 3 ELSE 2) ELSE 1
          n == IF k = 1 THEN c - 48
               ELSE IF k = 2 THEN (c - 48) * 8 + (s[3] - 48)
               ELSE (c - 48) * 64 + (s[3] - 48) * 8 + (s[4] - 48)
      IN IF n > 255 \/ (~isBytes /\ n > 127) THEN Fail
         ELSE Decode(SubSeq(s, 2 + k, Len(s)), isBytes, Append(acc, n))
    ELSE IF c = 120 THEN                                                    \* \xHH
      IF Len(s) < 4 \/ ~IsHex(s[3]) \/ ~IsHex(s[4]) THEN Fail
      ELSE LET n == HexVal(s[3]) * 16 + HexVal(s[4]) IN
           IF ~isBytes /\ n > 127 THEN Fail
           ELSE Decode(SubSeq(s, 5, Len(s)), isBytes, Append(acc, n))
    ELSE IF c = 117 \/ c = 85 THEN                                          \* \uXXXX  \UXXXXXXXX
      LET w == IF c = 117 THEN 4 ELSE 8 IN
      IF Len(s) < 2 + w \/ ~AllHex(SubSeq(s, 3, 2 + w)) THEN Fail
      ELSE LET ds == SubSeq(s, 3, 2 + w)
               \* avoid 32-bit overflow: of 8 digits the first two must be 0
               big == w = 8 /\ (ds[1] # 48 \/ ds[2] # 48)
               n == IF big THEN 0 ELSE HexNum(IF w = 8 THEN SubSeq(ds, 3, 8) ELSE ds, 0)
           IN IF big \/ n > 1114111 \/ (n >= 55296 /\ n <= 57343) THEN Fail
              ELSE Decode(SubSeq(s, 3 + w, Len(s)), isBytes, acc \o Utf8(n))
    ELSE Fail                                                               \* a backslash must escape something

(***************************************************************************)
(* Find the end of the body.  s is the text after the opening quotation    *)
(* mark(s); returns the length of the body if the closing mark(s) are the  *)
(* very last characters of s and nothing closes the literal earlier, else  *)
(* -1.  A backslash always takes the next character with it (also in raw   *)
(* literals: "an escaped quotation mark ... an escaped newline").          *)
(***************************************************************************)
RECURSIVE BodyEnd(_, _, _, _)
BodyEnd(s, q, triple, i) ==       \* i = current index into s
  IF i > Len(s) THEN -1
  ELSE IF s[i] = BSLASH THEN (IF i + 1 > Len(s) THEN -1 ELSE BodyEnd(s, q, triple, i + 2))
  ELSE IF ~triple THEN
         IF s[i] = q THEN (IF i = Len(s) THEN i - 1 ELSE -1)
         ELSE IF s[i] = LF THEN -1                       \* no unescaped newline in a one-line literal
         ELSE BodyEnd(s, q, triple, i + 1)
  ELSE IF s[i] = q /\ i + 2 <= Len(s) /\ s[i + 1] = q /\ s[i + 2] = q
         THEN (IF i + 2 = Len(s) THEN i - 1 ELSE -1)
  ELSE BodyEnd(s, q, triple, i + 1)

StrLit(text) ==
  LET t0 == NormNL(text)
      raw == t0 # <<>> /\ t0[1] = 114                                  \* r
      t1 == IF raw THEN Tail(t0) ELSE t0
      isBytes == t1 # <<>> /\ t1[1] = 98                               \* b
      t2 == IF isBytes THEN Tail(t1) ELSE t1
  IN IF Len(t2) < 2 \/ t2[1] \notin {QUOTE1, QUOTE2} THEN Fail
     ELSE LET q == t2[1]
              triple == Len(t2) >= 3 /\ t2[2] = q /\ t2[3] = q
              rest == IF triple THEN SubSeq(t2, 4, Len(t2)) ELSE Tail(t2)
              n == BodyEnd(rest, q, triple, 1)
          IN IF n < 0 THEN Fail
             ELSE LET body == SubSeq(rest, 1, n)
                      d == IF raw THEN [ok |-> TRUE, v |-> body] ELSE Decode(body, isBytes, <<>>)
                  IN IF d.ok THEN [ok |-> TRUE, bytes |-> isBytes, v |-> d.v] ELSE Fail

(***************************************************************************)
(* Numbers (spec.md "Lexical elements"):                                   *)
(*   int         = decimal_lit | octal_lit | hex_lit | binary_lit          *)
(*   decimal_lit = ('1'..'9') {decimal_digit} | '0'                        *)
(*   octal_lit   = '0' ('o'|'O') octal_digit {octal_digit}   (hex, binary alike) *)
(*   float       = decimals '.' [decimals] [exponent] | decimals exponent  *)
(*               | '.' decimals [exponent]                                 *)
(*   exponent    = ('e'|'E') ['+'|'-'] decimals                            *)
(* NumLit gives the digit values (most significant first) and the base, or *)
(* for a float the decimal digits d and e10 with value d * 10^e10.         *)
(* zeros: TRUE for "00", "000", ... -- not generated by decimal_lit, but   *)
(* Python 3 reads it as 0; reported so that the check can tolerate it.     *)
(***************************************************************************)
DigVals(s) == [i \in 1..Len(s) |-> HexVal(s[i])]
All(s, P(_)) == \A i \in 1..Len(s) : P(s[i])

\* length of the longest prefix of s (from index i) made of decimal digits
RECURSIVE DecRun(_, _)
DecRun(s, i) == IF i <= Len(s) /\ IsDec(s[i]) THEN 1 + DecRun(s, i + 1) ELSE 0

RECURSIVE DecNum(_, _)
DecNum(ds, acc) == IF ds = <<>> THEN acc ELSE DecNum(Tail(ds), acc * 10 + (Head(ds) - 48))

NumLit(s) ==
  LET n == Len(s) IN
  IF n = 0 THEN Fail
  ELSE IF n >= 2 /\ s[1] = 48 /\ s[2] \in {120, 88} THEN
    (IF n >= 3 /\ All(SubSeq(s, 3, n), IsHex) THEN [ok |-> TRUE, kind |-> "int", base |-> 16, digits |-> DigVals(SubSeq(s, 3, n)), zeros |-> FALSE] ELSE Fail)
  ELSE IF n >= 2 /\ s[1] = 48 /\ s[2] \in {111, 79} THEN
    (IF n >= 3 /\ All(SubSeq(s, 3, n), IsOct) THEN [ok |-> TRUE, kind |-> "int", base |-> 8, digits |-> DigVals(SubSeq(s, 3, n)), zeros |-> FALSE] ELSE Fail)
  ELSE IF n >= 2 /\ s[1] = 48 /\ s[2] \in {98, 66} THEN
    (IF n >= 3 /\ All(SubSeq(s, 3, n), IsBin) THEN [ok |-> TRUE, kind |-> "int", base |-> 2, digits |-> DigVals(SubSeq(s, 3, n)), zeros |-> FALSE] ELSE Fail)
  ELSE
    LET a == DecRun(s, 1)                         \* integer part
        dot == a + 1 <= n /\ s[a + 1] = 46
        f == IF dot THEN DecRun(s, a + 2) ELSE 0  \* fraction digits
        p == a + (IF dot THEN 1 + f ELSE 0)       \* characters consumed so far
        hasE == p + 1 <= n /\ s[p + 1] \in {101, 69}
        sg == IF hasE /\ p + 2 <= n /\ s[p + 2] \in {43, 45} THEN 1 ELSE 0
        x == IF hasE THEN DecRun(s, p + 2 + sg) ELSE 0
        q == p + (IF hasE THEN 1 + sg + x ELSE 0)
    IN IF q # n THEN Fail                                    \* something is left over
       ELSE IF ~dot /\ ~hasE THEN
         \* an integer: '0' or a digit string not starting with 0
         (IF a = 0 THEN Fail
          ELSE IF s[1] # 48 \/ a = 1 THEN [ok |-> TRUE, kind |-> "int", base |-> 10, digits |-> DigVals(s), zeros |-> FALSE]
          ELSE IF All(s, LAMBDA c : c = 48) THEN [ok |-> TRUE, kind |-> "int", base |-> 10, digits |-> DigVals(s), zeros |-> TRUE]
          ELSE Fail)
       ELSE IF hasE /\ x = 0 THEN Fail                       \* exponent without digits
       ELSE IF a = 0 /\ f = 0 THEN Fail                      \* "." or ".e1"
       ELSE IF ~dot /\ a = 0 THEN Fail
       ELSE IF x > 6 THEN Fail                               \* (exponents of more than 6 digits are not generated)
       ELSE LET ip == SubSeq(s, 1, a)
                fp == IF dot THEN SubSeq(s, a + 2, a + 1 + f) ELSE <<>>
                ev == IF hasE THEN DecNum(SubSeq(s, p + 2 + sg, q), 0) ELSE 0
                e  == IF hasE /\ sg = 1 /\ s[p + 2] = 45 THEN -ev ELSE ev
            IN [ok |-> TRUE, kind |-> "float", digits |-> DigVals(ip \o fp), e10 |-> e - f]
=============================================================================
