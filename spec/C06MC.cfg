CONSTANT Objs = {"X", "Y"}
INIT Init
NEXT Next
INVARIANTS Inv DoneOK EmitDone
