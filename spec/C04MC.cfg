CONSTANTS
  MaxNodes = 3
  MaxEdges = 2
INIT Init
NEXT Next
INVARIANTS FrozenExactly MutableUnreached WorkBounded Emit
