------------------------------- MODULE C04MC -------------------------------
(***************************************************************************)
(* C04: values reachable from a finished module are deeply immutable.      *)
(*                                                                         *)
(* The machine BUILDS an object graph with the construction actions a      *)
(* module has (each action is one line of module source), chooses which    *)
(* nodes become globals, finishes the module (successfully or with an      *)
(* error) and then runs the freeze traversal the way the implementation    *)
(* describes it (doc/impl.md: set the flag first, then visit the children; *)
(* tuples, functions and bound methods carry no flag of their own, cells   *)
(* do).  TLC checks that the traversal terminates having frozen exactly    *)
(* the mutable nodes reachable from the globals, and emits every finished  *)
(* construction with the expected frozen set; the harness renders it as a  *)
(* module, runs it, and probes every node (spec -> code).                  *)
(*                                                                         *)
(* node kinds: "list" "dict" "set" (mutable, flagged)                      *)
(*             "tuple" "struct" "default" "closure" "mutclosure" "bound"   *)
(*             "rebclosure": a closure that the host froze EARLY (while    *)
(*             its defining function was still running) and whose captured *)
(*             variable was rebound to the child afterwards                *)
(*             (one child fixed at creation; "struct" and the cell of a    *)
(*             closure are flagged)                                        *)
(* edges added later: list element, dict value (a -> b, any b, cycles ok), *)
(* dict key / set element (b hashable: function, bound method, tuple of)   *)
(***************************************************************************)
EXTENDS Integers, Sequences, FiniteSets, TLC, Json

CONSTANTS MaxNodes, MaxEdges

Mutable == {"list", "dict", "set"}
\* "structsum": base + struct(f = child) where base is a struct the host froze before (a value built by an operator from
\* an already frozen operand is a new, unfrozen value)
\* "boxreb": a list holding a closure, frozen EARLY by the host as a whole; the enclosing function then rebinds the
\* closure's captured variable to the child (the flag of the list must not hide what became reachable afterwards)
Composite == {"tuple", "struct", "structsum", "default", "closure", "mutclosure", "rebclosure", "boxreb", "bound"}
Flagged == Mutable \cup {"struct", "structsum", "closure", "mutclosure", "rebclosure", "boxreb"}   \* closure: the flag of its cell

VARIABLES kind,      \* sequence of node kinds, node n = kind[n]
          edges,     \* set of <<a, b>>
          roots,     \* set of nodes bound to globals
          phase,     \* "nodes" "edges" "roots" "exec" "freeze" "done"
          outcome,   \* "ok" | "fail"
          hist,      \* construction actions, in order
          frozen, work
vars == <<kind, edges, roots, phase, outcome, hist, frozen, work>>

N == Len(kind)
Nodes == 1..N
Succ(a) == {e[2] : e \in {e \in edges : e[1] = a}}
RECURSIVE ReachFrom(_, _)
ReachFrom(S, seen) == LET new == (UNION {Succ(a) : a \in S}) \ (seen \cup S) IN
                      IF new = {} THEN seen \cup S ELSE ReachFrom(new, seen \cup S)
Reach == ReachFrom(roots, {})

Init == /\ kind = <<>> /\ edges = {} /\ roots = {} /\ phase = "nodes" /\ outcome = "ok"
        /\ hist = <<>> /\ frozen = {} /\ work = <<>>

NewMutable(k) ==
  /\ phase = "nodes" /\ N < MaxNodes
  /\ kind' = Append(kind, k) /\ hist' = Append(hist, <<"new", k, 0>>)
  /\ UNCHANGED <<edges, roots, phase, outcome, frozen, work>>

NewComposite(k, b) ==
  /\ phase = "nodes" /\ N < MaxNodes /\ b \in Nodes
  /\ (k = "bound" => kind[b] \in Mutable)
  /\ (k = "mutclosure" => kind[b] \in Mutable)
  /\ kind' = Append(kind, k) /\ edges' = edges \cup {<<N + 1, b>>}
  /\ hist' = Append(hist, <<"new", k, b>>)
  /\ UNCHANGED <<roots, phase, outcome, frozen, work>>

NodesDone == /\ phase = "nodes" /\ N >= 1 /\ phase' = "edges" /\ UNCHANGED <<kind, edges, roots, outcome, hist, frozen, work>>

\* edges are added in increasing order so that each edge set is built once
EdgeList == {e \in Nodes \X Nodes : kind[e[1]] \in {"list", "dict"}}
Code(e) == e[1] * 10 + e[2]
IsEdge(h) == h[1] \in {"edge", "kedge"}
LastEdgeCode == IF \E i \in 1..Len(hist) : IsEdge(hist[i])
                THEN LET i == CHOOSE i \in 1..Len(hist) : IsEdge(hist[i]) /\ \A j \in (i + 1)..Len(hist) : ~IsEdge(hist[j])
                     IN hist[i][2] * 10 + hist[i][3] + (IF hist[i][1] = "kedge" THEN 100 ELSE 0)
                ELSE 0
NumEdges == Cardinality({i \in 1..Len(hist) : IsEdge(hist[i])})
\* hashable nodes can be dict keys and set elements: functions and bound methods are hashable and
\* reach mutable values through defaults, closure cells and receivers; a tuple is hashable if its element is
RECURSIVE HashableNode(_)
HashableNode(n) == CASE kind[n] \in {"default", "closure", "mutclosure", "rebclosure", "bound"} -> TRUE
                     [] kind[n] = "tuple" -> \A c \in Succ(n) : HashableNode(c)
                     [] OTHER -> FALSE
KeyEdgeList == {e \in Nodes \X Nodes : kind[e[1]] \in {"dict", "set"} /\ HashableNode(e[2])}
AddKeyEdge(e) ==
  /\ phase = "edges" /\ e \in KeyEdgeList /\ e \notin edges /\ Code(e) + 100 > LastEdgeCode /\ NumEdges < MaxEdges
  /\ edges' = edges \cup {e} /\ hist' = Append(hist, <<"kedge", e[1], e[2]>>)
  /\ UNCHANGED <<kind, roots, phase, outcome, frozen, work>>

AddEdge(e) ==
  /\ phase = "edges" /\ e \in EdgeList /\ Code(e) > LastEdgeCode /\ NumEdges < MaxEdges
  /\ edges' = edges \cup {e} /\ hist' = Append(hist, <<"edge", e[1], e[2]>>)
  /\ UNCHANGED <<kind, roots, phase, outcome, frozen, work>>
EdgesDone == /\ phase = "edges" /\ phase' = "roots" /\ UNCHANGED <<kind, edges, roots, outcome, hist, frozen, work>>

ChooseRoots(R) ==
  /\ phase = "roots" /\ R \subseteq Nodes /\ Cardinality(R) <= 2
  /\ roots' = R /\ phase' = "exec"
  /\ hist' = hist \o [i \in 1..Cardinality(R) |-> <<"global", CHOOSE n \in R : Cardinality({m \in R : m < n}) = i - 1, 0>>]
  /\ UNCHANGED <<kind, edges, outcome, frozen, work>>

\* the module finishes; whatever the outcome, every global is frozen
Finish(o) ==
  /\ phase = "exec" /\ outcome' = o /\ phase' = "freeze"
  /\ work' = [i \in 1..Cardinality(roots) |-> CHOOSE n \in roots : Cardinality({m \in roots : m < n}) = i - 1]
  /\ hist' = Append(hist, <<"finish", o, 0>>)
  /\ UNCHANGED <<kind, edges, roots, frozen>>

\* one step of the flag-first traversal
FreezeVisit ==
  /\ phase = "freeze" /\ work # <<>>
  /\ LET n == Head(work)
         kids == Succ(n)
         kidseq == [i \in 1..Cardinality(kids) |-> CHOOSE c \in kids : Cardinality({m \in kids : m < c}) = i - 1]
     IN IF kind[n] \in Flagged /\ n \in frozen
        THEN work' = Tail(work) /\ UNCHANGED frozen
        ELSE /\ frozen' = IF kind[n] \in Flagged THEN frozen \cup {n} ELSE frozen
             /\ work' = kidseq \o Tail(work)
  /\ UNCHANGED <<kind, edges, roots, phase, outcome, hist>>
FreezeDone == /\ phase = "freeze" /\ work = <<>> /\ phase' = "done"
              /\ UNCHANGED <<kind, edges, roots, outcome, hist, frozen, work>>

Next == \/ \E k \in Mutable : NewMutable(k)
        \/ \E k \in Composite, b \in Nodes : NewComposite(k, b)
        \/ NodesDone \/ (\E e \in EdgeList : AddEdge(e)) \/ (\E e \in KeyEdgeList : AddKeyEdge(e)) \/ EdgesDone
        \/ (\E R \in SUBSET Nodes : ChooseRoots(R))
        \/ Finish("ok") \/ Finish("fail")
        \/ FreezeVisit \/ FreezeDone

\* the traversal freezes exactly the flagged nodes reachable from the globals (and terminates:
\* the state graph is finite and acyclic in phase "freeze" because the work measure decreases)
FrozenExactly == phase = "done" => frozen = {n \in Reach : kind[n] \in Flagged}
MutableUnreached == phase = "done" => \A n \in Nodes \ Reach : n \notin frozen
WorkBounded == Len(work) <= 4 * MaxNodes * MaxNodes + 4

\* expected observation for the harness: which mutable nodes must be frozen
Emit == phase = "done" =>
        PrintT("G" \o ToJson([hist |-> hist, frozen |-> [n \in Nodes |-> IF n \in Reach THEN 1 ELSE 0], kinds |-> kind]))
=============================================================================
