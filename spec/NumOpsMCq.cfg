CONSTANT Tier = 0
INIT Init
NEXT Next
INVARIANT Facts
