------------------------------- MODULE C17MC -------------------------------
(***************************************************************************)
(* Design check of the serialisation format (Serial.tla): over a small     *)
(* field domain that covers every constant kind, every flag combination,   *)
(* empty and non-empty lists of every list-valued field and all            *)
(* adjacencies of empty / equal / different strings in the lock-step       *)
(* string section,                                                         *)
(*     Decode(Encode(p)) = p,  Encode(Decode(Encode(p))) = Encode(p),      *)
(* and damaged encodings (other version, a varint or a string byte missing *)
(* or added, wrong magic, wrong offset) are rejected.                      *)
(* The domain is a union of slices; each varies one group of fields fully  *)
(* while the others keep a default.                                        *)
(***************************************************************************)
EXTENDS Serial, TLC

CONSTANT Full          \* TRUE: the thorough domain
V == 14

S0 == <<>>
SA == <<97>>
SAA == <<97, 97>>
SB == <<98>>
Strs3 == {S0, SA, <<97, 98>>}
Strs4 == {S0, SA, SAA, SB}

Id(s, l, c) == [name |-> s, line |-> l, col |-> c]
Id1 == Id(SA, 1, 1)
Id2 == Id(S0, 300000, 70000)
IdSeqs == {<<>>, <<Id1>>, <<Id2, Id1>>}

DefaultFunc == [name |-> <<102>>, line |-> 1, col |-> 1, doc |-> S0, code |-> <<0>>, pclinetab |-> <<>>, locals |-> <<>>,
                cells |-> <<>>, freevars |-> <<>>, maxstack |-> 0, numparams |-> 0, numkwonly |-> 0,
                hasvarargs |-> FALSE, haskwargs |-> FALSE]
F2 == [DefaultFunc EXCEPT !.name = SAA, !.doc = SA, !.code = <<1, 2, 255>>, !.pclinetab = <<4226, 65535, 1>>, !.locals = <<Id1, Id2>>,
                          !.cells = <<1>>, !.freevars = <<Id2>>, !.maxstack = 7, !.numparams = 2, !.numkwonly = 1,
                          !.hasvarargs = TRUE, !.haskwargs = TRUE]
DefaultProg == [filename |-> <<112>>, loads |-> <<>>, names |-> <<>>, consts |-> <<>>, globals |-> <<>>,
                toplevel |-> DefaultFunc, funcs |-> <<>>, recursion |-> FALSE]

\* constants of every kind, with the extreme values of each representation
MaxI64 == Mk(FALSE, <<32767, 32767, 32767, 32767, 7>>)      \*  2^63 - 1
MinI64 == Mk(TRUE, <<0, 0, 0, 0, 8>>)                       \* -2^63
ConstDom ==
  {[t |-> "string", v |-> s] : s \in Strs3} \cup
  {[t |-> "bytes", v |-> s] : s \in {S0, <<0, 255>>, SA}} \cup
  {[t |-> "int", v |-> x] : x \in {FromInt(0), FromInt(1), FromInt(-1), FromInt(1073741823), MaxI64, MinI64}} \cup
  {[t |-> "float", v |-> m] : m \in {<<>>, <<0, 0, 0, 0, 8>>, <<0, 0, 0, 32640, 3>>, <<32767, 32767, 32767, 32767, 15>>, <<1>>}} \cup
  {[t |-> "bigint", v |-> x] : x \in {Mk(FALSE, <<0, 0, 0, 0, 8>>), Mk(TRUE, <<1, 0, 0, 0, 8>>), Mk(FALSE, <<0, 0, 0, 0, 0, 0, 0, 1>>)}}
OneOfEach == {[t |-> "string", v |-> SA], [t |-> "bytes", v |-> SA], [t |-> "int", v |-> FromInt(-1)],
              [t |-> "float", v |-> <<1>>], [t |-> "bigint", v |-> Mk(TRUE, <<1, 0, 0, 0, 8>>)]}
ConstSeqs == {<<>>} \cup {<<c>> : c \in ConstDom} \cup {<<c, d>> : c \in ConstDom, d \in ConstDom}
             \cup (IF Full THEN {<<c, d, e>> : c \in OneOfEach, d \in OneOfEach, e \in OneOfEach} ELSE {})

FuncDom ==
  [name : IF Full THEN {S0, SA} ELSE {SA}, line : {1}, col : {1}, doc : IF Full THEN Strs3 ELSE {S0, SA}, code : {S0, <<1, 2, 255>>},
   pclinetab : IF Full THEN {<<>>, <<4226>>, <<65535, 1>>} ELSE {<<>>, <<65535, 1>>},
   locals : IdSeqs, cells : IF Full THEN {<<>>, <<0>>, <<1, 0>>} ELSE {<<>>, <<1, 0>>},
   freevars : IF Full THEN IdSeqs ELSE {<<>>, <<Id2>>}, maxstack : IF Full THEN {0, 5} ELSE {5},
   numparams : {0, 2}, numkwonly : {0, 1}, hasvarargs : BOOLEAN, haskwargs : BOOLEAN]

ProgDom ==
  [filename : {S0, <<112, 46, 115>>}, loads : IdSeqs, names : {<<>>, <<SA>>, <<S0, SAA>>}, consts : {<<>>, <<[t |-> "bytes", v |-> SA]>>},
   globals : IdSeqs, toplevel : {DefaultFunc, F2}, funcs : {<<>>, <<F2>>, <<DefaultFunc, F2>>, <<F2, DefaultFunc>>}, recursion : BOOLEAN]

\* lock step of the string section: every string-valued position next to every other
StrField  == IF Full THEN Strs4 ELSE {S0, SA, SAA}
StrField2 == IF Full THEN Strs4 ELSE {S0, SA}
StringDom ==
  {[DefaultProg EXCEPT !.filename = a, !.loads = <<Id(b, 1, 1)>>, !.names = <<c>>, !.consts = <<[t |-> "string", v |-> d]>>,
                       !.globals = <<Id(e, 2, 2)>>,
                       !.toplevel = [DefaultFunc EXCEPT !.name = f, !.doc = g, !.code = h]] :
     a \in StrField, b \in StrField, c \in StrField, d \in StrField, e \in StrField2, f \in StrField2, g \in StrField2,
     h \in StrField2}

\* The domain is cut into parts so that TLC's workers share it: a first step picks a part,
\* a second step picks a program of that part.
StrSeq == IF Full THEN <<S0, SA, SAA, SB>> ELSE <<S0, SA, SAA>>
NS == Len(StrSeq)
FuncPart(n) == {f \in FuncDom : /\ f.hasvarargs = (n % 2 = 1) /\ f.haskwargs = ((n \div 2) % 2 = 1)
                                 /\ f.numparams = (IF (n \div 4) % 2 = 1 THEN 2 ELSE 0)}
Part(sel) ==
  IF sel <= NS THEN {d \in StringDom : d.filename = StrSeq[sel]}
  ELSE IF sel <= NS + 8 THEN {[DefaultProg EXCEPT !.toplevel = f] : f \in FuncPart(sel - NS - 1)}
                              \cup {[DefaultProg EXCEPT !.funcs = <<f, DefaultFunc>>] : f \in FuncPart(sel - NS - 1)}
  ELSE IF sel = NS + 9 THEN {[DefaultProg EXCEPT !.consts = cs] : cs \in ConstSeqs}
  ELSE ProgDom
NParts == NS + 10

VARIABLES p, sel
Init == p = DefaultProg /\ sel = 0
Next == \/ sel = 0 /\ sel' \in 1..NParts /\ p' = p
        \/ sel \in 1..NParts /\ p' \in Part(sel) /\ sel' = -1

Enc == Encode(p, V)
RoundTripOK == RoundTrip(p, V)
CanonicalOK == Canonical(Enc, V)
\* damaged files are rejected
DropLast(s) == SubSeq(s, 1, Len(s) - 1)
Rejects ==
  /\ ~Decode(Enc, V + 1).ok
  /\ ~Decode([Enc EXCEPT !.magic = <<33, 115, 107, 122>>], V).ok
  /\ ~Decode([Enc EXCEPT !.off = @ + 1], V).ok
  /\ ~Decode([Enc EXCEPT !.toks = DropLast(@), !.off = 8 + SumVarLen(DropLast(Enc.toks), 1)], V).ok
  /\ ~Decode([Enc EXCEPT !.toks = Append(@, <<>>), !.off = @ + 1], V).ok
  /\ ~Decode([Enc EXCEPT !.strs = Append(@, 0)], V).ok
  /\ Enc.strs # <<>> => ~Decode([Enc EXCEPT !.strs = DropLast(@)], V).ok
=============================================================================
