------------------------------ MODULE C08Trace ------------------------------
(***************************************************************************)
(* Record validation for C08 (code -> spec).  kind "bind": one call of a   *)
(* Starlark-defined function executed by the real pipeline; "unpack" /     *)
(* "unpackpos": one direct call of UnpackArgs / UnpackPositionalArgs.      *)
(***************************************************************************)
EXTENDS Binding, Json, IOUtils

Recs == ndJsonDeserialize(IOEnv.VERIF_RECS)
VARIABLE i

BindGood(r) ==
  LET e == Bind(r.sig, r.call) IN
  /\ e.ok = r.res.ok
  /\ e.ok => /\ e.vals = r.res.vals
             /\ e.args.some = r.res.args.some
             /\ e.args.some => e.args.v = r.res.args.v
             /\ e.kw.some = r.res.kw.some
             /\ e.kw.some => e.kw.v = r.res.kw.v

Good(r) == CASE r.kind = "bind"      -> BindGood(r) /\ BindWellFormed(r.sig, r.call)
             [] r.kind = "unpack"    -> UnpackOK(r.pairs, r.call, r.res)
             [] r.kind = "unpackpos" -> UnpackPosOK(r.pairs, r.min, r.call, r.res)

K == 64
Init == i \in 1..(IF Len(Recs) < K THEN Len(Recs) ELSE K)
Next == i + K <= Len(Recs) /\ i' = i + K
Check == Good(Recs[i]) \/ PrintT(<<"BAD", Recs[i].id>>)
Done == PrintT(<<"CHECKED", TLCGet("stats").distinct>>)
=============================================================================
