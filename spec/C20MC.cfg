CONSTANTS
  MaxRoots = 3
  MaxViews = 1
  MaxElems = 2
  Depth = 4
  Flags = FALSE
  Rich = TRUE
INIT Init
NEXT Next
VIEW HView
INVARIANT TypeOK
INVARIANT Acyclic
INVARIANT FrozenStable
INVARIANT FrozenClosed
