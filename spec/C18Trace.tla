------------------------------ MODULE C18Trace ------------------------------
(***************************************************************************)
(* Record validation for C18 (code -> spec).  Records come from            *)
(* `vh c18-run` (the real lib/json):                                       *)
(*  c = "dec": doc (bytes), res = json.decode(doc), dflt = json.decode(doc,*)
(*             default=SENTINEL) with isdefault = "the sentinel came back" *)
(*  c = "enc": x = the Starlark value (as evaluated by the interpreter),    *)
(*             enc = json.encode(x) (bytes), back = json.decode(enc)       *)
(* Verdicts: "ok", a reason for a rejection (printed as BAD), or a note    *)
(* for inputs on which RFC 8259 / the module documentation are silent.     *)
(***************************************************************************)
EXTENDS JsonSpec, Json, IOUtils, TLC

Recs == ndJsonDeserialize(IOEnv.VERIF_RECS)
VARIABLE i

VDec(r) ==
  IF ~ValidUTF8(r.doc) THEN "note:not-utf8"                     \* not a JSON text at all (RFC 8259 8.1); outcome not judged
  ELSE LET p == ParseDoc(r.doc) IN
    IF ~p.ok THEN                                               \* invalid document: rejected, and the default comes back
       (IF r.res.ok THEN "accepts-invalid"
        ELSE IF ~(r.dflt.ok /\ r.dflt.isdefault) THEN "no-default-for-invalid"
        ELSE "ok")
    ELSE IF p.q THEN "note:lone-surrogate"                      \* RFC 8259 8.2: behaviour unpredictable
    ELSE IF ~r.res.ok THEN (IF HasHugeNumber(p.v) THEN "note:number-out-of-range" ELSE "rejects-valid")
    ELSE IF ~Decoded(p.v, r.res.v) THEN "wrong-value"
    ELSE IF r.dflt.isdefault THEN "default-for-valid"
    ELSE IF ~(r.dflt.ok /\ Decoded(p.v, r.dflt.v)) THEN "wrong-value-with-default"
    ELSE "ok"

\* values that json.encode documents as errors: non-finite floats, non-string dict keys
RECURSIVE MustFail(_)
MustFail(x) ==
  CASE x.t = "float" -> ~IsFinite(x)
    [] x.t \in {"list", "tuple"} -> \E k \in 1..Len(x.v) : MustFail(x.v[k])
    [] x.t = "dict" -> \E k \in 1..Len(x.v) : x.v[k][1].t # "str" \/ MustFail(x.v[k][2])
    [] x.t = "struct" -> \E k \in 1..Len(x.v) : MustFail(x.v[k][2])
    [] OTHER -> FALSE

VEnc(r) ==
  LET x == r.x.v IN
  IF MustFail(x) THEN (IF r.enc.ok THEN "encodes-unencodable" ELSE "ok")
  ELSE IF ~Representable(x) THEN "note:not-representable"       \* e.g. a str that is not UTF-8: no JSON text denotes it
  ELSE IF ~r.enc.ok THEN "encode-fails"
  ELSE LET p == IF ValidUTF8(r.enc.v.v) THEN ParseDoc(r.enc.v.v) ELSE Fail IN
    IF ~p.ok THEN "encode-emits-invalid-json"
    ELSE IF p.q \/ ~Denotes(p.v, x) THEN "encode-denotes-other-data"
    ELSE IF ~r.back.ok THEN "roundtrip-fails"
    ELSE IF ~RoundTrip(x, r.back.v) THEN "roundtrip-differs"
    ELSE "ok"

Verdict(r) == IF r.c = "dec" THEN VDec(r) ELSE VEnc(r)

\* Cross-validation of the ORACLE (not of the implementation) against an independent anchor: the
\* driver attaches CPython's strict json.loads outcome to each UTF-8 document (py.valid, and py.v =
\* the value in the harness encoding when it has one).  A disagreement is a machinery error.
XVal(r) ==
  IF r.c # "dec" \/ ~r.py.has \/ ~ValidUTF8(r.doc) THEN "ok"
  ELSE LET p == ParseDoc(r.doc) IN
    IF p.ok # r.py.valid THEN "validity"
    ELSE IF p.ok /\ r.py.hasv /\ ~p.q /\ ~HasHugeNumber(p.v) /\ ~Decoded(p.v, r.py.v) THEN "value"
    ELSE "ok"

\* one trivial initial state: deep RECURSIVE evaluation stays out of initial states
K == 64
Init == i = 0
Next == IF i = 0 THEN i' \in 1..(IF Len(Recs) < K THEN Len(Recs) ELSE K)
        ELSE i + K <= Len(Recs) /\ i' = i + K
Check == i = 0 \/
         LET v == Verdict(Recs[i]) IN
         /\ (v = "ok" \/ PrintT(<<"VERDICT", Recs[i].id, v>>))
         /\ LET x == XVal(Recs[i]) IN x = "ok" \/ PrintT(<<"XVAL", Recs[i].id, x>>)
Done == PrintT(<<"CHECKED", TLCGet("stats").distinct - 1>>)
=============================================================================
