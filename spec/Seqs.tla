------------------------------- MODULE Seqs -------------------------------
(***************************************************************************)
(* Sequence and string operations of Starlark (doc/spec.md), written over  *)
(* sequences of integers (byte / letter codes).  Indexing conventions,     *)
(* slicing, searching, splitting, stripping, replacing, case mapping and   *)
(* the list methods.  Where Python 3 and the documented Starlark behaviour *)
(* differ (DESIGN B.5) the Starlark behaviour is specified.                *)
(***************************************************************************)
EXTENDS Integers, Sequences, FiniteSets, TLC

None    == [some |-> FALSE]
Some(x) == [some |-> TRUE, v |-> x]
Fail    == [ok |-> FALSE]
Ok(x)   == [ok |-> TRUE, v |-> x]

Min2(a, b) == IF a < b THEN a ELSE b
Max2(a, b) == IF a > b THEN a ELSE b
Clamp(x, a, b) == IF x < a THEN a ELSE IF x > b THEN b ELSE x
SetMin(S) == CHOOSE x \in S : \A y \in S : x <= y
SetMax(S) == CHOOSE x \in S : \A y \in S : x >= y

Rev(s) == [i \in 1..Len(s) |-> s[Len(s) + 1 - i]]

(***************************************************************************)
(* Indexing conventions.                                                   *)
(***************************************************************************)
NormIdx(o, n, dflt) == IF ~o.some THEN dflt ELSE IF o.v < 0 THEN o.v + n ELSE o.v

\* the (start, end) pair of a sub-range argument: negative counts from the end,
\* everything is clamped into [0, n]; start may exceed end (= empty range)
Indices(lo, hi, n) == <<Clamp(NormIdx(lo, n, 0), 0, n), Clamp(NormIdx(hi, n, n), 0, n)>>

\* s[a:b] with 0-based half-open bounds already normalised
Sub(s, a, b) == IF a < b THEN SubSeq(s, a + 1, b) ELSE <<>>

Index(s, i) ==
  LET n == Len(s)
      j == IF i < 0 THEN i + n ELSE i
  IN IF j < 0 \/ j >= n THEN Fail ELSE Ok(s[j + 1])

RECURSIVE Walk(_, _, _, _)
Walk(s, cur, stop, step) ==
  IF (step > 0 /\ cur >= stop) \/ (step < 0 /\ cur <= stop) THEN <<>>
  ELSE <<s[cur + 1]>> \o Walk(s, cur + step, stop, step)

\* s[lo:hi:st]; lo, hi, st are optionals; stride 0 is an error
Slice(s, lo, hi, st) ==
  LET n    == Len(s)
      step == IF ~st.some THEN 1 ELSE st.v
  IN IF step = 0 THEN Fail
     ELSE IF step > 0
     THEN Ok(Walk(s, Clamp(NormIdx(lo, n, 0), 0, n), Clamp(NormIdx(hi, n, n), 0, n), step))
     ELSE Ok(Walk(s, Clamp(NormIdx(lo, n, n - 1), -1, n - 1), Clamp(NormIdx(hi, n, -1), -1, n - 1), step))

(***************************************************************************)
(* Searching.                                                              *)
(***************************************************************************)
MatchAt(s, sub, i) ==            \* sub occurs in s at 0-based offset i
  /\ i >= 0 /\ i + Len(sub) <= Len(s)
  /\ \A j \in 1..Len(sub) : s[i + j] = sub[j]
Occ(s, sub)      == {i \in 0..(Len(s) - Len(sub)) : MatchAt(s, sub, i)}
FirstIdx(s, sub) == IF Occ(s, sub) = {} THEN -1 ELSE SetMin(Occ(s, sub))
LastIdx(s, sub)  == IF Occ(s, sub) = {} THEN -1 ELSE SetMax(Occ(s, sub))

\* find/rfind: search within s[start:end], report the offset within s
Find(s, sub, lo, hi, last) ==
  LET ab == Indices(lo, hi, Len(s))
      sl == Sub(s, ab[1], ab[2])
      i  == IF last THEN LastIdx(sl, sub) ELSE FirstIdx(sl, sub)
  IN IF i < 0 THEN -1 ELSE i + ab[1]

RECURSIVE CountNO(_, _)
CountNO(s, sub) ==               \* non-overlapping occurrences
  IF sub = <<>> THEN Len(s) + 1
  ELSE LET i == FirstIdx(s, sub) IN
       IF i < 0 THEN 0 ELSE 1 + CountNO(SubSeq(s, i + Len(sub) + 1, Len(s)), sub)
Count(s, sub, lo, hi) ==
  LET ab == Indices(lo, hi, Len(s)) IN CountNO(Sub(s, ab[1], ab[2]), sub)

HasPrefix(s, p) == MatchAt(s, p, 0)
HasSuffix(s, p) == MatchAt(s, p, Len(s) - Len(p))
\* startswith/endswith with a sequence of candidate affixes and a sub-range
StartsEnds(s, cands, lo, hi, ends) ==
  LET ab == Indices(lo, hi, Len(s))
      sl == Sub(s, ab[1], Max2(ab[1], ab[2]))
  IN \E k \in 1..Len(cands) : IF ends THEN HasSuffix(sl, cands[k]) ELSE HasPrefix(sl, cands[k])

RemovePrefix(s, p) == IF HasPrefix(s, p) THEN SubSeq(s, Len(p) + 1, Len(s)) ELSE s
RemoveSuffix(s, p) == IF HasSuffix(s, p) THEN SubSeq(s, 1, Len(s) - Len(p)) ELSE s

(***************************************************************************)
(* Character classes (ASCII).                                              *)
(***************************************************************************)
IsSpace(c) == c \in {9, 10, 11, 12, 13, 32}
IsLowerC(c) == c \in 97..122
IsUpperC(c) == c \in 65..90
IsDigitC(c) == c \in 48..57
IsAlphaC(c) == IsLowerC(c) \/ IsUpperC(c)
ToLowerC(c) == IF IsUpperC(c) THEN c + 32 ELSE c
ToUpperC(c) == IF IsLowerC(c) THEN c - 32 ELSE c

Lower(s) == [i \in 1..Len(s) |-> ToLowerC(s[i])]
Upper(s) == [i \in 1..Len(s) |-> ToUpperC(s[i])]
IsAlnum(s) == s # <<>> /\ \A i \in 1..Len(s) : IsAlphaC(s[i]) \/ IsDigitC(s[i])
IsAlpha(s) == s # <<>> /\ \A i \in 1..Len(s) : IsAlphaC(s[i])
IsDigit(s) == s # <<>> /\ \A i \in 1..Len(s) : IsDigitC(s[i])
IsSpaceS(s) == s # <<>> /\ \A i \in 1..Len(s) : IsSpace(s[i])
IsLower(s) == (\E i \in 1..Len(s) : IsAlphaC(s[i])) /\ \A i \in 1..Len(s) : ~IsUpperC(s[i])
IsUpper(s) == (\E i \in 1..Len(s) : IsAlphaC(s[i])) /\ \A i \in 1..Len(s) : ~IsLowerC(s[i])
\* title case: an upper-case letter only after an uncased character, a lower-case
\* letter only after a cased one, and at least one cased character
PrevCased(s, i) == i > 1 /\ IsAlphaC(s[i - 1])
IsTitle(s) ==
  /\ \E i \in 1..Len(s) : IsAlphaC(s[i])
  /\ \A i \in 1..Len(s) : /\ IsUpperC(s[i]) => ~PrevCased(s, i)
                          /\ IsLowerC(s[i]) => PrevCased(s, i)
Title(s) == [i \in 1..Len(s) |-> IF PrevCased(s, i) THEN ToLowerC(s[i]) ELSE ToUpperC(s[i])]
Capitalize(s) == [i \in 1..Len(s) |-> IF i = 1 THEN ToUpperC(s[i]) ELSE ToLowerC(s[i])]

(***************************************************************************)
(* Stripping.  chars = <<>> (or omitted) means white space.                *)
(***************************************************************************)
InStrip(c, chars) == IF chars = <<>> THEN IsSpace(c) ELSE \E k \in 1..Len(chars) : chars[k] = c
RECURSIVE LStripC(_, _)
LStripC(s, chars) == IF s # <<>> /\ InStrip(Head(s), chars) THEN LStripC(Tail(s), chars) ELSE s
RStripC(s, chars) == Rev(LStripC(Rev(s), chars))
StripC(s, chars)  == RStripC(LStripC(s, chars), chars)

(***************************************************************************)
(* Splitting.  max < 0 means no limit.                                     *)
(***************************************************************************)
RECURSIVE Split(_, _, _)
Split(s, sep, max) ==            \* sep # <<>>
  LET i == FirstIdx(s, sep) IN
  IF max = 0 \/ i < 0 THEN <<s>>
  ELSE <<SubSeq(s, 1, i)>> \o Split(SubSeq(s, i + Len(sep) + 1, Len(s)), sep, max - 1)

RECURSIVE RSplit(_, _, _)
RSplit(s, sep, max) ==
  LET i == LastIdx(s, sep) IN
  IF max = 0 \/ i < 0 THEN <<s>>
  ELSE RSplit(SubSeq(s, 1, i), sep, max - 1) \o <<SubSeq(s, i + Len(sep) + 1, Len(s))>>

FirstSpace(s) == IF \E i \in 1..Len(s) : IsSpace(s[i])
                 THEN SetMin({i \in 1..Len(s) : IsSpace(s[i])}) ELSE 0
LastSpace(s)  == IF \E i \in 1..Len(s) : IsSpace(s[i])
                 THEN SetMax({i \in 1..Len(s) : IsSpace(s[i])}) ELSE 0

RECURSIVE SplitSpace(_, _)
SplitSpace(s, max) ==
  LET t == LStripC(s, <<>>) k == FirstSpace(t) IN
  IF t = <<>> THEN <<>>
  ELSE IF max = 0 \/ k = 0 THEN <<t>>
  ELSE <<SubSeq(t, 1, k - 1)>> \o SplitSpace(SubSeq(t, k, Len(t)), max - 1)

RECURSIVE RSplitSpace(_, _)
RSplitSpace(s, max) ==
  LET t == RStripC(s, <<>>) k == LastSpace(t) IN
  IF t = <<>> THEN <<>>
  ELSE IF max = 0 \/ k = 0 THEN <<t>>
  ELSE RSplitSpace(SubSeq(t, 1, k), max - 1) \o <<SubSeq(t, k + 1, Len(t))>>

\* split lines at "\n" (code 10); a final newline does not start a new line
RECURSIVE SplitLines(_, _)
SplitLines(s, keep) ==
  IF s = <<>> THEN <<>>
  ELSE LET i == FirstIdx(s, <<10>>) IN
       IF i < 0 THEN <<s>>
       ELSE <<SubSeq(s, 1, IF keep THEN i + 1 ELSE i)>> \o SplitLines(SubSeq(s, i + 2, Len(s)), keep)

Partition(s, sep, right) ==
  IF sep = <<>> THEN Fail
  ELSE LET i == IF right THEN LastIdx(s, sep) ELSE FirstIdx(s, sep) IN
       IF i < 0 THEN (IF right THEN Ok(<<<<>>, <<>>, s>>) ELSE Ok(<<s, <<>>, <<>>>>))
       ELSE Ok(<<SubSeq(s, 1, i), sep, SubSeq(s, i + Len(sep) + 1, Len(s))>>)

RECURSIVE ReplEmpty(_, _, _)
ReplEmpty(s, new, cnt) ==
  IF cnt = 0 THEN s
  ELSE IF s = <<>> THEN new
  ELSE new \o <<Head(s)>> \o ReplEmpty(Tail(s), new, cnt - 1)
RECURSIVE Replace(_, _, _, _)
Replace(s, old, new, cnt) ==     \* cnt < 0: all occurrences
  IF cnt = 0 THEN s
  ELSE IF old = <<>> THEN ReplEmpty(s, new, cnt)
  ELSE LET i == FirstIdx(s, old) IN
       IF i < 0 THEN s
       ELSE SubSeq(s, 1, i) \o new \o Replace(SubSeq(s, i + Len(old) + 1, Len(s)), old, new, cnt - 1)

RECURSIVE Join(_, _)
Join(sep, parts) ==
  IF parts = <<>> THEN <<>>
  ELSE IF Len(parts) = 1 THEN parts[1]
  ELSE parts[1] \o sep \o Join(sep, Tail(parts))

(***************************************************************************)
(* Concatenation, repetition, list methods, sequence built-ins.            *)
(***************************************************************************)
RECURSIVE Repeat(_, _)
Repeat(s, n) == IF n <= 0 THEN <<>> ELSE s \o Repeat(s, n - 1)

\* list.insert(i, x): negative counts from the end, then clamped
Insert(s, i, x) ==
  LET n == Len(s)
      j == Clamp(IF i < 0 THEN i + n ELSE i, 0, n)
  IN SubSeq(s, 1, j) \o <<x>> \o SubSeq(s, j + 1, n)

\* list.pop(i): result and remaining list, or failure
Pop(s, io) ==
  LET n == Len(s)
      i == IF io.some THEN io.v ELSE n - 1
      j == IF i < 0 THEN i + n ELSE i
  IN IF j < 0 \/ j >= n THEN Fail
     ELSE Ok(<<s[j + 1], SubSeq(s, 1, j) \o SubSeq(s, j + 2, n)>>)

\* list.index(x, start, end)
ListIndex(s, x, lo, hi) ==
  LET ab == Indices(lo, hi, Len(s))
      C  == {i \in ab[1]..(ab[2] - 1) : s[i + 1] = x}
  IN IF C = {} THEN Fail ELSE Ok(SetMin(C))

Remove(s, x) ==
  IF \E i \in 1..Len(s) : s[i] = x
  THEN LET i == SetMin({k \in 1..Len(s) : s[k] = x}) IN Ok(SubSeq(s, 1, i - 1) \o SubSeq(s, i + 1, Len(s)))
  ELSE Fail

Zip(ss) ==                       \* ss: sequence of sequences
  IF ss = <<>> THEN <<>>
  ELSE LET n == SetMin({Len(ss[k]) : k \in 1..Len(ss)}) IN
       [i \in 1..n |-> [k \in 1..Len(ss) |-> ss[k][i]]]
Enumerate(s, start) == [i \in 1..Len(s) |-> <<start + i - 1, s[i]>>]

\* stable insertion sort of integers (oracle for sorted on ints / letters)
RECURSIVE InsSorted(_, _)
InsSorted(s, x) == IF s = <<>> THEN <<x>>
                   ELSE IF x < Head(s) THEN <<x>> \o s ELSE <<Head(s)>> \o InsSorted(Tail(s), x)
RECURSIVE Sorted(_)
Sorted(s) == IF s = <<>> THEN <<>> ELSE InsSorted(Sorted(SubSeq(s, 1, Len(s) - 1)), s[Len(s)])
SeqMin(s) == SetMin({s[i] : i \in 1..Len(s)})
SeqMax(s) == SetMax({s[i] : i \in 1..Len(s)})

\* range(a, b, st) as a sequence (st # 0)
RECURSIVE RangeSeq(_, _, _)
RangeSeq(a, b, st) ==
  IF (st > 0 /\ a >= b) \/ (st < 0 /\ a <= b) THEN <<>> ELSE <<a>> \o RangeSeq(a + st, b, st)
=============================================================================
