------------------------------- MODULE C14MC -------------------------------
(***************************************************************************)
(* Design-level check of Grammar (pattern P-E): renderer and recogniser    *)
(* agree.  For every tree the generator produces, the tree is well formed, *)
(* its rendering is not empty and the recogniser (the constructive search  *)
(* Grammar!Recognise, independent of TLC's state exploration used by       *)
(* C14Rec) accepts the rendering's terminal string.                        *)
(* Pins fixes the recogniser on strings whose status follows directly from *)
(* the language definition.                                                *)
(***************************************************************************)
EXTENDS C14Gen

StartSym == IF Mode = "expr" THEN "Expression" ELSE "File"

Yes(s) == Recognise(s, "Expression")
No(s)  == ~Recognise(s, "Expression")
YesF(s) == Recognise(s, "File")
NoF(s)  == ~Recognise(s, "File")

\* (Not ASSUMEs: TLC evaluates those on its main thread, whose stack is too small for the
\* recursive search.)
Pins ==
  \* comparisons do not associate; `not` binds looser than comparison; unary binds tighter
  /\ No(<<"ident", "<", "ident", "<", "ident">>)
  /\ Yes(<<"ident", "<", "ident", "and", "ident", "<", "ident">>)
  /\ No(<<"ident", "==", "not", "ident">>)
  /\ Yes(<<"not", "ident", "==", "ident">>)
  /\ Yes(<<"ident", "not", "in", "ident">>)
  /\ No(<<"ident", "not", "ident">>)
  /\ Yes(<<"ident", "*", "-", "ident">>)
  /\ No(<<"ident", "+", "not", "ident">>)
  \* conditional and lambda are the weakest; a conditional needs its else
  /\ Yes(<<"ident", "if", "ident", "else", "ident", "if", "ident", "else", "ident">>)
  /\ No(<<"ident", "if", "ident">>)
  /\ No(<<"ident", "+", "lambda", ":", "ident">>)
  /\ Yes(<<"lambda", ":", "ident", "if", "ident", "else", "ident">>)
  /\ No(<<"lambda", "ident", ",", ":", "ident">>)
  \* tuples, trailing commas, displays, comprehensions
  /\ Yes(<<"ident", ",", "ident">>)
  /\ No(<<"ident", ",">>)
  /\ Yes(<<"(", "ident", ",", ")">>)
  /\ Yes(<<"[", "ident", ",", "ident", ",", "]">>)
  /\ No(<<"[", ",", "]">>)
  /\ Yes(<<"[", "ident", "for", "ident", ",", "ident", "in", "ident", "if", "ident", "]">>)
  /\ No(<<"[", "ident", "if", "ident", "for", "ident", "in", "ident", "]">>)      \* first clause is a for
  /\ No(<<"[", "ident", "for", "ident", "in", "ident", ",", "ident", "]">>)        \* no bare tuple
  /\ No(<<"[", "ident", "for", "ident", "in", "lambda", ":", "ident", "]">>)
  /\ No(<<"[", "ident", "for", "ident", "in", "ident", "if", "ident", "else", "ident", "]">>)
  /\ Yes(<<"{", "ident", ":", "ident", "for", "ident", "in", "ident", "}">>)
  /\ No(<<"{", "ident", "for", "ident", "in", "ident", "}">>)
  \* calls: argument order; slices
  /\ Yes(<<"ident", "(", "ident", ",", "ident", "=", "ident", ",", "*", "ident", ",", "**", "ident", ",", ")">>)
  /\ No(<<"ident", "(", "ident", "=", "ident", ",", "ident", ")">>)
  /\ No(<<"ident", "(", "**", "ident", ",", "*", "ident", ")">>)
  /\ No(<<"ident", "(", "int", "=", "ident", ")">>)
  /\ Yes(<<"ident", "[", ":", ":", "]">>)
  /\ Yes(<<"ident", "[", "ident", ",", "ident", ":", "ident", "]">>)
  /\ No(<<"ident", "[", "ident", ":", "ident", ":", "ident", ":", "ident", "]">>)
  /\ No(<<"ident", "[", "]">>)
  /\ No(<<"reserved">>)
  \* statements
  /\ YesF(<<"def", "ident", "(", "ident", ",", "*", ",", "ident", "=", "int", ",", "**", "ident", ")", ":", "pass", "newline">>)
  /\ NoF(<<"def", "ident", "(", "**", "ident", ",", "ident", ")", ":", "pass", "newline">>)
  /\ NoF(<<"def", "ident", "(", "ident", "=", "int", ",", "ident", ")", ":", "pass", "newline">>)
  /\ NoF(<<"def", "ident", "(", "*", ")", ":", "pass", "newline">>)
  /\ YesF(<<"if", "ident", ":", "newline", "indent", "pass", ";", "pass", ";", "newline", "outdent",
            "elif", "ident", ":", "pass", "newline", "else", ":", "pass", "newline">>)
  /\ NoF(<<"if", "ident", ":", "newline", "pass", "newline">>)
  /\ NoF(<<"else", ":", "pass", "newline">>)
  /\ YesF(<<"for", "ident", ",", "ident", "in", "ident", ",", "ident", ":", "break", "newline">>)
  /\ NoF(<<"ident", "=", "ident", ",", "newline">>)                       \* trailing comma needs brackets
  /\ YesF(<<"ident", ",", "ident", "=", "ident", "newline">>)
  /\ NoF(<<"ident", "=", "ident", "=", "ident", "newline">>)              \* no chained assignment
  /\ YesF(<<"load", "(", "string", ",", "string", ",", "ident", "=", "string", ",", ")", "newline">>)
  /\ NoF(<<"load", "(", "string", ")", "newline">>)
  /\ NoF(<<"load", "(", "string", ",", "ident", ")", "newline">>)
  /\ NoF(<<"pass", "pass", "newline">>)
  /\ YesF(<<>>)

\* evaluated once, at the state whose tree is the single identifier
PinsChecked == (Mode = "expr" /\ Tree = Id0) => Pins

Design ==
  FHasHole(t) \/
  LET L == Lab(Tree, 1)[1]
      toks == IF Mode = "expr" THEN RenderExpr(L) ELSE RenderFile(L)
  IN /\ WF(L)
     /\ Len(Minimal(toks)) > 0
     /\ Recognise(Classify(toks), StartSym)
     /\ PinsChecked
=============================================================================
