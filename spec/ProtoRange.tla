------------------------------ MODULE ProtoRange ------------------------------
(***************************************************************************)
(* C20, ranges: which Starlark value may be stored in a protocol field of  *)
(* a given scalar kind, and what must be read back.  Written from the      *)
(* protocol buffers language guide (scalar value types, enum, string =     *)
(* UTF-8 text) and the package comment of lib/proto ("assignments perform  *)
(* dynamic checks on the type and range of the value to ensure that the    *)
(* message is at all times valid"; None unsets a field).                   *)
(*                                                                         *)
(* Values are the JSON encoding of harness/cmd/vh/c20.go:                  *)
(*   [t |-> "int", neg, m]  (BitInt limbs)      [t |-> "bool", v]          *)
(*   [t |-> "float", s, e, m] (binary64 fields) [t |-> "str"|"bytes", v]   *)
(*   [t |-> "enum", nil, n, name, ty]           [t |-> "msg", ty, f]       *)
(*   [t |-> "none"], [t |-> "list"|"tuple"|"dict", v], [t |-> "other"]     *)
(***************************************************************************)
EXTENDS BitInt, TLC

Int32Kinds  == {"int32", "sint32", "sfixed32"}
Int64Kinds  == {"int64", "sint64", "sfixed64"}
UInt32Kinds == {"uint32", "fixed32"}
UInt64Kinds == {"uint64", "fixed64"}
IntKinds    == Int32Kinds \cup Int64Kinds \cup UInt32Kinds \cup UInt64Kinds

One == FromInt(1)
MinOf(k) == CASE k \in Int32Kinds -> INeg(Pow2(31))
              [] k \in Int64Kinds -> INeg(Pow2(63))
              [] OTHER -> Zero
MaxOf(k) == CASE k \in Int32Kinds  -> ISub(Pow2(31), One)
              [] k \in Int64Kinds  -> ISub(Pow2(63), One)
              [] k \in UInt32Kinds -> ISub(Pow2(32), One)
              [] k \in UInt64Kinds -> ISub(Pow2(64), One)
BigOf(v) == [neg |-> v.neg, m |-> v.m]
InRange(k, v) == v.t = "int" /\ ILe(MinOf(k), BigOf(v)) /\ ILe(BigOf(v), MaxOf(k))

(***************************************************************************)
(* Text: a string field holds UTF-8 (RFC 3629: no overlong forms, no       *)
(* surrogates, at most U+10FFFF).                                          *)
(***************************************************************************)
Cont(b) == b >= 128 /\ b <= 191
RECURSIVE ValidUTF8From(_, _)
ValidUTF8From(s, i) ==
  IF i > Len(s) THEN TRUE
  ELSE LET b == s[i] n == Len(s) IN
    IF b < 128 THEN ValidUTF8From(s, i + 1)
    ELSE IF b >= 194 /\ b <= 223 THEN i + 1 <= n /\ Cont(s[i + 1]) /\ ValidUTF8From(s, i + 2)
    ELSE IF b >= 224 /\ b <= 239 THEN
         /\ i + 2 <= n /\ Cont(s[i + 1]) /\ Cont(s[i + 2])
         /\ (b = 224 => s[i + 1] >= 160)          \* overlong
         /\ (b = 237 => s[i + 1] <= 159)          \* surrogates
         /\ ValidUTF8From(s, i + 3)
    ELSE IF b >= 240 /\ b <= 244 THEN
         /\ i + 3 <= n /\ Cont(s[i + 1]) /\ Cont(s[i + 2]) /\ Cont(s[i + 3])
         /\ (b = 240 => s[i + 1] >= 144)          \* overlong
         /\ (b = 244 => s[i + 1] <= 143)          \* above U+10FFFF
         /\ ValidUTF8From(s, i + 4)
    ELSE FALSE
ValidUTF8(s) == ValidUTF8From(s, 1)

(***************************************************************************)
(* Floats: binary64 as sign s, biased exponent e, 52-bit mantissa in four  *)
(* limbs base 2^15 (little endian).                                        *)
(***************************************************************************)
IsFloat(v)  == v.t = "float"
IsNaN(v)    == v.e = 2047 /\ v.m # <<0, 0, 0, 0>>
\* exactly representable as binary32: zero, inf/nan, or a normal binary32 exponent with the
\* low 29 mantissa bits clear (binary32 subnormals are left out: never required to be exact)
Fits32(v)   == \/ (v.e = 0 /\ v.m = <<0, 0, 0, 0>>) \/ v.e = 2047
               \/ (v.e >= 1023 - 126 /\ v.e <= 1023 + 127 /\ v.m[1] = 0 /\ v.m[2] % 16384 = 0)
RECURSIVE Log2(_)
Log2(n) == IF n < 2 THEN 0 ELSE 1 + Log2(n \div 2)
Pad4(m) == [j \in 1..4 |-> IF j <= Len(m) THEN m[j] ELSE 0]
\* the float equal to the integer n, 0 <= |n| < 2^30 (always exact in binary64)
FloatOfSmallInt(neg, n) ==
  IF n = 0 THEN [t |-> "float", s |-> 0, e |-> 0, m |-> <<0, 0, 0, 0>>]
  ELSE LET k == Log2(n) IN
       [t |-> "float", s |-> IF neg THEN 1 ELSE 0, e |-> 1023 + k, m |-> Pad4(ILsh(FromInt(n - 2 ^ k), 52 - k).m)]

(***************************************************************************)
(* Enumerations of the test schema (the same in both files).               *)
(***************************************************************************)
EnumVals == << [name |-> <<69, 48>>, n |-> Zero],                        \* E0 = 0
               [name |-> <<69, 49>>, n |-> One],                         \* E1 = 1
               [name |-> <<69, 53>>, n |-> FromInt(5)],                  \* E5 = 5
               [name |-> <<69, 77>>, n |-> FromInt(-2)],                 \* EM = -2
               [name |-> <<69, 77, 65, 88>>, n |-> ISub(Pow2(31), One)], \* EMAX = 2^31-1
               [name |-> <<69, 77, 73, 78>>, n |-> INeg(Pow2(31))] >>    \* EMIN = -2^31
\* the second enum type F and the second message type U of the schema: fields of the same
\* kind but of another domain (kinds "enumf", "msgu")
FVals == << [name |-> <<70, 48>>, n |-> Zero],           \* F0 = 0
            [name |-> <<70, 49>>, n |-> One],            \* F1 = 1
            [name |-> <<70, 54>>, n |-> FromInt(6)] >>   \* F6 = 6
EnumKinds == {"enum", "enumf"}
MsgKinds  == {"msg", "msgu"}
ValsOf(k) == IF k = "enumf" THEN FVals ELSE EnumVals
Pkg(syn)  == IF syn = "p3" THEN <<99, 50, 48, 112, 51, 46>> ELSE <<99, 50, 48, 46>>      \* "c20p3." / "c20."
EnumTyK(k, syn) == Pkg(syn) \o (IF k = "enumf" THEN <<70>> ELSE <<69>>)                 \* E / F
MsgTyK(k, syn)  == Pkg(syn) \o (IF k = "msgu" THEN <<85>> ELSE <<84>>)                  \* T / U
EnumTy(syn) == EnumTyK("enum", syn)
MsgTy(syn)  == MsgTyK("msg", syn)
EnumOfK(k, syn, j) == [t |-> "enum", nil |-> FALSE, n |-> ValsOf(k)[j].n, name |-> ValsOf(k)[j].name, ty |-> EnumTyK(k, syn)]
EnumOf(syn, j) == EnumOfK("enum", syn, j)
IdxByNum(k, x)  == {j \in 1..Len(ValsOf(k)) : IEq(ValsOf(k)[j].n, x)}
IdxByName(k, s) == {j \in 1..Len(ValsOf(k)) : ValsOf(k)[j].name = s}
EnumIdxByNum(x)  == IdxByNum("enum", x)
EnumIdxByName(s) == IdxByName("enum", s)

(***************************************************************************)
(* Structural equality, tag first.                                         *)
(***************************************************************************)
RECURSIVE VEq(_, _)
VEq(a, b) ==
  /\ a.t = b.t
  /\ CASE a.t = "int"   -> a.neg = b.neg /\ a.m = b.m
       [] a.t = "bool"  -> a.v = b.v
       [] a.t \in {"str", "bytes"} -> a.v = b.v
       [] a.t = "float" -> a.s = b.s /\ a.e = b.e /\ a.m = b.m
       [] a.t = "enum"  -> a.nil = b.nil /\ a.n = b.n /\ a.name = b.name /\ a.ty = b.ty
       [] a.t = "msg"   -> /\ a.ty = b.ty /\ Len(a.f) = Len(b.f)
                           /\ \A j \in 1..Len(a.f) : a.f[j][1] = b.f[j][1] /\ VEq(a.f[j][2], b.f[j][2])
       [] a.t \in {"list", "tuple"} -> Len(a.v) = Len(b.v) /\ \A j \in 1..Len(a.v) : VEq(a.v[j], b.v[j])
       [] a.t = "dict"  -> /\ Len(a.v) = Len(b.v)
                           /\ \A j \in 1..Len(a.v) : VEq(a.v[j][1], b.v[j][1]) /\ VEq(a.v[j][2], b.v[j][2])
       [] OTHER -> TRUE

(***************************************************************************)
(* The default a field of kind k reads as when it is not set.              *)
(***************************************************************************)
Default(k, syn) ==
  CASE k \in IntKinds -> [t |-> "int", neg |-> FALSE, m |-> <<>>]
    [] k = "bool"     -> [t |-> "bool", v |-> FALSE]
    [] k \in {"float", "double"} -> [t |-> "float", s |-> 0, e |-> 0, m |-> <<0, 0, 0, 0>>]
    [] k = "string"   -> [t |-> "str", v |-> <<>>]
    [] k = "bytes"    -> [t |-> "bytes", v |-> <<>>]
    [] k \in EnumKinds -> EnumOfK(k, syn, 1)
    [] k \in MsgKinds  -> [t |-> "msg", ty |-> MsgTyK(k, syn), f |-> <<>>]

(***************************************************************************)
(* Judge(k, syn, v): what an assignment of v to a position of kind k must  *)
(* do.   d = "accept": succeed and store `want`;  "reject": fail with an   *)
(* error;  "either": documented as a conversion that may go away (string   *)
(* <-> bytes) or text that is not UTF-8 - it may be rejected, but if it is *)
(* accepted `want` must be stored and survive serialisation.               *)
(* want = [mode |-> "exact", v |-> x] or [mode |-> "float"] (some float:   *)
(* rounding is not judged) or [mode |-> "nan"].                            *)
(***************************************************************************)
Exact(x)  == [mode |-> "exact", v |-> x]
Accept(x) == [d |-> "accept", want |-> Exact(x)]
Reject    == [d |-> "reject", want |-> [mode |-> "none"]]

\* a dict given for a message field: {"i": int32} or {} (the pool uses nothing else)
DictMsgOK(v) == /\ Len(v.v) <= 1
                /\ \A j \in 1..Len(v.v) : /\ v.v[j][1].t = "str" /\ v.v[j][1].v = <<105>>
                                          /\ InRange("int32", v.v[j][2])
DictMsg(v, k, syn) == [t |-> "msg", ty |-> MsgTyK(k, syn), f |-> [j \in 1..Len(v.v) |-> <<v.v[j][1].v, v.v[j][2]>>]]

JudgeFloat(k, v) ==
  IF v.t = "float" THEN
       IF IsNaN(v) THEN [d |-> "accept", want |-> [mode |-> "nan"]]
       ELSE IF k = "double" \/ Fits32(v) THEN Accept(v)
       ELSE [d |-> "accept", want |-> [mode |-> "float"]]
  ELSE IF v.t = "int" THEN
       IF Len(v.m) <= 2 /\ (k = "double" \/ Len(v.m) <= 1 \/ NatOfMag(v.m) < 16777216)
       THEN Accept(FloatOfSmallInt(v.neg, NatOfMag(v.m)))
       ELSE [d |-> "accept", want |-> [mode |-> "float"]]
  ELSE Reject

Judge(k, syn, v) ==
  CASE k \in IntKinds -> IF InRange(k, v) THEN Accept(v) ELSE Reject
    [] k = "bool"     -> IF v.t = "bool" THEN Accept(v) ELSE Reject
    [] k \in {"float", "double"} -> JudgeFloat(k, v)
    [] k = "string"   -> IF v.t = "str" THEN [d |-> IF ValidUTF8(v.v) THEN "accept" ELSE "either", want |-> Exact(v)]
                         ELSE IF v.t = "bytes" THEN [d |-> "either", want |-> Exact([t |-> "str", v |-> v.v])]
                         ELSE Reject
    [] k = "bytes"    -> IF v.t = "bytes" THEN Accept(v)
                         ELSE IF v.t = "str" THEN [d |-> "either", want |-> Exact([t |-> "bytes", v |-> v.v])]
                         ELSE Reject
    [] k \in EnumKinds -> IF v.t = "int" THEN
                              (IF IdxByNum(k, BigOf(v)) # {} THEN Accept(EnumOfK(k, syn, CHOOSE j \in IdxByNum(k, BigOf(v)) : TRUE)) ELSE Reject)
                         ELSE IF v.t = "str" THEN
                              (IF IdxByName(k, v.v) # {} THEN Accept(EnumOfK(k, syn, CHOOSE j \in IdxByName(k, v.v) : TRUE)) ELSE Reject)
                         ELSE IF v.t = "enum" THEN
                              \* a value of another enum type is refused even if its number exists in this one
                              (IF ~v.nil /\ v.ty = EnumTyK(k, syn) THEN Accept(v) ELSE Reject)
                         ELSE Reject
    [] k \in MsgKinds  -> IF v.t = "msg" THEN (IF v.ty = MsgTyK(k, syn) THEN Accept(v) ELSE Reject)
                         ELSE IF v.t = "dict" THEN (IF DictMsgOK(v) THEN Accept(DictMsg(v, k, syn)) ELSE Reject)
                         ELSE Reject

\* a stored element is of the declared type and range
WellTyped(k, syn, x) ==
  CASE k \in IntKinds -> InRange(k, x)
    [] k = "bool"     -> x.t = "bool"
    [] k = "double"   -> x.t = "float"
    [] k = "float"    -> x.t = "float" /\ (Fits32(x) \/ x.e < 1023 - 126)
    [] k = "string"   -> x.t = "str"
    [] k = "bytes"    -> x.t = "bytes"
    [] k \in EnumKinds -> x.t = "enum" /\ ~x.nil /\ x.ty = EnumTyK(k, syn) /\ IdxByNum(k, x.n) # {}
    [] k \in MsgKinds  -> x.t = "msg" /\ x.ty = MsgTyK(k, syn)

\* observed element x agrees with what had to be stored
Stored(want, k, syn, x) ==
  CASE want.mode = "exact" -> VEq(want.v, x)
    [] want.mode = "float" -> WellTyped(k, syn, x)
    [] want.mode = "nan"   -> x.t = "float" /\ IsNaN(x)
    [] OTHER -> FALSE
=============================================================================
