----------------------------- MODULE C02MCCalls -----------------------------
(***************************************************************************)
(* C02, domain 1: callable x positional tuple x keyword list.              *)
(*                                                                         *)
(* The callables are those of the build under test (discovered by          *)
(* `vh c02-callables` and handed over as the constants CUniverse ...):     *)
(* universe built-ins, struct, members of                                  *)
(* json / math / time, methods of string, bytes, list, dict, set and of    *)
(* time values.  A TARGET is a callable together with one receiver of      *)
(* CrashDomain!Receivers.  For every target TLC enumerates                 *)
(*   quick   : arity 0 and 1 over the whole pool, arity 2 over the 11-value*)
(*             sub-pool, two keyword forms per keyword name                *)
(*   thorough: arity 0..2 over the whole pool, arity 3 as a covering       *)
(*             array of strength 2 over the 23-value MidPool (every pair   *)
(*             of values in every pair of positions), keyword forms        *)
(*             (0..1 positional, 1..2 keywords incl. a repeated name).     *)
(* Every case is one successor state of the target's root state and is     *)
(* printed once: C[group, name, receiver, [args], [[kw, v], ...]] (JSON)    *)
(* (args and values are indices into Pool, kw into KwNames).               *)
(* Expected outcome of every case: a value or an error (CrashDomain).      *)
(***************************************************************************)
EXTENDS CrashDomain, Json, IOUtils

\* the callables of the build under test, one set of names per group (written into the
\* configuration file by the driver from the output of `vh c02-callables`)
CONSTANTS CUniverse, CStruct, CJson, CMath, CTime, CString, CBytes, CList, CDict, CSet, CTimeval, CDuration
Tier == IOEnv.C02_TIER
Seed == atoi(IOEnv.C02_SEED) % 1000

VARIABLES tg, ph, cs
vars == <<tg, ph, cs>>

Groups == {"universe", "struct", "json", "math", "time", "string", "bytes", "list", "dict", "set", "timeval", "duration"}
NamesOf(g) ==
  CASE g = "universe" -> CUniverse [] g = "struct" -> CStruct [] g = "json" -> CJson [] g = "math" -> CMath
    [] g = "time" -> CTime [] g = "string" -> CString [] g = "bytes" -> CBytes [] g = "list" -> CList
    [] g = "dict" -> CDict [] g = "set" -> CSet [] g = "timeval" -> CTimeval [] g = "duration" -> CDuration
\* a target: <<group, name, index of the receiver in Receivers(group)>>
Targets == UNION {UNION {{<<g, n, r>> : r \in 1..Len(RecvOf(g, n))} : n \in NamesOf(g)} : g \in Groups}

(***************************************************************************)
(* positional tuples                                                       *)
(***************************************************************************)
A0 == {<<>>}
A1 == {<<i>> : i \in PoolIx}
A2(S) == {<<i, j>> : i \in S, j \in S}

\* Covering array of strength 2 with three columns: rows (i, j, i + j + s) for i, j < q, the
\* symbols taken modulo |V| (q >= |V|): columns 1 and 2 run over all pairs, and for a fixed
\* first (second) symbol the third runs over q >= |V| consecutive numbers, hence over all of V.
PairwiseCovers(rows, V) ==
  \A c \in {<<1, 2>>, <<1, 3>>, <<2, 3>>} : {<<r[c[1]], r[c[2]]>> : r \in rows} = V \X V

\* vs: the value set as a sequence
OA3(vs, q, s) ==
  {<<vs[(i % Len(vs)) + 1], vs[(j % Len(vs)) + 1], vs[((i + j + s) % Len(vs)) + 1]>> : i \in 0..(q - 1), j \in 0..(q - 1)}

SubVals  == [i \in 1..Len(SubPool) |-> Idx(SubPool[i])]
MidVals == [i \in 1..Len(MidPool) |-> Idx(MidPool[i])]
MidIx   == {MidVals[i] : i \in 1..Len(MidPool)}
A3quick    == OA3(SubVals, 11, Seed)
A3thorough == OA3(MidVals, 23, Seed)
ASSUME Len(MidPool) <= 23 /\ Len(SubVals) <= 11
ASSUME PairwiseCovers(A3quick, SubIx)
ASSUME PairwiseCovers(A3thorough, MidIx)

Positional == IF Tier = "quick" THEN A0 \cup A1 \cup A2(SubIx)
              ELSE A0 \cup A1 \cup A2(PoolIx) \cup A3thorough

(***************************************************************************)
(* keyword forms                                                           *)
(***************************************************************************)
K == Len(KwNames)
PoolAt(n) == (n % P) + 1
SubAt(n)  == SubVals[(n % Len(SubVals)) + 1]

KwQuick ==
  {[a |-> <<>>, k |-> <<<<n, SubAt(n + Seed)>>>>] : n \in 1..K} \cup
  {[a |-> <<PoolAt(n + Seed)>>, k |-> <<<<n, PoolAt(3 * n + Seed)>>>>] : n \in 1..K}
KwThorough ==
  {[a |-> <<>>, k |-> <<<<n, v>>>>] : n \in 1..K, v \in SubIx} \cup
  {[a |-> <<PoolAt(n + v + Seed)>>, k |-> <<<<n, v>>>>] : n \in 1..K, v \in SubIx} \cup
  \* two keywords; t = 0 repeats the name
  {[a |-> <<>>, k |-> <<<<n, PoolAt(n + t + Seed)>>, <<((n + t - 1) % K) + 1, PoolAt(n * (t + 2) + Seed)>>>>] : n \in 1..K, t \in 0..3}

Cases == {[a |-> t, k |-> <<>>] : t \in Positional} \cup (IF Tier = "quick" THEN KwQuick ELSE KwThorough)

(***************************************************************************)
(* the machine: one root state per target, one successor per case          *)
(***************************************************************************)
None == [a |-> <<>>, k |-> <<>>]
Init == tg \in Targets /\ ph = 0 /\ cs = None
Next == ph = 0 /\ ph' = 1 /\ cs' \in Cases /\ UNCHANGED tg

TypeOK == /\ tg \in Targets /\ ph \in {0, 1}
          /\ \A i \in 1..Len(cs.a) : cs.a[i] \in PoolIx
          /\ \A i \in 1..Len(cs.k) : cs.k[i][1] \in 1..K /\ cs.k[i][2] \in PoolIx
Emit == ph = 1 => PrintT("C" \o ToJson(<<tg[1], tg[2], RecvOf(tg[1], tg[2])[tg[3]], cs.a, cs.k>>))

\* coverage guard: what the domain declares, independently of what was printed
Declared == Cardinality(Targets) * Cardinality(Cases)
Post == /\ PrintT("META" \o ToJson([pool |-> Pool, kw |-> KwNames, unbounded |-> Unbounded, declared |-> Declared,
                                     targets |-> Cardinality(Targets), cases |-> Cardinality(Cases),
                                     distinct |-> TLCGet("stats").distinct]))
        /\ TLCGet("stats").distinct = Declared + Cardinality(Targets)
=============================================================================
