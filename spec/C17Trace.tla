------------------------------ MODULE C17Trace ------------------------------
(***************************************************************************)
(* Record validation for C17 (code -> spec).  One record = one program     *)
(* source: P = compiled from source, b1 = Write(P), Q = CompiledProgram(b1)*)
(* b2 = Write(Q); the record carries what a client observes when it runs   *)
(* P.Init and Q.Init, the metadata of P and Q, and whether b1 = b2.        *)
(*                                                                         *)
(* Laws (property statement):                                              *)
(*   Obs(P) = Obs(Q)    results, Print transcript, host effects, error,    *)
(*                      call stack with positions, executed steps          *)
(*   Meta(P) = Meta(Q)  file name, loaded modules, and of every function   *)
(*                      reachable from the globals: name, docstring,       *)
(*                      position, parameter names / positions / defaults,  *)
(*                      keyword-only count, *args / **kwargs flags, free   *)
(*                      variables, pc -> position table                    *)
(*   b1 = b2            writing the decoded program reproduces the bytes   *)
(* Conformance with the documented format (records with hasf): the file b1,*)
(* split by the harness into raw varints and string section only, is       *)
(* parsed HERE by Serial!Decode; the result must be exactly the fields the *)
(* implementation holds for P, re-encoding it must give b1 again, and the  *)
(* fields of Q must equal those of P.                                      *)
(* Values are compared tag first (Enc.tla convention), so that a constant  *)
(* decoded as another kind is a clean FALSE, not an evaluation error.      *)
(***************************************************************************)
EXTENDS Serial, Json, IOUtils, TLC

Recs == ndJsonDeserialize(IOEnv.VERIF_RECS)
VARIABLE recno

RECURSIVE VE(_, _)
SeqVE(s, t) == Len(s) = Len(t) /\ \A n \in 1..Len(s) : VE(s[n], t[n])
\* object identities are recorded for globals and defaults, not for trace() arguments
IdEq(a, b) == /\ ("id" \in DOMAIN a) = ("id" \in DOMAIN b)
              /\ ("id" \in DOMAIN a) => a.id = b.id
VE(a, b) ==
  /\ a.t = b.t
  /\ CASE a.t \in {"none", "nil", "cycle", "deep"} -> TRUE
       [] a.t \in {"bool", "int", "str", "bytes"} -> a.v = b.v
       [] a.t = "big"   -> a.neg = b.neg /\ a.m = b.m
       [] a.t = "float" -> a.s = b.s /\ a.e = b.e /\ a.m = b.m
       [] a.t \in {"list", "set"} -> IdEq(a, b) /\ SeqVE(a.v, b.v)
       [] a.t = "tuple" -> SeqVE(a.v, b.v)
       [] a.t = "dict"  -> /\ IdEq(a, b) /\ Len(a.v) = Len(b.v)
                           /\ \A n \in 1..Len(a.v) : VE(a.v[n][1], b.v[n][1]) /\ VE(a.v[n][2], b.v[n][2])
       [] a.t = "struct" -> /\ Len(a.v) = Len(b.v)
                            /\ \A n \in 1..Len(a.v) : a.v[n][1] = b.v[n][1] /\ VE(a.v[n][2], b.v[n][2])
       [] a.t = "ref"   -> a.id = b.id
       [] a.t = "range" -> a.s = b.s /\ a.len = b.len
       [] a.t = "other" -> a.type = b.type /\ a.s = b.s
       [] OTHER -> FALSE

EffEq(e, f) == /\ e.fn = f.fn /\ SeqVE(e.args, f.args) /\ Len(e.kw) = Len(f.kw)
               /\ \A n \in 1..Len(e.kw) : e.kw[n][1] = f.kw[n][1] /\ VE(e.kw[n][2], f.kw[n][2])

\* first observable component on which the two executions differ ("" if none)
ObsDiff(p, q) ==
  IF p.ok # q.ok THEN "ok"
  ELSE IF p.panic # q.panic THEN "panic"
  ELSE IF p.err # q.err THEN "error-text"
  ELSE IF p.stack # q.stack THEN "call-stack"
  ELSE IF p.printed # q.printed THEN "printed"
  ELSE IF ~(Len(p.effects) = Len(q.effects) /\ \A n \in 1..Len(p.effects) : EffEq(p.effects[n], q.effects[n])) THEN "effects"
  ELSE IF ~(/\ Len(p.globals) = Len(q.globals)
            /\ \A n \in 1..Len(p.globals) : p.globals[n][1] = q.globals[n][1] /\ VE(p.globals[n][2], q.globals[n][2])) THEN "globals"
  ELSE IF p.steps # q.steps THEN "steps"
  ELSE ""

ParamEq(a, b) == /\ a.name = b.name /\ a.pos = b.pos /\ a.dflt.some = b.dflt.some
                 /\ a.dflt.some => VE(a.dflt.v, b.dflt.v)
FnDiff(f, g) ==
  IF f.name # g.name THEN "name"
  ELSE IF f.doc # g.doc THEN "doc"
  ELSE IF f.pos # g.pos THEN "position"
  ELSE IF f.nparams # g.nparams THEN "numparams"
  ELSE IF f.nkwonly # g.nkwonly THEN "numkwonly"
  ELSE IF f.varargs # g.varargs THEN "hasvarargs"
  ELSE IF f.kwargs # g.kwargs THEN "haskwargs"
  ELSE IF ~(Len(f.params) = Len(g.params) /\ \A n \in 1..Len(f.params) : ParamEq(f.params[n], g.params[n])) THEN "params"
  ELSE IF f.freevars # g.freevars THEN "freevars"
  ELSE IF f.postab # g.postab THEN "position-table"
  ELSE ""
MetaDiff(p, q) ==
  IF p.filename # q.filename THEN "filename"
  ELSE IF p.loads # q.loads THEN "loads"
  ELSE IF Len(p.fns) # Len(q.fns) THEN "functions"
  ELSE LET bad == {n \in 1..Len(p.fns) : FnDiff(p.fns[n], q.fns[n]) # ""} IN
       IF bad = {} THEN "" ELSE FnDiff(p.fns[CHOOSE n \in bad : \A m \in bad : n <= m], q.fns[CHOOSE n \in bad : \A m \in bad : n <= m])

\* what the accessors report is consistent with itself
FnOK(f) == /\ Len(f.params) = f.nparams
           /\ f.nkwonly <= f.nparams - (IF f.varargs THEN 1 ELSE 0) - (IF f.kwargs THEN 1 ELSE 0)
           /\ Len(f.postab) % 3 = 0
           /\ f.postab # <<>> => f.postab[1] = 0

(***************************************************************************)
(* conformance of the file with Serial.tla                                 *)
(***************************************************************************)
StripF(f) == [name |-> f.name, line |-> f.line, col |-> f.col, doc |-> f.doc, code |-> f.code, locals |-> f.locals,
              cells |-> f.cells, freevars |-> f.freevars, maxstack |-> f.maxstack, numparams |-> f.numparams,
              numkwonly |-> f.numkwonly, hasvarargs |-> f.hasvarargs, haskwargs |-> f.haskwargs]
StripP(p) == [filename |-> p.filename, loads |-> p.loads, names |-> p.names, consts |-> p.consts, globals |-> p.globals,
              toplevel |-> StripF(p.toplevel), funcs |-> [n \in 1..Len(p.funcs) |-> StripF(p.funcs[n])],
              recursion |-> p.recursion]
FormatDiff(r) ==
  LET dec == Decode(r.b1, r.ver) IN
  IF ~dec.ok THEN "spec-decoder-rejects-file"
  ELSE IF StripP(dec.prog) # r.p.fields THEN "file-differs-from-fields-of-P"
  ELSE IF Encode(dec.prog, r.ver) # r.b1 THEN "file-not-canonical"
  ELSE IF r.q.fields # r.p.fields THEN "fields-of-Q-differ"
  ELSE ""

Why(r) ==
  IF ~r.decok THEN <<"decode", "rejected">>
  ELSE IF ObsDiff(r.p, r.q) # "" THEN <<"obs", ObsDiff(r.p, r.q)>>
  ELSE IF MetaDiff(r.p, r.q) # "" THEN <<"meta", MetaDiff(r.p, r.q)>>
  ELSE IF ~r.same THEN <<"bytes", "rewrite-differs">>
  ELSE IF ~(\A n \in 1..Len(r.p.fns) : FnOK(r.p.fns[n])) THEN <<"meta", "inconsistent">>
  ELSE IF r.hasf /\ FormatDiff(r) # "" THEN <<"format", FormatDiff(r)>>
  ELSE <<"ok", "">>

Good(r) == Why(r)[1] = "ok"

K == 64
Init == recno = 0
Next == IF recno = 0 THEN recno' \in 1..(IF Len(Recs) < K THEN Len(Recs) ELSE K)
        ELSE recno + K <= Len(Recs) /\ recno' = recno + K
Check == recno = 0 \/ Good(Recs[recno]) \/ PrintT(<<"BAD", Recs[recno].id, Why(Recs[recno])>>)
Done == PrintT(<<"CHECKED", TLCGet("stats").distinct - 1>>)
=============================================================================
