------------------------------ MODULE C17Trace ------------------------------
(***************************************************************************)
(* Record validation for C17 (code -> spec).  One record = one program     *)
(* source: P = compiled from source, b1 = Write(P), Q = CompiledProgram(b1)*)
(* b2 = Write(Q); the record carries what a client observes when it runs   *)
(* P.Init and Q.Init, the metadata of P and Q, and whether b1 = b2.        *)
(*                                                                         *)
(* Laws (property statement):                                              *)
(*   Obs(P) = Obs(Q)    results, Print transcript, host effects, error,    *)
(*                      call stack with positions, executed steps          *)
(*   Meta(P) = Meta(Q)  file name, loaded modules, and of every function   *)
(*                      reachable from the globals: name, docstring,       *)
(*                      position, parameter names / positions / defaults,  *)
(*                      keyword-only count, *args / **kwargs flags, free   *)
(*                      variables, pc -> position table                    *)
(*   b1 = b2            writing the decoded program reproduces the bytes   *)
(* Conformance with the documented format (records with hasf): the file b1,*)
(* split by the harness into raw varints and string section only, is       *)
(* parsed HERE by Serial!Decode; the result must be exactly the fields the *)
(* implementation holds for P, re-encoding it must give b1 again, and the  *)
(* fields of Q must equal those of P.                                      *)
(* Values are recorded as canonical type-tagged renderings, so that a      *)
(* constant decoded as another kind is a clean FALSE, never a comparison   *)
(* of values of different TLA+ types; the format conformance compares      *)
(* records whose tag field t is inspected first.                            *)
(***************************************************************************)
EXTENDS Serial, Json, IOUtils, TLC

Recs == ndJsonDeserialize(IOEnv.VERIF_RECS)
VARIABLE recno

\* Records are compressed by interning: r.tab[c] lists the distinct values that component c
\* takes in P and Q (one entry when they agree), r.p[c] and r.q[c] are indices.  Side expands.
ObsComps  == {"ok", "panic", "err", "stack", "printed", "effects", "globals", "steps"}
MetaComps == {"filename", "loads", "fns"}
Side(r, x) == [c \in ObsComps \cup MetaComps |-> r.tab[c][x[c]]]

\* first observable component on which the two executions differ ("" if none).
\* Values, messages and positions arrive as canonical type-tagged ASCII renderings, so
\* every comparison is between strings (or booleans / integers) of the same kind.
ObsDiff(p, q) ==
  IF p.ok # q.ok THEN "ok"
  ELSE IF p.panic # q.panic THEN "panic"
  ELSE IF p.err # q.err THEN "error-text"
  ELSE IF p.stack # q.stack THEN "call-stack"
  ELSE IF p.printed # q.printed THEN "printed"
  ELSE IF p.effects # q.effects THEN "effects"
  ELSE IF p.globals # q.globals THEN "globals"
  ELSE IF p.steps # q.steps THEN "steps"
  ELSE ""

FnDiff(f, g) ==
  IF f.name # g.name THEN "name"
  ELSE IF f.doc # g.doc THEN "doc"
  ELSE IF f.pos # g.pos THEN "position"
  ELSE IF f.nparams # g.nparams THEN "numparams"
  ELSE IF f.nkwonly # g.nkwonly THEN "numkwonly"
  ELSE IF f.varargs # g.varargs THEN "hasvarargs"
  ELSE IF f.kwargs # g.kwargs THEN "haskwargs"
  ELSE IF f.nlisted # g.nlisted \/ f.params # g.params THEN "params"
  ELSE IF f.freevars # g.freevars THEN "freevars"
  ELSE IF f.postab # g.postab THEN "position-table"
  ELSE ""
MetaDiff(p, q) ==
  IF p.filename # q.filename THEN "filename"
  ELSE IF p.loads # q.loads THEN "loads"
  ELSE IF Len(p.fns) # Len(q.fns) THEN "functions"
  ELSE LET bad == {n \in 1..Len(p.fns) : FnDiff(p.fns[n], q.fns[n]) # ""} IN
       IF bad = {} THEN "" ELSE FnDiff(p.fns[CHOOSE n \in bad : \A m \in bad : n <= m], q.fns[CHOOSE n \in bad : \A m \in bad : n <= m])

\* what the accessors report is consistent with itself
FnOK(f) == /\ f.nlisted = f.nparams
           /\ f.nkwonly >= 0
           /\ f.nkwonly <= f.nparams - (IF f.varargs THEN 1 ELSE 0) - (IF f.kwargs THEN 1 ELSE 0)

(***************************************************************************)
(* conformance of the file with Serial.tla                                 *)
(***************************************************************************)
StripF(f) == [name |-> f.name, line |-> f.line, col |-> f.col, doc |-> f.doc, code |-> f.code, locals |-> f.locals,
              cells |-> f.cells, freevars |-> f.freevars, maxstack |-> f.maxstack, numparams |-> f.numparams,
              numkwonly |-> f.numkwonly, hasvarargs |-> f.hasvarargs, haskwargs |-> f.haskwargs]
StripP(p) == [filename |-> p.filename, loads |-> p.loads, names |-> p.names, consts |-> p.consts, globals |-> p.globals,
              toplevel |-> StripF(p.toplevel), funcs |-> [n \in 1..Len(p.funcs) |-> StripF(p.funcs[n])],
              recursion |-> p.recursion]
\* r.ftab lists the distinct field records of P and Q (one entry when they agree)
FormatDiff(r) ==
  LET dec == Decode(r.b1, r.ver) IN
  IF ~dec.ok THEN "spec-decoder-rejects-file"
  ELSE IF StripP(dec.prog) # r.ftab[r.pf] THEN "file-differs-from-fields-of-P"
  ELSE IF Encode(dec.prog, r.ver) # r.b1 THEN "file-not-canonical"
  ELSE IF r.ftab[r.qf] # r.ftab[r.pf] THEN "fields-of-Q-differ"
  ELSE ""

Why(r) ==
  IF ~r.decok THEN <<"decode", "rejected">>
  ELSE IF ObsDiff(Side(r, r.p), Side(r, r.q)) # "" THEN <<"obs", ObsDiff(Side(r, r.p), Side(r, r.q))>>
  ELSE IF MetaDiff(Side(r, r.p), Side(r, r.q)) # "" THEN <<"meta", MetaDiff(Side(r, r.p), Side(r, r.q))>>
  ELSE IF ~r.same THEN <<"bytes", "rewrite-differs">>
  ELSE IF ~(\A n \in 1..Len(Side(r, r.p).fns) : FnOK(Side(r, r.p).fns[n])) THEN <<"meta", "inconsistent">>
  ELSE IF r.hasf /\ FormatDiff(r) # "" THEN <<"format", FormatDiff(r)>>
  ELSE <<"ok", "">>

\* (not Why(r)[1] = "ok": TLC evaluates an operator application under [_] many times over)
Good(r) == Why(r) = <<"ok", "">>

K == 64
Init == recno = 0
Next == IF recno = 0 THEN recno' \in 1..(IF Len(Recs) < K THEN Len(Recs) ELSE K)
        ELSE recno + K <= Len(Recs) /\ recno' = recno + K
Check == recno = 0 \/ Good(Recs[recno]) \/ PrintT(<<"BAD", Recs[recno].id, Why(Recs[recno])>>)
Done == PrintT(<<"CHECKED", TLCGet("stats").distinct - 1>>)
=============================================================================
