------------------------------- MODULE NumOps -------------------------------
(***************************************************************************)
(* Exact reference semantics of Starlark's numeric operations over         *)
(* unbounded integers (BitInt) and binary64 (Float64), written from        *)
(* doc/spec.md (and Python 3 where the spec defers to it):                 *)
(*   - constructive floored division (validated against the law            *)
(*     BitInt!FloorDivModOK in NumOpsMC),                                  *)
(*   - int(text, base) for bases 0, 2..36 with sign and base prefixes,     *)
(*   - integer formatting in bases 2..36 (str, %d, %x, %X, %o),            *)
(*   - range(start, stop, step): length, element, indexing, membership,    *)
(*     slicing, all on unbounded integers,                                 *)
(*   - exact dyadic arithmetic for "int op float" (the int operand is      *)
(*     converted to float first, the result is the correctly rounded       *)
(*     IEEE result).                                                       *)
(* Optional values are [some |-> FALSE] / [some |-> TRUE, v |-> x].        *)
(***************************************************************************)
EXTENDS Float64

Two == FromInt(2)
MinusOne == FromInt(-1)
IGt(x, y) == ICmp(x, y) > 0
IGe(x, y) == ICmp(x, y) >= 0
IMin(x, y) == IF ILe(x, y) THEN x ELSE y
IMax(x, y) == IF ILe(x, y) THEN y ELSE x
IClamp(x, lo, hi) == IF ILt(x, lo) THEN lo ELSE IF IGt(x, hi) THEN hi ELSE x

(***************************************************************************)
(* Division of magnitudes by binary long division: <<q, r>>, a = q*b + r,  *)
(* r < b.  b must not be zero.                                             *)
(***************************************************************************)
RECURSIVE MDivModStep(_, _, _, _)
MDivModStep(rem, b, j, q) ==
  IF j < 0 THEN <<q, rem>>
  ELSE LET t == MShl(b, j)
       IN IF MCmp(rem, t) >= 0
          THEN MDivModStep(MSub(rem, t), b, j - 1, MAdd(q, MShl(<<1>>, j)))
          ELSE MDivModStep(rem, b, j - 1, q)
MDivMod(a, b) ==
  IF MCmp(a, b) < 0 THEN <<<<>>, a>>
  ELSE IF Len(b) = 1 THEN LET t == MDivSmall(a, b[1]) IN <<t[1], MagOfNat(t[2])>>
  ELSE MDivModStep(a, b, MBitLen(a) - MBitLen(b), <<>>)

\* floored division of signed integers: <<q, r>> with x = q*y + r, r = 0 or sign(r) = sign(y)
IFloorDivMod(x, y) ==
  LET d == MDivMod(x.m, y.m)
  IN IF x.neg = y.neg \/ IsZero(x) THEN <<Mk(FALSE, d[1]), Mk(y.neg, d[2])>>
     ELSE IF d[2] = <<>> THEN <<Mk(TRUE, d[1]), Zero>>
     ELSE <<Mk(TRUE, MAdd(d[1], <<1>>)), Mk(y.neg, MSub(y.m, d[2]))>>
IFloorDiv(x, y) == IFloorDivMod(x, y)[1]
IFloorMod(x, y) == IFloorDivMod(x, y)[2]
\* floor(x / 2^k) for k >= 0 (arithmetic right shift)
IRsh(x, k) == IF ~x.neg THEN Mk(FALSE, MShr(x.m, k))
              ELSE INeg(IAdd(Mk(FALSE, MShr(MSub(x.m, <<1>>), k)), One))    \* -x-1 = ~x ; ~(~x >> k)

(***************************************************************************)
(* int(text, base).  text is a sequence of byte codes.  Result:            *)
(*   [k |-> "ok", v |-> BitInt] | [k |-> "fail"] | [k |-> "unspec"]        *)
(* doc/spec.md (int): optional sign; digits in the base; base 0 = like an  *)
(* integer literal (prefix 0b/0o/0x selects the base, otherwise decimal);  *)
(* with an explicit base a matching prefix is permitted and has no effect. *)
(* "unspec": decimal text with a redundant leading zero under base 0       *)
(* ("00", "017": not an integer literal of the grammar, accepted by Python *)
(* only when all digits are zero) - not judged.                            *)
(***************************************************************************)
DigitVal(c) == IF c >= 48 /\ c <= 57 THEN c - 48
               ELSE IF c >= 97 /\ c <= 122 THEN c - 87
               ELSE IF c >= 65 /\ c <= 90 THEN c - 55
               ELSE 99
LowerC(c) == IF c >= 65 /\ c <= 90 THEN c + 32 ELSE c
PrefixBase(s) ==          \* 0 if s does not start with 0b / 0o / 0x
  IF Len(s) >= 2 /\ s[1] = 48
  THEN (CASE LowerC(s[2]) = 98 -> 2 [] LowerC(s[2]) = 111 -> 8 [] LowerC(s[2]) = 120 -> 16 [] OTHER -> 0)
  ELSE 0
ParseDigits(neg, ds, base) ==
  IF ds # <<>> /\ \A j \in 1..Len(ds) : DigitVal(ds[j]) < base
  THEN [k |-> "ok", v |-> FromDigits(neg, [j \in 1..Len(ds) |-> DigitVal(ds[j])], base)]
  ELSE [k |-> "fail"]
ParseInt(txt, base) ==
  IF ~(base = 0 \/ (base >= 2 /\ base <= 36)) THEN [k |-> "fail"]
  ELSE
  LET signed == txt # <<>> /\ txt[1] \in {43, 45}
      neg    == signed /\ txt[1] = 45
      rest   == IF signed THEN Tail(txt) ELSE txt
      pb     == PrefixBase(rest)
  IN IF base = 0
     THEN IF pb # 0 THEN ParseDigits(neg, SubSeq(rest, 3, Len(rest)), pb)
          ELSE IF Len(rest) > 1 /\ rest[1] = 48 /\ (\A j \in 1..Len(rest) : DigitVal(rest[j]) < 10) THEN [k |-> "unspec"]
          ELSE ParseDigits(neg, rest, 10)
     ELSE IF pb = base THEN ParseDigits(neg, SubSeq(rest, 3, Len(rest)), base)
     ELSE ParseDigits(neg, rest, base)

(***************************************************************************)
(* Formatting: sign and digits of x in the base, as byte codes.            *)
(***************************************************************************)
DigitChar(d, upper) == IF d < 10 THEN 48 + d ELSE IF upper THEN 55 + d ELSE 87 + d
FormatInt(x, base, upper) ==
  LET ds == ToDigits(x, base)
  IN (IF x.neg THEN <<45>> ELSE <<>>) \o [j \in 1..Len(ds) |-> DigitChar(ds[j], upper)]

(***************************************************************************)
(* range(a, b, s) on unbounded integers (s # 0).                           *)
(***************************************************************************)
RLen(a, b, s) ==
  IF ~s.neg
  THEN (IF IGt(b, a) THEN IAdd(IFloorDiv(ISub(ISub(b, a), One), s), One) ELSE Zero)
  ELSE (IF IGt(a, b) THEN IAdd(IFloorDiv(ISub(ISub(a, b), One), INeg(s)), One) ELSE Zero)
RElem(a, s, j) == IAdd(a, IMul(j, s))
\* r[i]: [ok |-> TRUE, v |-> element] or [ok |-> FALSE]
RIndex(a, b, s, i) ==
  LET n == RLen(a, b, s)
      j == IF i.neg THEN IAdd(i, n) ELSE i
  IN IF j.neg \/ IGe(j, n) THEN [ok |-> FALSE] ELSE [ok |-> TRUE, v |-> RElem(a, s, j)]
\* integer x is a member
RHasInt(a, b, s, x) ==
  IF ~s.neg THEN IGe(x, a) /\ ILt(x, b) /\ IsZero(IFloorMod(ISub(x, a), s))
  ELSE ILe(x, a) /\ IGt(x, b) /\ IsZero(IFloorMod(ISub(a, x), INeg(s)))
\* float f is equal to some member (NaN and infinities are equal to no integer)
RHasFloat(a, b, s, f) == FIsInt(f) /\ RHasInt(a, b, s, FTrunc(f))
\* r[lo:hi:st] as the parameters of the resulting sequence: [ok, len, first, step]
\* (Python 3 slice.indices on a sequence of length n; lo, hi, st optional BitInts)
RSlice(a, b, s, lo, hi, st) ==
  LET n    == RLen(a, b, s)
      step == IF st.some THEN st.v ELSE One
      Norm(o, dflt) == IF ~o.some THEN dflt ELSE IF o.v.neg THEN IAdd(o.v, n) ELSE o.v
  IN IF IsZero(step) THEN [ok |-> FALSE]
     ELSE LET lo2 == IF ~step.neg THEN IClamp(Norm(lo, Zero), Zero, n)
                     ELSE IClamp(Norm(lo, ISub(n, One)), MinusOne, ISub(n, One))
              hi2 == IF ~step.neg THEN IClamp(Norm(hi, n), Zero, n)
                     ELSE IClamp(Norm(hi, MinusOne), MinusOne, ISub(n, One))
              L   == RLen(lo2, hi2, step)
          IN [ok |-> TRUE, len |-> L, first |-> RElem(a, s, lo2), step |-> IMul(s, step)]

(***************************************************************************)
(* Exact dyadic arithmetic and the correctly rounded result of             *)
(* float op float for finite operands.                                     *)
(***************************************************************************)
DAdd(p, q) ==
  LET mn == IF p.x < q.x THEN p.x ELSE q.x
      Sh(d) == Mk(d.n.neg, MShl(d.n.m, d.x - mn))
  IN [n |-> IAdd(Sh(p), Sh(q)), x |-> mn]
DNeg(p) == [n |-> INeg(p.n), x |-> p.x]
DMul(p, q) == [n |-> IMul(p.n, q.n), x |-> p.x + q.x]
\* r is the correctly rounded value of the non-zero dyadic d
IsRoundedDy(r, d) ==
  IF d.x >= 0 THEN IsNearestSigned(r, d.n.neg, MShl(d.n.m, d.x), <<1>>)
  ELSE IsNearestSigned(r, d.n.neg, d.n.m, MShl(<<1>>, -d.x))
\* r is the correctly rounded value of p / q (q non-zero, p non-zero)
IsRoundedQuot(r, p, q) ==
  LET e == p.x - q.x
      N == IF e >= 0 THEN MShl(p.n.m, e) ELSE p.n.m
      D == IF e >= 0 THEN q.n.m ELSE MShl(q.n.m, -e)
  IN IsNearestSigned(r, p.n.neg # q.n.neg, N, D)
\* result r of "f op g" for finite floats f, g; op in + - * / ; a zero result may have either sign
FloatArithOK(op, f, g, r) ==
  LET p == FVal(f)
      q == FVal(g)
  IN CASE op = "+" -> LET d == DAdd(p, q) IN IF IsZero(d.n) THEN IsFZero(r) ELSE IsRoundedDy(r, d)
       [] op = "-" -> LET d == DAdd(p, DNeg(q)) IN IF IsZero(d.n) THEN IsFZero(r) ELSE IsRoundedDy(r, d)
       [] op = "*" -> LET d == DMul(p, q) IN IF IsZero(d.n) THEN IsFZero(r) ELSE IsRoundedDy(r, d)
       [] op = "/" -> IF IsZero(p.n) THEN IsFZero(r) ELSE IsRoundedQuot(r, p, q)
=============================================================================
