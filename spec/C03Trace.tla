------------------------------ MODULE C03Trace ------------------------------
(***************************************************************************)
(* Record validation for C03 (code -> spec).  One record = one program     *)
(* with all of its recorded runs (Det.tla: fresh processes, repeated,      *)
(* reused thread, concurrent goroutines).                                  *)
(*                                                                         *)
(*  (1) Det!Deterministic: all runs have equal observations; the group     *)
(*      covers the required schedules and the processes had different      *)
(*      hash seeds (otherwise the verdict would be vacuous).               *)
(*  (2) For the order-exposing family the program was generated from an    *)
(*      operation list over a key pool; the content and iteration order of *)
(*      the dict / set after EVERY operation, the operation's result, an   *)
(*      in-language listing and str(x) are PREDICTED here from the         *)
(*      operation list with the abstract ordered-map operators of          *)
(*      Hashtable.tla (AIns, ADel, AUnion, SUnion, SInter, ...), for every *)
(*      run, not only compared across runs.                                *)
(*  (3) dir(x) is a strictly ascending list of names (doc/spec.md: "a new  *)
(*      sorted list"), for every kind of value met.                        *)
(*  (4) hash(s) of an ASCII string is java.lang.String.hashCode (spec.md), *)
(*      computed here in two 16-bit halves.                                *)
(***************************************************************************)
EXTENDS Det, Hashtable, Json, IOUtils

Recs == ndJsonDeserialize(IOEnv.VERIF_RECS)
\* the key pool: cls[lit] equality class of literal lit (1 and 1.0 share one),
\* reprs[lit] its repr as bytes, shd / shs the frozen shared dict and set
Pool == ndJsonDeserialize(IOEnv.VERIF_POOL)[1]
VARIABLE recno

(***************************************************************************)
(* (2) the ordered-map oracle                                              *)
(***************************************************************************)
NLit == Len(Pool.cls)
Cls(lit) == IF lit \in 1..NLit THEN Pool.cls[lit] ELSE 0
KeyCls(ks) == [n \in 1..Len(ks) |-> Cls(ks[n])]
PairCls(ps) == [n \in 1..Len(ps) |-> <<Cls(ps[n][1]), ps[n][2]>>]

\* interpreter state: three dict variables (association lists over classes)
\* and three set variables (class sequences)
St0 == [d |-> << <<>>, <<>>, <<>> >>, s |-> << <<>>, <<>>, <<>> >>]
DPut(st, a, al) == [st EXCEPT !.d[a] = al]
SPut(st, a, s)  == [st EXCEPT !.s[a] = s]
\* outcome of one operation: new state, which variable to look at, result
Out(st, kind, var, res) == [st |-> st, kind |-> kind, var |-> var, res |-> res]

SetOp(o, s, t) == CASE o = "or"  -> SUnion(s, t)
                    [] o = "and" -> SInter(s, t)
                    [] o = "sub" -> SDiff(s, t)
                    [] o = "xor" -> SSym(s, t)

OpStep(st, op) ==
  LET o == op[1] IN
  CASE o \in {"dlit", "dpairs", "dcomp"} -> Out(DPut(st, op[2], AInsAll(<<>>, PairCls(op[3]))), "d", op[2], <<>>)
    [] o = "dset"    -> Out(DPut(st, op[2], AIns(st.d[op[2]], Cls(op[3]), op[4])), "d", op[2], <<>>)
    [] o = "dsetdef" -> LET al == st.d[op[2]] k == Cls(op[3]) IN
                        IF AHas(al, k) THEN Out(st, "d", op[2], <<AGet(al, k)>>)
                        ELSE Out(DPut(st, op[2], AIns(al, k, op[4])), "d", op[2], <<op[4]>>)
    [] o = "dpop"    -> LET al == st.d[op[2]] k == Cls(op[3]) IN
                        Out(DPut(st, op[2], ADel(al, k)), "d", op[2], IF AHas(al, k) THEN <<AGet(al, k)>> ELSE <<>>)
    [] o = "dpopitem" -> LET al == st.d[op[2]] IN
                        IF al = <<>> THEN Out(st, "d", op[2], <<>>)
                        ELSE Out(DPut(st, op[2], Tail(al)), "d", op[2], <<al[1][1], al[1][2]>>)
    [] o = "dclear"  -> Out(DPut(st, op[2], <<>>), "d", op[2], <<>>)
    [] o = "dupdate" -> Out(DPut(st, op[2], AInsAll(st.d[op[2]], st.d[op[3]])), "d", op[2], <<>>)
    [] o = "dupdpairs" -> Out(DPut(st, op[2], AInsAll(st.d[op[2]], PairCls(op[3]))), "d", op[2], <<>>)
    [] o = "dunion"  -> Out(DPut(st, op[2], AUnion(st.d[op[3]], st.d[op[4]])), "d", op[2], <<>>)
    [] o = "dior"    -> Out(DPut(st, op[2], AUnion(st.d[op[2]], st.d[op[3]])), "d", op[2], <<>>)
    [] o = "dcopy"   -> Out(DPut(st, op[2], st.d[op[3]]), "d", op[2], <<>>)
    [] o = "dshared" -> Out(DPut(st, op[2], PairCls(Pool.shd)), "d", op[2], <<>>)
    [] o = "dsharedu" -> Out(DPut(st, op[2], IF op[4] = 0 THEN AUnion(PairCls(Pool.shd), st.d[op[3]])
                                                          ELSE AUnion(st.d[op[3]], PairCls(Pool.shd))), "d", op[2], <<>>)
    [] o = "dfroms"  -> Out(DPut(st, op[2], [n \in 1..Len(st.s[op[3]]) |-> <<st.s[op[3]][n], 7>>]), "d", op[2], <<>>)
    [] o = "slit"    -> Out(SPut(st, op[2], SDedup(KeyCls(op[3]))), "s", op[2], <<>>)
    [] o = "sadd"    -> Out(SPut(st, op[2], SAddAll(st.s[op[2]], <<Cls(op[3])>>)), "s", op[2], <<>>)
    [] o \in {"sdiscard", "sremove"} -> Out(SPut(st, op[2], SDiff(st.s[op[2]], <<Cls(op[3])>>)), "s", op[2], <<>>)
    [] o = "spop"    -> LET s == st.s[op[2]] IN
                        IF s = <<>> THEN Out(st, "s", op[2], <<>>) ELSE Out(SPut(st, op[2], Tail(s)), "s", op[2], <<s[1]>>)
    [] o = "sclear"  -> Out(SPut(st, op[2], <<>>), "s", op[2], <<>>)
    [] o = "supdate" -> Out(SPut(st, op[2], SAddAll(st.s[op[2]], KeyCls(op[3]))), "s", op[2], <<>>)
    [] o = "sbin"    -> Out(SPut(st, op[2], SetOp(op[5], st.s[op[3]], st.s[op[4]])), "s", op[2], <<>>)
    [] o = "smeth"   -> Out(SPut(st, op[2], SetOp(op[5], st.s[op[3]], KeyCls(op[4]))), "s", op[2], <<>>)
    [] o = "sfromd"  -> Out(SPut(st, op[2], AKeySeq(st.d[op[3]])), "s", op[2], <<>>)
    [] o = "sshared" -> Out(SPut(st, op[2], IF op[5] = 0 THEN SetOp(op[4], KeyCls(Pool.shs), st.s[op[3]])
                                                         ELSE SetOp(op[4], st.s[op[3]], KeyCls(Pool.shs))), "s", op[2], <<>>)

\* decoding of what the probe recorded (literal indices) into classes
ObsContent(kind, c) == IF kind = "d" THEN PairCls(c) ELSE KeyCls(c)
ObsResult(o, r) == IF r = <<>> THEN <<>>
                   ELSE IF o = "dpopitem" THEN <<Cls(r[1]), r[2]>>
                   ELSE IF o = "spop" THEN <<Cls(r[1])>>
                   ELSE r
ContentKeys(kind, c) == IF kind = "d" THEN AKeySeq(c) ELSE c

\* str(x): the entries in iteration order, keys printed as the stored key prints
RECURSIVE Digits(_)
Digits(n) == IF n < 10 THEN <<48 + n>> ELSE Digits(n \div 10) \o <<48 + (n % 10)>>
Repr(lit) == IF lit \in 1..NLit THEN Pool.reprs[lit] ELSE <<63>>
RECURSIVE JoinCS(_, _)
JoinCS(parts, n) == IF n > Len(parts) THEN <<>>
                    ELSE (IF n > 1 THEN <<44, 32>> ELSE <<>>) \o parts[n] \o JoinCS(parts, n + 1)
Render(kind, c) ==
  IF kind = "d"
  THEN <<123>> \o JoinCS([n \in 1..Len(c) |-> Repr(c[n][1]) \o <<58, 32>> \o Digits(c[n][2])], 1) \o <<125>>
  ELSE <<115, 101, 116, 40, 91>> \o JoinCS([n \in 1..Len(c) |-> Repr(c[n])], 1) \o <<93, 41>>

\* 0 if the run's probe records follow the prediction, else the index of the first
\* operation that does not
RECURSIVE FirstBad(_, _, _, _)
FirstBad(st, ops, obs, n) ==
  IF n > Len(ops) THEN (IF Len(obs) = Len(ops) THEN 0 ELSE n)
  ELSE IF n > Len(obs) THEN n
  ELSE LET x   == OpStep(st, ops[n])
           exp == IF x.kind = "d" THEN x.st.d[x.var] ELSE x.st.s[x.var]
           ob  == obs[n]
       IN IF /\ ob.n = n
             /\ ObsContent(x.kind, ob.c) = exp
             /\ ObsResult(ops[n][1], ob.r) = x.res
             /\ KeyCls(ob.l) = ContentKeys(x.kind, exp)
             /\ ob.s = Render(x.kind, ob.c)
          THEN FirstBad(x.st, ops, obs, n + 1)
          ELSE n

\* the probe records of a group are interned: r.ordtab lists the distinct record lists,
\* a run refers to one by index
OrdBad(r) == IF r.ordon THEN {FirstBad(St0, r.ops, r.ordtab[t], 1) : t \in {r.runs[x].obs.ord : x \in 1..Len(r.runs)}} \ {0}
             ELSE {}

(***************************************************************************)
(* (3) dir(x) is strictly ascending                                        *)
(***************************************************************************)
RECURSIVE Less(_, _, _)
Less(a, b, n) == IF n > Len(b) THEN FALSE
                 ELSE IF n > Len(a) THEN TRUE
                 ELSE IF a[n] # b[n] THEN a[n] < b[n]
                 ELSE Less(a, b, n + 1)
Ascending(names) == \A n \in 1..(Len(names) - 1) : Less(names[n], names[n + 1], 1)
DirBad(r) == {r.dir1[n][1] : n \in {m \in 1..Len(r.dir1) : ~Ascending(r.dir1[m][2])}}

(***************************************************************************)
(* (4) hash(s) = s[0]*31^(n-1) + ... + s[n-1] in 32-bit two's complement   *)
(***************************************************************************)
RECURSIVE JavaHash(_, _, _, _)
JavaHash(s, n, hi, lo) ==
  IF n > Len(s) THEN <<hi, lo>>
  ELSE LET l == 31 * lo + s[n] IN JavaHash(s, n + 1, (31 * hi + (l \div 65536)) % 65536, l % 65536)
HashBad(r) == {n \in 1..Len(r.hashes) :
                 /\ \A m \in 1..Len(r.hashes[n][1]) : r.hashes[n][1][m] < 128
                 /\ JavaHash(r.hashes[n][1], 1, 0, 0) # <<r.hashes[n][2], r.hashes[n][3]>>}

(***************************************************************************)
(* verdict per record                                                      *)
(***************************************************************************)
\* Records are compressed by interning: r.tab[c] lists the distinct values of component c
\* within the group and a run stores indices.  Runs(r) expands them again, so that Det is
\* applied to the observations themselves.
Runs(r) == [x \in 1..Len(r.runs) |->
              [key |-> r.runs[x].key, kind |-> r.runs[x].kind, fp |-> r.runs[x].fp,
               obs |-> [c \in Components |-> r.tab[c][r.runs[x].obs[c]]]]]

Vacuous(r) == ~(Covered(r.runs, r.need) /\ OneInput(r.runs) /\ SeedsVary(r.runs))

Tag(r) == IF Vacuous(r) THEN "vacuous"
          ELSE IF ~Deterministic(Runs(r)) THEN "det"
          ELSE IF OrdBad(r) # {} THEN "ord"
          ELSE IF DirBad(r) # {} THEN "dir"
          ELSE IF HashBad(r) # {} THEN "hash"
          ELSE "ok"
\* details for the report (evaluated for rejected records only)
Why(r) == CASE Tag(r) = "vacuous" -> <<"vacuous">>
            [] Tag(r) = "det"  -> <<"det", Divergence(Runs(r)), Deviants(Runs(r))>>
            [] Tag(r) = "ord"  -> <<"ord", OrdBad(r)>>
            [] Tag(r) = "dir"  -> <<"dir", DirBad(r)>>
            [] Tag(r) = "hash" -> <<"hash", HashBad(r)>>
            [] OTHER -> <<"ok">>

Good(r) == Tag(r) = "ok"

\* one trivial initial state; the records are enumerated in Next (TLC evaluates the
\* invariant of initial states on its main thread, whose stack is small)
K == 64
Init == recno = 0
Next == IF recno = 0 THEN recno' \in 1..(IF Len(Recs) < K THEN Len(Recs) ELSE K)
        ELSE recno + K <= Len(Recs) /\ recno' = recno + K
Check == recno = 0 \/ Good(Recs[recno]) \/ PrintT(<<"BAD", Recs[recno].id, Why(Recs[recno])>>)
Done == PrintT(<<"CHECKED", TLCGet("stats").distinct - 1>>)
=============================================================================
