------------------------------ MODULE C16Trace ------------------------------
(***************************************************************************)
(* Record validation for C16 (code -> spec).  One record = one generated   *)
(* program that fails, with                                                *)
(*   exp  the frames the layout generator expects, outermost first:        *)
(*        [name, file, line, col, cmp]; cmp = "full" (a Starlark frame     *)
(*        whose position is the call '(' or the failing operation's token),*)
(*        "name" (the callee frame on top of a failed argument binding /   *)
(*        recursion check: its position is the callee's own code and is    *)
(*        not asserted), "builtin" (file "<builtin>", no line);            *)
(*   obs  EvalError.CallStack of the real run: [name, file, line, col];    *)
(*   bt   the frames read back from the text of EvalError.Backtrace();     *)
(*   ser  CallStack of the same program after Program.Write /              *)
(*        CompiledProgram;                                                 *)
(*   ast  the real parser's tree (when the program may be inside RefSem's  *)
(*        fragment), opts, kind = class of the error message.              *)
(* Oracle (a): obs = exp frame by frame.  Oracle (b): the reference        *)
(* semantics RefSem fails with the same kind, its active calls are the     *)
(* Starlark frames of obs, frame i is positioned where RefSem says frame   *)
(* i+1 was called, and the innermost frame where RefSem says the failing   *)
(* operation is.  Programs outside the fragment are judged by (a) only.    *)
(***************************************************************************)
EXTENDS RefSem, Json, IOUtils

Recs == ndJsonDeserialize(IOEnv.VERIF_RECS)
VARIABLE recno

IsBuiltinFrame(f) == f.file = "<builtin>"
FPos(f) == <<f.line, f.col>>

\* ---------------------------------------------------------------- oracle (a): the generator's layout
FrameOK(e, o) ==
  /\ e.name = o.name
  /\ e.file = o.file
  /\ (e.cmp = "full" => (e.line = o.line /\ e.col = o.col))
  /\ (e.cmp = "builtin" => (o.line = 0 /\ o.col = 0))
GenOK(r) ==
  /\ Len(r.obs) = Len(r.exp)
  /\ \A i \in 1..Len(r.exp) : FrameOK(r.exp[i], r.obs[i])
  \* outermost first: the first frame is the module, and the innermost Starlark frame is the failing operation
  /\ Len(r.obs) >= 1 /\ r.obs[1].name = "<toplevel>"

\* ---------------------------------------------------------------- oracle (b): the reference semantics
\* the Starlark frames of the observation that correspond to RefSem's active calls
StarFrames(r) ==
  LET s == SelectSeq(r.obs, LAMBDA f : ~IsBuiltinFrame(f)) IN
  \* the callee's frame is already pushed when argument binding or the recursion check fails;
  \* the failing operation is the call in the caller's frame
  IF r.kind \in {"args", "recursion"} /\ Len(s) > 1 THEN SubSeq(s, 1, Len(s) - 1) ELSE s

RefOK(r, st) ==
  LET s == StarFrames(r) n == Len(s) IN
  /\ Outcome(st) = r.kind
  /\ n = Len(st.err.stack)
  /\ \A i \in 1..n :
       /\ s[i].name = st.err.stack[i][1]
       /\ FPos(s[i]) = (IF i < n THEN st.err.stack[i + 1][3] ELSE ErrPos(st))

\* ---------------------------------------------------------------- Backtrace() and serialization
BtOK(r) == r.btok /\ r.bt = r.obs
SerOK(r) == r.serok /\ r.ser = r.obs

\* history independence: the same text with the earlier (successful) call at the same depth removed - a twin program
\* with identical layout - reports the identical stack; r.twin = r.obs for records without a twin
TwinOK(r) == r.twin = r.obs

Verdict(r) ==
  IF ~GenOK(r) THEN "gen"
  ELSE IF ~TwinOK(r) THEN "history"
  ELSE IF ~BtOK(r) THEN "backtrace"
  ELSE IF ~SerOK(r) THEN "serialized"
  ELSE IF ~r.hasast THEN "ok"
  ELSE LET st == Run(r.ast, r.opts) IN
       IF Outcome(st) = "unsupported" THEN "ok"
       ELSE IF PrintT(<<"REFSEM", r.id>>) /\ RefOK(r, st) THEN "ok" ELSE "refsem"

Explain(r) == r.hasast => LET st == Run(r.ast, r.opts) IN PrintT(<<"SPEC", r.id, Outcome(st), ErrPos(st), st.err.stack>>)

KK == 64
\* the records are evaluated in successor states (worker threads have the large stack, the main thread has not)
Init == recno = 0
Next == IF recno = 0 THEN recno' \in 1..(IF Len(Recs) < KK THEN Len(Recs) ELSE KK)
        ELSE recno + KK <= Len(Recs) /\ recno' = recno + KK
Check == recno = 0 \/
         LET v == Verdict(Recs[recno]) IN
         \/ v = "ok"
         \/ (PrintT(<<"BAD", Recs[recno].id, v>>) /\ ("VERIF_DEBUG" \in DOMAIN IOEnv => Explain(Recs[recno])))
Done == PrintT(<<"CHECKED", TLCGet("stats").distinct - 1>>)
=============================================================================
