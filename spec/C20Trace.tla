------------------------------ MODULE C20Trace ------------------------------
(***************************************************************************)
(* Record validation for C20 ranges (code -> spec, P-A).  Every record is  *)
(* one assignment executed by the real lib/proto: a value `val` given to a *)
(* position of scalar kind `kind` (singular field, constructor argument,   *)
(* repeated element, map key, map value), the content read back before and *)
(* after it (flattened to a sequence of elements), and the same content    *)
(* read back after a binary and a text marshal/unmarshal round trip.       *)
(* ProtoRange!Judge says what had to happen.                               *)
(***************************************************************************)
EXTENDS ProtoRange, Json, IOUtils

Recs == ndJsonDeserialize(IOEnv.VERIF_RECS)
VARIABLE i

ExactSeq(s) == [j \in 1..Len(s) |-> Exact(s[j])]
\* content expected after a successful store of `w`, by the shape of the position
ExpSeq(r, w) == LET BS == ExactSeq(r.before) IN
  CASE r.shape = "replace" -> <<w>>                 \* m.f = v, m.r = [v], m.mv = {"k": v}, m.mk = {v: 1}
    [] r.shape = "append"  -> BS \o <<w>>           \* m.r.append(v)
    [] r.shape = "set0"    -> <<w>> \o Tail(BS)     \* m.r[0] = v
    [] r.shape = "pair"    -> <<BS[1], w>>          \* m.r = [preset, v]
    [] r.shape = "mapval"  -> <<w>> \o BS           \* m.mv["k"] = v   ("k" sorts before the preset key "p")
MatchSeq(E, obs, r) == Len(E) = Len(obs) /\ \A j \in 1..Len(E) : Stored(E[j], r.kind, r.syn, obs[j])
SeqVEq(a, b) == Len(a) = Len(b) /\ \A j \in 1..Len(a) : VEq(a[j], b[j])
\* m.mk[v] = 1: the key is present exactly once and nothing else changed
MapKeyOK(r, w) == \E j \in 1..Len(r.rb.v) :
  /\ Stored(w, r.kind, r.syn, r.rb.v[j])
  /\ LET rest == [x \in 1..(Len(r.rb.v) - 1) |-> r.rb.v[IF x < j THEN x ELSE x + 1]]
     IN SeqVEq(rest, r.before) \/ SeqVEq(r.rb.v, r.before)

\* lossless: what is read after marshal/unmarshal (binary and text) is what is read directly
RtEq(a, b) == IF a.t = "float" /\ b.t = "float" /\ IsNaN(a) /\ IsNaN(b) THEN TRUE ELSE VEq(a, b)
RtSeq(a, b) == Len(a) = Len(b) /\ \A j \in 1..Len(a) : RtEq(a[j], b[j])
RtOK(r) == /\ r.rtb.ok /\ RtSeq(r.rtb.v, r.rb.v)
           /\ r.rtt.ok /\ RtSeq(r.rtt.v, r.rb.v)

AcceptOK(r, w) == /\ r.op.ok
                  /\ IF r.shape = "mapkey" THEN MapKeyOK(r, w) ELSE MatchSeq(ExpSeq(r, w), r.rb.v, r)
                  /\ r.hascheck => r.has
                  /\ RtOK(r)
\* an error, and every element still of the declared type and range, and the message still serialisable
RejectOK(r) == /\ ~r.op.ok
               /\ \A j \in 1..Len(r.rb.v) : WellTyped(r.kind, r.syn, r.rb.v[j])
               /\ RtOK(r)
\* None unsets: a singular field reads as its default and is absent, a repeated / map field is empty
ClearOK(r) == /\ r.op.ok
              /\ IF r.clear = "default"
                 THEN Len(r.rb.v) = 1 /\ VEq(Default(r.kind, r.syn), r.rb.v[1]) /\ ~r.has
                 ELSE r.rb.v = <<>>
              /\ RtOK(r)

(***************************************************************************)
(* A whole repeated / map field assigned from a VIEW of a field of another *)
(* message (or from list(view) / dict(view)): r.vals (and r.keys for maps) *)
(* are the elements of the source, judged one by one against the           *)
(* DESTINATION's kind and domain - the source may be of the same kind but  *)
(* another enum type, another message type, or a proto2 string that is not *)
(* UTF-8.  All acceptable: stored exactly in order.  One refused: an error *)
(* and (repeated field) the destination unchanged.                         *)
(***************************************************************************)
MatchSeqK(E, obs, k, syn) == Len(E) = Len(obs) /\ \A j \in 1..Len(E) : Stored(E[j], k, syn, obs[j])
RtKOK(r) == /\ r.rtbk.ok /\ RtSeq(r.rtbk.v, r.rbk.v)
            /\ r.rttk.ok /\ RtSeq(r.rttk.v, r.rbk.v)
ViewOK(r) ==
  LET jv == [j \in 1..Len(r.vals) |-> Judge(r.kind, r.syn, r.vals[j])]
      jk == [j \in 1..Len(r.keys) |-> Judge(r.kkind, r.syn, r.keys[j])]
      ds == {jv[j].d : j \in 1..Len(jv)} \cup {jk[j].d : j \in 1..Len(jk)}
      stored  == /\ r.op.ok /\ r.rbk.ok
                 /\ MatchSeqK([j \in 1..Len(jv) |-> jv[j].want], r.rb.v, r.kind, r.syn)
                 /\ MatchSeqK([j \in 1..Len(jk) |-> jk[j].want], r.rbk.v, r.kkind, r.syn)
                 /\ RtOK(r) /\ RtKOK(r)
      refused == /\ ~r.op.ok /\ r.rbk.ok
                 /\ IF r.shape = "viewlist" THEN SeqVEq(r.rb.v, r.before)
                    ELSE /\ \A j \in 1..Len(r.rb.v) : WellTyped(r.kind, r.syn, r.rb.v[j])
                         /\ \A j \in 1..Len(r.rbk.v) : WellTyped(r.kkind, r.syn, r.rbk.v[j])
                 /\ RtOK(r) /\ RtKOK(r)
  IN IF "reject" \in ds THEN refused
     ELSE IF ds \subseteq {"accept"} THEN stored
     ELSE (IF r.op.ok THEN stored ELSE refused)

Good(r) ==
  /\ ~r.op.panic            \* never a host panic (the assignment, or reading / printing / marshalling afterwards)
  /\ r.rb.ok
  /\ IF r.shape \in {"viewlist", "viewmap"} THEN ViewOK(r)
     ELSE IF r.shape = "lookup" THEN RtOK(r) /\ SeqVEq(r.rb.v, r.before)      \* m.mk[v], v in m.mk: any result or error, no effect
     ELSE IF r.val.t = "none" THEN (IF r.clear = "no" THEN RejectOK(r) ELSE ClearOK(r))
     ELSE LET j == Judge(r.kind, r.syn, r.val) IN
          CASE j.d = "accept" -> AcceptOK(r, j.want)
            [] j.d = "reject" -> RejectOK(r)
            [] j.d = "either" -> IF r.op.ok THEN AcceptOK(r, j.want) ELSE RejectOK(r)

K == 64
Init == i \in 1..(IF Len(Recs) < K THEN Len(Recs) ELSE K)
Next == i + K <= Len(Recs) /\ i' = i + K
Check == Good(Recs[i]) \/ PrintT(<<"BAD", Recs[i].id>>)
Done == PrintT(<<"CHECKED", TLCGet("stats").distinct>>)
=============================================================================
