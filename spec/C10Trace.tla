------------------------------ MODULE C10Trace ------------------------------
(***************************************************************************)
(* Record validation for C10 (code -> spec).  Every record is one          *)
(* evaluation by the real interpreter (identical on the three builds);     *)
(* Verdict(r) judges the observed result against the exact semantics of    *)
(* BitInt / Float64 / NumOps:                                              *)
(*   "ok"   the result is the exact one (or the failure the spec mandates) *)
(*   "tol"  the operation failed although an exact result exists; allowed  *)
(*          for built-ins that compute with integers ("either return the   *)
(*          exact result or fail") and for shift counts beyond 2^31 / left *)
(*          shifts beyond the documented implementation limit              *)
(*   "bad"  a wrong value, or success where the spec mandates failure      *)
(* Integer operands are BitInt records [neg, m]; floats [s, e, m];         *)
(* observed values carry the harness tag t ("int" for |n| < 2^30, "big",   *)
(* "float", "bool", "str", "list", "tuple").                               *)
(***************************************************************************)
EXTENDS NumOps, Json, IOUtils, TLC

Recs == ndJsonDeserialize(IOEnv.VERIF_RECS)
VARIABLE i

(***************************************************************************)
(* Observed values.                                                        *)
(***************************************************************************)
IsIntV(v)  == v.t \in {"int", "big"}
ObsInt(v)  == IF v.t = "int" THEN FromInt(v.v) ELSE [neg |-> v.neg, m |-> v.m]
VIsInt(v, b)   == IsIntV(v) /\ ObsInt(v) = b
VIsBool(v, b)  == v.t = "bool" /\ v.v = b
VIsStr(v, s)   == v.t = "str" /\ v.v = s
VIsFloat(v)    == v.t = "float" /\ WellFormed(v)
\* list or tuple (tag ty) of integers equal to the BitInts in seq
VIsInts(v, ty, seq) == v.t = ty /\ Len(v.v) = Len(seq) /\ \A j \in 1..Len(seq) : VIsInt(v.v[j], seq[j])
VIsBools(v, ty, seq) == v.t = ty /\ Len(v.v) = Len(seq) /\ \A j \in 1..Len(seq) : VIsBool(v.v[j], seq[j])

Req(res, P(_)) == IF res.ok THEN (IF P(res.v) THEN "ok" ELSE "bad") ELSE "bad"
Tol(res, P(_)) == IF res.ok THEN (IF P(res.v) THEN "ok" ELSE "bad") ELSE "tol"
MustFail(res)  == IF res.ok THEN "bad" ELSE "ok"
NeverOk(res)   == IF res.ok THEN "bad" ELSE "tol"     \* the exact result is too large to be produced

P31 == Pow2(31)
Small(x, lim) == FitsInt(x) /\ ToInt(x) < lim /\ ToInt(x) > -lim

(***************************************************************************)
(* Operators.                                                              *)
(***************************************************************************)
BinVal(o, x, y) == CASE o = "+" -> IAdd(x, y) [] o = "-" -> ISub(x, y) [] o = "*" -> IMul(x, y)
                     [] o = "&" -> IAnd(x, y) [] o = "|" -> IOr(x, y) [] o = "^" -> IXor(x, y)
UnVal(o, x) == CASE o = "-" -> INeg(x) [] o = "+" -> x [] o = "~" -> INot(x)

VShl(r) ==
  IF r.y.neg THEN MustFail(r.res)
  ELSE IF Small(r.y, 512) THEN Req(r.res, LAMBDA v : VIsInt(v, ILsh(r.x, ToInt(r.y))))
  ELSE IF ~r.res.ok THEN "tol"                     \* "implementations may impose a limit" (doc/spec.md)
  ELSE IF IsZero(r.x) THEN Req(r.res, LAMBDA v : VIsInt(v, Zero))
  ELSE IF Small(r.y, 5000) THEN Req(r.res, LAMBDA v : VIsInt(v, ILsh(r.x, ToInt(r.y))))
  ELSE "bad"
ShrVal(x, y) == IF Small(y, 100000) THEN IRsh(x, ToInt(y)) ELSE IF x.neg THEN MinusOne ELSE Zero
VShr(r) ==
  IF r.y.neg THEN MustFail(r.res)
  ELSE IF ILt(r.y, P31)
       THEN Req(r.res, LAMBDA v : VIsInt(v, ShrVal(r.x, r.y)) /\ (Small(r.y, 2000) => RshOK(r.x, ToInt(r.y), ObsInt(v))))
       ELSE Tol(r.res, LAMBDA v : VIsInt(v, ShrVal(r.x, r.y)))

\* typed operand: three-way comparison in the total order
Cmp3(xt, x, yt, y) ==
  IF xt = "int" THEN (IF yt = "int" THEN ICmp(x, y) ELSE CmpIntFloat(x, y))
  ELSE (IF yt = "int" THEN CmpFloatInt(x, y) ELSE FCmp(x, y))
SixOps == <<"<", "<=", ">", ">=", "==", "!=">>
VCmp(r) == LET c == Cmp3(r.xt, r.x, r.yt, r.y)
           IN Req(r.res, LAMBDA v : VIsBools(v, "tuple", [j \in 1..6 |-> CmpOp(SixOps[j], c)]))

VParse(r) == LET p == ParseInt(r.txt, r.base)
             IN CASE p.k = "ok" -> Req(r.res, LAMBDA v : VIsInt(v, p.v))
                  [] p.k = "fail" -> MustFail(r.res)
                  [] OTHER -> "ok"

FmtBase(f) == CASE f = "x" -> 16 [] f = "X" -> 16 [] f = "o" -> 8 [] OTHER -> 10

\* float operand of a mixed operation: [ok, f]
AsF(t, x) == IF t = "float" THEN [ok |-> IsFinite(x), big |-> FALSE, f |-> x]
             ELSE IF IntTooLarge(x) THEN [ok |-> FALSE, big |-> TRUE]
             ELSE [ok |-> TRUE, big |-> FALSE, f |-> FloatOfInt(x)]
VMixed(r) ==
  LET a == AsF(r.xt, r.x)
      b == AsF(r.yt, r.y)
  IN IF (~a.ok /\ a.big) \/ (~b.ok /\ b.big) THEN MustFail(r.res)      \* int too large to convert to float
     ELSE IF ~a.ok \/ ~b.ok THEN "ok"                                  \* non-finite operand: not judged
     ELSE IF r.o = "/" /\ IsFZero(b.f) THEN MustFail(r.res)
     ELSE Req(r.res, LAMBDA v : VIsFloat(v) /\ FloatArithOK(r.o, a.f, b.f, v))

VMath(r) ==
  IF r.at = "int"
  THEN IF r.fn \in {"floor", "ceil"} THEN Req(r.res, LAMBDA v : VIsInt(v, r.a))
       ELSE \* round(int): the integer itself or a float exactly equal to it, or a failure
            Tol(r.res, LAMBDA v : VIsInt(v, r.a) \/ (VIsFloat(v) /\ FloatIsInt(v, r.a)))
  ELSE IF r.fn \in {"floor", "ceil"}
  THEN IF ~IsFinite(r.a) THEN MustFail(r.res)
       ELSE Req(r.res, LAMBDA v : VIsInt(v, IF r.fn = "floor" THEN FFloor(r.a) ELSE FCeil(r.a)))
  ELSE IF IsNaN(r.a) THEN Req(r.res, LAMBDA v : VIsFloat(v) /\ IsNaN(v))
  ELSE IF IsInf(r.a) THEN Req(r.res, LAMBDA v : VIsFloat(v) /\ IsInf(v) /\ v.s = r.a.s)
  ELSE Req(r.res, LAMBDA v : VIsFloat(v) /\ v.s = r.a.s /\ FloatIsInt(v, FRoundHalfAway(r.a)))

(***************************************************************************)
(* range / enumerate / repetition: exact or fail.                          *)
(***************************************************************************)
RECURSIVE RElems(_, _, _)
RElems(a, s, n) == IF n = 0 THEN <<>> ELSE <<a>> \o RElems(IAdd(a, s), s, n - 1)
VRange(r) ==
  IF IsZero(r.s) THEN MustFail(r.res)
  ELSE
  LET n == RLen(r.a, r.b, r.s) IN
  CASE r.op = "range_len"  -> Tol(r.res, LAMBDA v : VIsInt(v, n))
    [] r.op = "range_bool" -> Tol(r.res, LAMBDA v : VIsBool(v, ~IsZero(n)))
    [] r.op = "range_list" -> IF Small(n, 65) THEN Tol(r.res, LAMBDA v : VIsInts(v, "list", RElems(r.a, r.s, ToInt(n))))
                              ELSE NeverOk(r.res)
    [] r.op = "range_index" -> LET e == RIndex(r.a, r.b, r.s, r.i)
                               IN IF e.ok THEN Tol(r.res, LAMBDA v : VIsInt(v, e.v)) ELSE MustFail(r.res)
    [] r.op = "range_in" -> IF r.xt = "int" THEN Tol(r.res, LAMBDA v : VIsBool(v, RHasInt(r.a, r.b, r.s, r.x)))
                            ELSE Tol(r.res, LAMBDA v : VIsBool(v, RHasFloat(r.a, r.b, r.s, r.x)))
    [] r.op = "range_slice" ->
         LET e == RSlice(r.a, r.b, r.s, r.lo, r.hi, r.st)
         IN IF ~e.ok THEN MustFail(r.res)
            \* probe: [0] for an empty result, else [len, first, last]
            ELSE IF IsZero(e.len) THEN Tol(r.res, LAMBDA v : VIsInts(v, "list", <<Zero>>))
            ELSE Tol(r.res, LAMBDA v : VIsInts(v, "list",
                        <<e.len, e.first, IAdd(e.first, IMul(ISub(e.len, One), e.step))>>))

\* list of (start + k, elem_k) pairs
VEnumerate(r) ==
  Tol(r.res, LAMBDA v : /\ v.t = "list" /\ Len(v.v) = Len(r.elems)
                        /\ \A j \in 1..Len(r.elems) :
                             /\ v.v[j].t = "tuple" /\ Len(v.v[j].v) = 2
                             /\ VIsInt(v.v[j].v[1], IAdd(r.start, FromInt(j - 1)))
                             /\ VIsInt(v.v[j].v[2], FromInt(r.elems[j])))

RECURSIVE RepSeq(_, _)
RepSeq(s, n) == IF n <= 0 THEN <<>> ELSE s \o RepSeq(s, n - 1)
VRepeat(r) ==
  LET Same(v, seq) == IF r.ty \in {"str", "bytes"} THEN v.t = r.ty /\ v.v = seq
                      ELSE VIsInts(v, r.ty, [j \in 1..Len(seq) |-> FromInt(seq[j])])
  IN IF r.n.neg \/ IsZero(r.n) \/ r.s = <<>> THEN Tol(r.res, LAMBDA v : Same(v, <<>>))
     ELSE IF Small(r.n, 200) THEN Tol(r.res, LAMBDA v : Same(v, RepSeq(r.s, ToInt(r.n))))
     ELSE NeverOk(r.res)

(***************************************************************************)
Verdict(r) ==
  CASE r.op = "bin"   -> Req(r.res, LAMBDA v : VIsInt(v, BinVal(r.o, r.x, r.y)))
    [] r.op = "unary" -> Req(r.res, LAMBDA v : VIsInt(v, UnVal(r.o, r.x)))
    [] r.op = "divmod" ->        \* (x // y, x % y): the defining law
         IF IsZero(r.y) THEN MustFail(r.res)
         ELSE Req(r.res, LAMBDA v : /\ v.t = "tuple" /\ Len(v.v) = 2 /\ IsIntV(v.v[1]) /\ IsIntV(v.v[2])
                                    /\ FloorDivModOK(r.x, r.y, ObsInt(v.v[1]), ObsInt(v.v[2])))
    [] r.op = "div1" ->          \* x // y or x % y alone: the constructive quotient / remainder
         IF IsZero(r.y) THEN MustFail(r.res)
         ELSE Req(r.res, LAMBDA v : VIsInt(v, IF r.o = "//" THEN IFloorDiv(r.x, r.y) ELSE IFloorMod(r.x, r.y)))
    [] r.op = "shl"   -> VShl(r)
    [] r.op = "shr"   -> VShr(r)
    [] r.op = "cmp"   -> VCmp(r)
    [] r.op = "lit"   -> \* integer literal of the source text; the scanner rejects octal and binary
                         \* literals >= 2^63 ("invalid int literal"): a failure, tolerated and reported
                         LET x == FromDigits(FALSE, r.digs, r.base)
                         IN IF r.base \in {2, 8} /\ IGe(x, Pow2(63)) THEN Tol(r.res, LAMBDA v : VIsInt(v, x))
                            ELSE Req(r.res, LAMBDA v : VIsInt(v, x))
    [] r.op = "parse" -> VParse(r)
    [] r.op = "fmt"   -> Req(r.res, LAMBDA v : VIsStr(v, FormatInt(r.x, FmtBase(r.f), r.f = "X")))
    [] r.op = "fmtf"  -> IF ~IsFinite(r.a) THEN MustFail(r.res)
                         ELSE Req(r.res, LAMBDA v : VIsStr(v, FormatInt(FTrunc(r.a), 10, FALSE)))
    [] r.op = "float_of_int" -> IF IntTooLarge(r.x) THEN MustFail(r.res)
                                ELSE Req(r.res, LAMBDA v : VIsFloat(v) /\ IsFloatOfInt(v, r.x) /\ FSame(v, FloatOfInt(r.x)))
    [] r.op = "int_of_float" -> IF ~IsFinite(r.a) THEN MustFail(r.res)
                                ELSE Req(r.res, LAMBDA v : VIsInt(v, FTrunc(r.a)))
    [] r.op = "float_of_str" -> \* decimal text beyond the finite range: an infinity or a failure
                                IF IsNearestDec(IF r.neg THEN NegInf ELSE PosInf, r.neg, r.digs, r.e10)
                                THEN Tol(r.res, LAMBDA v : VIsFloat(v) /\ IsInf(v) /\ v.s = (IF r.neg THEN 1 ELSE 0))
                                ELSE Req(r.res, LAMBDA v : VIsFloat(v) /\ IsNearestDec(v, r.neg, r.digs, r.e10))
    [] r.op = "math"  -> VMath(r)
    [] r.op = "mixed" -> VMixed(r)
    [] r.op = "dict_in" ->       \* (f in {x: 1}, x in {f: 1}, len(set([x, f]))): equal keys hash alike
         LET eq == IntEqFloat(r.x, r.a)
         IN Req(r.res, LAMBDA v : /\ v.t = "tuple" /\ Len(v.v) = 3 /\ VIsBool(v.v[1], eq) /\ VIsBool(v.v[2], eq)
                                  /\ VIsInt(v.v[3], IF eq THEN One ELSE Two))
    [] r.op \in {"range_len", "range_bool", "range_list", "range_index", "range_in", "range_slice"} -> VRange(r)
    [] r.op = "enumerate" -> VEnumerate(r)
    [] r.op = "repeat" -> VRepeat(r)
    \* representation independence: a pair (E(n reached through big intermediate values), E(the literal n)) of one
    \* expression context E must have identical components, and the first component of the value list is n itself
    [] r.op = "route" -> Req(r.res, LAMBDA v : /\ v.t = "tuple" /\ Len(v.v) = 2 /\ v.v[1] = v.v[2]
                                               /\ v.v[1].t = "list" /\ Len(v.v[1].v) >= 1 /\ VIsInt(v.v[1].v[1], r.x))

\* K strided chains over the records, entered from a dummy state i = 0 (initial states are
\* evaluated on TLC's small main-thread stack; the records are judged by the workers)
K == 64
Init == i = 0
Next == IF i = 0 THEN i' \in 1..(IF Len(Recs) < K THEN Len(Recs) ELSE K)
        ELSE i + K <= Len(Recs) /\ i' = i + K
Check == i = 0 \/ LET v == Verdict(Recs[i]) IN v = "ok" \/ PrintT(<<v, Recs[i].id>>)
Done == PrintT(<<"CHECKED", TLCGet("stats").distinct - 1>>)
=============================================================================
